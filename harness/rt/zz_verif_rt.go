//go:build verif

package rpc

// Runtime of the yield-point instrumentation (DESIGN §4.2/4.3).  Added to
// package rpc through the overlay only.  With no scheduler armed every hook
// is a no-op, so the repository's own tests behave as before.

import (
	"bytes"
	"fmt"
	"runtime"
	"sort"
	"strconv"
	"sync"
)

// ---------------------------------------------------------------- channel-based sync primitives

// verifOnce has sync.Once's semantics; waiting callers block on a channel.
type verifOnce struct {
	mu    sync.Mutex
	state int // 0 idle, 1 running, 2 done
	done  chan struct{}
}

func (o *verifOnce) Do(f func()) {
	o.mu.Lock()
	if o.done == nil {
		o.done = make(chan struct{})
	}
	switch o.state {
	case 2:
		o.mu.Unlock()
		return
	case 1:
		ch := o.done
		o.mu.Unlock()
		<-ch
		return
	}
	o.state = 1
	o.mu.Unlock()
	defer func() {
		o.mu.Lock()
		o.state = 2
		close(o.done)
		o.mu.Unlock()
	}()
	f()
}

// verifMutex has sync.Mutex's semantics; Lock blocks on a channel.
type verifMutex struct {
	init sync.Once
	ch   chan struct{}
}

func (m *verifMutex) lazy() { m.init.Do(func() { m.ch = make(chan struct{}, 1) }) }
func (m *verifMutex) Lock() { m.lazy(); m.ch <- struct{}{} }
func (m *verifMutex) Unlock() {
	m.lazy()
	select {
	case <-m.ch:
	default:
		panic("verifMutex: unlock of unlocked mutex")
	}
}

// verifRWMutex: readers are admitted one at a time as well (the package never
// takes a read lock recursively), which is a legal schedule of an RWMutex.
type verifRWMutex struct{ verifMutex }

func (m *verifRWMutex) RLock()   { m.Lock() }
func (m *verifRWMutex) RUnlock() { m.Unlock() }

// ---------------------------------------------------------------- scheduler hooks

type verifG struct {
	name   string
	parent string
	ep     int // endpoint the goroutine currently works for (-1: none); children inherit it
	gate   chan struct{}
	site   string
	parked bool
	done   bool
	steps  int
}

type verifScheduler struct {
	mu     sync.Mutex
	gs     map[int64]*verifG
	byName map[string]*verifG
	count  map[string]int
	order  []*verifG
	tlog   []string // site-level trace: P (released at a point), A (select arm taken), G (goroutine started), E (event)
	free   bool // let everything run without parking (set when a scenario is torn down)
}

var verifSchedMu sync.Mutex
var verifSched *verifScheduler

func verifCur() *verifScheduler {
	verifSchedMu.Lock()
	s := verifSched
	verifSchedMu.Unlock()
	return s
}

func goid() int64 {
	var buf [64]byte
	n := runtime.Stack(buf[:], false)
	// "goroutine 123 ["
	b := buf[:n]
	b = b[len("goroutine "):]
	i := bytes.IndexByte(b, ' ')
	id, _ := strconv.ParseInt(string(b[:i]), 10, 64)
	return id
}

func (s *verifScheduler) register(base string) *verifG {
	id := goid()
	s.mu.Lock()
	defer s.mu.Unlock()
	if g, ok := s.gs[id]; ok {
		return g
	}
	n := s.count[base]
	s.count[base] = n + 1
	name := base
	if n > 0 || !isActorName(base) {
		name = fmt.Sprintf("%s/%d", base, n)
	}
	g := &verifG{name: name, gate: make(chan struct{}), ep: -1}
	s.gs[id] = g
	s.byName[name] = g
	s.order = append(s.order, g)
	return g
}

func isActorName(b string) bool { return len(b) > 0 && b[0] == '@' }

func (s *verifScheduler) unregister() {
	id := goid()
	s.mu.Lock()
	if g, ok := s.gs[id]; ok {
		g.done = true
		delete(s.gs, id)
	}
	s.mu.Unlock()
}

// verifPoint parks the calling goroutine until the controller releases it.
func verifPoint(site string) {
	s := verifCur()
	if s == nil {
		return
	}
	g := s.register("anon:" + site)
	s.mu.Lock()
	if s.free {
		s.mu.Unlock()
		return
	}
	g.site = site
	g.parked = true
	s.mu.Unlock()
	<-g.gate
}

// verifSelf: the registered name of the calling goroutine ("" when none).
// Evaluated at an instrumented go statement, in the parent.
func verifSelf() string {
	s := verifCur()
	if s == nil {
		return ""
	}
	id := goid()
	s.mu.Lock()
	defer s.mu.Unlock()
	if g, ok := s.gs[id]; ok {
		return g.name
	}
	return ""
}

// verifGoP names the goroutine started by an instrumented go statement and
// remembers who started it.
// verifSelfEp: the endpoint the calling goroutine works for (-1 when none).  Evaluated at an instrumented go
// statement, in the parent, so that the child inherits what the parent was doing AT THAT MOMENT.
func verifSelfEp() int {
	s := verifCur()
	if s == nil {
		return -1
	}
	id := goid()
	s.mu.Lock()
	defer s.mu.Unlock()
	if g, ok := s.gs[id]; ok {
		return g.ep
	}
	return -1
}

func verifGoP(parent string, parentEp int, site string, f func()) {
	s := verifCur()
	if s == nil {
		f()
		return
	}
	g := s.register(site)
	s.mu.Lock()
	g.parent = parent
	g.ep = parentEp
	s.tlog = append(s.tlog, fmt.Sprintf("G %d %s %s", g.ep, g.name, parent))
	s.mu.Unlock()
	defer s.unregister()
	verifPoint(site + ".start")
	f()
}

// verifArm records which arm of a select the calling goroutine took.
func verifArm(site string, arm int) {
	s := verifCur()
	if s == nil {
		return
	}
	id := goid()
	s.mu.Lock()
	if g, ok := s.gs[id]; ok && !s.free {
		s.tlog = append(s.tlog, fmt.Sprintf("A %d %s %s %d", g.ep, g.name, site, arm))
	}
	s.mu.Unlock()
}

// verifFrame records what the packetizer handed to the receive loop (trace only) and passes it on.
func verifFrame(m rpcMessage, err error) (rpcMessage, error) {
	s := verifCur()
	if s == nil {
		return m, err
	}
	id := goid()
	s.mu.Lock()
	if g, ok := s.gs[id]; ok && !s.free {
		s.tlog = append(s.tlog, fmt.Sprintf("F %d %s %s", g.ep, g.name, verifDescribeFrame(m, err)))
	}
	s.mu.Unlock()
	return m, err
}

// verifLock: a locked section of the named function begins (trace only).
func verifLock(fn string) {
	s := verifCur()
	if s == nil {
		return
	}
	id := goid()
	s.mu.Lock()
	if g, ok := s.gs[id]; ok && !s.free {
		s.tlog = append(s.tlog, fmt.Sprintf("L %d %s %s", g.ep, g.name, fn))
	}
	s.mu.Unlock()
}

// verifTrace appends a trace-only line (not part of the observable history).
func verifTrace(format string, a ...interface{}) {
	s := verifCur()
	if s == nil {
		return
	}
	id := goid()
	s.mu.Lock()
	name, ep := "-", -1
	if g, ok := s.gs[id]; ok {
		name, ep = g.name, g.ep
	}
	if !s.free {
		s.tlog = append(s.tlog, fmt.Sprintf("T %d %s ", ep, name)+fmt.Sprintf(format, a...))
	}
	s.mu.Unlock()
}

// verifSetEp: harness actors say which endpoint they are working for.
func verifSetEp(ep int) {
	s := verifCur()
	if s == nil {
		return
	}
	g := s.register("anon:setep")
	s.mu.Lock()
	g.ep = ep
	s.mu.Unlock()
}

// parkedList returns the parked goroutines sorted by name.
func (s *verifScheduler) parkedList() []*verifG {
	s.mu.Lock()
	defer s.mu.Unlock()
	var r []*verifG
	for _, g := range s.order {
		if g.parked && !g.done {
			r = append(r, g)
		}
	}
	sort.Slice(r, func(i, j int) bool { return r[i].name < r[j].name })
	return r
}

func (s *verifScheduler) release(g *verifG) {
	s.mu.Lock()
	g.parked = false
	g.steps++
	s.tlog = append(s.tlog, fmt.Sprintf("P %d %s %s", g.ep, g.name, g.site))
	s.mu.Unlock()
	g.gate <- struct{}{}
}

// releaseAll lets every goroutine run freely from now on.
func (s *verifScheduler) releaseAll() {
	s.mu.Lock()
	s.free = true
	var ps []*verifG
	for _, g := range s.order {
		if g.parked && !g.done {
			g.parked = false
			ps = append(ps, g)
		}
	}
	s.mu.Unlock()
	for _, g := range ps {
		g.gate <- struct{}{}
	}
}
