//go:build verif

package rpc

// conn: the reconnecting Connection (connection.go) under the controlled
// scheduler with scripted dial / OnConnect / command outcomes, virtual time
// for backoffs and connect delays, and racing commands, forced reconnects,
// disconnections, fast-forwards and Shutdown.  The observable history is
// judged by the Lean monitors for C14, C15 and C16.

import (
	"bufio"
	"errors"
	"fmt"
	"io"
	"os"
	"strings"
	"sync/atomic"
	"testing"
	"testing/synctest"
	"time"

	"github.com/keybase/backoff"
	"golang.org/x/net/context"
)

type fakeXp struct {
	id        int
	r         *schedRun
	connected bool
	closed    bool
	nprot     int
}

func (f *fakeXp) IsConnected() bool { return f.connected && !f.closed }
func (f *fakeXp) registerProtocol(p Protocol) error {
	f.nprot++
	f.r.ev("reg %d %s", f.id, p.Name)
	return nil
}
func (f *fakeXp) getDispatcher() (dispatcher, error) { return nil, io.EOF }
func (f *fakeXp) getReceiver() (receiver, error)     { return nil, io.EOF }
func (f *fakeXp) receiveFrames() <-chan struct{}     { return nil }
func (f *fakeXp) done() <-chan struct{}              { return nil }
func (f *fakeXp) err() error                         { return nil }
func (f *fakeXp) Close() {
	if !f.closed {
		f.closed = true
		f.r.ev("xclose %d", f.id)
	}
}

var errDialRetriable = errors.New("dial: retriable")
var errDialFatal = errors.New("dial: fatal")
var errOnConnect = errors.New("onconnect failed")
var errCmdRetriable = errors.New("cmd: retriable")
var errCmdOther = errors.New("cmd: other")

type scriptTransport struct {
	now     func() int64
	r       *schedRun
	dials   []string // ok | err | fatal
	n       int
	current *fakeXp
	staged  *fakeXp
	all     []*fakeXp
}

func (t *scriptTransport) Dial(ctx context.Context) (Transporter, error) {
	n := t.n
	t.n++
	t.r.ev("dialb %d %d", n, t.now())
	verifPoint("@dial")
	out := "ok"
	if n < len(t.dials) {
		out = t.dials[n]
	}
	switch out {
	case "err":
		t.r.ev("diale %d err - %d", n, t.now())
		return nil, errDialRetriable
	case "fatal":
		t.r.ev("diale %d fatal - %d", n, t.now())
		return nil, errDialFatal
	}
	x := &fakeXp{id: len(t.all), r: t.r, connected: true}
	t.all = append(t.all, x)
	t.staged = x
	t.r.ev("diale %d ok %d %d", n, x.id, t.now())
	return x, nil
}
func (t *scriptTransport) IsConnected() bool { return t.current != nil && t.current.IsConnected() }
func (t *scriptTransport) Finalize() {
	id := -1
	if t.staged != nil {
		id = t.staged.id
	}
	t.r.ev("finalize %d %d", id, t.now())
	t.current = t.staged
	t.staged = nil
}
func (t *scriptTransport) Close() {
	t.r.ev("tclose")
	if t.current != nil {
		t.current.Close()
	}
}

type scriptHandler struct {
	now       func() int64
	r         *schedRun
	onconnect []string // ok | err
	n         int
	nprotos   int
}

func (h *scriptHandler) OnConnect(ctx context.Context, c *Connection, cli GenericClient, srv *Server) error {
	n := h.n
	h.n++
	out := "ok"
	if n < len(h.onconnect) {
		out = h.onconnect[n]
	}
	x := srv.xp.(*fakeXp)
	verifPoint("@onconnect")
	h.r.ev("onconnect %d %s %d", x.id, out, x.nprot)
	if out == "err" {
		return errOnConnect
	}
	return nil
}
func (h *scriptHandler) OnConnectError(err error, d time.Duration) {
	h.r.ev("onconnerr %d", int64(d/time.Millisecond))
}
func (h *scriptHandler) OnDoCommandError(err error, d time.Duration) {
	h.r.ev("oncmderr %d", int64(d/time.Millisecond))
}
func (h *scriptHandler) OnDisconnected(ctx context.Context, status DisconnectStatus) {
	h.r.ev("ondisc %d %d", int(status), h.now())
}
func (h *scriptHandler) ShouldRetry(name string, err error) bool { return err == errCmdRetriable }
func (h *scriptHandler) ShouldRetryOnConnect(err error) bool {
	return err != errDialFatal
}
func (h *scriptHandler) HandlerName() string { return "script" }

type connCmd struct {
	id       int
	outcomes []string // ok | eof | retry | other
	firenow  bool
	cancel   bool
	timeout  time.Duration
}

type connPlan struct {
	dontConnectNow bool
	forceInitial   bool
	firstDelay     time.Duration
	window         time.Duration
	dials          []string
	onconnect      []string
	cmds           []connCmd
	nforce         int
	ndisc          int
	shutdown       bool
	fastforward    bool
	backoffStop    int // reconnect backoff gives Stop after this many retries (0: never)
	slowDial       bool // a dial in progress completes only when nothing else can run
}

func genConnPlan(g *prng) connPlan {
	p := connPlan{}
	p.dontConnectNow = g.chance(1, 3)
	p.forceInitial = g.chance(1, 4)
	if g.chance(1, 3) {
		p.firstDelay = time.Duration(2+g.intn(3)) * time.Second
	}
	if g.chance(1, 3) {
		p.window = time.Duration(2+g.intn(3)) * time.Second
	}
	nd := g.intn(5)
	for i := 0; i < nd; i++ {
		p.dials = append(p.dials, []string{"ok", "ok", "err", "err", "fatal"}[g.intn(5)])
	}
	for i := 0; i < g.intn(3); i++ {
		p.onconnect = append(p.onconnect, []string{"ok", "ok", "err"}[g.intn(3)])
	}
	nc := g.intn(4)
	for i := 0; i < nc; i++ {
		c := connCmd{id: i}
		for k := 0; k < 1+g.intn(3); k++ {
			c.outcomes = append(c.outcomes, []string{"ok", "eof", "retry", "other", "ok"}[g.intn(5)])
		}
		c.firenow = g.chance(1, 3)
		c.cancel = g.chance(1, 5)
		if g.chance(1, 6) {
			c.timeout = time.Duration(3+g.intn(5)) * time.Second
		}
		p.cmds = append(p.cmds, c)
	}
	p.nforce = g.intn(2)
	p.ndisc = g.intn(3)
	p.shutdown = g.chance(1, 3)
	p.fastforward = g.chance(1, 5)
	if g.chance(1, 6) {
		p.backoffStop = 1 + g.intn(2)
	}
	p.slowDial = g.chance(1, 3)
	return p
}

type stopBackoff struct {
	d     time.Duration
	after int
	n     int
}

func (b *stopBackoff) Reset() { b.n = 0 }
func (b *stopBackoff) NextBackOff() time.Duration {
	b.n++
	if b.after > 0 && b.n > b.after {
		return backoff.Stop
	}
	return b.d
}

func runConn(g *prng, p connPlan) (hist []string, steps int) {
	r := newSchedRun(g)
	if g.chance(1, 3) {
		r.pct = map[string]int{}
	}
	if p.slowDial {
		r.lazySites = map[string]bool{"@dial": true, "@onconnect": true}
	}
	st := &scriptTransport{r: r, dials: p.dials}
	sh := &scriptHandler{r: r, onconnect: p.onconnect}
	mkProt := func(name string) Protocol {
		return Protocol{Name: name, Methods: map[string]ServeHandlerDescription{}}
	}
	opts := ConnectionOpts{
		DontConnectNow:            p.dontConnectNow,
		ForceInitialBackoff:       p.forceInitial,
		FirstConnectDelayDuration: p.firstDelay,
		Protocols:                 []Protocol{mkProt("pa"), mkProt("pb")},
		ReconnectBackoff:          func() backoff.BackOff { return &stopBackoff{d: time.Second, after: p.backoffStop} },
		CommandBackoff:            func() backoff.BackOff { return &stopBackoff{d: time.Second} },
	}
	if p.window > 0 {
		w := p.window
		opts.InitialReconnectBackoffWindow = func() time.Duration { return w }
	}
	r.ev("cfg dcn=%v fib=%v delay=%d window=%d stop=%d", p.dontConnectNow, p.forceInitial,
		int64(p.firstDelay/time.Millisecond), int64(p.window/time.Millisecond), p.backoffStop)
	if p.slowDial {
		r.ev("slowdial")
	}
	var conn *Connection
	start := time.Now()
	now := func() int64 { return int64(time.Since(start) / time.Millisecond) }
	st.now, sh.now = now, now
	r.spawn("setup", func() {
		conn = NewConnectionWithTransport(sh, st, nil, quietOut{}, opts)
	})
	r.quiet()
	if conn == nil {
		r.ev("harness setup-incomplete")
		r.finish()
		return r.hist, r.steps
	}
	for _, c := range p.cmds {
		c := c
		ctx, cancel := context.WithCancel(context.Background())
		if c.firenow {
			ctx = WithFireNow(ctx)
		}
		r.spawn(fmt.Sprintf("cmd%d", c.id), func() {
			fn := 0
			if c.firenow {
				fn = 1
			}
			if c.timeout > 0 {
				r.ev("cmdto %d", c.id)
			}
			r.ev("cmdb %d %d %d", c.id, fn, now())
			i := 0
			err := conn.DoCommand(ctx, "cmd", c.timeout, func(cli GenericClient) error {
				xid := -1
				if cl, ok := cli.(*Client); ok && cl != nil {
					xid = cl.xp.(*fakeXp).id
				}
				out := "ok"
				if i < len(c.outcomes) {
					out = c.outcomes[i]
				}
				r.ev("exec %d %d %d %s %d", c.id, i, xid, out, now())
				i++
				verifPoint("@exec")
				switch out {
				case "eof":
					return io.EOF
				case "retry":
					return errCmdRetriable
				case "other":
					return errCmdOther
				}
				return nil
			})
			res := "ok"
			switch err {
			case nil:
			case io.EOF:
				res = "eof"
			case errCmdRetriable:
				res = "retry"
			case errCmdOther:
				res = "other"
			case errDialFatal:
				res = "dialfatal"
			case errOnConnect:
				res = "onconnecterr"
			case errDialRetriable:
				res = "dialerr"
			case context.Canceled:
				res = "canceled"
			case context.DeadlineExceeded:
				res = "deadline"
			default:
				res = "other:" + strings.ReplaceAll(err.Error(), " ", "_")
			}
			r.ev("cmde %d %s %d", c.id, res, now())
			cancel()
		})
		if c.cancel {
			r.spawn(fmt.Sprintf("cx%d", c.id), func() {
				r.ev("cx %d %d", c.id, now())
				cancel()
			})
		}
	}
	for k := 0; k < p.nforce; k++ {
		k := k
		r.spawn(fmt.Sprintf("force%d", k), func() {
			r.ev("frb %d %d", k, now())
			ctx, cancel := context.WithTimeout(context.Background(), 30*time.Second)
			err := conn.ForceReconnect(ctx)
			cancel()
			res := "ok"
			if err != nil {
				res = strings.ReplaceAll(err.Error(), " ", "_")
			}
			r.ev("fre %d %s %d", k, res, now())
		})
	}
	for k := 0; k < p.ndisc; k++ {
		r.spawn(fmt.Sprintf("disc%d", k), func() {
			verifPoint("@disc")
			if st.current != nil && st.current.connected {
				st.current.connected = false
				r.ev("disc %d %d", st.current.id, now())
			}
		})
	}
	if p.shutdown {
		r.spawn("shutdown", func() {
			verifPoint("@shutdown")
			r.ev("shutb %d", now())
			conn.Shutdown()
			r.ev("shute %d", now())
		})
	}
	if p.fastforward {
		r.spawn("ff", func() {
			verifPoint("@ff")
			r.ev("ff %d", now())
			conn.FastForwardConnectDelayTimer()
		})
	}
	// run: interleave scheduling with the passage of (virtual) time
	for t := 0; t < 40; t++ {
		r.quiet()
		time.Sleep(500 * time.Millisecond)
		synctest.Wait()
	}
	r.quiet()
	r.ev("settled %d", now())
	// end: shut down whatever is still going on, let every waiter out
	r.spawn("teardown", func() {
		conn.Shutdown()
	})
	for t := 0; t < 80; t++ {
		r.quiet()
		time.Sleep(time.Second)
		synctest.Wait()
	}
	r.quiet()
	for _, gg := range r.s.parkedList() {
		r.ev("stuck %s %s", gg.name, gg.site)
	}
	r.finish()
	synctest.Wait()
	lastConnTlog = append([]string(nil), r.s.tlog...)
	return r.hist, r.steps
}

// site-level trace of the last connection scenario
var lastConnTlog []string

func init() {
	verifModes["conn"] = func(c *vctx) {
		total := 0
		var tlogFile *bufio.Writer
		if p := os.Getenv("VERIF_TLOG_FILE"); p != "" {
			if fh, err := os.Create(p); err == nil {
				tlogFile = bufio.NewWriterSize(fh, 1<<20)
				defer fh.Close()
				defer tlogFile.Flush()
			}
		}
		synctest.Test(c.t, func(t *testing.T) {
			g := newPrng(c.seed, 61)
			stuck := 0
			for i := 0; i < c.n; i++ {
				plan := genConnPlan(g.fork())
				atomic.AddInt64(&verifProgress, 1)
				hist, steps := runConn(g.fork(), plan)
				total += steps
				for _, h := range hist {
					if strings.HasPrefix(h, "stuck") {
						stuck++
					}
				}
				if tlogFile != nil {
					fmt.Fprintf(tlogFile, "TLOG %d conn\n%s\n", i, strings.Join(lastConnTlog, "\n"))
				}
				c.note("conn scen=%d steps=%d cmds=%d dials=%v", i, steps, len(plan.cmds), plan.dials)
				c.op("cmon %s", strings.Join(hist, " ; "))
				c.res("ok")
			}
			fmt.Printf("STAT schedules_explored %d\nSTAT scheduling_steps %d\n", c.n, total)
			c.ops.Flush()
			c.out.Flush()
			c.meta.Flush()
			if tlogFile != nil {
				tlogFile.Flush()
			}
			if stuck > 0 {
				os.Exit(0)
			}
		})
	}
}
