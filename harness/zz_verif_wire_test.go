//go:build verif

package rpc

// wire: what the real stack (Client → dispatch → encoder → connection, and
// receive loop → handler → Reply) puts on the connection for every message
// kind, against the model's `wire` (byte for byte) and, for values whose
// encoding order is not canonical (multi-entry maps), against the model's
// decoder reading the bytes back.  Sizes straddle the frame limit (C03).

import (
	"bytes"
	"errors"
	"fmt"
	"reflect"
	"strings"
	"testing"
	"testing/synctest"

	"github.com/keybase/go-codec/codec"
	"golang.org/x/net/context"
)

func hasMultiMap(v interface{}) bool {
	switch x := v.(type) {
	case []interface{}:
		for _, e := range x {
			if hasMultiMap(e) {
				return true
			}
		}
	case map[string]interface{}:
		if len(x) > 1 {
			return true
		}
		for _, e := range x {
			if hasMultiMap(e) {
				return true
			}
		}
	}
	return false
}

func codecEncode(v interface{}) []byte {
	var b []byte
	enc := codec.NewEncoderBytes(&b, newCodecMsgpackHandle())
	if err := enc.Encode(v); err != nil {
		panic(err)
	}
	return b
}

func tagsText(tags map[string]interface{}) string {
	if tags == nil {
		return "-"
	}
	return vtext(tags)
}

type wireCase struct {
	kind   string // call callc notify cancel resp
	seq    int
	ctype  int
	method string
	arg    interface{}
	tags   map[string]interface{} // nil: none attached
	herr   string                 // handler error ("" = nil)
	res    interface{}
}

func (w *wireCase) msgText(slot string) string {
	switch w.kind {
	case "call":
		return fmt.Sprintf("C %d %s %s %s", w.seq, hx([]byte(w.method)), slot, tagsText(w.tags))
	case "callc":
		if w.ctype == 0 {
			// CallCompressed with CompressionNone is an ordinary call on the wire
			return fmt.Sprintf("C %d %s %s %s", w.seq, hx([]byte(w.method)), slot, tagsText(w.tags))
		}
		return fmt.Sprintf("Z %d %d %s %s %s", w.seq, w.ctype, hx([]byte(w.method)), slot, tagsText(w.tags))
	case "notify":
		return fmt.Sprintf("N %s %s %s", hx([]byte(w.method)), slot, tagsText(w.tags))
	case "cancel":
		return fmt.Sprintf("X %d %s", w.seq, hx([]byte(w.method)))
	}
	return "?"
}

func genWireCase(g *prng) *wireCase {
	w := &wireCase{}
	w.kind = []string{"call", "call", "callc", "callc", "notify", "cancel", "resp", "resp"}[g.intn(8)]
	w.seq = g.intn(70000)
	if g.chance(1, 5) {
		w.seq = []int{0, 1, 127, 128, 255, 256, 65535, 65536, 1 << 31, 1<<32 + 5}[g.intn(10)]
	}
	w.method = knownMethods[g.intn(len(knownMethods))]
	w.arg = g.value(2)
	if g.chance(1, 2) {
		w.tags = g.tags(nil)
		if g.chance(1, 6) {
			w.tags = map[string]interface{}{}
		}
	}
	if w.kind == "callc" || (w.kind == "resp" && g.chance(1, 2)) {
		w.ctype = []int{1, 2, 1, 2, 7, 0}[g.intn(6)]
	}
	if w.kind == "resp" {
		w.res = g.value(2)
		if g.chance(1, 3) {
			w.herr = g.text(1 + g.intn(30))
		}
	}
	if w.ctype == 1 || w.ctype == 2 {
		// a compressed payload is compared byte for byte: keep its encoding canonical
		for hasMultiMap(w.arg) {
			w.arg = g.value(2)
		}
		for hasMultiMap(w.res) {
			w.res = g.value(2)
		}
		for w.tags != nil && hasMultiMap(w.tags) {
			w.tags = g.tags(nil)
		}
	}
	return w
}

// slotValue: what travels in the argument / result slot
func slotText(ctype int, v interface{}) string {
	if ctype == 1 || ctype == 2 {
		return "b" + fmt.Sprintf("%x", realCompress(ctype, codecEncode(v)))
	}
	return vtext(v)
}

type wireResult struct {
	writes  [][]byte
	callErr error
	after   [][]byte // writes of the follow-up notification (connection still usable?)
	invoked int
	skipped bool // the scripted request does not fit the limit of this run
}

// runWire executes the case on a fresh transport pair inside a synctest
// bubble and returns what the sending side wrote.
func runWire(t *testing.T, w *wireCase, max int32) (r wireResult) {
	synctest.Test(t, func(t *testing.T) {
		a, b := newSimPair(0)
		xa := NewTransport(a, quietLogFactory(), nil, nil, max).(*transport)
		defer xa.Close()
		ctx, cancel := context.WithCancel(context.Background())
		defer cancel()
		if w.tags != nil {
			ctx = AddRPCTagsToContext(ctx, CtxRPCTags(w.tags))
		}
		// through reflection: independent of the counter's declared integer type
		reflect.ValueOf(&xa.calls.seqid).Elem().SetInt(int64(w.seq))
		cli := NewClient(xa, nil, nil)
		switch w.kind {
		case "call", "callc", "cancel":
			done := make(chan error, 1)
			go func() {
				var res interface{}
				if w.kind == "callc" {
					done <- cli.CallCompressed(ctx, w.method, w.arg, &res, CompressionType(w.ctype), 0)
				} else {
					done <- cli.Call(ctx, w.method, w.arg, &res, 0)
				}
			}()
			synctest.Wait()
			r.writes = a.Writes()
			select {
			case r.callErr = <-done:
				done <- r.callErr
			default:
			}
			if w.kind == "cancel" || len(r.writes) > 0 {
				cancel()
				synctest.Wait()
				if w.kind == "cancel" {
					all := a.Writes()
					r.writes = all[len(r.writes):]
				}
			}
			<-done
		case "notify":
			r.callErr = cli.Notify(ctx, w.method, w.arg, 0)
			r.writes = a.Writes()
		case "resp":
			// `a` is the server: the request arrives from the scripted peer
			var herr error
			if w.herr != "" {
				herr = errors.New(w.herr)
			}
			prot, meth := splitMethodName(w.method)
			_ = xa.registerProtocol(Protocol{Name: prot, Methods: map[string]ServeHandlerDescription{meth: {
				MakeArg: func() interface{} { return new(interface{}) },
				Handler: func(context.Context, interface{}) (interface{}, error) {
					r.invoked++
					return w.res, herr
				}}}})
			var req bytes.Buffer
			e := &altEnc{}
			var body bytes.Buffer
			// the request carries the case's tag map (when it has one): a RESPONSE never does, tagged request or not
			extra := byte(0)
			if len(w.tags) > 0 {
				extra = 1
			}
			if w.ctype == 0 {
				body.WriteByte(0x94 + extra)
				e.intv(&body, 0)
				e.intv(&body, int64(w.seq))
				e.str(&body, []byte(w.method))
				e.value(&body, nil)
			} else {
				body.WriteByte(0x95 + extra)
				e.intv(&body, 4)
				e.intv(&body, int64(w.seq))
				e.intv(&body, int64(w.ctype))
				e.str(&body, []byte(w.method))
				if w.ctype == 1 || w.ctype == 2 {
					e.bin(&body, realCompress(w.ctype, []byte{0xc0}))
				} else {
					e.value(&body, nil)
				}
			}
			if extra == 1 {
				body.Write(codecEncode(map[string]interface{}(w.tags)))
			}
			if int32(body.Len()) > max {
				// the scripted request itself would be refused by the receiver: not a case about the reply
				r.skipped = true
				return
			}
			e.intv(&req, int64(body.Len()))
			req.Write(body.Bytes())
			// requests are not limited by the sender's max in this scenario: use a receiver-side check only
			a.inject(req.Bytes())
			xa.receiveFrames()
			synctest.Wait()
			r.writes = a.Writes()
		}
		// the connection must still be usable: a small notification goes out
		before := len(a.Writes())
		nerr := cli.Notify(context.Background(), "p.n", nil, 0)
		synctest.Wait()
		all := a.Writes()
		if nerr == nil {
			r.after = all[before:]
		}
		_ = b
	})
	return r
}

func init() {
	verifModes["wire"] = func(c *vctx) {
		g := newPrng(c.seed, 23)
		kinds := map[string]int{}
		var nOversize, nExact, nMulti int
		// boundary cases first: frames whose content length sits exactly on / next to every msgpack integer-width
		// boundary of the length prefix (fixint/uint8, uint8/uint16, uint16/uint32)
		var boundary []*wireCase
		for _, target := range []int{127, 128, 129, 255, 256, 257, 65535, 65536, 65537} {
			for _, kind := range []string{"call", "notify", "resp"} {
				if c.tier != "thorough" && target > 60000 && kind != []string{"call", "notify", "resp"}[(int(c.seed)+target)%3] {
					continue // quick tier: one kind per large boundary (64 KiB operation lines)
				}
				if w := boundaryCase(c.t, kind, target); w != nil {
					boundary = append(boundary, w)
				}
			}
		}
		fmt.Printf("STAT boundary_cases %d\n", len(boundary))
		// consecutive calls of ONE transport across the integer-width boundaries of the seqno: three calls issued one
		// after the other carry s, s+1, s+2
		for _, s0 := range []int{126, 254, 65534, 65535, 1<<32 - 2} {
			frames := runSeqRun(c.t, s0, 3)
			for k := 0; k < 3; k++ {
				w := &wireCase{kind: "call", seq: s0 + k, method: knownMethods[0], arg: int64(k)}
				c.note("call case=seqrun start=%d k=%d", s0, k)
				c.op("wire %d %s", 1<<24, w.opText())
				if k < len(frames) {
					c.res("%x", frames[k])
				} else {
					c.res("NOWRITE")
				}
			}
		}
		for i := 0; i < c.n+len(boundary); i++ {
			var w *wireCase
			if i < len(boundary) {
				w = boundary[i]
			} else {
				w = genWireCase(g)
			}
			kinds[w.kind]++
			// first run with a generous limit to learn the frame's size
			big := runWire(c.t, w, 1<<24)
			if len(big.writes) != 1 {
				c.note("%s case=%d probe", w.kind, i)
				c.op("wire %d %s", 1<<24, w.opText())
				c.res("WRITES=%d err=%v", len(big.writes), big.callErr)
				continue
			}
			frame := big.writes[0]
			// content length = frame minus prefix; find it from the model-independent msgpack int prefix
			plen := prefixLen(frame)
			content := len(frame) - plen
			// limits around the content size
			var limits []int32
			sel := g.intn(4)
			if i < len(boundary) {
				sel = 1 // limit = content: the frame must still go out, with the exact prefix
			}
			if w.kind == "cancel" {
				sel = 0 // a cancellation is smaller than its call: it cannot be oversize once the call fitted
			}
			switch sel {
			case 0:
				limits = []int32{1 << 24}
			case 1:
				limits = []int32{int32(content)}
			case 2:
				limits = []int32{int32(content) - 1, int32(content) + 1}
			default:
				limits = []int32{int32(content) - 1 - int32(g.intn(8)), int32(content) + int32(g.intn(8))}
			}
			for _, max := range limits {
				if max <= 0 {
					continue
				}
				r := big
				if max != 1<<24 {
					if w.kind == "resp" {
						// the request itself must fit: keep limits that admit it
						if max < 64 {
							continue
						}
					}
					r = runWire(c.t, w, max)
					if r.skipped {
						continue
					}
				}
				multi := hasMultiMap(w.arg) || hasMultiMap(w.res) || (w.tags != nil && hasMultiMap(w.tags))
				over := int(max) < content
				if over {
					nOversize++
				} else {
					nExact++
				}
				c.note("%s case=%d max=%d content=%d over=%v multi=%v after=%d", w.kind, i, max, content, over, multi, len(r.after))
				var got string
				switch {
				case len(r.writes) == 0:
					got = "toobig"
					if w.kind != "resp" && r.callErr == nil {
						got = "NOWRITE-NOERROR"
					}
				case len(r.writes) == 1:
					got = fmt.Sprintf("%x", r.writes[0])
				default:
					got = fmt.Sprintf("WRITES=%d", len(r.writes))
				}
				checkAfter := max >= 8
				if checkAfter && len(r.after) != 1 {
					got += fmt.Sprintf(" AFTER=%d", len(r.after))
				}
				if multi && !over {
					nMulti++
					// the model reads the bytes back (order of map entries is not canonical)
					pend := "-"
					exp := ""
					switch w.kind {
					case "resp":
						pend = fmt.Sprintf("%d:0:1", w.seq)
						if w.ctype == 1 || w.ctype == 2 {
							// a compressed result: compare the layout byte-exactly instead
							c.op("wire %d %s", max, w.opText())
							c.res("%s", got)
							continue
						}
						es := "s"
						if w.herr != "" {
							es = "s" + fmt.Sprintf("%x", w.herr)
						}
						exp = fmt.Sprintf("ok R %d %s %s", w.seq, es, vtext(w.res))
					default:
						if w.kind == "callc" && (w.ctype == 1 || w.ctype == 2) {
							z := fmt.Sprintf("%d:%x:%x", w.ctype, realCompress(w.ctype, codecEncode(w.arg)), codecEncode(w.arg))
							c.op("run %d %s %s %s", max, pend, z, got)
							tg := "-"
							if len(w.tags) > 0 {
								tg = vtext(w.tags)
							}
							c.res("ok Z %d %d %s %s %s @%d | eof @%d", w.seq, w.ctype, hx([]byte(w.method)), vtext(w.arg), tg, len(r.writes[0]), len(r.writes[0]))
							continue
						}
						tw := *w
						if len(w.tags) == 0 {
							tw.tags = nil
						}
						exp = "ok " + tw.msgText(vtext(w.arg))
					}
					if len(r.writes) == 1 && (len(r.after) == 1 || !checkAfter) {
						c.op("run %d %s - %s", max, pend, got)
						c.res("%s @%d | eof @%d", exp, len(r.writes[0]), len(r.writes[0]))
					} else {
						c.op("wire %d %s", max, w.opText())
						c.res("%s", got)
					}
					continue
				}
				var blob []byte
				if (w.ctype == 1 || w.ctype == 2) && len(r.writes) == 1 {
					blob = payloadOf(r.writes[0], w.kind)
					// what is inside the blob must be the msgpack encoding of the value
					if blob != nil {
						v := w.arg
						if w.kind == "resp" {
							v = w.res
						}
						c.note("%s case=%d payload ctype=%d", w.kind, i, w.ctype)
						c.op("encv %s", vtext(v))
						if plain, err := realDecompress(w.ctype, blob); err != nil {
							c.res("DECOMPRESS-ERROR %v", err)
						} else {
							c.res("%x", plain)
						}
					}
				}
				c.op("wire %d %s", max, w.opTextBlob(blob))
				c.res("%s", got)
			}
		}
		for k, v := range kinds {
			fmt.Printf("DIST %s %d\n", k, v)
		}
		fmt.Printf("STAT oversize_cases %d\nSTAT fitting_cases %d\nSTAT multimap_readback %d\n", nOversize, nExact, nMulti)
	}
}

// runSeqRun: n calls issued one after the other on one transport whose seqno counter starts at s0; the frames written.
func runSeqRun(t *testing.T, s0 int, n int) (frames [][]byte) {
	synctest.Test(t, func(t *testing.T) {
		a, _ := newSimPair(0)
		xa := NewTransport(a, quietLogFactory(), nil, nil, 1<<24).(*transport)
		defer xa.Close()
		ctx, cancel := context.WithCancel(context.Background())
		defer cancel()
		reflect.ValueOf(&xa.calls.seqid).Elem().SetInt(int64(s0))
		cli := NewClient(xa, nil, nil)
		done := make(chan error, n)
		for k := 0; k < n; k++ {
			k := k
			go func() {
				var res interface{}
				done <- cli.Call(ctx, knownMethods[0], int64(k), &res, 0)
			}()
			synctest.Wait() // its frame is on the wire before the next call is issued
		}
		frames = a.Writes()
		cancel()
		for k := 0; k < n; k++ {
			<-done
		}
	})
	return frames
}

// boundaryCase: an uncompressed message of the given kind whose frame content is exactly `target` bytes long
// (the padding is found by probing the real encoder; the prefix is parsed independently of it).
func boundaryCase(t *testing.T, kind string, target int) *wireCase {
	w := &wireCase{kind: kind, seq: 5, method: knownMethods[0]}
	L := target - 24
	if L < 0 {
		L = 0
	}
	for iter := 0; iter < 8; iter++ {
		pad := strings.Repeat("x", L)
		if kind == "resp" {
			w.res = pad
		} else {
			w.arg = pad
		}
		r := runWire(t, w, 1<<24)
		if len(r.writes) != 1 {
			return nil
		}
		content := len(r.writes[0]) - prefixLen(r.writes[0])
		if content == target {
			return w
		}
		L += target - content
		if L < 0 {
			return nil
		}
	}
	return nil
}

func (w *wireCase) opText() string { return w.opTextBlob(nil) }

// opTextBlob: with the compressed payload actually found in the written
// frame (msgpackzip output is not deterministic), else a freshly compressed one.
func (w *wireCase) opTextBlob(blob []byte) string {
	slot := func(v interface{}) string {
		if (w.ctype == 1 || w.ctype == 2) && blob != nil {
			return "b" + fmt.Sprintf("%x", blob)
		}
		return slotText(w.ctype, v)
	}
	switch w.kind {
	case "resp":
		ev := "n"
		if w.herr != "" {
			ev = "s" + fmt.Sprintf("%x", w.herr)
		}
		return fmt.Sprintf("R %d %s %s", w.seq, ev, slot(w.res))
	case "callc":
		return w.msgText(slot(w.arg))
	default:
		return w.msgText(vtext(w.arg))
	}
}

// payloadOf digs the compressed blob out of a written frame (argument slot of
// a compressed call, result slot of a reply) with a generic msgpack decode.
func payloadOf(frame []byte, kind string) []byte {
	var arr []interface{}
	dec := codec.NewDecoderBytes(frame[prefixLen(frame):], newCodecMsgpackHandle())
	if err := dec.Decode(&arr); err != nil {
		return nil
	}
	idx := 4
	if kind == "resp" {
		idx = 3
	}
	if idx >= len(arr) {
		return nil
	}
	b, _ := arr[idx].([]byte)
	return b
}

func realDecompress(ctype int, blob []byte) ([]byte, error) {
	switch ctype {
	case 1:
		return newGzipCompressor().Decompress(blob)
	case 2:
		return newMsgpackzipCompressor().Decompress(blob)
	}
	return nil, errors.New("no compressor")
}

// prefixLen: byte length of the msgpack integer at the start of a frame
func prefixLen(frame []byte) int {
	if len(frame) == 0 {
		return 0
	}
	switch b := frame[0]; {
	case b < 0x80 || b >= 0xe0:
		return 1
	case b == 0xcc || b == 0xd0:
		return 2
	case b == 0xcd || b == 0xd1:
		return 3
	case b == 0xce || b == 0xd2:
		return 5
	case b == 0xcf || b == 0xd3:
		return 9
	}
	return 1
}

var _ = strings.Join
