//go:build verif

package rpc

// Controlled scheduler on the real code (DESIGN §4.3): every instrumented
// goroutine parks at every yield point; the controller (which never runs
// library code itself) waits for quiescence with synctest.Wait, chooses one
// parked goroutine and releases it.  Exactly one goroutine runs at a time, so
// an execution is a reproducible linearisation and the list of releases is
// the schedule.

import (
	"fmt"
	"regexp"
	"runtime"
	"sort"
	"strings"
	"testing/synctest"
	"time"
)

type schedRun struct {
	s        *verifScheduler
	g        *prng
	trace    []string
	steps    int
	maxSteps int
	hist     []string // the observable history (events), in execution order
	holds    map[string]func(step int) bool // actor name -> eligible?
	script   []string                       // guided strategy: goroutine names to release, in order
	diverged bool
	pct      map[string]int // priorities (PCT-like strategy) when non-nil
	forceStep int           // hold forceWho until this step, then release it first (-1: off)
	forceWho  []string
	lazySites map[string]bool // goroutines parked at these sites run only when nothing else can
	markSites map[string]string // releasing a goroutine at one of these sites appends this event to the history
}

func newSchedRun(g *prng) *schedRun {
	r := &schedRun{g: g, maxSteps: 20000, holds: map[string]func(int) bool{}, forceStep: -1}
	r.s = &verifScheduler{gs: map[int64]*verifG{}, byName: map[string]*verifG{}, count: map[string]int{}}
	verifSchedMu.Lock()
	verifSched = r.s
	verifSchedMu.Unlock()
	return r
}

func (r *schedRun) finish() {
	r.s.releaseAll()
	verifSchedMu.Lock()
	verifSched = nil
	verifSchedMu.Unlock()
}

// ev appends an event to the history.  Called by the (single) running
// goroutine or by the controller while everything is blocked.
func (r *schedRun) ev(format string, a ...interface{}) {
	e := fmt.Sprintf(format, a...)
	who := verifSelf()
	r.s.mu.Lock()
	r.hist = append(r.hist, e)
	if !r.s.free {
		ep := -1
		if g, ok := r.s.byName[who]; ok {
			ep = g.ep
		}
		r.s.tlog = append(r.s.tlog, fmt.Sprintf("E %d %s %s", ep, actorOr(who), e))
	}
	r.s.mu.Unlock()
}

// spawn starts an actor goroutine; it parks before running f.
func (r *schedRun) spawn(name string, f func()) {
	go func() {
		r.s.register("@" + name)
		defer r.s.unregister()
		verifPoint("@" + name + ".start")
		f()
	}()
}

// hold keeps an actor parked until pred(step) holds.
func (r *schedRun) hold(name string, pred func(step int) bool) { r.holds["@"+name] = pred }

func (r *schedRun) eligible(ps []*verifG) []*verifG {
	var out []*verifG
	for _, g := range ps {
		if p, ok := r.holds[g.name]; ok && !p(r.steps) {
			continue
		}
		out = append(out, g)
	}
	return out
}

// quiet runs the controller loop until no goroutine can be released.
// Returns the number of releases.
func (r *schedRun) quiet() int {
	n := 0
	for r.steps < r.maxSteps {
		synctest.Wait()
		ps := r.eligible(r.s.parkedList())
		if len(ps) == 0 {
			return n
		}
		if len(r.lazySites) > 0 {
			var eager []*verifG
			for _, g := range ps {
				if !r.lazySites[g.site] {
					eager = append(eager, g)
				}
			}
			if len(eager) > 0 {
				ps = eager
			}
		}
		var pick *verifG
		if r.forceStep >= 0 {
			isForced := func(n string) bool {
				for _, w := range r.forceWho {
					if n == w {
						return true
					}
				}
				return false
			}
			var rest []*verifG
			for _, g := range ps {
				if isForced(g.name) {
					if r.steps >= r.forceStep && pick == nil {
						pick = g
					}
				} else {
					rest = append(rest, g)
				}
			}
			if pick == nil {
				if len(rest) == 0 {
					// only the held actor is left: release it now
					pick = ps[0]
				} else {
					ps = rest
				}
			}
		}
		if pick == nil && len(r.script) > 0 {
			want := r.script[0]
			r.script = r.script[1:]
			for _, g := range ps {
				if g.name == want {
					pick = g
				}
			}
			if pick == nil {
				r.diverged = true
			}
		}
		if pick == nil && r.pct != nil {
			best := -1
			for _, g := range ps {
				p, ok := r.pct[g.name]
				if !ok {
					p = 1000 + r.g.intn(1000)
					r.pct[g.name] = p
				}
				if p > best {
					best, pick = p, g
				}
			}
			if r.g.chance(1, 12) {
				r.pct[pick.name] = r.g.intn(1000) // priority change point
			}
		}
		if pick == nil {
			pick = ps[r.g.intn(len(ps))]
		}
		r.trace = append(r.trace, pick.name+"@"+pick.site)
		for suffix, evn := range r.markSites {
			if strings.HasSuffix(pick.site, suffix) {
				r.s.mu.Lock()
				r.hist = append(r.hist, fmt.Sprintf("%s %d", evn, epOfG(pick)))
				r.s.mu.Unlock()
			}
		}
		r.steps++
		n++
		r.s.release(pick)
	}
	return n
}

// epOfG: the endpoint a library goroutine works for.  Actors say so themselves (verifSetEp); the receive loops are
// started by the session's setup in endpoint order, so the n-th one belongs to endpoint n.
func epOfG(g *verifG) int {
	if g.ep >= 0 {
		return g.ep
	}
	const pre = "transport.receiveFrames#0.go/"
	if strings.HasPrefix(g.name, pre) {
		n := 0
		for _, c := range g.name[len(pre):] {
			if c < '0' || c > '9' {
				return -1
			}
			n = n*10 + int(c-'0')
		}
		return n
	}
	return -1
}

// advance lets virtual time pass (timers fire), then runs to quiescence.
func (r *schedRun) advance(d time.Duration) int {
	time.Sleep(d)
	return r.quiet()
}

// ---------------------------------------------------------------- goroutine inventory (leaks)

var goroutineHeader = regexp.MustCompile(`^goroutine (\d+) `)

// libGoroutines returns, for every live goroutine with a frame of package rpc
// that is not harness code, "id: top library function".
func libGoroutines() map[string]string {
	buf := make([]byte, 1<<20)
	for {
		n := runtime.Stack(buf, true)
		if n < len(buf) {
			buf = buf[:n]
			break
		}
		buf = make([]byte, 2*len(buf))
	}
	res := map[string]string{}
	for _, blk := range strings.Split(string(buf), "\n\n") {
		lines := strings.Split(blk, "\n")
		m := goroutineHeader.FindStringSubmatch(lines[0])
		if m == nil {
			continue
		}
		top := ""
		isLib := false
		for _, l := range lines[1:] {
			if !strings.HasPrefix(l, "github.com/keybase/go-framed-msgpack-rpc/rpc.") {
				continue
			}
			fn := strings.TrimPrefix(l, "github.com/keybase/go-framed-msgpack-rpc/rpc.")
			if i := strings.LastIndex(fn, "("); i > 0 {
				fn = fn[:i]
			}
			if strings.HasPrefix(fn, "verif") || strings.Contains(fn, "Verif") || strings.Contains(fn, "schedRun") ||
				strings.Contains(fn, "simConn") || strings.HasPrefix(fn, "init.") || strings.Contains(fn, "session") ||
				strings.HasPrefix(fn, "(*verif") || strings.HasPrefix(fn, "(*sim") || strings.HasPrefix(fn, "(*conn") && false {
				continue
			}
			if top == "" {
				top = fn
			}
			isLib = true
		}
		if isLib {
			res[m[1]] = top
		}
	}
	return res
}

func sortedKeys(m map[string]string) []string {
	var ks []string
	for k := range m {
		ks = append(ks, k)
	}
	sort.Strings(ks)
	return ks
}
