//go:build verif

package rpc

// Differential runs for the pure core (C02, C04, C05 and the size clause of
// C03): the implementation's packetizer and encoder against the Lean model,
// through the line protocol.  Inputs are structured and mostly valid, built
// by an encoder that is independent of go-codec and chooses among all legal
// widths, plus a separate hostile stream (mutations, truncations, random
// bytes, huge inner lengths).

import (
	"bytes"
	"encoding/binary"
	"fmt"
	"math"
	"runtime"
	"sort"
	"strings"

	"golang.org/x/net/context"
)

// ---------------------------------------------------------------- independent msgpack writer

type altEnc struct {
	g   *prng
	alt bool // choose among all legal widths (else: smallest, as go-codec does)
}

func (e *altEnc) pick(cands []int) int {
	if !e.alt || len(cands) == 1 {
		return cands[0]
	}
	return cands[e.g.intn(len(cands))]
}

func be(n int, v uint64) []byte {
	b := make([]byte, 8)
	binary.BigEndian.PutUint64(b, v)
	return b[8-n:]
}

func (e *altEnc) uintv(buf *bytes.Buffer, n uint64) {
	// candidate formats, smallest first: 0 posfix, 1 u8, 2 u16, 3 u32, 4 u64, 5 i8, 6 i16, 7 i32, 8 i64
	var c []int
	if n < 128 {
		c = append(c, 0)
	}
	if n < 1<<8 {
		c = append(c, 1)
	}
	if n < 1<<16 {
		c = append(c, 2)
	}
	if n < 1<<32 {
		c = append(c, 3)
	}
	c = append(c, 4)
	if n < 1<<7 {
		c = append(c, 5)
	}
	if n < 1<<15 {
		c = append(c, 6)
	}
	if n < 1<<31 {
		c = append(c, 7)
	}
	if n < 1<<63 {
		c = append(c, 8)
	}
	switch e.pick(c) {
	case 0:
		buf.WriteByte(byte(n))
	case 1:
		buf.WriteByte(0xcc)
		buf.Write(be(1, n))
	case 2:
		buf.WriteByte(0xcd)
		buf.Write(be(2, n))
	case 3:
		buf.WriteByte(0xce)
		buf.Write(be(4, n))
	case 4:
		buf.WriteByte(0xcf)
		buf.Write(be(8, n))
	case 5:
		buf.WriteByte(0xd0)
		buf.Write(be(1, n))
	case 6:
		buf.WriteByte(0xd1)
		buf.Write(be(2, n))
	case 7:
		buf.WriteByte(0xd2)
		buf.Write(be(4, n))
	case 8:
		buf.WriteByte(0xd3)
		buf.Write(be(8, n))
	}
}

func (e *altEnc) intv(buf *bytes.Buffer, i int64) {
	if i >= 0 {
		e.uintv(buf, uint64(i))
		return
	}
	var c []int
	if i >= -32 {
		c = append(c, 0)
	}
	if i >= math.MinInt8 {
		c = append(c, 1)
	}
	if i >= math.MinInt16 {
		c = append(c, 2)
	}
	if i >= math.MinInt32 {
		c = append(c, 3)
	}
	c = append(c, 4)
	switch e.pick(c) {
	case 0:
		buf.WriteByte(byte(i))
	case 1:
		buf.WriteByte(0xd0)
		buf.Write(be(1, uint64(i)))
	case 2:
		buf.WriteByte(0xd1)
		buf.Write(be(2, uint64(i)))
	case 3:
		buf.WriteByte(0xd2)
		buf.Write(be(4, uint64(i)))
	case 4:
		buf.WriteByte(0xd3)
		buf.Write(be(8, uint64(i)))
	}
}

func (e *altEnc) hdr(buf *bytes.Buffer, n int, fixMax int, fixBase byte, b8, b16, b32 byte) {
	var c []int
	if n < fixMax {
		c = append(c, 0)
	}
	if b8 != 0 && n < 1<<8 {
		c = append(c, 1)
	}
	if n < 1<<16 {
		c = append(c, 2)
	}
	c = append(c, 3)
	switch e.pick(c) {
	case 0:
		buf.WriteByte(fixBase | byte(n))
	case 1:
		buf.WriteByte(b8)
		buf.Write(be(1, uint64(n)))
	case 2:
		buf.WriteByte(b16)
		buf.Write(be(2, uint64(n)))
	case 3:
		buf.WriteByte(b32)
		buf.Write(be(4, uint64(n)))
	}
}

func (e *altEnc) str(buf *bytes.Buffer, s []byte) {
	e.hdr(buf, len(s), 32, 0xa0, 0xd9, 0xda, 0xdb)
	buf.Write(s)
}

func (e *altEnc) bin(buf *bytes.Buffer, s []byte) {
	e.hdr(buf, len(s), 0, 0, 0xc4, 0xc5, 0xc6)
	buf.Write(s)
}

func (e *altEnc) value(buf *bytes.Buffer, v interface{}) {
	switch x := v.(type) {
	case nil:
		buf.WriteByte(0xc0)
	case bool:
		if x {
			buf.WriteByte(0xc3)
		} else {
			buf.WriteByte(0xc2)
		}
	case int:
		e.intv(buf, int64(x))
	case int64:
		e.intv(buf, x)
	case uint64:
		e.uintv(buf, x)
	case float64:
		buf.WriteByte(0xcb)
		buf.Write(be(8, math.Float64bits(x)))
	case string:
		e.str(buf, []byte(x))
	case []byte:
		e.bin(buf, x)
	case []interface{}:
		e.hdr(buf, len(x), 16, 0x90, 0, 0xdc, 0xdd)
		for _, el := range x {
			e.value(buf, el)
		}
	case map[string]interface{}:
		e.hdr(buf, len(x), 16, 0x80, 0, 0xde, 0xdf)
		keys := make([]string, 0, len(x))
		for k := range x {
			keys = append(keys, k)
		}
		sort.Strings(keys)
		for _, k := range keys {
			e.str(buf, []byte(k))
			e.value(buf, x[k])
		}
	default:
		panic(fmt.Sprintf("altEnc: unsupported %T", v))
	}
}

// ---------------------------------------------------------------- frames

type pendSpec struct {
	seq      int64
	ctype    int
	wantsRes bool
}

type zEntry struct {
	ctype int
	blob  []byte
	plain []byte // nil: decompressor fails
}

type streamCase struct {
	max    int32
	pend   []pendSpec
	z      []zEntry
	stream []byte
	note   []string
}

var knownMethods = []string{"p.m", "p.n", "q.r.s", "z"}
var unknownMethods = []string{"p.x", "nope.m", "q.s", "r.s", "", "x", "p.", ".m", "q.r.", "p.m.x"}

func (g *prng) tags(e *altEnc) map[string]interface{} {
	n := 1 + g.intn(3)
	m := map[string]interface{}{}
	for i := 0; i < n; i++ {
		m[g.text(1+g.intn(5))+fmt.Sprint(i)] = g.value(1)
	}
	return m
}

func realCompress(ctype int, plain []byte) []byte {
	var c compressor
	switch ctype {
	case 1:
		c = newGzipCompressor()
	case 2:
		c = newMsgpackzipCompressor()
	default:
		return nil
	}
	b, err := c.Compress(plain)
	if err != nil {
		return nil
	}
	return b
}

// frameBody builds one frame body (array header + fields) of a random kind.
func (sc *streamCase) frameBody(g *prng, e *altEnc) []byte {
	var fields [][]byte
	enc := func(v interface{}) []byte {
		var b bytes.Buffer
		e.value(&b, v)
		return b.Bytes()
	}
	encStr := func(s string) []byte {
		var b bytes.Buffer
		if e.alt && g.chance(1, 10) {
			e.bin(&b, []byte(s))
		} else {
			e.str(&b, []byte(s))
		}
		return b.Bytes()
	}
	method := func() string {
		if g.chance(1, 6) {
			return unknownMethods[g.intn(len(unknownMethods))]
		}
		return knownMethods[g.intn(len(knownMethods))]
	}
	seq := func() int64 {
		if g.chance(1, 4) {
			return boundaryInts[g.intn(len(boundaryInts))]
		}
		return int64(g.intn(300))
	}
	withTags := func() {
		if g.chance(1, 3) {
			fields = append(fields, enc(g.tags(e)))
		} else if g.chance(1, 12) {
			fields = append(fields, enc(map[string]interface{}{}))
		} else if g.chance(1, 30) {
			fields = append(fields, enc(nil))
		}
	}
	kind := g.intn(20)
	switch {
	case kind < 6: // call
		fields = append(fields, enc(int64(0)), enc(seq()), encStr(method()), enc(g.value(2)))
		withTags()
		sc.note = append(sc.note, "call")
	case kind < 9: // compressed call
		ct := []int{0, 1, 2, 1, 2, 7, -1}[g.intn(7)]
		arg := g.value(2)
		var argField []byte
		if ct == 1 || ct == 2 {
			var pb bytes.Buffer
			(&altEnc{g: g, alt: false}).value(&pb, arg)
			blob := realCompress(ct, pb.Bytes())
			if g.chance(1, 12) {
				blob = []byte{}
			} else {
				sc.z = append(sc.z, zEntry{ct, blob, pb.Bytes()})
			}
			var b bytes.Buffer
			e.bin(&b, blob)
			argField = b.Bytes()
		} else {
			argField = enc(arg)
		}
		fields = append(fields, enc(int64(4)), enc(seq()), enc(int64(ct)), encStr(method()), argField)
		withTags()
		sc.note = append(sc.note, fmt.Sprintf("callc%d", ct))
	case kind < 12: // response
		var s int64
		ct := 0
		if len(sc.pend) > 0 && !g.chance(1, 5) {
			p := sc.pend[g.intn(len(sc.pend))]
			s, ct = p.seq, p.ctype
		} else {
			s = seq()
		}
		var errField []byte
		switch g.intn(4) {
		case 0:
			errField = enc(nil)
		case 1:
			errField = enc("")
		default:
			errField = enc(g.text(1 + g.intn(40)))
		}
		res := g.value(2)
		var resField []byte
		if ct == 1 || ct == 2 {
			var pb bytes.Buffer
			(&altEnc{g: g, alt: false}).value(&pb, res)
			blob := realCompress(ct, pb.Bytes())
			if g.chance(1, 12) {
				blob = []byte{}
			} else {
				sc.z = append(sc.z, zEntry{ct, blob, pb.Bytes()})
			}
			var b bytes.Buffer
			e.bin(&b, blob)
			resField = b.Bytes()
		} else {
			resField = enc(res)
		}
		fields = append(fields, enc(int64(1)), enc(s), errField, resField)
		sc.note = append(sc.note, "resp")
	case kind < 15: // notify
		fields = append(fields, enc(int64(2)), encStr(method()), enc(g.value(2)))
		withTags()
		sc.note = append(sc.note, "notify")
	case kind < 17: // cancel
		fields = append(fields, enc(int64(3)), enc(seq()), encStr(method()))
		sc.note = append(sc.note, "cancel")
	case kind == 17: // invalid type
		fields = append(fields, enc([]int64{5, -1, 6, 100, math.MinInt64}[g.intn(5)]), enc(seq()), encStr(method()), enc(g.value(1)))
		sc.note = append(sc.note, "badtype")
	case kind == 18: // too few fields
		t := int64(g.intn(5))
		fields = append(fields, enc(t))
		n := g.intn(3)
		for i := 0; i < n; i++ {
			fields = append(fields, enc(seq()))
		}
		sc.note = append(sc.note, "short")
	default: // wrong field types
		fields = append(fields, enc(int64(g.intn(5))), enc(g.value(1)), enc(g.value(1)), enc(g.value(1)), enc(g.value(1)))
		sc.note = append(sc.note, "junkfields")
	}
	// extra trailing elements
	extras := 0
	if g.chance(1, 4) {
		extras = 1 + g.intn(3)
	}
	claimed := len(fields) + extras
	for i := 0; i < extras; i++ {
		fields = append(fields, enc(g.value(1)))
	}
	// header disagreeing with the content
	switch g.intn(14) {
	case 0:
		claimed++ // content shorter than the header implies
		sc.note = append(sc.note, "hdrshort")
	case 1:
		if claimed > 1 {
			claimed-- // content longer
			sc.note = append(sc.note, "hdrlong")
		}
	}
	if claimed > 15 {
		claimed = 15
	}
	var body bytes.Buffer
	hdr := byte(0x90 + claimed)
	if g.chance(1, 40) {
		hdr = []byte{0x90, 0x80, 0xdc, 0xc0, 0xa1, 0x00}[g.intn(6)]
		sc.note = append(sc.note, "badhdr")
	}
	body.WriteByte(hdr)
	for _, f := range fields {
		body.Write(f)
	}
	return body.Bytes()
}

func (sc *streamCase) addFrame(g *prng, e *altEnc, body []byte) {
	var b bytes.Buffer
	e.intv(&b, int64(len(body)))
	sc.stream = append(sc.stream, b.Bytes()...)
	sc.stream = append(sc.stream, body...)
}

func genStream(g *prng, alt bool) *streamCase {
	sc := &streamCase{max: int32(200 + g.intn(3000))}
	e := &altEnc{g: g, alt: alt}
	np := g.intn(4)
	for i := 0; i < np; i++ {
		sc.pend = append(sc.pend, pendSpec{int64(g.intn(300)), []int{0, 0, 1, 2, 7}[g.intn(5)], !g.chance(1, 5)})
	}
	nf := 1 + g.intn(4)
	for i := 0; i < nf; i++ {
		sc.addFrame(g, e, sc.frameBody(g, e))
	}
	return sc
}

// hostile mutates a structured stream.
func hostile(g *prng, sc *streamCase) {
	s := sc.stream
	switch g.intn(9) {
	case 0: // bit flip
		if len(s) > 0 {
			i := g.intn(len(s))
			s[i] ^= 1 << uint(g.intn(8))
		}
		sc.note = append(sc.note, "bitflip")
	case 1: // truncate
		if len(s) > 0 {
			s = s[:g.intn(len(s))]
		}
		sc.note = append(sc.note, "trunc")
	case 2: // length edit: replace the first prefix
		var b bytes.Buffer
		l := []int64{0, -1, -5, int64(sc.max), int64(sc.max) + 1, math.MaxInt32, math.MaxInt32 + 1, math.MinInt32, 1, 2}[g.intn(10)]
		(&altEnc{g: g, alt: true}).intv(&b, l)
		s = append(b.Bytes(), s...)
		sc.note = append(sc.note, fmt.Sprintf("lenedit%d", l))
	case 3: // splice two positions
		if len(s) > 4 {
			i, j := g.intn(len(s)), g.intn(len(s))
			if i > j {
				i, j = j, i
			}
			s = append(append([]byte{}, s[:i]...), s[j:]...)
		}
		sc.note = append(sc.note, "splice")
	case 4: // random bytes
		s = g.bytes(1 + g.intn(40))
		sc.note = append(sc.note, "random")
	case 5: // non-integer prefix
		s = append([]byte{[]byte{0xc0, 0xa1, 0x91, 0xc3, 0xca, 0xc1, 0xc4}[g.intn(7)]}, s...)
		sc.note = append(sc.note, "nonintprefix")
	case 6: // huge inner length: array32/str32/bin32/map32 claiming up to 2^31
		inner := []byte{[]byte{0xdd, 0xdb, 0xc6, 0xdf}[g.intn(4)], 0x7f, 0xff, 0xff, 0xff}
		body := append([]byte{0x94, 0x00, 0x05, 0xa3, 'p', '.', 'm'}, inner...)
		body = append(body, g.bytes(g.intn(20))...)
		var b bytes.Buffer
		(&altEnc{g: g}).intv(&b, int64(len(body)))
		s = append(append(b.Bytes(), body...), s...)
		sc.note = append(sc.note, "hugeinner")
	case 7: // byte overwrite
		if len(s) > 0 {
			s[g.intn(len(s))] = byte(g.next())
		}
		sc.note = append(sc.note, "byteedit")
	case 8: // drop the tail of the last frame and append a valid frame (must not resync wrongly)
		if len(s) > 2 {
			s = s[:len(s)-1-g.intn(2)]
		}
		sc.note = append(sc.note, "tailcut")
	}
	sc.stream = s
}

// ---------------------------------------------------------------- running the implementation

func newPureEndpoint(sc *streamCase, rd *chunkReader) (*packetizer, *callContainer) {
	ph := newProtocolHandler(nil)
	mk := func() interface{} { return new(interface{}) }
	h := func(context.Context, interface{}) (interface{}, error) { return nil, nil }
	d := ServeHandlerDescription{MakeArg: mk, Handler: h}
	_ = ph.registerProtocol(Protocol{Name: "p", Methods: map[string]ServeHandlerDescription{"m": d, "n": d}})
	_ = ph.registerProtocol(Protocol{Name: "q.r", Methods: map[string]ServeHandlerDescription{"s": d}})
	_ = ph.registerProtocol(Protocol{Name: "", Methods: map[string]ServeHandlerDescription{"z": d}})
	cc := newCallContainer()
	for _, p := range sc.pend {
		c := &call{seqid: SeqNumber(p.seq), ctype: CompressionType(p.ctype), resultCh: make(chan *rpcResponseMessage, 1),
			instrumenter: NewNetworkInstrumenter(NewDummyInstrumentationStorage(), "x")}
		if p.wantsRes {
			c.res = new(interface{})
		}
		cc.calls[c.seqid] = c
	}
	return newPacketizer(sc.max, rd, ph, cc, quietLog(), NewDummyInstrumentationStorage()), cc
}

func tagsOfCtx(b *basicRPCData) string {
	if b.ctx == nil {
		return "-"
	}
	t, ok := TagsFromContext(b.ctx)
	if !ok {
		return "-"
	}
	return vtext(map[string]interface{}(t))
}

func msgText(m rpcMessage) string {
	switch r := m.(type) {
	case *rpcCallMessage:
		return fmt.Sprintf("C %d %s %s %s", r.seqno, hx([]byte(r.name)), vtext(r.arg), tagsOfCtx(&r.basicRPCData))
	case *rpcCallCompressedMessage:
		return fmt.Sprintf("Z %d %d %s %s %s", r.seqno, int(r.ctype), hx([]byte(r.name)), vtext(r.arg), tagsOfCtx(&r.basicRPCData))
	case *rpcResponseMessage:
		es := "s"
		if r.responseErr != nil {
			es = "s" + fmt.Sprintf("%x", r.responseErr.Error())
		}
		res := "n"
		if r.c != nil && r.c.res != nil {
			res = vtext(r.c.res)
		}
		return fmt.Sprintf("R %d %s %s", int(r.SeqNo()), es, res)
	case *rpcNotifyMessage:
		return fmt.Sprintf("N %s %s %s", hx([]byte(r.name)), vtext(r.arg), tagsOfCtx(&r.basicRPCData))
	case *rpcCancelMessage:
		return fmt.Sprintf("X %d %s", r.seqno, hx([]byte(r.name)))
	}
	return fmt.Sprintf("?%T", m)
}

// runPacketizer drives NextFrame the way receiveFramesLoop does and renders
// each result in the oracle's syntax.
func runPacketizer(sc *streamCase, chunks [][]byte) (out string, panicked interface{}) {
	total := 0
	for _, c := range chunks {
		total += len(c)
	}
	cp := make([][]byte, len(chunks))
	for i := range chunks {
		cp[i] = append([]byte(nil), chunks[i]...)
	}
	rd := &chunkReader{chunks: cp}
	p, _ := newPureEndpoint(sc, rd)
	var parts []string
	defer func() {
		if r := recover(); r != nil {
			panicked = r
			out = strings.Join(parts, " | ")
		}
	}()
	var err error
	for shouldContinue(err) {
		var m rpcMessage
		m, err = p.NextFrame()
		left := p.reader.reader.Buffered()
		for _, c := range rd.chunks {
			left += len(c)
		}
		pos := total - left
		var s string
		cls := errClass(err)
		switch {
		case err == nil:
			s = "ok " + msgText(m)
			// a response's result buffer is reused by the next reply to the same call
			if r, ok := m.(*rpcResponseMessage); ok && r.c != nil && r.c.res != nil {
				r.c.res = new(interface{})
			}
		case cls == "callnotfound" || cls == "methodnotfound" || cls == "protnotfound":
			s = fmt.Sprintf("%s %d %d %s", cls, int(m.Type()), int(m.SeqNo()), hx([]byte(m.Name())))
		default:
			s = cls
		}
		parts = append(parts, fmt.Sprintf("%s @%d", s, pos))
		if len(parts) > 10000 {
			parts = append(parts, "RUNAWAY")
			break
		}
	}
	return strings.Join(parts, " | "), nil
}

func chunkHex(chunks [][]byte) string {
	if len(chunks) == 0 {
		return "-"
	}
	ss := make([]string, len(chunks))
	for i, c := range chunks {
		ss[i] = hx(c)
	}
	return strings.Join(ss, ",")
}

func (sc *streamCase) ctxText() string {
	ps := "-"
	if len(sc.pend) > 0 {
		// the table is a map: a later entry with the same seqno replaces an earlier one
		seen := map[int64]bool{}
		var parts []string
		for i := len(sc.pend) - 1; i >= 0; i-- {
			p := sc.pend[i]
			if seen[p.seq] {
				continue
			}
			seen[p.seq] = true
			w := 0
			if p.wantsRes {
				w = 1
			}
			parts = append(parts, fmt.Sprintf("%d:%d:%d", p.seq, p.ctype, w))
		}
		ps = strings.Join(parts, ",")
	}
	zs := "-"
	if len(sc.z) > 0 {
		var parts []string
		for _, z := range sc.z {
			pl := "ERR"
			if z.plain != nil {
				pl = hx(z.plain)
			}
			parts = append(parts, fmt.Sprintf("%d:%s:%s", z.ctype, hx(z.blob), pl))
		}
		zs = strings.Join(parts, ",")
	}
	return ps + " " + zs
}

// partitions of a stream into reads
func splitAt(s []byte, cuts []int) [][]byte {
	var r [][]byte
	prev := 0
	for _, c := range cuts {
		if c > prev && c < len(s) {
			r = append(r, s[prev:c])
			prev = c
		}
	}
	r = append(r, s[prev:])
	return r
}

func randomPartition(g *prng, s []byte) [][]byte {
	switch g.intn(5) {
	case 0:
		return [][]byte{s}
	case 1: // one byte at a time
		var r [][]byte
		for i := range s {
			r = append(r, s[i:i+1])
		}
		if len(r) == 0 {
			r = [][]byte{s}
		}
		return r
	case 2: // single cut
		if len(s) < 2 {
			return [][]byte{s}
		}
		return splitAt(s, []int{1 + g.intn(len(s)-1)})
	case 3: // double cut
		if len(s) < 3 {
			return [][]byte{s}
		}
		a, b := 1+g.intn(len(s)-1), 1+g.intn(len(s)-1)
		if a > b {
			a, b = b, a
		}
		return splitAt(s, []int{a, b})
	default: // random small pieces
		var cuts []int
		p := 0
		for p < len(s) {
			p += 1 + g.intn(7)
			cuts = append(cuts, p)
		}
		return splitAt(s, cuts)
	}
}

func init() {
	// dec: structured (legal, alternative widths) and hostile streams through the real packetizer
	verifModes["dec"] = func(c *vctx) {
		g := newPrng(c.seed, 11)
		kinds := map[string]int{}
		for i := 0; i < c.n; i++ {
			sc := genStream(g, i%3 != 0)
			hostileCase := i%2 == 1
			if hostileCase {
				hostile(g, sc)
			}
			for _, n := range sc.note {
				kinds[n]++
			}
			var parts [][][]byte
			parts = append(parts, [][]byte{sc.stream})
			for k := 0; k < 3; k++ {
				parts = append(parts, randomPartition(g, sc.stream))
			}
			if len(sc.stream) >= 2 && len(sc.stream) <= 12 && c.tier == "thorough" {
				// all 2^(n-1) partitions of a short stream
				n := len(sc.stream)
				for mask := 0; mask < 1<<(n-1); mask++ {
					var cuts []int
					for b := 0; b < n-1; b++ {
						if mask&(1<<b) != 0 {
							cuts = append(cuts, b+1)
						}
					}
					parts = append(parts, splitAt(sc.stream, cuts))
				}
			}
			cat := "legal"
			if hostileCase {
				cat = "hostile"
			} else {
				for _, n := range sc.note {
					if n == "badtype" || n == "short" || n == "junkfields" || n == "hdrshort" || n == "hdrlong" || n == "badhdr" {
						cat = "invalid"
					}
				}
			}
			for pi, chunks := range parts {
				c.note("%s stream=%d part=%d len=%d kinds=%s", cat, i, pi, len(sc.stream), strings.Join(sc.note, ","))
				c.op("run %d %s %s", sc.max, sc.ctxText(), chunkHex(chunks))
				out, pan := runPacketizer(sc, chunks)
				if pan != nil {
					c.res("PANIC %v after: %s", pan, out)
				} else {
					c.res("%s", out)
				}
			}
		}
		var ks []string
		for k := range kinds {
			ks = append(ks, k)
		}
		sort.Strings(ks)
		for _, k := range ks {
			fmt.Printf("DIST %s %d\n", k, kinds[k])
		}
	}
}

// alloc (C05): what the receive path allocates on behalf of ONE frame whose
// inner msgpack lengths claim up to 2^31 elements / bytes while only a few
// bytes are present, with a large maximum frame length: bounded by a
// constant plus the maximum frame length.  Measured (runtime.MemStats), not
// proved.
func init() {
	verifModes["alloc"] = func(c *vctx) {
		g := newPrng(c.seed, 83)
		const max = 16 << 20
		const slack = 8 << 20
		worst := uint64(0)
		for i := 0; i < c.n; i++ {
			sc := &streamCase{max: max}
			e := &altEnc{g: g, alt: true}
			// a frame announcing up to `max` bytes with a huge inner claim in one of the decoded positions
			claim := []byte{0x7f, 0xff, 0xff, 0xff}
			if g.chance(1, 3) {
				claim = be(4, uint64(1+g.intn(1<<30)))
			}
			inner := append([]byte{[]byte{0xdd, 0xdf, 0xdb, 0xc6}[g.intn(4)]}, claim...)
			var body bytes.Buffer
			kind := g.intn(5)
			switch kind {
			case 0: // call argument
				body.Write([]byte{0x94, 0x00})
				e.intv(&body, int64(g.intn(100)))
				e.str(&body, []byte("p.m"))
				body.Write(inner)
			case 1: // tag map
				body.Write([]byte{0x95, 0x00})
				e.intv(&body, int64(g.intn(100)))
				e.str(&body, []byte("p.m"))
				body.WriteByte(0xc0)
				body.Write(append([]byte{0xdf}, claim...))
			case 2: // method name
				body.Write([]byte{0x94, 0x00})
				e.intv(&body, int64(g.intn(100)))
				body.Write(append([]byte{0xdb}, claim...))
			case 3: // response result / error
				sc.pend = []pendSpec{{7, 0, true}}
				body.Write([]byte{0x94, 0x01, 0x07})
				if g.chance(1, 2) {
					body.Write(append([]byte{0xdb}, claim...))
				} else {
					body.WriteByte(0xc0)
					body.Write(inner)
				}
			default: // nested inside an array argument
				body.Write([]byte{0x94, 0x02})
				e.str(&body, []byte("p.n"))
				body.Write([]byte{0x92, 0x01})
				body.Write(inner)
			}
			body.Write(g.bytes(g.intn(16)))
			declared := int64(body.Len())
			if g.chance(2, 3) {
				declared = int64(max - g.intn(1000)) // announces far more than is present
			}
			var fr bytes.Buffer
			e.intv(&fr, declared)
			fr.Write(body.Bytes())
			sc.stream = fr.Bytes()
			var m0, m1 runtime.MemStats
			runtime.GC()
			runtime.ReadMemStats(&m0)
			out, pan := runPacketizer(sc, [][]byte{sc.stream})
			runtime.ReadMemStats(&m1)
			d := m1.TotalAlloc - m0.TotalAlloc
			if d > worst {
				worst = d
			}
			c.note("alloc kind=%d declared=%d allocated=%d", kind, declared, d)
			c.op("selfcheck")
			switch {
			case pan != nil:
				c.res("FAIL panic %v", pan)
			case d > max+slack:
				c.res("FAIL allocated %d bytes for one frame (limit %d = max %d + %d): stream %x -> %s", d, max+slack, max, slack, sc.stream, out)
			default:
				c.res("ok")
			}
		}
		fmt.Printf("STAT worst_allocation_bytes %d\n", worst)
	}
}
