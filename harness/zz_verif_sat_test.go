//go:build verif

//go:debug randseednop=0

package rpc

// Differential runs for the pure satellites: prioritized round-robin remotes
// and FMP URIs (C18), RPC tags and contexts (C19), the cancellable timer
// (C16).  One operation sequence per line; the Lean oracle runs the model on
// the same line.

import (
	"encoding/hex"
	"fmt"
	"math/rand"
	"net/url"
	"sort"
	"strings"
	"testing"
	"testing/synctest"
	"time"

	"golang.org/x/net/context"
)

func hs(s string) string {
	if s == "" {
		return "-"
	}
	return hex.EncodeToString([]byte(s))
}

func groupsText(gs [][]string) string {
	if len(gs) == 0 {
		return "."
	}
	var parts []string
	for _, g := range gs {
		var items []string
		for _, a := range g {
			items = append(items, hs(a))
		}
		if len(items) == 0 {
			parts = append(parts, ".")
		} else {
			parts = append(parts, strings.Join(items, ","))
		}
	}
	return strings.Join(parts, "|")
}

// arrangement computes what resetLocked will produce after rand.Seed(seed):
// one rand.Perm per group, in group order.
func arrangement(addresses [][]string, seed int64) [][]string {
	rng := rand.New(rand.NewSource(seed))
	var out [][]string
	for _, g := range addresses {
		var ng []string
		for _, i := range rng.Perm(len(g)) {
			ng = append(ng, g[i])
		}
		out = append(out, ng)
	}
	return out
}

func genAddr(g *prng) string {
	switch g.intn(8) {
	case 0:
		return ""
	case 1:
		return "   "
	case 2:
		return " Host" + fmt.Sprint(g.intn(3)) + ".Example.COM:443 "
	case 3:
		return "\tA" + fmt.Sprint(g.intn(2))
	default:
		return []string{"a", "b", "c", "d.example.com:1", "E", "e"}[g.intn(6)] + fmt.Sprint(g.intn(3))
	}
}

func cleanGroups(gs [][]string) [][]string {
	var out [][]string
	for _, g := range gs {
		var ng []string
		for _, a := range g {
			a = strings.ToLower(strings.TrimSpace(a))
			if a != "" {
				ng = append(ng, a)
			}
		}
		if len(ng) > 0 {
			out = append(out, ng)
		}
	}
	return out
}

func init() {
	verifModes["remote"] = func(c *vctx) {
		g := newPrng(c.seed, 41)
		nOps := 0
		for i := 0; i < c.n; i++ {
			ng := g.intn(4)
			var groups [][]string
			for j := 0; j < ng; j++ {
				n := g.intn(4)
				var grp []string
				for k := 0; k < n; k++ {
					grp = append(grp, genAddr(g))
				}
				groups = append(groups, grp)
			}
			// the construction shuffles once; then a sequence of operations, each with its own seed
			seed0 := int64(g.intn(1 << 30))
			rand.Seed(seed0)
			r, err := NewPrioritizedRoundRobinRemote(groups)
			cleaned := cleanGroups(groups)
			var ops, outs []string
			ops = append(ops, "new:"+groupsText(groups)+":"+groupsText(arrangement(cleaned, seed0)))
			if err != nil {
				outs = append(outs, "ERR")
				c.note("remote case=%d groups=%d err", i, ng)
				c.op("rr %s", strings.Join(ops, " "))
				c.res("%s", strings.Join(outs, " "))
				continue
			}
			outs = append(outs, "ok:"+hs(r.String()))
			n := 1 + g.intn(10)
			for k := 0; k < n; k++ {
				seed := int64(g.intn(1 << 30))
				rand.Seed(seed)
				arr := groupsText(arrangement(cleaned, seed))
				switch g.intn(6) {
				case 0:
					r.Reset()
					ops = append(ops, "reset:"+arr)
					outs = append(outs, "-")
				case 1, 2:
					ops = append(ops, "peek:"+arr)
					outs = append(outs, hs(r.Peek()))
				default:
					ops = append(ops, "get:"+arr)
					outs = append(outs, hs(r.GetAddress()))
				}
				nOps++
			}
			// String() must parse back to the same groups
			seedp := int64(g.intn(1 << 30))
			rand.Seed(seedp)
			ops = append(ops, "reparse:"+groupsText(arrangement(cleaned, seedp)))
			if r2, err := ParsePrioritizedRoundRobinRemote(r.String()); err != nil {
				outs = append(outs, "ERR")
			} else {
				outs = append(outs, "ok:"+hs(r2.String()))
			}
			c.note("remote case=%d groups=%d ops=%d", i, ng, n)
			c.op("rr %s", strings.Join(ops, " "))
			c.res("%s", strings.Join(outs, " "))
		}
		fmt.Printf("STAT remote_ops %d\n", nOps)
	}

	verifModes["uri"] = func(c *vctx) {
		g := newPrng(c.seed, 43)
		schemes := []string{"fmprpc", "fmprpc+tls", "fmprpc+tls", "fmprpc", "http", "fmprpcx", "fmprpc+tl", "FMPRPC", "", "fmprpc+tlss", "tcp"}
		hosts := []string{"example.com", "localhost", "127.0.0.1", "[::1]", "[fe80::1%25eth0]", "", "a.b-c.d", "[::1", "::1", "host]", "user@host", "xn--nxasmq6b", "h o"}
		ports := []string{":443", ":0", "", ":", ":80:90", ":http", ":65536", ":1/path", ":2?x=1", ":3#f"}
		for i := 0; i < c.n; i++ {
			var s string
			switch g.intn(10) {
			case 0:
				s = g.text(g.intn(12))
			case 1:
				s = schemes[g.intn(len(schemes))] + ":" + hosts[g.intn(len(hosts))] + ports[g.intn(len(ports))]
			case 2:
				s = schemes[g.intn(len(schemes))] + "://" + hosts[g.intn(len(hosts))] + ports[g.intn(len(ports))] + "/x"
			default:
				s = schemes[g.intn(len(schemes))] + "://" + hosts[g.intn(len(hosts))] + ports[g.intn(len(ports))]
			}
			if g.chance(1, 10) && len(s) > 0 {
				b := []byte(s)
				b[g.intn(len(b))] = byte(32 + g.intn(95))
				s = string(b)
			}
			up := "ERR"
			if u, err := url.Parse(s); err == nil {
				up = hs(u.Scheme) + " " + hs(u.Host)
			}
			f, err := ParseFMPURI(s)
			c.note("uri case=%d", i)
			c.op("uri %s %s", hs(s), up)
			if err != nil {
				c.res("ERR")
				continue
			}
			tls := 0
			if f.UseTLS() {
				tls = 1
			}
			// round trip through String()
			rt := "RT-ERR"
			if f2, err := ParseFMPURI(f.String()); err == nil && *f2 == *f {
				rt = "rt"
			}
			c.res("%s %s %s tls=%d %s", hs(f.Scheme), hs(f.HostPort), hs(f.Host), tls, rt)
		}
	}

	verifModes["tags"] = func(c *vctx) {
		g := newPrng(c.seed, 47)
		for i := 0; i < c.n; i++ {
			ctxs := []context.Context{context.Background()}
			var user []CtxRPCTags
			var ops []string
			n := 2 + g.intn(12)
			for k := 0; k < n; k++ {
				switch r := g.intn(10); {
				case r < 3 || len(user) == 0:
					m := CtxRPCTags{}
					var ents []string
					for e := 0; e < g.intn(4); e++ {
						key, val := g.intn(5), g.intn(100)
						if _, dup := m[fmt.Sprintf("k%d", key)]; dup {
							continue
						}
						m[fmt.Sprintf("k%d", key)] = val
						ents = append(ents, fmt.Sprintf("%d=%d", key, val))
					}
					user = append(user, m)
					if len(ents) == 0 {
						ops = append(ops, "new:.")
					} else {
						ops = append(ops, "new:"+strings.Join(ents, ","))
					}
				case r < 5:
					o, key, val := g.intn(len(user)), g.intn(5), g.intn(100)
					user[o][fmt.Sprintf("k%d", key)] = val
					ops = append(ops, fmt.Sprintf("set:%d:%d:%d", o, key, val))
				case r < 8:
					cx, o := g.intn(len(ctxs)), g.intn(len(user))
					ctxs = append(ctxs, AddRPCTagsToContext(ctxs[cx], user[o]))
					ops = append(ops, fmt.Sprintf("add:%d:%d", cx, o))
				default:
					cx := g.intn(len(ctxs))
					if t, ok := TagsFromContext(ctxs[cx]); ok {
						user = append(user, t)
					}
					ops = append(ops, fmt.Sprintf("read:%d", cx))
				}
			}
			var outs []string
			render := func(m CtxRPCTags) string {
				var ks []string
				for k2, v := range m {
					ks = append(ks, fmt.Sprintf("%s:%v", k2[1:], v))
				}
				sort.Strings(ks)
				if len(ks) == 0 {
					return "."
				}
				return strings.Join(ks, ",")
			}
			for ci, cx := range ctxs {
				t, ok := TagsFromContext(cx)
				if !ok {
					outs = append(outs, fmt.Sprintf("c%d=-", ci))
				} else {
					outs = append(outs, fmt.Sprintf("c%d=%s", ci, render(t)))
				}
			}
			for ui, m := range user {
				outs = append(outs, fmt.Sprintf("u%d=%s", ui, render(m)))
			}
			c.note("tags case=%d ops=%d ctxs=%d", i, n, len(ctxs))
			c.op("tags %s", strings.Join(ops, " "))
			c.res("%s", strings.Join(outs, " "))
		}
	}

	verifModes["timer"] = func(c *vctx) {
		g := newPrng(c.seed, 53)
		synctest.Test(c.t, func(t *testing.T) {
			for i := 0; i < c.n; i++ {
				var b CancellableTimer
				t0 := time.Now()
				var ops, outs []string
				n := 1 + g.intn(7)
				type waiter struct {
					done chan struct{}
					at   time.Duration
				}
				var ws []*waiter
				for k := 0; k < n; k++ {
					switch g.intn(8) {
					case 0, 1:
						d := time.Duration(g.intn(5)) * time.Second
						b.StartConstant(d)
						ops = append(ops, fmt.Sprintf("start:%d", int64(d)))
					case 2:
						w := time.Duration(g.intn(4)) * time.Second
						d := b.StartRandom(w)
						if d < 0 || (w > 0 && d >= w) || (w == 0 && d != 0) {
							outs = append(outs, fmt.Sprintf("RANDOM-OUT-OF-WINDOW:%d:%d", d, w))
						}
						ops = append(ops, fmt.Sprintf("start:%d", int64(d)))
					case 3:
						b.FireNow()
						ops = append(ops, "firenow")
					case 4, 5:
						w := &waiter{done: make(chan struct{})}
						ws = append(ws, w)
						go func() {
							b.Wait()
							w.at = time.Since(t0)
							close(w.done)
						}()
						ops = append(ops, "wait")
					default:
						d := time.Duration(1+g.intn(3)) * time.Second
						time.Sleep(d)
						ops = append(ops, fmt.Sprintf("sleep:%d", int64(d)))
					}
					synctest.Wait()
				}
				// let every timer run out
				time.Sleep(10 * time.Second)
				ops = append(ops, fmt.Sprintf("sleep:%d", int64(10*time.Second)))
				synctest.Wait()
				for wi, w := range ws {
					select {
					case <-w.done:
						outs = append(outs, fmt.Sprintf("w%d@%d", wi, int64(w.at)))
					default:
						outs = append(outs, fmt.Sprintf("w%d@never", wi))
						b.FireNow() // release it so that the bubble can end
					}
				}
				synctest.Wait()
				c.note("timer case=%d ops=%d waiters=%d", i, n, len(ws))
				c.op("timer %s", strings.Join(ops, " "))
				c.res("%s", strings.Join(outs, " "))
			}
		})
	}
}
