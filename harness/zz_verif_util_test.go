//go:build verif

package rpc

import (
	"encoding/hex"
	"fmt"
	"io"
	"math"
	"net"
	"sort"
	"strings"
	"sync"
	"time"

	"github.com/keybase/go-codec/codec"
)

// ---------------------------------------------------------------- PRNG

// splitmix64: every random choice of a run derives from VERIF_SEED.
type prng struct{ s uint64 }

func (g *prng) next() uint64 {
	g.s += 0x9e3779b97f4a7c15
	z := g.s
	z = (z ^ (z >> 30)) * 0xbf58476d1ce4e5b9
	z = (z ^ (z >> 27)) * 0x94d049bb133111eb
	return z ^ (z >> 31)
}
func (g *prng) intn(n int) int {
	if n <= 0 {
		return 0
	}
	return int(g.next() % uint64(n))
}
func (g *prng) chance(num, den int) bool { return g.intn(den) < num }
func (g *prng) bytes(n int) []byte {
	b := make([]byte, n)
	for i := range b {
		b[i] = byte(g.next())
	}
	return b
}
func (g *prng) fork() *prng { return &prng{s: g.next()} }

// newPrng: seeds are hashed first, so consecutive seeds give unrelated streams.
func newPrng(seed, salt uint64) *prng {
	g := &prng{s: seed ^ (salt * 0xd1342543de82ef95)}
	g.s = g.next() ^ (g.next() << 1)
	return g
}

var boundaryLens = []int{0, 1, 2, 15, 16, 31, 32, 33, 255, 256}
var boundaryInts = []int64{0, 1, 127, 128, 255, 256, 65535, 65536, math.MaxInt32, math.MaxInt32 + 1,
	math.MaxUint32, math.MaxUint32 + 1, math.MaxInt64, -1, -32, -33, -128, -129, -32768, -32769,
	math.MinInt32, math.MinInt32 - 1, math.MinInt64}

func (g *prng) length() int {
	switch g.intn(10) {
	case 0:
		if g.chance(1, 20) {
			return []int{65535, 65536, 65537}[g.intn(3)]
		}
		return 300 + g.intn(400)
	case 1, 2, 3:
		return boundaryLens[g.intn(len(boundaryLens))]
	default:
		return g.intn(12)
	}
}

func (g *prng) text(n int) string {
	const al = "abcdefghijklmnopqrstuvwxyz0123456789._-ABC"
	b := make([]byte, n)
	for i := range b {
		b[i] = al[g.intn(len(al))]
	}
	return string(b)
}

// value generates a Go value over the msgpack data model, in the Go types the
// library's users pass (and go-codec's encoder distinguishes).
func (g *prng) value(depth int) interface{} {
	k := g.intn(14)
	if depth <= 0 && k >= 10 {
		k = g.intn(10)
	}
	switch k {
	case 0:
		return nil
	case 1:
		return g.chance(1, 2)
	case 2, 3:
		b := boundaryInts[g.intn(len(boundaryInts))]
		d := int64(g.intn(5)) - 2
		if (d > 0 && b > math.MaxInt64-d) || (d < 0 && b < math.MinInt64-d) {
			d = 0
		}
		return b + d
	case 4:
		return int64(g.next())
	case 5:
		if g.chance(1, 2) {
			return uint64(math.MaxUint64) - uint64(g.intn(3))
		}
		return g.next()
	case 6:
		return math.Float64frombits(g.next())
	case 7, 8:
		n := g.length()
		if g.chance(1, 3) {
			return string(g.bytes(n))
		}
		return g.text(n)
	case 9:
		return g.bytes(g.length())
	case 10, 11:
		n := g.intn(4)
		if g.chance(1, 8) {
			n = 14 + g.intn(4)
		}
		a := make([]interface{}, n)
		for i := range a {
			a[i] = g.value(depth - 1)
		}
		return a
	default:
		n := g.intn(3)
		if g.chance(1, 10) {
			n = 15 + g.intn(3)
		}
		m := map[string]interface{}{}
		for i := 0; i < n; i++ {
			m[g.text(1+g.intn(6))+fmt.Sprint(i)] = g.value(depth - 1)
		}
		return m
	}
}

// ---------------------------------------------------------------- canonical text of values

// vtext renders a Go value (generated, or produced by go-codec's naked decode)
// in the line protocol's value syntax.  Integers lose their Go width; map
// entries are sorted by the text of their key, later duplicates win.
func vtext(v interface{}) string {
	var sb strings.Builder
	vtextTo(&sb, v)
	return sb.String()
}

func vtextTo(sb *strings.Builder, v interface{}) {
	switch x := v.(type) {
	case nil:
		sb.WriteString("n")
	case bool:
		if x {
			sb.WriteString("t")
		} else {
			sb.WriteString("f")
		}
	case int:
		fmt.Fprintf(sb, "i%d", x)
	case int8:
		fmt.Fprintf(sb, "i%d", x)
	case int16:
		fmt.Fprintf(sb, "i%d", x)
	case int32:
		fmt.Fprintf(sb, "i%d", x)
	case int64:
		fmt.Fprintf(sb, "i%d", x)
	case uint:
		fmt.Fprintf(sb, "i%d", x)
	case uint8:
		fmt.Fprintf(sb, "i%d", x)
	case uint16:
		fmt.Fprintf(sb, "i%d", x)
	case uint32:
		fmt.Fprintf(sb, "i%d", x)
	case uint64:
		fmt.Fprintf(sb, "i%d", x)
	case MethodType:
		fmt.Fprintf(sb, "i%d", int(x))
	case SeqNumber:
		fmt.Fprintf(sb, "i%d", int(x))
	case CompressionType:
		fmt.Fprintf(sb, "i%d", int(x))
	case float32:
		// what msgpack's normalisation makes of it on the other side: the float64 with the same value
		fmt.Fprintf(sb, "D%016x", math.Float64bits(float64(x)))
	case float64:
		fmt.Fprintf(sb, "D%016x", math.Float64bits(x))
	case string:
		sb.WriteString("s" + hex.EncodeToString([]byte(x)))
	case *string:
		if x == nil {
			sb.WriteString("n")
		} else {
			sb.WriteString("s" + hex.EncodeToString([]byte(*x)))
		}
	case []byte:
		if x == nil {
			sb.WriteString("n")
		} else {
			sb.WriteString("b" + hex.EncodeToString(x))
		}
	case []interface{}:
		if x == nil {
			sb.WriteString("n")
			return
		}
		fmt.Fprintf(sb, "a%d", len(x))
		for _, e := range x {
			sb.WriteString(" ")
			vtextTo(sb, e)
		}
	case map[string]interface{}:
		if x == nil {
			sb.WriteString("n")
			return
		}
		ents := make([][2]string, 0, len(x))
		for k, e := range x {
			ents = append(ents, [2]string{vtext(k), vtext(e)})
		}
		writeEntries(sb, ents)
	case CtxRPCTags:
		vtextTo(sb, map[string]interface{}(x))
	case map[interface{}]interface{}:
		if x == nil {
			sb.WriteString("n")
			return
		}
		ents := make([][2]string, 0, len(x))
		for k, e := range x {
			ents = append(ents, [2]string{vtext(k), vtext(e)})
		}
		writeEntries(sb, ents)
	case codec.RawExt:
		fmt.Fprintf(sb, "x%d:%s", x.Tag, hex.EncodeToString(x.Data))
	case *codec.RawExt:
		fmt.Fprintf(sb, "x%d:%s", x.Tag, hex.EncodeToString(x.Data))
	case time.Time:
		sb.WriteString("T")
	case *interface{}:
		if x == nil {
			sb.WriteString("n")
		} else {
			vtextTo(sb, *x)
		}
	default:
		fmt.Fprintf(sb, "?%T", v)
	}
}

func writeEntries(sb *strings.Builder, ents [][2]string) {
	sort.Slice(ents, func(i, j int) bool { return ents[i][0] < ents[j][0] })
	fmt.Fprintf(sb, "m%d", len(ents))
	for _, e := range ents {
		sb.WriteString(" " + e[0] + " " + e[1])
	}
}

func hx(b []byte) string {
	if len(b) == 0 {
		return "-"
	}
	return hex.EncodeToString(b)
}

// ---------------------------------------------------------------- error classes

func errClass(err error) string {
	if err == nil {
		return "nil"
	}
	if err == io.EOF {
		return "eof"
	}
	if err == io.ErrUnexpectedEOF {
		return "ueof"
	}
	switch e := err.(type) {
	case PacketizerError:
		return "pkt"
	case DecodeError:
		switch e.err.(type) {
		case CallNotFoundError:
			return "callnotfound"
		case MethodNotFoundError:
			return "methodnotfound"
		case ProtocolNotFoundError:
			return "protnotfound"
		}
		if e.err != nil {
			switch e.err.Error() {
			case "invalid RPC type":
				return "invalidtype"
			case "wrong message length":
				return "wronglen"
			}
		}
		return "dec"
	case CallNotFoundError:
		return "callnotfound"
	case MethodNotFoundError:
		return "methodnotfound"
	case ProtocolNotFoundError:
		return "protnotfound"
	}
	if err.Error() == "context canceled" {
		return "canceled"
	}
	if err.Error() == "context deadline exceeded" {
		return "deadline"
	}
	return "other"
}

// ---------------------------------------------------------------- quiet logging

type quietOut struct{}

func (quietOut) Error(string, ...interface{})   {}
func (quietOut) Warning(string, ...interface{}) {}
func (quietOut) Info(string, ...interface{})    {}
func (quietOut) Debug(string, ...interface{})   {}
func (quietOut) Profile(string, ...interface{}) {}
func (q quietOut) CloneWithAddedDepth(int) LogOutputWithDepthAdder { return q }

type quietOpts struct{}

func (quietOpts) ShowAddress() bool    { return false }
func (quietOpts) ShowArg() bool        { return false }
func (quietOpts) ShowResult() bool     { return false }
func (quietOpts) Profile() bool        { return false }
func (quietOpts) FrameTrace() bool     { return false }
func (quietOpts) ClientTrace() bool    { return false }
func (quietOpts) ServerTrace() bool    { return false }
func (quietOpts) TransportStart() bool { return false }

func quietLogFactory() LogFactory { return NewSimpleLogFactory(quietOut{}, quietOpts{}) }
func quietLog() LogInterface      { return quietLogFactory().NewLog(nil) }

// ---------------------------------------------------------------- scripted readers

// chunkReader delivers a byte stream in exactly the scripted pieces: each
// Read returns (a prefix of) the current piece, never bytes of two pieces.
type chunkReader struct {
	chunks [][]byte
	reads  int
	err    error // returned after the last chunk (io.EOF if nil)
}

func (r *chunkReader) Read(p []byte) (int, error) {
	r.reads++
	for len(r.chunks) > 0 && len(r.chunks[0]) == 0 {
		r.chunks = r.chunks[1:]
	}
	if len(r.chunks) == 0 {
		if r.err != nil {
			return 0, r.err
		}
		return 0, io.EOF
	}
	n := copy(p, r.chunks[0])
	r.chunks[0] = r.chunks[0][n:]
	return n, nil
}

// ---------------------------------------------------------------- simulated connection

// simConn is one direction-pair of an in-memory connection.  Blocking
// operations block on channels only (durably, in the sense of
// testing/synctest).  Every Write call is recorded with its own byte slice.
type simAddr struct{}

func (simAddr) Network() string { return "sim" }
func (simAddr) String() string  { return "sim" }

type simHalf struct {
	mu     sync.Mutex
	buf    []byte
	closed bool
	wake   chan struct{}
	cap    int // 0 = unbounded
	space  chan struct{}
}

func newSimHalf(capacity int) *simHalf {
	return &simHalf{wake: make(chan struct{}, 1), cap: capacity, space: make(chan struct{}, 1)}
}

func (h *simHalf) signal(ch chan struct{}) {
	select {
	case ch <- struct{}{}:
	default:
	}
}

type simConn struct {
	name     string
	rd, wr   *simHalf
	mu       sync.Mutex
	writes   [][]byte
	closed   bool
	closeCh  chan struct{}
	onWrite   func([]byte) error // sees every Write call; a non-nil error fails the write
	onWritten func(n, total int) // how many bytes of a Write the wire accepted
	onResult  func(err error)    // the result of every Write call
	slowAt    func(p []byte) (int, time.Duration) // deliver only the first n bytes of this Write, the rest after a pause
	wdeadline time.Time
	failRead  error
}

func newSimPair(capacity int) (*simConn, *simConn) {
	ab, ba := newSimHalf(capacity), newSimHalf(capacity)
	a := &simConn{name: "A", rd: ba, wr: ab, closeCh: make(chan struct{})}
	b := &simConn{name: "B", rd: ab, wr: ba, closeCh: make(chan struct{})}
	return a, b
}

func (c *simConn) Read(p []byte) (int, error) {
	for {
		select {
		case <-c.closeCh:
			return 0, &net.OpError{Op: "read", Net: "sim", Err: net.ErrClosed}
		default:
		}
		c.rd.mu.Lock()
		if len(c.rd.buf) > 0 {
			n := copy(p, c.rd.buf)
			c.rd.buf = c.rd.buf[n:]
			c.rd.mu.Unlock()
			c.rd.signal(c.rd.space)
			return n, nil
		}
		closed := c.rd.closed
		c.rd.mu.Unlock()
		if closed {
			return 0, io.EOF
		}
		select {
		case <-c.rd.wake:
		case <-c.closeCh:
		}
	}
}

type simTimeout struct{}

func (simTimeout) Error() string   { return "sim: i/o timeout" }
func (simTimeout) Timeout() bool   { return true }
func (simTimeout) Temporary() bool { return true }

func (c *simConn) Write(p []byte) (n int, err error) {
	if c.onResult != nil {
		defer func() { c.onResult(err) }()
	}
	// the hook sees every Write call ("handed to the connection"), also one that then fails
	if c.onWrite != nil {
		if err := c.onWrite(p); err != nil {
			return 0, err
		}
	}
	select {
	case <-c.closeCh:
		return 0, &net.OpError{Op: "write", Net: "sim", Err: net.ErrClosed}
	default:
	}
	cp := append([]byte(nil), p...)
	c.mu.Lock()
	c.writes = append(c.writes, cp)
	deadline := c.wdeadline
	c.mu.Unlock()
	written := 0
	cut, pause := 0, time.Duration(0)
	if c.slowAt != nil {
		cut, pause = c.slowAt(p)
	}
	finish := func(n int, err error) (int, error) {
		if c.onWritten != nil {
			c.onWritten(n, len(p))
		}
		return n, err
	}
	for {
		c.wr.mu.Lock()
		if c.wr.closed {
			c.wr.mu.Unlock()
			return finish(written, io.ErrClosedPipe)
		}
		room := len(p) - written
		if cut > written && room > cut-written {
			room = cut - written // the first part only; the rest after the pause
		}
		if c.wr.cap > 0 {
			if free := c.wr.cap - len(c.wr.buf); free < room {
				room = free
			}
		}
		if room > 0 {
			c.wr.buf = append(c.wr.buf, p[written:written+room]...)
			written += room
		}
		c.wr.mu.Unlock()
		if room > 0 {
			c.wr.signal(c.wr.wake)
		}
		if written == len(p) {
			return finish(written, nil)
		}
		if cut > 0 && written == cut {
			// the connection stalls in the middle of this frame (the peer sees its first part only)
			cut = 0
			select {
			case <-time.After(pause):
			case <-c.closeCh:
				return finish(written, &net.OpError{Op: "write", Net: "sim", Err: net.ErrClosed})
			}
			continue
		}
		// the wire is full: wait for the peer to read, the deadline, or the close
		var timer <-chan time.Time
		if !deadline.IsZero() {
			d := time.Until(deadline)
			if d <= 0 {
				return finish(written, &net.OpError{Op: "write", Net: "sim", Err: simTimeout{}})
			}
			timer = time.After(d)
		}
		select {
		case <-c.wr.space:
		case <-timer:
			return finish(written, &net.OpError{Op: "write", Net: "sim", Err: simTimeout{}})
		case <-c.closeCh:
			return finish(written, &net.OpError{Op: "write", Net: "sim", Err: net.ErrClosed})
		}
	}
}

func (c *simConn) Close() error {
	c.mu.Lock()
	if c.closed {
		c.mu.Unlock()
		return nil
	}
	c.closed = true
	c.mu.Unlock()
	close(c.closeCh)
	// the peer sees end of stream after draining what was written
	c.wr.mu.Lock()
	c.wr.closed = true
	c.wr.mu.Unlock()
	c.wr.signal(c.wr.wake)
	return nil
}

func (c *simConn) Writes() [][]byte {
	c.mu.Lock()
	defer c.mu.Unlock()
	return append([][]byte(nil), c.writes...)
}

func (c *simConn) LocalAddr() net.Addr                { return simAddr{} }
func (c *simConn) RemoteAddr() net.Addr               { return simAddr{} }
func (c *simConn) SetDeadline(t time.Time) error      { return c.SetWriteDeadline(t) }
func (c *simConn) SetReadDeadline(time.Time) error  { return nil }
func (c *simConn) SetWriteDeadline(t time.Time) error {
	c.mu.Lock()
	c.wdeadline = t
	c.mu.Unlock()
	return nil
}

// inject appends raw bytes to what this end will read (a scripted peer).
func (c *simConn) inject(p []byte) {
	c.rd.mu.Lock()
	c.rd.buf = append(c.rd.buf, p...)
	c.rd.mu.Unlock()
	c.rd.signal(c.rd.wake)
}

// peerEOF makes this end read end-of-stream after the buffered bytes.
func (c *simConn) peerEOF() {
	c.rd.mu.Lock()
	c.rd.closed = true
	c.rd.mu.Unlock()
	c.rd.signal(c.rd.wake)
}
