//go:build verif

package rpc

// session: two transports of this library talking to each other over a
// simulated connection, with generated mixes of concurrent calls,
// compressed calls, notifications, cancellations, timeouts, closes and cuts,
// executed under the controlled scheduler.  Every observable is appended to
// one totally ordered history; the Lean monitors (the decidable predicates
// the theorems are stated with) judge it.

import (
	"bufio"
	"bytes"
	"errors"
	"fmt"
	"io"
	"net"
	"os"
	"reflect"
	"sort"
	"strings"
	"sync/atomic"
	"testing"
	"testing/synctest"
	"time"

	"github.com/keybase/go-codec/codec"
	"golang.org/x/net/context"
)

// sessLog: the quiet log, except that a reply the server could not send
// (result too large for a frame, unencodable) is recorded as an event.
type sessLog struct {
	LogInterface
	r  *schedRun
	ep int
}

func (l sessLog) Warning(format string, args ...interface{}) {
	if strings.HasPrefix(format, "Reply error for") && len(args) == 2 {
		cls := "other"
		if e, ok := args[1].(string); ok && strings.HasPrefix(e, "frame length too big") {
			cls = "toobig"
			// "frame length too big: <content> > <max>": a reply that is NOT above the limit must not be refused
			var a, b int
			if n, _ := fmt.Sscanf(e, "frame length too big: %d > %d", &a, &b); n == 2 && a <= b {
				cls = "toobig-but-fits"
			}
		}
		l.r.ev("replyerr %d %v %s", l.ep, args[0], cls)
	}
}

type sessLogFactory struct {
	r  *schedRun
	ep int
}

func (f sessLogFactory) NewLog(a net.Addr) LogInterface {
	return sessLog{LogInterface: quietLogFactory().NewLog(a), r: f.r, ep: f.ep}
}

type recStorage struct {
	r  *schedRun
	ep int
}

func (s *recStorage) Put(_ context.Context, tag string, rec InstrumentationRecord) error {
	s.r.ev("rec %d %x %d %s", s.ep, tag, rec.Size, actorOr(verifSelf()))
	return nil
}

func actorOr(n string) string {
	if n == "" {
		return "-"
	}
	return strings.ReplaceAll(n, " ", "")
}

// tagsCode: 0 for "no tags"; otherwise a checksum of the canonical text of the tag set (keys sorted, values
// through nonceOf, i.e. up to msgpack's normalisation of integer types)
func tagsCode(tags CtxRPCTags, ok bool) int {
	if !ok {
		return 0
	}
	var ks []string
	for k := range tags {
		ks = append(ks, k)
	}
	sort.Strings(ks)
	h := uint32(2166136261)
	for _, k := range ks {
		for _, b := range []byte(k + "=" + nonceOf(tags[k]) + ",") {
			h = (h ^ uint32(b)) * 16777619
		}
	}
	return 1 + int(h%1000000)
}

// payloadNonce: the nonce inside a compressed argument / result (the monitors
// cannot decompress); "-" when the payload is not compressed or not ours.
func payloadNonce(frame []byte) string {
	defer func() { _ = recover() }()
	var arr []interface{}
	if len(frame) == 0 {
		return "-"
	}
	dec := codec.NewDecoderBytes(frame[prefixLen(frame):], newCodecMsgpackHandle())
	if err := dec.Decode(&arr); err != nil || len(arr) < 3 {
		return "-"
	}
	var blob []byte
	switch vtext(arr[0]) {
	case "i4":
		if len(arr) >= 5 {
			blob, _ = arr[4].([]byte)
		}
	case "i1":
		if len(arr) >= 4 {
			blob, _ = arr[3].([]byte)
		}
	}
	if len(blob) == 0 {
		return "-"
	}
	for _, ct := range []int{1, 2} {
		plain, err := realDecompress(ct, blob)
		if err != nil {
			continue
		}
		var v interface{}
		if err := codec.NewDecoderBytes(plain, newCodecMsgpackHandle()).Decode(&v); err == nil {
			return nonceOf(v)
		}
	}
	return "-"
}

// verifDescribeFrame: what NextFrame returned, for the site-level trace:
//   resp <seq> <found 0/1> <payload nonce> <appErr 0/1> | call <seq> <known 0/1> <arg nonce> | notify <known> <arg nonce>
//   | cancel <seq> | none   — followed by the class of the error (nil / notfound / fatal)
func verifDescribeFrame(m rpcMessage, err error) string {
	cls := "nil"
	if err != nil {
		if shouldContinue(err) {
			cls = "notfound"
		} else {
			cls = "fatal"
		}
	}
	b01 := func(b bool) int {
		if b {
			return 1
		}
		return 0
	}
	argNonce := func(a interface{}) string {
		if p, ok := a.(*interface{}); ok && p != nil {
			return nonceOf(*p)
		}
		return nonceOf(a)
	}
	switch x := m.(type) {
	case nil:
		return "none " + cls
	case *rpcResponseMessage:
		pay := "-"
		seq := int(x.SeqNo())
		if x.c != nil {
			pay = nonceOf(x.c.res)
		} else if nf, ok := unboxRPCError(err).(CallNotFoundError); ok {
			seq = int(nf.seqno)
		}
		return fmt.Sprintf("resp %d %d %s %d %s", seq, b01(x.c != nil), pay, b01(x.responseErr != nil), cls)
	case *rpcCallMessage:
		return fmt.Sprintf("call %d %d %s %s", int(x.SeqNo()), b01(x.Err() == nil), argNonce(x.arg), cls)
	case *rpcCallCompressedMessage:
		return fmt.Sprintf("call %d %d %s %s", int(x.SeqNo()), b01(x.Err() == nil), argNonce(x.arg), cls)
	case *rpcNotifyMessage:
		return fmt.Sprintf("notify %d %s %s", b01(x.Err() == nil), argNonce(x.arg), cls)
	case *rpcCancelMessage:
		return fmt.Sprintf("cancel %d %s", int(x.SeqNo()), cls)
	}
	return "other " + cls
}

type sessTagKey struct{}

type endpoint struct {
	id   int
	conn *simConn
	xp   *transport
	cli  *Client
	srv  *Server
	nh   int // handler invocations so far
}

type session struct {
	r     *schedRun
	ep    [2]*endpoint
	max   int32
	nops  int
	late  []func() // late-write checks
	hctx  map[string]context.Context
	holds int
	extra int          // extra bytes a handler adds to its result (reply larger than the request)
	frames [2][][]byte // frames written by each endpoint, in order
	regDone   bool      // the late protocol has been registered
	injDone   bool      // every scripted frame has been injected
	slowReply int       // endpoint whose first reply stalls mid-frame
	shared bool         // every caller's context derives from ONE tagged parent context
	nwr    [2]int       // Write calls seen per endpoint
	wfail  [2]int       // index of the Write call that fails on each endpoint (-1: none); the connection stays up
	done   map[int]bool // callers that have returned
}

func outcomeOf(err error) string {
	switch {
	case err == nil:
		return "ok"
	case err == io.EOF:
		return "eof"
	case err == context.Canceled:
		return "canceled"
	case err == context.DeadlineExceeded:
		return "deadline"
	}
	s := err.Error()
	if strings.HasPrefix(s, "frame length too big") {
		return "toobig"
	}
	if strings.HasPrefix(s, "app:") {
		return "app:" + fmt.Sprintf("%x", s[4:])
	}
	if strings.Contains(s, "unencodable argument") {
		return "encodeerr"
	}
	if strings.Contains(s, "not found") {
		return "notfound"
	}
	if strings.Contains(s, "closed") || strings.Contains(s, "write") {
		return "writeerr"
	}
	return "other:" + fmt.Sprintf("%x", s)
}

func nonceOf(v interface{}) string {
	switch x := v.(type) {
	case int64:
		return fmt.Sprint(x)
	case uint64:
		return fmt.Sprint(x)
	case int:
		return fmt.Sprint(x)
	case map[interface{}]interface{}:
		if n, ok := x["n"]; ok {
			return nonceOf(n)
		}
	case map[string]interface{}:
		if n, ok := x["n"]; ok {
			return nonceOf(n)
		}
	case *interface{}:
		if x != nil {
			return nonceOf(*x)
		}
	}
	return "-"
}

func (s *session) newEndpoint(id int, c *simConn) *endpoint {
	verifSetEp(id) // the goroutines the constructors start work for this endpoint
	e := &endpoint{id: id, conn: c}
	c.onWrite = func(p []byte) error {
		verifPoint("conn.Write")
		k := s.nwr[id]
		s.nwr[id]++
		if k == s.wfail[id] {
			// this Write fails, nothing reaches the wire, the connection stays up
			s.r.ev("wrf %d %x %s", id, p, payloadNonce(p))
			return errors.New("sim: write failed")
		}
		s.r.ev("wr %d %x %s", id, p, payloadNonce(p))
		s.frames[id] = append(s.frames[id], append([]byte(nil), p...))
		return nil
	}
	c.onWritten = func(n, total int) {
		if n != total {
			s.r.ev("wrp %d %d %d", id, n, total)
		}
	}
	if s.slowReply == id {
		first := true
		c.slowAt = func(p []byte) (int, time.Duration) {
			pl := prefixLen(p)
			if first && len(p) > pl+8 && p[pl] == 0x94 && p[pl+1] == 0x01 {
				first = false
				return pl + 4, 7 * time.Second
			}
			return 0, 0
		}
	}
	c.onResult = func(err error) {
		if err == nil {
			verifTrace("wres %d ok", id)
		} else {
			verifTrace("wres %d err", id)
		}
	}
	e.xp = NewTransport(c, sessLogFactory{s.r, id}, &recStorage{s.r, id}, nil, s.max).(*transport)
	// the client's tag-extraction function: the context value under sessTagKey travels as the RPC tag "sid"
	tagsFunc := func(ctx context.Context) (map[interface{}]string, bool) {
		return map[interface{}]string{sessTagKey{}: "sid"}, true
	}
	e.cli = NewClientWithSendNotifier(e.xp, nil, tagsFunc, func(q SeqNumber) { s.r.ev("sn %d %d", id, int(q)) })
	e.srv = NewServer(e.xp, nil)
	mk := func() interface{} { return new(interface{}) }
	wrap := func(method string, body func(ctx context.Context, h int, arg interface{}) (interface{}, error)) ServeHandlerDescription {
		return ServeHandlerDescription{MakeArg: mk, Handler: func(ctx context.Context, arg interface{}) (interface{}, error) {
			h := e.nh
			e.nh++
			tg := tagsCode(TagsFromContext(ctx))
			s.r.ev("iv %d %d %s %s %d", id, h, method, nonceOf(arg), tg)
			s.hctx[fmt.Sprintf("%d/%d", id, h)] = ctx
			res, err := body(ctx, h, arg)
			ce := 0
			if ctx.Err() != nil {
				ce = 1
			}
			er := 0
			if err != nil {
				er = 1
			}
			s.r.ev("he %d %d %s %d %d", id, h, nonceOf(res), er, ce)
			return res, err
		}}
	}
	reply := func(arg interface{}) interface{} {
		// results echo the nonce shifted, wrapped the same way as the argument
		switch x := (*(arg.(*interface{}))).(type) {
		case int64:
			return x + 1000000
		case uint64:
			return int64(x) + 1000000
		case map[interface{}]interface{}:
			n, _ := x["n"].(int64)
			if u, ok := x["n"].(uint64); ok {
				n = int64(u)
			}
			res := map[string]interface{}{"n": n + 1000000, "pad": x["pad"]}
			if s.extra > 0 {
				res["extra"] = strings.Repeat("y", s.extra)
			}
			return res
		}
		return nil
	}
	_ = e.srv.Register(Protocol{Name: "p", Methods: map[string]ServeHandlerDescription{
		"echo": wrap("echo", func(_ context.Context, _ int, arg interface{}) (interface{}, error) {
			return reply(arg), nil
		}),
		"hold": wrap("hold", func(_ context.Context, _ int, arg interface{}) (interface{}, error) {
			verifPoint("handler.hold")
			verifPoint("handler.hold2")
			return reply(arg), nil
		}),
		"wait": wrap("wait", func(ctx context.Context, _ int, arg interface{}) (interface{}, error) {
			verifPoint("handler.wait")
			<-ctx.Done()
			return reply(arg), nil
		}),
		"fail": wrap("fail", func(_ context.Context, _ int, arg interface{}) (interface{}, error) {
			return nil, errors.New("app:" + nonceOf(arg))
		}),
		"closer": wrap("closer", func(_ context.Context, h int, arg interface{}) (interface{}, error) {
			s.r.ev("clb %d handler%d", id, h)
			e.xp.Close()
			s.r.ev("cle %d handler%d", id, h)
			return reply(arg), nil
		}),
	}})
	return e
}

// observe reads the lifecycle accessors in an order that stays meaningful
// although other goroutines may run between the reads (the state only moves
// from open to closed): Err, Done, IsConnected, Done, Err.
func (s *session) observe(e int) string {
	verifSetEp(e)
	done := func() int {
		select {
		case <-s.ep[e].srv.Done():
			return 1
		default:
			return 0
		}
	}
	e1 := errClass(s.ep[e].srv.Err())
	d1 := done()
	cn := 0
	if s.ep[e].xp.IsConnected() {
		cn = 1
	}
	d2 := done()
	e2 := errClass(s.ep[e].srv.Err())
	return fmt.Sprintf("obs %d %s %d %d %d %s", e, e1, d1, cn, d2, e2)
}

// lateHandler: the echo handler of the protocol registered while the transport runs
func (s *session) lateHandler(id int) ServeHandlerDescription {
	e := s.ep[id]
	return ServeHandlerDescription{MakeArg: func() interface{} { return new(interface{}) },
		Handler: func(ctx context.Context, arg interface{}) (interface{}, error) {
			h := e.nh
			e.nh++
			s.r.ev("iv %d %d %s %s %d", id, h, "lecho", nonceOf(arg), tagsCode(TagsFromContext(ctx)))
			var res interface{}
			if p, ok := arg.(*interface{}); ok && p != nil {
				if n, ok := (*p).(int64); ok {
					res = n + 1000000
				} else if u, ok := (*p).(uint64); ok {
					res = int64(u) + 1000000
				}
			}
			ce := 0
			if ctx.Err() != nil {
				ce = 1
			}
			s.r.ev("he %d %d %s %d %d", id, h, nonceOf(res), 0, ce)
			return res, nil
		}}
}

func fullMethod(m string) string {
	if m == "lecho" {
		return "late." + m
	}
	if m == "big" {
		return "p." + strings.Repeat("m", 300)
	}
	return "p." + m
}

type sessOp struct {
	caller  int
	ep      int
	kind    string // call callc notify
	method  string
	nonce   int64
	ctype   int
	tagged  bool
	cancel  bool          // a canceller actor exists for this op
	timeout time.Duration // >0: client timeout
	pad     int           // payload padding (bytes) to approach the frame limit
	badarg  bool          // the argument cannot be encoded (its MarshalBinary fails)
	sid     bool          // the context carries the value the client's tag-extraction function selects
}

// unencodable fails in go-codec's encoder: a field that marshals itself
// (BinaryMarshaler + BinaryUnmarshaler) and refuses to.
type unencodableID struct{ b []byte }

func (u unencodableID) MarshalBinary() ([]byte, error) { return nil, errors.New("unencodable argument") }
func (u *unencodableID) UnmarshalBinary(b []byte) error { u.b = b; return nil }

type unencodable struct {
	A  int
	ID unencodableID
}

func (s *session) runOp(op sessOp, ctx context.Context) {
	e := s.ep[op.ep]
	verifSetEp(op.ep)
	verifTrace("op %d to=%d cancel=%v", op.caller, int64(op.timeout/time.Millisecond), op.cancel)
	var arg interface{} = op.nonce
	if op.pad > 0 {
		arg = map[string]interface{}{"n": op.nonce, "pad": strings.Repeat("x", op.pad)}
	}
	if op.badarg {
		arg = unencodable{}
	}
	// what the caller supplies: the tags of the shared parent (if any) plus its own
	want := CtxRPCTags{}
	if s.shared {
		want["s"] = int64(7)
	}
	if op.tagged {
		ctx = AddRPCTagsToContext(ctx, CtxRPCTags{"t": op.nonce})
		want["t"] = op.nonce
	}
	if op.sid && op.kind != "notify" {
		// joined by the client's tag-extraction function (calls and compressed calls only)
		ctx = context.WithValue(ctx, sessTagKey{}, int64(42))
		want["sid"] = int64(42)
	}
	tg := tagsCode(want, len(want) > 0)
	if op.badarg {
		s.r.ev("badarg %d", op.caller)
	}
	s.r.ev("cb %d %d %s %s %d %d %d", op.caller, op.ep, op.kind, op.method, op.nonce, op.ctype, tg)
	var err error
	res := new(interface{})
	switch op.kind {
	case "call":
		err = e.cli.Call(ctx, fullMethod(op.method), arg, res, op.timeout)
	case "callc":
		err = e.cli.CallCompressed(ctx, fullMethod(op.method), arg, res, CompressionType(op.ctype), op.timeout)
	case "notify":
		err = e.cli.Notify(ctx, fullMethod(op.method), arg, op.timeout)
	}
	atReturn := vtext(*res)
	s.r.ev("ce %d %s %s", op.caller, outcomeOf(err), nonceOf(res))
	s.done[op.caller] = true
	c := op.caller
	s.late = append(s.late, func() {
		if now := vtext(*res); now != atReturn {
			s.r.ev("late %d", c)
		}
	})
}

type sessPlan struct {
	ops     []sessOp
	closer  string // "", "ext0", "ext1", "cut0", "cut1"
	closers int
	max     int32
	faultAt int // step at which the closer / cut actor becomes eligible (-1: any time)
	pct     bool
	observe bool
	extra   int
	inject  []string // hostile flavour: frames injected into the traffic (kind@endpoint)
	forceAt int      // step at which the fault actor is released at the latest (-1: scheduler's choice)
	wireCap int      // capacity of each direction of the simulated connection (0: unbounded)
	stallRx int      // endpoint whose receive loop is held back for the first virtual seconds (-1: none)
	shared  bool     // callers derive their contexts from one tagged parent
	wfail   [2]int   // Write call that fails per endpoint (-1: none)
	exact bool // replies sized exactly at the frame limit: keep the paddings as they are
	lateAfterReg bool // the caller of the late-registered method starts only after the registration has completed
	slowReply int    // endpoint whose FIRST reply reaches the wire in two parts, seconds apart (-1: none)
	lazyFin bool     // callers about to finish their records run only when nothing else can (a reply that arrives
	                 // while a cancelled call is still winding up is then received before its record is finished)
}

func genPlan(g *prng, flavour string) sessPlan {
	p := sessPlan{max: 1 << 20, faultAt: -1, forceAt: -1, observe: true, stallRx: -1, wfail: [2]int{-1, -1}, slowReply: -1}
	p.shared = g.chance(1, 3)
	p.lazyFin = g.chance(1, 4)
	n := 1 + g.intn(4)
	methods := []string{"echo", "echo", "hold", "wait", "fail"}
	for i := 0; i < n; i++ {
		op := sessOp{caller: i, ep: g.intn(2), nonce: int64(100 + i*7 + g.intn(5))}
		op.kind = []string{"call", "call", "call", "callc", "notify"}[g.intn(5)]
		op.method = methods[g.intn(len(methods))]
		if op.kind == "callc" {
			op.ctype = []int{1, 2, 7, 0}[g.intn(4)]
		}
		op.tagged = g.chance(1, 3)
		op.sid = g.chance(1, 3)
		switch g.intn(5) {
		case 0:
			op.cancel = true
		case 1:
			op.timeout = time.Duration(1+g.intn(3)) * time.Second
		}
		if op.method == "wait" && !op.cancel && op.timeout == 0 {
			// a waiting handler is released by cancellation, a timeout or the close of the transport
			if g.chance(1, 2) {
				op.cancel = true
			} else {
				op.timeout = 2 * time.Second
			}
		}
		if (op.kind == "call" || op.kind == "callc") && g.chance(1, 12) {
			op.badarg = true
		}
		p.ops = append(p.ops, op)
	}
	switch flavour {
	case "slowpeer":
		// a small wire and a peer that does not read for a while: writes block mid-frame while contexts time out
		p.wireCap = 24 + g.intn(40)
		p.stallRx = g.intn(2)
		for i := range p.ops {
			p.ops[i].ep = 1 - p.stallRx
			p.ops[i].pad = 60 + g.intn(120)
			if !p.ops[i].cancel {
				p.ops[i].timeout = time.Duration(1+g.intn(2)) * time.Second
			}
			if p.ops[i].method == "wait" {
				p.ops[i].method = "echo"
			}
		}
		if g.chance(1, 3) {
			// a local Close while a Write is blocked mid-frame
			p.closer = fmt.Sprintf("ext%d", 1-p.stallRx)
			p.closers = 1
		}
		if g.chance(1, 2) {
			// a request for an unknown method arrives while the writer is stuck: the receive loop's own error reply
			// (whose context nothing cancels) queues up behind the blocked Write
			p.inject = []string{fmt.Sprintf("nfcall@%d", 1-p.stallRx)}
		}
	case "burst":
		// overlapping notification / call handlers in one direction, finishing in every order
		ep := g.intn(2)
		p.ops = nil
		nb := 3 + g.intn(4)
		for i := 0; i < nb; i++ {
			op := sessOp{caller: i, ep: ep, nonce: int64(100 + i*7 + g.intn(5))}
			op.kind = []string{"notify", "notify", "notify", "call"}[g.intn(4)]
			op.method = []string{"hold", "hold", "echo", "wait"}[g.intn(4)]
			if op.method == "wait" && op.kind == "call" {
				op.cancel = true
			}
			p.ops = append(p.ops, op)
		}
		if g.chance(1, 3) {
			// a cancellation naming a notification's task key arrives while notification handlers are running
			p.inject = []string{fmt.Sprintf("negcancel@%d", 1-ep)}
		}
		if g.chance(1, 3) {
			// several compressed calls of ONE endpoint in flight together: whatever state the compressors keep per
			// connection is used by all of them between compressing and handing the frame over
			ct := []int{1, 1, 2}[g.intn(3)]
			for i := range p.ops {
				p.ops[i].kind, p.ops[i].ctype = "callc", ct
				p.ops[i].method = []string{"echo", "echo", "hold"}[g.intn(3)]
				p.ops[i].cancel = false
				p.ops[i].pad = 8 + g.intn(8)
			}
		}
		if g.chance(1, 3) {
			p.closer = fmt.Sprintf("ext%d", 1-ep)
			p.closers = 1
		}
	case "close":
		p.closer = []string{"ext0", "ext1", "cut0", "cut1", "ext0", "handler"}[g.intn(6)]
		p.closers = 1 + g.intn(3)
		if p.closer == "handler" {
			p.ops = append(p.ops, sessOp{caller: len(p.ops), ep: g.intn(2), kind: "call", method: "closer", nonce: 900})
		}
	case "hostile":
		for k := 0; k < 1+g.intn(4); k++ {
			p.inject = append(p.inject, fmt.Sprintf("%s@%d",
				[]string{"dupresp", "strayresp", "straycancel", "nfcall", "nfnotify", "dupresp", "nflate", "negcancel"}[g.intn(8)], g.intn(2)))
		}
		if g.chance(1, 4) {
			// a fatal frame racing a local Close of the same endpoint: Err() must settle on ONE value
			ep := g.intn(2)
			p.inject = append(p.inject, fmt.Sprintf("%s@%d", []string{"garbage", "badprefix"}[g.intn(2)], ep))
			p.closer = fmt.Sprintf("ext%d", ep)
			p.closers = 1
		}
		if g.chance(1, 4) {
			// the same name asked for BEFORE its protocol is registered (not found) and called AFTER the registration
			// has completed, with little else going on: whatever the first look-up left behind must not answer the second
			p.inject = []string{"nflate@1"}
			if len(p.ops) > 1 {
				p.ops = p.ops[:1]
			}
			p.ops = append(p.ops, sessOp{caller: len(p.ops), ep: 0, kind: "call", method: "lecho", nonce: 950})
			p.lateAfterReg = true
			p.closer, p.closers = "", 0
			return p
		}
		for k, spec := range p.inject {
			if strings.HasPrefix(spec, "nflate@") {
				p.inject[k] = fmt.Sprintf("nflate@%d", len(p.inject)%2)
			}
		}
		if g.chance(1, 2) {
			// a call to a protocol that is being registered at that very time
			p.ops = append(p.ops, sessOp{caller: len(p.ops), ep: 1 - (len(p.inject) % 2), kind: "call", method: "lecho", nonce: 950})
		}
	case "slowreply":
		// a reply stalls in the middle of its frame for longer than the session takes to settle, while the context of
		// another call of the same endpoint ends: that call must return all the same
		ep := g.intn(2)
		p.ops = []sessOp{
			{caller: 0, ep: ep, kind: "call", method: "echo", nonce: 100, pad: 40 + g.intn(40)},
			{caller: 1, ep: ep, kind: []string{"call", "callc"}[g.intn(2)], method: "wait", nonce: 107, ctype: 1,
				timeout: time.Second},
		}
		if g.chance(1, 2) {
			p.ops[1].timeout = 0
			p.ops[1].cancel = true
		}
		p.slowReply = 1 - ep
		p.observe = g.chance(1, 2)
	case "wfail":
		// one Write fails on a connection that stays up; notifications and quick calls follow on the same endpoint
		ep := g.intn(2)
		p.ops = nil
		nb := 3 + g.intn(3)
		for i := 0; i < nb; i++ {
			op := sessOp{caller: i, ep: ep, nonce: int64(100 + i*7 + g.intn(5))}
			op.kind = []string{"notify", "notify", "call"}[g.intn(3)]
			op.method = "echo"
			if op.kind == "call" {
				op.timeout = 2 * time.Second // its reply may be the lost frame
			}
			p.ops = append(p.ops, op)
		}
		p.wfail[ep] = g.intn(3)
		if g.chance(1, 2) {
			p.inject = []string{fmt.Sprintf("nfcall@%d", ep)}
		}
	case "limit":
		if g.chance(1, 2) {
			p.extra = 8 + g.intn(10)
		}
		p.max = 256
		if g.chance(1, 4) {
			// replies whose content is exactly the limit (and one byte around it): request 20+pad, reply 25+pad+extra
			p.extra = 11
			ep := g.intn(2)
			p.ops = nil
			for i, pad := range []int{219, 220, 221} {
				p.ops = append(p.ops, sessOp{caller: i, ep: ep, kind: "call", method: "echo", nonce: int64(100 + i), pad: pad,
					timeout: 2 * time.Second})
			}
			p.exact = true
		}
		for i := range p.ops {
			if p.exact {
				break
			}
			if g.chance(1, 2) {
				p.ops[i].pad = 200 + g.intn(60)
			}
			if p.ops[i].kind != "notify" && g.chance(1, 5) {
				// oversized through its METHOD NAME, with a context that ends: the cancellation names the method too
				p.ops[i].method = "big"
				p.ops[i].pad = 0
				p.ops[i].badarg = false
				if g.chance(1, 2) {
					p.ops[i].cancel = true
				} else {
					p.ops[i].timeout = time.Second
				}
			}
		}
	}
	p.pct = g.chance(1, 3)
	return p
}

// runSession executes one plan under the scheduler and returns the history.
// site-level trace of the last session (P/A/G/E lines)
var lastTlog []string

func runSession(g *prng, p sessPlan, script []string) (hist []string, trace []string, steps int) {
	r := newSchedRun(g)
	r.script = script
	// when the receive loop looks a reply's call up / decodes into the caller's result (white-box markers for C12)
	// lr: the table read itself (under the lock), after which the size of the reply is added before the loop yields again
	r.markSites = map[string]string{"call:RetrieveCall": "lk", "call:DecodeRes": "dr", "callContainer.RetrieveCall#2.stmt": "lr"}
	if p.forceAt >= 0 {
		r.forceStep = p.forceAt
		r.forceWho = []string{"@closer0", "@cutter"}
	}
	if p.pct {
		r.pct = map[string]int{}
	}
	if p.lazyFin {
		r.lazySites = map[string]bool{"dispatch.Call#2.call:RecordAndFinish": true,
			"dispatch.handleCancel#0.call:RecordAndFinish": true}
	}
	s := &session{r: r, max: p.max, hctx: map[string]context.Context{}, extra: p.extra, shared: p.shared,
		wfail: p.wfail, done: map[int]bool{}, slowReply: p.slowReply}
	baseline := libGoroutines()
	a, b := newSimPair(p.wireCap)
	if p.stallRx >= 0 {
		// the receive loop goroutines are started by setup in endpoint order
		name := fmt.Sprintf("transport.receiveFrames#0.go/%d", p.stallRx)
		t0 := time.Now()
		r.holds[name] = func(int) bool { return time.Since(t0) >= 8*time.Second }
	}
	// constructing the transports starts library goroutines: do it in an actor
	ready := false
	r.spawn("setup", func() {
		s.ep[0] = s.newEndpoint(0, a)
		s.ep[1] = s.newEndpoint(1, b)
		verifSetEp(0)
		s.ep[0].srv.Run()
		verifSetEp(1)
		s.ep[1].srv.Run()
		ready = true
	})
	r.quiet()
	if !ready {
		r.ev("harness setup-incomplete")
		r.finish()
		return r.hist, r.trace, r.steps
	}
	parent := context.Background()
	if p.shared {
		parent = AddRPCTagsToContext(parent, CtxRPCTags{"s": int64(7)})
	}
	for _, op := range p.ops {
		op := op
		ctx, cancel := context.WithCancel(parent)
		r.spawn(fmt.Sprintf("c%d", op.caller), func() { s.runOp(op, ctx); cancel() })
		if p.lateAfterReg && op.method == "lecho" {
			r.hold(fmt.Sprintf("c%d", op.caller), func(int) bool { return s.regDone })
		}
		if op.cancel {
			r.spawn(fmt.Sprintf("x%d", op.caller), func() {
				r.ev("cx %d", op.caller)
				cancel()
			})
		}
	}
	switch {
	case strings.HasPrefix(p.closer, "ext"):
		ep := int(p.closer[3] - '0')
		for k := 0; k < p.closers; k++ {
			k := k
			name := fmt.Sprintf("closer%d", k)
			r.spawn(name, func() {
				verifSetEp(ep)
				r.ev("clb %d ext%d", ep, k)
				s.ep[ep].xp.Close()
				r.ev("cle %d ext%d", ep, k)
			})
			if p.faultAt >= 0 {
				at := p.faultAt
				r.hold(name, func(step int) bool { return step >= at })
			}
		}
	case strings.HasPrefix(p.closer, "cut"):
		ep := int(p.closer[3] - '0')
		r.spawn("cutter", func() {
			r.ev("cut %d", ep)
			s.ep[ep].conn.Close()
		})
		if p.faultAt >= 0 {
			at := p.faultAt
			r.hold("cutter", func(step int) bool { return step >= at })
		}
	}
	if len(p.inject) > 0 {
		// protocols can be registered while the transport is running: must not be affected by earlier not-found frames
		if p.lateAfterReg {
			// the registration waits for the scripted not-found call to have been injected (it may still be in flight)
			r.hold("reg", func(int) bool { return s.injDone })
		}
		r.spawn("reg", func() {
			verifPoint("@reg.wait")
			verifPoint("@reg.wait2")
			ep := len(p.inject) % 2
			r.ev("regb %d", ep)
			_ = s.ep[ep].srv.Register(Protocol{Name: "late", Methods: map[string]ServeHandlerDescription{
				"lecho": s.lateHandler(ep)}})
			r.ev("rege %d", ep)
			s.regDone = true
		})
		r.spawn("inj", func() {
			enc := &altEnc{}
			for k, spec := range p.inject {
				verifPoint("@inj.next")
				kind := spec[:strings.Index(spec, "@")]
				ep := int(spec[len(spec)-1] - '0')
				var body bytes.Buffer
				switch kind {
				case "dupresp":
					// repeat the last reply the peer sent to this endpoint
					var last []byte
					for _, f := range s.frames[1-ep] {
						if len(f) > 2 && f[prefixLen(f)] == 0x94 && f[prefixLen(f)+1] == 0x01 {
							last = f
						}
					}
					if last == nil {
						continue
					}
					r.ev("inj %d dupresp", ep)
					s.ep[ep].conn.inject(last)
					continue
				case "strayresp":
					body.WriteByte(0x94)
					enc.intv(&body, 1)
					enc.intv(&body, int64(9000+k))
					enc.value(&body, nil)
					enc.value(&body, int64(5))
				case "straycancel":
					body.WriteByte(0x93)
					enc.intv(&body, 3)
					enc.intv(&body, int64(9000+k))
					enc.str(&body, []byte("p.echo"))
				case "negcancel":
					// a cancellation naming the task key of a NOTIFICATION (-2 is the first one's): no conforming client
					// sends it; whatever it does to that handler, closing the transport must still cancel it
					body.WriteByte(0x93)
					enc.intv(&body, 3)
					enc.intv(&body, int64(-2-(k%2)))
					enc.str(&body, []byte("p.wait"))
				case "nfcall":
					body.WriteByte(0x94)
					enc.intv(&body, 0)
					enc.intv(&body, int64(7000+k))
					enc.str(&body, []byte("p.nope"))
					enc.value(&body, int64(1))
				case "nflate":
					// a call to the protocol that is being registered at that time, under the very name the
					// scenario's own caller uses afterwards (the nonce range 7000.. is the scripted peer's)
					body.WriteByte(0x94)
					enc.intv(&body, 0)
					enc.intv(&body, int64(7100+k))
					enc.str(&body, []byte("late.lecho"))
					enc.value(&body, int64(7700+k))
				case "nfnotify":
					body.WriteByte(0x93)
					enc.intv(&body, 2)
					enc.str(&body, []byte("nope.x"))
					enc.value(&body, int64(1))
				case "garbage":
					// a frame with a valid length and an invalid type: fatal for the receiving transport
					body.WriteByte(0x94)
					enc.intv(&body, 9)
					enc.intv(&body, 1)
					enc.str(&body, []byte("x"))
					enc.value(&body, nil)
				}
				var fr bytes.Buffer
				if kind == "badprefix" {
					// a length prefix that arrives intact but is a msgpack string, not an integer: fatal for the receiver
					fr.Write([]byte{0xa1, 'x'})
					kind = "garbage"
				} else {
					enc.intv(&fr, int64(body.Len()))
					fr.Write(body.Bytes())
				}
				r.ev("inj %d %s", ep, kind)
				s.ep[ep].conn.inject(fr.Bytes())
			}
			s.injDone = true
		})
	}
	if p.observe {
		r.spawn("obs", func() {
			last := [2]string{}
			for i := 0; i < 12; i++ {
				verifPoint("@obs.tick")
				for e := 0; e < 2; e++ {
					cur := s.observe(e)
					if cur != last[e] {
						last[e] = cur
						r.ev("%s", cur)
					}
				}
			}
		})
	}
	r.quiet()
	// let client timeouts fire
	for i := 0; i < 4; i++ {
		r.advance(time.Second)
	}
	r.ev("settled")
	if p.slowReply >= 0 {
		// let the stalled frame complete before anything is torn down
		for i := 0; i < 5; i++ {
			r.advance(time.Second)
		}
	}
	if p.stallRx >= 0 {
		// the stalled peer starts reading again: let the backlog drain before anything is torn down
		r.holds = map[string]func(int) bool{}
		r.quiet()
		for i := 0; i < 3; i++ {
			r.advance(time.Second)
		}
	}
	// replies that arrive after their calls have returned: every seqno an endpoint has issued so far, once all of
	// its callers are back (hostile / damaged peer; the calls must be gone from the table, C11/C12)
	if len(s.done) == len(p.ops) && s.ep[0] != nil && s.ep[1] != nil {
		// what was written late BEFORE this phase is reported as such
		for k, f := range s.late {
			before := len(r.hist)
			f()
			if len(r.hist) > before {
				s.late[k] = func() {}
			}
		}
		r.spawn("oldresp", func() {
			enc := &altEnc{}
			for e := 0; e < 2; e++ {
				n := int(reflect.ValueOf(&s.ep[e].xp.calls.seqid).Elem().Int())
				if n == 0 || n > 16 {
					continue
				}
				r.ev("inj %d oldresp", e)
				for q := 0; q < n; q++ {
					var body, fr bytes.Buffer
					body.WriteByte(0x94)
					enc.intv(&body, 1)
					enc.intv(&body, int64(q))
					enc.value(&body, nil)
					// a reply is decoded according to the compression type of the call it finds: make it well-formed
					// for whatever is (wrongly) still registered under this seqno
					ct := 0
					if c := s.ep[e].xp.calls.calls[SeqNumber(q)]; c != nil {
						ct = int(c.ctype)
					}
					if ct == 1 || ct == 2 {
						enc.bin(&body, realCompress(ct, codecEncode(int64(4242))))
					} else {
						enc.value(&body, int64(4242))
					}
					enc.intv(&fr, int64(body.Len()))
					fr.Write(body.Bytes())
					s.ep[e].conn.inject(fr.Bytes())
				}
			}
		})
		r.quiet()
		for k, f := range s.late {
			before := len(r.hist)
			f()
			if len(r.hist) > before {
				// reported now, not again at the end
				r.hist[len(r.hist)-1] = strings.Replace(r.hist[len(r.hist)-1], "late ", "lateo ", 1)
				s.late[k] = func() {}
			}
		}
	}
	// observe once more, then tear down what is still open
	r.spawn("teardown", func() {
		for e := 0; e < 2; e++ {
			r.ev("%s", s.observe(e))
			r.ev("pend %d %d", e, len(s.ep[e].xp.calls.calls))
		}
		verifTrace("teardown")
		for e := 0; e < 2; e++ {
			verifSetEp(e)
			r.ev("clb %d teardown", e)
			s.ep[e].xp.Close()
			r.ev("cle %d teardown", e)
		}
	})
	r.quiet()
	for i := 0; i < 3; i++ {
		r.advance(time.Second)
	}
	for _, f := range s.late {
		f()
	}
	for _, g := range r.s.parkedList() {
		r.ev("stuck %s %s", g.name, g.site)
	}
	r.finish()
	synctest.Wait()
	lastTlog = append([]string(nil), r.s.tlog...)
	for _, e := range s.ep {
		if e != nil {
			r.ev("obsfinal %d %s", e.id, errClass(e.srv.Err()))
		}
	}
	now := libGoroutines()
	for _, id := range sortedKeys(now) {
		if _, ok := baseline[id]; !ok {
			r.ev("leak %s", strings.ReplaceAll(now[id], " ", ""))
		}
	}
	return r.hist, r.trace, r.steps
}

func init() {
	verifModes["session"] = func(c *vctx) {
		flavours := strings.Split(c.envOr("VERIF_FLAVOURS", "plain,close,limit,hostile,faultat,burst,slowpeer,wfail,slowreply"), ",")
		leaks := 0
		var totalSteps int
		var faBase *sessPlan
		var faSeed uint64
		var faK, faSteps int
		faStride := 3
		if c.tier == "thorough" {
			faStride = 0
		}
		var tlogFile *bufio.Writer
		if p := os.Getenv("VERIF_TLOG_FILE"); p != "" {
			if fh, err := os.Create(p); err == nil {
				tlogFile = bufio.NewWriterSize(fh, 1<<20)
				defer fh.Close()
				defer tlogFile.Flush()
			}
		}
		synctest.Test(c.t, func(t *testing.T) {
			g := newPrng(c.seed, 31)
			for i := 0; i < c.n; i++ {
				fl := flavours[i%len(flavours)]
				pg := g.fork()
				sg := g.fork()
				var plan sessPlan
				if fl == "faultat" {
					// fault at every point: the same plan and schedule, with the close / cut released at step k
					if faBase == nil || faK > faSteps {
						bp := genPlan(pg, "close")
						bp.pct = false
						faBase, faSeed, faK = &bp, sg.s, 0
						hold := *faBase
						hold.forceAt = 1 << 30
						_, _, faSteps = runSession(&prng{s: faSeed}, hold, nil)
					}
					plan = *faBase
					plan.forceAt = faK
					faK += 1 + faStride
					sg = &prng{s: faSeed}
				} else {
					plan = genPlan(pg, fl)
				}
				atomic.AddInt64(&verifProgress, 1)
				hist, trace, steps := runSession(sg, plan, nil)
				totalSteps += steps
				for _, h := range hist {
					if strings.HasPrefix(h, "leak") || strings.HasPrefix(h, "stuck") {
						leaks++
					}
				}
				c.note("%s scen=%d steps=%d ops=%d closer=%s pct=%v force=%d inj=%d shared=%v lazyfin=%v", fl, i, steps, len(plan.ops), plan.closer, plan.pct, plan.forceAt, len(plan.inject), plan.shared, plan.lazyFin)
				c.op("mon %d %s", plan.max, strings.Join(hist, " ; "))
				c.res("ok")
				if os.Getenv("VERIF_TLOG") != "" {
					fmt.Printf("TLOG %d %s\n%s\n", i, fl, strings.Join(lastTlog, "\n"))
				}
				if tlogFile != nil {
					fmt.Fprintf(tlogFile, "TLOG %d %s\n%s\n", i, fl, strings.Join(lastTlog, "\n"))
				}
				if os.Getenv("VERIF_TRACE") != "" {
					fmt.Printf("TRACE %d %s\n", i, strings.Join(trace, " "))
				}
			}
			fmt.Printf("STAT schedules_explored %d\nSTAT scheduling_steps %d\nSTAT leaky_scenarios %d\n", c.n, totalSteps, leaks)
			c.ops.Flush()
			c.out.Flush()
			c.meta.Flush()
			if tlogFile != nil {
				tlogFile.Flush()
			}
			if leaks > 0 {
				// leaked goroutines stay blocked for ever: leaving the bubble would be reported as a deadlock
				os.Exit(0)
			}
		})
	}
}

func (c *vctx) envOr(k, def string) string {
	if v := os.Getenv(k); v != "" {
		return v
	}
	return def
}
