//go:build verif

package rpc

// compress (C06): the two laws the compression plumbing theorems assume of a
// compressor — decompress(compress(x)) = x, compress(x) non-empty — checked on
// the real gzip / msgpackzip compressors, under concurrent reuse of the pools
// and right after failed decompressions; corruption never panics and, for
// gzip, never yields a different value.
//
// tls (C17): ConnectionTransportTLS.Dial through an in-memory dialer against a
// scripted tls.Server (certificates generated here), under virtual time.

import (
	"bytes"
	"crypto/ecdsa"
	"crypto/elliptic"
	crand "crypto/rand"
	"crypto/tls"
	"crypto/x509"
	"crypto/x509/pkix"
	"encoding/pem"
	"fmt"
	"math/big"
	"net"
	"os"
	"strings"
	"sync"
	"testing"
	"testing/synctest"
	"time"

	"golang.org/x/net/context"
)

func genPayload(g *prng) []byte {
	switch g.intn(7) {
	case 0:
		return []byte{}
	case 1:
		return g.bytes(1 + g.intn(4))
	case 2:
		return g.bytes(100 + g.intn(3000)) // incompressible
	case 3:
		return bytes.Repeat([]byte{byte(g.next())}, 1+g.intn(5000)) // highly repetitive
	case 4:
		return bytes.Repeat(g.bytes(1+g.intn(8)), 1+g.intn(800))
	case 5:
		return codecEncode(g.value(3)) // msgpack, what the library actually compresses
	default:
		return g.bytes(g.intn(70000))
	}
}

func safely(f func() ([]byte, error)) (out []byte, err error, panicked interface{}) {
	defer func() {
		if r := recover(); r != nil {
			panicked = r
		}
	}()
	out, err = f()
	return
}

func init() {
	verifModes["compress"] = func(c *vctx) {
		g := newPrng(c.seed, 71)
		comps := map[string]compressor{"gzip": newGzipCompressor(), "msgpackzip": newMsgpackzipCompressor()}
		var nLaw, nCorrupt, nConc int
		fail := func(format string, a ...interface{}) {
			c.note("compress")
			c.op("selfcheck")
			c.res("FAIL "+format, a...)
		}
		pass := func(what string) {
			c.note("compress %s", what)
			c.op("selfcheck")
			c.res("ok")
		}
		for i := 0; i < c.n; i++ {
			name := []string{"gzip", "msgpackzip"}[i%2]
			cp := comps[name]
			x := genPayload(g)
			if name == "msgpackzip" {
				// msgpackzip compresses msgpack documents
				x = codecEncode(g.value(3))
			}
			// law 1 + 2
			z, err, p := safely(func() ([]byte, error) { return cp.Compress(x) })
			if p != nil || err != nil {
				fail("%s compress len=%d err=%v panic=%v", name, len(x), err, p)
				continue
			}
			if len(z) == 0 {
				fail("%s compress produced an empty payload for len=%d", name, len(x))
				continue
			}
			y, err, p := safely(func() ([]byte, error) { return cp.Decompress(z) })
			if p != nil || err != nil || !bytes.Equal(x, y) {
				fail("%s round trip len=%d err=%v panic=%v equal=%v", name, len(x), err, p, bytes.Equal(x, y))
				continue
			}
			nLaw++
			// corruption (small payloads exhaustively over bits in the quick tier's sample, sampled above)
			if len(z) <= 256 || g.chance(1, 8) {
				trials := 24
				if c.tier == "thorough" && len(z) <= 256 {
					trials = len(z) * 8
				}
				bad := false
				for t := 0; t < trials && !bad; t++ {
					zz := append([]byte(nil), z...)
					pos := g.intn(len(zz))
					if trials == len(z)*8 {
						pos = t / 8
						zz[pos] ^= 1 << uint(t%8)
					} else if g.chance(1, 2) {
						zz[pos] ^= 1 << uint(g.intn(8))
					} else {
						zz[pos] = byte(g.next())
					}
					out, err, p := safely(func() ([]byte, error) { return cp.Decompress(zz) })
					nCorrupt++
					if p != nil {
						fail("%s panicked on corrupted payload %x: %v", name, zz, p)
						bad = true
					} else if name == "gzip" && err == nil && !bytes.Equal(out, x) {
						fail("gzip accepted a corrupted payload and returned a different value (pos %d) %x", pos, zz)
						bad = true
					}
					// reuse right after a (possibly failed) decompression
					y2, err2, p2 := safely(func() ([]byte, error) { return cp.Decompress(z) })
					if p2 != nil || err2 != nil || !bytes.Equal(y2, x) {
						fail("%s decompression after a failed one: err=%v panic=%v", name, err2, p2)
						bad = true
					}
				}
				if bad {
					continue
				}
			}
			pass(name)
		}
		// concurrent reuse of the pooled state
		for round := 0; round < 1+c.n/200; round++ {
			var wg sync.WaitGroup
			errs := make(chan string, 64)
			for w := 0; w < 16; w++ {
				gw := g.fork()
				wg.Add(1)
				go func() {
					defer wg.Done()
					for k := 0; k < 20; k++ {
						name := []string{"gzip", "msgpackzip"}[k%2]
						cp := comps[name]
						x := genPayload(gw)
						if name == "msgpackzip" {
							x = codecEncode(gw.value(3))
						}
						if gw.chance(1, 4) {
							// poison: a failed decompression in between
							_, _, _ = safely(func() ([]byte, error) { return cp.Decompress(gw.bytes(1 + gw.intn(30))) })
						}
						z, err, p := safely(func() ([]byte, error) { return cp.Compress(x) })
						if err != nil || p != nil {
							errs <- fmt.Sprintf("%s concurrent compress err=%v panic=%v", name, err, p)
							return
						}
						y, err, p := safely(func() ([]byte, error) { return cp.Decompress(z) })
						if err != nil || p != nil || !bytes.Equal(x, y) {
							errs <- fmt.Sprintf("%s concurrent round trip len=%d err=%v panic=%v", name, len(x), err, p)
							return
						}
					}
				}()
			}
			wg.Wait()
			close(errs)
			ok := true
			for e := range errs {
				fail("%s", e)
				ok = false
			}
			if ok {
				pass("concurrent")
			}
			nConc += 16 * 20
		}
		fmt.Printf("STAT roundtrips %d\nSTAT corruptions %d\nSTAT concurrent_roundtrips %d\n", nLaw, nCorrupt, nConc)
	}
}

// ---------------------------------------------------------------- TLS

type certKit struct {
	caPEM      []byte
	ca         *x509.Certificate
	caKey      *ecdsa.PrivateKey
	otherCAPEM []byte
	otherCA    *x509.Certificate
	otherKey   *ecdsa.PrivateKey
}

func mkCA(cn string, now time.Time) (*x509.Certificate, *ecdsa.PrivateKey, []byte) {
	key, _ := ecdsa.GenerateKey(elliptic.P256(), crand.Reader)
	tpl := &x509.Certificate{SerialNumber: big.NewInt(1), Subject: pkix.Name{CommonName: cn},
		NotBefore: now.Add(-24 * time.Hour), NotAfter: now.Add(24 * time.Hour * 365),
		IsCA: true, KeyUsage: x509.KeyUsageCertSign | x509.KeyUsageDigitalSignature, BasicConstraintsValid: true}
	der, err := x509.CreateCertificate(crand.Reader, tpl, tpl, &key.PublicKey, key)
	if err != nil {
		panic(err)
	}
	cert, _ := x509.ParseCertificate(der)
	return cert, key, pem.EncodeToMemory(&pem.Block{Type: "CERTIFICATE", Bytes: der})
}

func mkLeaf(kind string, kit *certKit, now time.Time) tls.Certificate {
	key, _ := ecdsa.GenerateKey(elliptic.P256(), crand.Reader)
	tpl := &x509.Certificate{SerialNumber: big.NewInt(2), Subject: pkix.Name{CommonName: "server"},
		NotBefore: now.Add(-time.Hour), NotAfter: now.Add(24 * time.Hour),
		KeyUsage: x509.KeyUsageDigitalSignature, ExtKeyUsage: []x509.ExtKeyUsage{x509.ExtKeyUsageServerAuth},
		DNSNames: []string{"good.example.com"}}
	parent, pkey := kit.ca, kit.caKey
	switch kind {
	case "otherca":
		parent, pkey = kit.otherCA, kit.otherKey
	case "othername":
		tpl.DNSNames = []string{"evil.example.com"}
	case "expired":
		tpl.NotBefore, tpl.NotAfter = now.Add(-48*time.Hour), now.Add(-24*time.Hour)
	case "selfsigned":
		parent, pkey = tpl, key
	}
	der, err := x509.CreateCertificate(crand.Reader, tpl, parent, &key.PublicKey, pkey)
	if err != nil {
		panic(err)
	}
	return tls.Certificate{Certificate: [][]byte{der}, PrivateKey: key}
}

type memDialer struct {
	serve func(net.Conn)
	dials int
	conns []*simConn
}

func (d *memDialer) SetOpts(time.Duration, time.Duration) {}
func (d *memDialer) Dial(ctx context.Context, network, addr string) (net.Conn, error) {
	d.dials++
	a, b := newSimPair(0)
	d.conns = append(d.conns, a)
	go d.serve(b)
	return a, nil
}

func init() {
	verifModes["tls"] = func(c *vctx) {
		synctest.Test(c.t, func(t *testing.T) {
			now := time.Now()
			kit := &certKit{}
			kit.ca, kit.caKey, kit.caPEM = mkCA("good ca", now)
			kit.otherCA, kit.otherKey, kit.otherCAPEM = mkCA("other ca", now)
			certs := []string{"valid", "otherca", "othername", "expired", "selfsigned"}
			behaviours := []string{"handshake", "stall", "close"}
			ctors := []string{"rootpem", "config", "config-mutated", "dialable-pem"}
			timeouts := []time.Duration{0, 5 * time.Second}
			g := newPrng(c.seed, 73)
			n := 0
			for _, ctor := range ctors {
				for _, ck := range certs {
					for _, bh := range behaviours {
						to := timeouts[g.intn(2)]
						leaf := mkLeaf(ck, kit, now)
						d := &memDialer{serve: func(conn net.Conn) {
							switch bh {
							case "stall":
								// accept and never answer
								buf := make([]byte, 1)
								_, _ = conn.Read(buf)
								<-make(chan struct{})
							case "close":
								buf := make([]byte, 16)
								_, _ = conn.Read(buf)
								conn.Close()
							default:
								srv := tls.Server(conn, &tls.Config{Certificates: []tls.Certificate{leaf}, Time: time.Now})
								_ = srv.Handshake()
								// keep the connection open; the transport is closed by the client below
								buf := make([]byte, 1)
								_, _ = srv.Read(buf)
							}
						}}
						ct := &ConnectionTransportTLS{
							srvRemote:        NewFixedRemote("good.example.com:443"),
							maxFrameLength:   1 << 20,
							logFactory:       quietLogFactory(),
							handshakeTimeout: to,
							dialable:         d,
							log:              newConnectionLogUnstructured(quietOut{}, "T"),
						}
						var userCfg *tls.Config
						switch ctor {
						case "rootpem", "dialable-pem":
							ct.rootCerts = kit.caPEM
						default:
							pool := x509.NewCertPool()
							pool.AppendCertsFromPEM(kit.caPEM)
							userCfg = &tls.Config{RootCAs: pool, ServerName: "good.example.com", Time: time.Now}
							ct.tlsConfig = copyTLSConfig(userCfg)
							if ctor == "config-mutated" {
								// later changes by the caller must have no effect
								userCfg.InsecureSkipVerify = true
								userCfg.ServerName = "evil.example.com"
								userCfg.RootCAs = x509.NewCertPool()
							}
						}
						start := time.Now()
						type res struct {
							xp  Transporter
							err error
						}
						ch := make(chan res, 1)
						go func() {
							xp, err := ct.Dial(context.Background())
							ch <- res{xp, err}
						}()
						var r res
						select {
						case r = <-ch:
						case <-time.After(10 * time.Minute):
							r = res{nil, fmt.Errorf("DIAL-BLOCKED")}
						}
						elapsed := time.Since(start)
						outcome := "ok"
						if r.err != nil {
							switch {
							case r.err.Error() == "handshake timeout":
								outcome = "timeout"
							case r.err.Error() == "DIAL-BLOCKED":
								outcome = "blocked"
							default:
								outcome = "fail"
							}
						}
						created := 0
						ct.mutex.Lock()
						if ct.stagedTransport != nil || ct.transport != nil || ct.conn != nil {
							created = 1
						}
						ct.mutex.Unlock()
						n++
						c.note("tls ctor=%s cert=%s behaviour=%s", ctor, ck, bh)
						c.op("tlsdial %s %s %d", ck, bh, int64(to/time.Millisecond))
						c.res("%s created=%d elapsed=%d", outcome, created, int64(elapsed/time.Millisecond))
						// the same transport then dials ANOTHER host, whose server presents this very certificate
						// (valid for good.example.com only): the name check must follow the dialed address
						if bh == "handshake" {
							ct.srvRemote = NewFixedRemote("other.example.com:443")
							go func() {
								xp, err := ct.Dial(context.Background())
								ch <- res{xp, err}
							}()
							var r2 res
							select {
							case r2 = <-ch:
							case <-time.After(10 * time.Minute):
								r2 = res{nil, fmt.Errorf("DIAL-BLOCKED")}
							}
							out2 := "ok"
							if r2.err != nil {
								out2 = "fail"
							}
							n++
							c.note("tls ctor=%s cert=%s second-dial-other-host", ctor, ck)
							if strings.HasPrefix(ctor, "config") {
								// an explicit configuration fixes the server name: the second dial is judged like the first
								c.op("tlsdial %s %s %d", ck, bh, int64(to/time.Millisecond))
								c.res("%s created=%d elapsed=0", out2, map[bool]int{true: 1, false: 0}[out2 == "ok"])
							} else {
								c.op("tlsdial2 %s", ck)
								c.res("%s", out2)
							}
						}
						// a rotating remote: the address handed out by GetAddress is the one dialed AND the one whose name the
						// certificate is checked against (not the one the remote would hand out next)
						if bh == "handshake" && !strings.HasPrefix(ctor, "config") {
							rr, _ := NewPrioritizedRoundRobinRemote([][]string{{"good.example.com:443"}, {"other.example.com:443"}})
							ct3 := &ConnectionTransportTLS{srvRemote: rr, maxFrameLength: 1 << 20, logFactory: quietLogFactory(),
								handshakeTimeout: to, dialable: d, rootCerts: kit.caPEM,
								log: newConnectionLogUnstructured(quietOut{}, "T")}
							go func() {
								xp, err := ct3.Dial(context.Background())
								ch <- res{xp, err}
							}()
							var r3 res
							select {
							case r3 = <-ch:
							case <-time.After(10 * time.Minute):
								r3 = res{nil, fmt.Errorf("DIAL-BLOCKED")}
							}
							out3 := "ok"
							if r3.err != nil {
								out3 = "fail"
							}
							n++
							c.note("tls ctor=%s cert=%s rotating-remote-first-address", ctor, ck)
							c.op("tlsdial %s %s %d", ck, bh, int64(to/time.Millisecond))
							c.res("%s created=%d elapsed=0", out3, map[bool]int{true: 1, false: 0}[out3 == "ok"])
							ct3.Close()
						}
						ct.Close()
						for _, sc := range d.conns {
							sc.Close()
							sc.peerEOF()
						}
						synctest.Wait()
					}
				}
			}
			// session resumption across transports: ONE server (one tls.Config, so its session tickets stay valid) whose
			// certificate chains to the good CA only; transport X (trusting the good CA) completes a dial and reads once
			// (the tickets are delivered after the handshake); transport Y of the same process, trusting ONLY the other
			// CA, then dials the same host name: it must be refused although a resumable session for that name exists
			{
				leaf := mkLeaf("valid", kit, now)
				shared := &tls.Config{Certificates: []tls.Certificate{leaf}, Time: time.Now}
				d := &memDialer{serve: func(conn net.Conn) {
					srv := tls.Server(conn, shared)
					if srv.Handshake() == nil {
						_, _ = srv.Write([]byte{0xc0})
					}
					buf := make([]byte, 1)
					_, _ = srv.Read(buf)
				}}
				mk := func(pem []byte) *ConnectionTransportTLS {
					return &ConnectionTransportTLS{srvRemote: NewFixedRemote("good.example.com:443"), maxFrameLength: 1 << 20,
						logFactory: quietLogFactory(), dialable: d, rootCerts: pem,
						log: newConnectionLogUnstructured(quietOut{}, "T")}
				}
				x := mk(kit.caPEM)
				_, errX := x.Dial(context.Background())
				if errX == nil {
					buf := make([]byte, 1)
					_, _ = x.conn.Read(buf)
				}
				y := mk(kit.otherCAPEM)
				_, errY := y.Dial(context.Background())
				created := 0
				y.mutex.Lock()
				if y.stagedTransport != nil || y.transport != nil || y.conn != nil {
					created = 1
				}
				y.mutex.Unlock()
				outY := "ok"
				if errY != nil {
					outY = "fail"
				}
				n++
				c.note("tls resumption-across-transports firstdial=%v", errX == nil)
				c.op("tlsdial otherca handshake 0")
				c.res("%s created=%d elapsed=0", outY, created)
				x.Close()
				y.Close()
				for _, sc := range d.conns {
					sc.Close()
					sc.peerEOF()
				}
				synctest.Wait()
			}
			fmt.Printf("STAT tls_cases %d\n", n)
			c.ops.Flush()
			c.out.Flush()
			c.meta.Flush()
			// stalled server goroutines never exit: leave the bubble the hard way
			exitNow()
		})
	}
}

var _ = strings.Join

func exitNow() { os.Exit(0) }

// ---------------------------------------------------------------- built-in connection transports (C14, last clause)

type trackedDialer struct {
	mem   *memDialer
	fail  bool
	conns []*simConn
}

func (d *trackedDialer) SetOpts(time.Duration, time.Duration) {}
func (d *trackedDialer) Dial(ctx context.Context, network, addr string) (net.Conn, error) {
	if d.fail {
		return nil, fmt.Errorf("dial refused")
	}
	c, err := d.mem.Dial(ctx, network, addr)
	if err == nil {
		d.conns = append(d.conns, c.(*simConn))
	}
	return c, err
}

func simClosed(c *simConn) bool {
	select {
	case <-c.closeCh:
		return true
	default:
		return false
	}
}

func init() {
	verifModes["builtin"] = func(c *vctx) {
		synctest.Test(c.t, func(t *testing.T) {
			now := time.Now()
			kit := &certKit{}
			kit.ca, kit.caKey, kit.caPEM = mkCA("good ca", now)
			leaf := mkLeaf("valid", kit, now)
			badLeaf := mkLeaf("othername", kit, now)
			g := newPrng(c.seed, 79)
			nOps := 0
			for i := 0; i < c.n; i++ {
				useTLS := i%2 == 1
				curLeaf := leaf
				mem := &memDialer{}
				mem.serve = func(conn net.Conn) {
					srv := tls.Server(conn, &tls.Config{Certificates: []tls.Certificate{curLeaf}, Time: time.Now})
					if useTLS {
						_ = srv.Handshake()
						buf := make([]byte, 1)
						_, _ = srv.Read(buf)
					} else {
						buf := make([]byte, 1)
						_, _ = conn.Read(buf)
					}
				}
				td := &trackedDialer{mem: mem}
				var ct ConnectionTransport
				if useTLS {
					ct = &ConnectionTransportTLS{rootCerts: kit.caPEM, srvRemote: NewFixedRemote("good.example.com:443"),
						maxFrameLength: 1 << 20, logFactory: quietLogFactory(), handshakeTimeout: 5 * time.Second, dialable: td,
						log: newConnectionLogUnstructured(quietOut{}, "T")}
				} else {
					uri, _ := ParseFMPURI("fmprpc://good.example.com:443")
					ct = NewConnectionTransportWithDialable(uri, quietLogFactory(), nil, nil, 1<<20, td)
				}
				var xps []Transporter // every transport Dial returned, in order
				var xconns []*simConn // the network connection of each of them
				var current Transporter
				var staged Transporter
				var ops []string
				var states []string // open transports / network connections after every operation (vs Model/CT)
				snap := func() {
					xb, cb := "", ""
					for k, x := range xps {
						if x.IsConnected() {
							xb += "1"
						} else {
							xb += "0"
						}
						if simClosed(xconns[k]) {
							cb += "0"
						} else {
							cb += "1"
						}
					}
					states = append(states, "x="+xb+" c="+cb)
				}
				bad := ""
				check := func(what string) {
					if bad != "" {
						return
					}
					switch what {
					case "finalize":
						for _, x := range xps {
							if x != current && x.IsConnected() {
								bad = "after Finalize an earlier transport is still open"
							}
						}
						// every connection except the current transport's own is closed
						for k, sc := range xconns {
							if xps[k] != current && !simClosed(sc) {
								bad = "after Finalize the network connection of an earlier transport is still open"
							}
						}
					case "close":
						for _, x := range xps {
							if x.IsConnected() {
								bad = "after Close a transport is still open"
							}
						}
						for _, sc := range xconns {
							if !simClosed(sc) {
								bad = "after Close the network connection of a transport is still open"
							}
						}
					}
				}
				n := 2 + g.intn(8)
				func() {
					defer func() {
						if r := recover(); r != nil {
							bad = fmt.Sprintf("panic: %v", r)
						}
					}()
					for k := 0; k < n && bad == ""; k++ {
						switch r := g.intn(10); {
						case r < 3:
							td.fail = !useTLS || g.chance(1, 2)
							curLeaf = badLeaf // a TLS dial can also fail in the handshake
							_, err := ct.Dial(context.Background())
							td.fail = false
							curLeaf = leaf
							ops = append(ops, "dialfail")
							if err == nil {
								bad = "scripted dial failure succeeded"
							}
						case r < 7:
							x, err := ct.Dial(context.Background())
							ops = append(ops, "dial")
							if err != nil {
								bad = "dial failed: " + err.Error()
							} else {
								xps = append(xps, x)
								xconns = append(xconns, td.conns[len(td.conns)-1])
								staged = x
							}
						case r < 9:
							if staged != nil {
								ct.Finalize()
								current, staged = staged, nil
								ops = append(ops, "finalize")
								synctest.Wait()
								check("finalize")
							}
						default:
							ct.Close()
							ops = append(ops, "close")
							synctest.Wait()
							check("close")
							current, staged = nil, nil
						}
						nOps++
						synctest.Wait()
						if len(states) < len(ops) {
							snap()
						}
					}
					if bad == "" {
						ct.Close()
						ops = append(ops, "close")
						synctest.Wait()
						check("close")
						snap()
					}
				}()
				kind := "plain"
				if useTLS {
					kind = "tls"
				}
				c.note("builtin %s ops=%s", kind, strings.Join(ops, ","))
				c.op("selfcheck")
				if bad != "" {
					c.res("FAIL %s %s: %s", kind, strings.Join(ops, ","), bad)
				} else {
					c.res("ok")
				}
				if bad == "" && len(ops) > 0 && len(states) == len(ops) {
					// the same operations through the model of the two transports: which transports and connections are open
					c.note("builtin-model %s ops=%s", kind, strings.Join(ops, ","))
					c.op("ct %d %s", map[bool]int{true: 1, false: 0}[useTLS], strings.Join(ops, ","))
					c.res("%s", strings.Join(states, " | "))
				}
				for _, sc := range td.conns {
					sc.Close()
					sc.peerEOF()
				}
				for _, sc := range mem.conns {
					sc.Close()
				}
				synctest.Wait()
			}
			fmt.Printf("STAT builtin_ops %d\n", nOps)
			c.ops.Flush()
			c.out.Flush()
			c.meta.Flush()
			exitNow()
		})
	}
}
