//go:build verif

//go:debug asynctimerchan=0

package rpc

// Entry point of the verification harness.  These files are NOT part of the
// repository: bin/check adds them to package rpc through `go test -overlay`
// (build tag `verif`), so they can reach the package's internals without any
// exported hook.  One test, many modes; the mode, seed and output paths come
// from the environment so a run is reproducible from its command line.

import (
	"bufio"
	"fmt"
	"os"
	"runtime"
	"sort"
	"strconv"
	"sync/atomic"
	"testing"
	"time"
)

// verifProgress: bumped by the modes once per scenario (watchdog)
var verifProgress int64

type vctx struct {
	t    *testing.T
	seed uint64
	n    int
	tier string
	ops  *bufio.Writer // operations, fed to the Lean oracle
	out  *bufio.Writer // what the implementation did
	meta *bufio.Writer // per-operation annotations for the judges (category, group)
	args map[string]string
}

var verifModes = map[string]func(*vctx){}

func envInt(name string, def int) int {
	if s := os.Getenv(name); s != "" {
		if v, err := strconv.Atoi(s); err == nil {
			return v
		}
	}
	return def
}

func (c *vctx) op(format string, a ...interface{})  { fmt.Fprintf(c.ops, format+"\n", a...) }
func (c *vctx) res(format string, a ...interface{}) { fmt.Fprintf(c.out, format+"\n", a...) }
func (c *vctx) note(format string, a ...interface{}) { fmt.Fprintf(c.meta, format+"\n", a...) }

func TestVerif(t *testing.T) {
	mode := os.Getenv("VERIF_MODE")
	if mode == "" {
		t.Skip("VERIF_MODE not set")
	}
	if mode == "list" {
		var names []string
		for k := range verifModes {
			names = append(names, k)
		}
		sort.Strings(names)
		for _, k := range names {
			fmt.Println(k)
		}
		return
	}
	f, ok := verifModes[mode]
	if !ok {
		t.Fatalf("unknown VERIF_MODE %q", mode)
	}
	c := &vctx{t: t, seed: uint64(envInt("VERIF_SEED", 1)), n: envInt("VERIF_N", 1000),
		tier: os.Getenv("VERIF_TIER"), args: map[string]string{}}
	if c.tier == "" {
		c.tier = "quick"
	}
	open := func(env string) *bufio.Writer {
		p := os.Getenv(env)
		if p == "" {
			return bufio.NewWriter(os.Stdout)
		}
		fh, err := os.Create(p)
		if err != nil {
			t.Fatal(err)
		}
		t.Cleanup(func() { fh.Close() })
		return bufio.NewWriterSize(fh, 1<<20)
	}
	c.ops = open("VERIF_OPS")
	c.out = open("VERIF_OUT")
	c.meta = open("VERIF_META")
	defer c.meta.Flush()
	defer c.ops.Flush()
	defer c.out.Flush()
	// watchdog (real time, outside any synctest bubble): a scenario in which library code spins without ever blocking
	// never becomes quiescent, so the controller would wait for ever
	go func() {
		last, since := int64(-1), time.Now()
		for {
			time.Sleep(5 * time.Second)
			cur := atomic.LoadInt64(&verifProgress)
			if cur == 0 {
				continue // this mode does not report progress
			}
			if cur != last {
				last, since = cur, time.Now()
				continue
			}
			if time.Since(since) > 90*time.Second {
				fmt.Printf("HANG no progress for 90s in mode %s after %d scenarios: a goroutine of the library runs without ever blocking (busy loop)\n", mode, cur)
				buf := make([]byte, 1<<16)
				n := runtime.Stack(buf, true)
				fmt.Printf("%s\n", buf[:n])
				os.Exit(3)
			}
		}
	}()
	f(c)
}
