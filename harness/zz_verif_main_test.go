//go:build verif

//go:debug asynctimerchan=0

package rpc

// Entry point of the verification harness.  These files are NOT part of the
// repository: bin/check adds them to package rpc through `go test -overlay`
// (build tag `verif`), so they can reach the package's internals without any
// exported hook.  One test, many modes; the mode, seed and output paths come
// from the environment so a run is reproducible from its command line.

import (
	"bufio"
	"fmt"
	"os"
	"sort"
	"strconv"
	"testing"
)

type vctx struct {
	t    *testing.T
	seed uint64
	n    int
	tier string
	ops  *bufio.Writer // operations, fed to the Lean oracle
	out  *bufio.Writer // what the implementation did
	meta *bufio.Writer // per-operation annotations for the judges (category, group)
	args map[string]string
}

var verifModes = map[string]func(*vctx){}

func envInt(name string, def int) int {
	if s := os.Getenv(name); s != "" {
		if v, err := strconv.Atoi(s); err == nil {
			return v
		}
	}
	return def
}

func (c *vctx) op(format string, a ...interface{})  { fmt.Fprintf(c.ops, format+"\n", a...) }
func (c *vctx) res(format string, a ...interface{}) { fmt.Fprintf(c.out, format+"\n", a...) }
func (c *vctx) note(format string, a ...interface{}) { fmt.Fprintf(c.meta, format+"\n", a...) }

func TestVerif(t *testing.T) {
	mode := os.Getenv("VERIF_MODE")
	if mode == "" {
		t.Skip("VERIF_MODE not set")
	}
	if mode == "list" {
		var names []string
		for k := range verifModes {
			names = append(names, k)
		}
		sort.Strings(names)
		for _, k := range names {
			fmt.Println(k)
		}
		return
	}
	f, ok := verifModes[mode]
	if !ok {
		t.Fatalf("unknown VERIF_MODE %q", mode)
	}
	c := &vctx{t: t, seed: uint64(envInt("VERIF_SEED", 1)), n: envInt("VERIF_N", 1000),
		tier: os.Getenv("VERIF_TIER"), args: map[string]string{}}
	if c.tier == "" {
		c.tier = "quick"
	}
	open := func(env string) *bufio.Writer {
		p := os.Getenv(env)
		if p == "" {
			return bufio.NewWriter(os.Stdout)
		}
		fh, err := os.Create(p)
		if err != nil {
			t.Fatal(err)
		}
		t.Cleanup(func() { fh.Close() })
		return bufio.NewWriterSize(fh, 1<<20)
	}
	c.ops = open("VERIF_OPS")
	c.out = open("VERIF_OUT")
	c.meta = open("VERIF_META")
	defer c.meta.Flush()
	defer c.ops.Flush()
	defer c.out.Flush()
	f(c)
}
