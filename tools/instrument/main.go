// instrument: writes a yield-point instrumented copy of /repo/rpc's non-test
// sources (DESIGN §4.2).  The rewrite only adds code:
//
//   - `verifPoint("<func>#<n>.<kind>")` before every synchronisation
//     statement (channel send / receive, select, close, go, once.Do);
//   - `go f(x)` becomes `go verifGo(site, func() { f(x) })` with the arguments
//     still evaluated at the go statement;
//   - the types sync.Once / sync.Mutex / sync.RWMutex are replaced by
//     channel-based equivalents (verifOnce, verifMutex, verifRWMutex) with the
//     same method sets, so that a goroutine waiting for them is durably
//     blocked in the sense of testing/synctest.
//
// The copies are compiled through `go test -overlay`; /repo is never touched.
// Prints a JSON object {"sites": [...]} on stdout.
package main

import (
	"bytes"
	"encoding/json"
	"fmt"
	"go/ast"
	"go/parser"
	"go/printer"
	"go/token"
	"os"
	"path/filepath"
	"strings"
)

var fset = token.NewFileSet()
var sites []string

func render(n ast.Node) string {
	var b bytes.Buffer
	_ = printer.Fprint(&b, fset, n)
	return strings.Join(strings.Fields(b.String()), " ")
}

func pointStmt(site string) ast.Stmt {
	sites = append(sites, site)
	return &ast.ExprStmt{X: &ast.CallExpr{Fun: ast.NewIdent("verifPoint"),
		Args: []ast.Expr{&ast.BasicLit{Kind: token.STRING, Value: fmt.Sprintf("%q", site)}}}}
}

type fctx struct {
	name      string
	n         int
	everyStmt bool
	lockTrace bool
	stmtYield bool // a yield point before every other statement too, numbered apart (#s<k>) so that the names of the
	// synchronisation sites stay what they are
	m int
}

func isLockCall(s ast.Stmt) bool {
	es, ok := s.(*ast.ExprStmt)
	if !ok {
		return false
	}
	c, ok := es.X.(*ast.CallExpr)
	if !ok || len(c.Args) != 0 {
		return false
	}
	sel, ok := c.Fun.(*ast.SelectorExpr)
	return ok && sel.Sel.Name == "Lock"
}

func (c *fctx) site(kind string) string {
	s := fmt.Sprintf("%s#%d.%s", c.name, c.n, kind)
	c.n++
	return s
}

func hasRecv(e ast.Node) bool {
	found := false
	ast.Inspect(e, func(n ast.Node) bool {
		if _, ok := n.(*ast.FuncLit); ok {
			return false
		}
		if u, ok := n.(*ast.UnaryExpr); ok && u.Op == token.ARROW {
			found = true
		}
		return true
	})
	return found
}

func callName(e ast.Expr) string {
	if c, ok := e.(*ast.CallExpr); ok {
		return render(c.Fun)
	}
	return ""
}

// tracked calls: a yield point goes before a statement that calls one of
// these (accesses to the shared tables and the unsynchronised result decode)
var trackedCalls = map[string]string{"RetrieveCall": "RetrieveCall", "AddCall": "AddCall", "RemoveCall": "RemoveCall",
	"NewCall": "NewCall", "RecordAndFinish": "RecordAndFinish"}

func trackedCall(n ast.Node) string {
	found := ""
	ast.Inspect(n, func(m ast.Node) bool {
		if _, ok := m.(*ast.FuncLit); ok {
			return false
		}
		c, ok := m.(*ast.CallExpr)
		if !ok || found != "" {
			return true
		}
		name := render(c.Fun)
		if i := strings.LastIndex(name, "."); i >= 0 {
			name = name[i+1:]
		}
		if t, ok := trackedCalls[name]; ok {
			found = t
		}
		if name == "Decode" && len(c.Args) == 1 && render(c.Args[0]) == "r.c.res" {
			found = "DecodeRes"
		}
		if name == "Write" && strings.HasSuffix(render(c.Fun), "writer.Write") {
			found = "ConnWrite"
		}
		return true
	})
	return found
}

// syncKind classifies a statement that needs a yield point before it.
func syncKind(s ast.Stmt) string {
	switch x := s.(type) {
	case *ast.ExprStmt, *ast.AssignStmt:
		if _, isDefer := s.(*ast.DeferStmt); !isDefer {
			if t := trackedCall(x); t != "" && !hasRecv(x) {
				if es, ok := s.(*ast.ExprStmt); !ok || callName(es.X) != "close" {
					return "call:" + t
				}
			}
		}
	}
	switch x := s.(type) {
	case *ast.SendStmt:
		return "send"
	case *ast.SelectStmt:
		return "select"
	case *ast.GoStmt:
		return "go"
	case *ast.ExprStmt:
		if n := callName(x.X); n == "close" {
			return "close"
		} else if strings.HasSuffix(n, "Once.Do") || strings.HasSuffix(n, "once.Do") {
			return "once"
		}
		if hasRecv(x.X) {
			return "recv"
		}
	case *ast.AssignStmt:
		for _, r := range x.Rhs {
			if hasRecv(r) {
				return "recv"
			}
		}
	case *ast.ReturnStmt:
		for _, r := range x.Results {
			if hasRecv(r) {
				return "recv"
			}
		}
	case *ast.DeclStmt:
		if hasRecv(x) {
			return "recv"
		}
	}
	return ""
}

func rewriteGo(g *ast.GoStmt, site string) ast.Stmt {
	call := g.Call
	sites = append(sites, site)
	siteLit := &ast.BasicLit{Kind: token.STRING, Value: fmt.Sprintf("%q", site)}
	if fl, ok := call.Fun.(*ast.FuncLit); ok && len(call.Args) == 0 {
		return &ast.GoStmt{Call: &ast.CallExpr{Fun: ast.NewIdent("verifGoP"), Args: []ast.Expr{
			&ast.CallExpr{Fun: ast.NewIdent("verifSelf")}, &ast.CallExpr{Fun: ast.NewIdent("verifSelfEp")}, siteLit, fl}}}
	}
	// evaluate the arguments now, run the call inside the wrapper
	var stmts []ast.Stmt
	var newArgs []ast.Expr
	for i, a := range call.Args {
		tmp := ast.NewIdent(fmt.Sprintf("verifArg%d", i))
		stmts = append(stmts, &ast.AssignStmt{Lhs: []ast.Expr{tmp}, Tok: token.DEFINE, Rhs: []ast.Expr{a}})
		newArgs = append(newArgs, tmp)
	}
	inner := &ast.CallExpr{Fun: call.Fun, Args: newArgs, Ellipsis: call.Ellipsis}
	wrapper := &ast.FuncLit{Type: &ast.FuncType{Params: &ast.FieldList{}},
		Body: &ast.BlockStmt{List: []ast.Stmt{&ast.ExprStmt{X: inner}}}}
	stmts = append(stmts, &ast.GoStmt{Call: &ast.CallExpr{Fun: ast.NewIdent("verifGoP"), Args: []ast.Expr{
		&ast.CallExpr{Fun: ast.NewIdent("verifSelf")}, &ast.CallExpr{Fun: ast.NewIdent("verifSelfEp")}, siteLit, wrapper}}})
	return &ast.BlockStmt{List: stmts}
}

func (c *fctx) stmts(in []ast.Stmt) []ast.Stmt {
	var out []ast.Stmt
	for _, s := range in {
		c.inner(s)
		k := syncKind(s)
		switch {
		case k == "go":
			site := c.site("go")
			out = append(out, pointStmt(site+"@"), rewriteGo(s.(*ast.GoStmt), site))
			continue
		case k == "select":
			site := c.site(k)
			out = append(out, pointStmt(site))
			for i, cc := range s.(*ast.SelectStmt).Body.List {
				cl := cc.(*ast.CommClause)
				arm := &ast.ExprStmt{X: &ast.CallExpr{Fun: ast.NewIdent("verifArm"), Args: []ast.Expr{
					&ast.BasicLit{Kind: token.STRING, Value: fmt.Sprintf("%q", site)},
					&ast.BasicLit{Kind: token.INT, Value: fmt.Sprint(i)}}}}
				cl.Body = append([]ast.Stmt{arm}, cl.Body...)
			}
			out = append(out, s)
			continue
		case k != "":
			out = append(out, pointStmt(c.site(k)))
		case c.lockTrace && isLockCall(s):
			// Connection: the moment a locked section begins is the linearisation point of what it does
			out = append(out, s, &ast.ExprStmt{X: &ast.CallExpr{Fun: ast.NewIdent("verifLock"), Args: []ast.Expr{
				&ast.BasicLit{Kind: token.STRING, Value: fmt.Sprintf("%q", c.name)}}}})
			continue
		case c.stmtYield:
			// the size of a reply is added right after the table read that found its call: Model/Transport treats the two
			// as ONE step (rLookup), so no yield point goes between them (DESIGN §0.7, granularity)
			if strings.Contains(render(s), ".IncrementSize(") {
				break
			}
			if _, isDecl := s.(*ast.DeclStmt); !isDecl {
				if _, isDefer := s.(*ast.DeferStmt); !isDefer {
					out = append(out, pointStmt(fmt.Sprintf("%s#s%d.stmt", c.name, c.m)))
					c.m++
				}
			}
		case c.everyStmt:
			// the shared tables: a yield point before every statement, also inside their (channel-based) lock regions
			if _, isDecl := s.(*ast.DeclStmt); !isDecl {
				out = append(out, pointStmt(c.site("stmt")))
			}
		}
		out = append(out, s)
	}
	return out
}

// inner descends into nested blocks and function literals.
func (c *fctx) inner(s ast.Stmt) {
	switch x := s.(type) {
	case *ast.BlockStmt:
		x.List = c.stmts(x.List)
	case *ast.IfStmt:
		c.exprs(x.Cond)
		if x.Init != nil {
			c.inner(x.Init)
		}
		x.Body.List = c.stmts(x.Body.List)
		if x.Else != nil {
			c.inner(x.Else)
		}
	case *ast.ForStmt:
		x.Body.List = c.stmts(x.Body.List)
	case *ast.RangeStmt:
		x.Body.List = c.stmts(x.Body.List)
	case *ast.SwitchStmt:
		for _, cc := range x.Body.List {
			cl := cc.(*ast.CaseClause)
			cl.Body = c.stmts(cl.Body)
		}
	case *ast.TypeSwitchStmt:
		for _, cc := range x.Body.List {
			cl := cc.(*ast.CaseClause)
			cl.Body = c.stmts(cl.Body)
		}
	case *ast.SelectStmt:
		for _, cc := range x.Body.List {
			cl := cc.(*ast.CommClause)
			cl.Body = c.stmts(cl.Body)
		}
	case *ast.LabeledStmt:
		c.inner(x.Stmt)
	case *ast.GoStmt:
		c.exprs(x.Call)
	case *ast.DeferStmt:
		c.exprs(x.Call)
	case *ast.ExprStmt:
		c.exprs(x.X)
	case *ast.AssignStmt:
		for _, r := range x.Rhs {
			c.exprs(r)
		}
	case *ast.ReturnStmt:
		for _, r := range x.Results {
			c.exprs(r)
		}
	case *ast.DeclStmt:
		c.exprs(x)
	}
}

// exprs instruments function literals found inside an expression.
func (c *fctx) exprs(n ast.Node) {
	if n == nil {
		return
	}
	ast.Inspect(n, func(m ast.Node) bool {
		if fl, ok := m.(*ast.FuncLit); ok {
			fl.Body.List = c.stmts(fl.Body.List)
			return false
		}
		return true
	})
}

// wrapNextFrame turns `x.NextFrame()` into `verifFrame(x.NextFrame())`: the wrapper records what the
// packetizer returned (message kind, seqno, error class) in the site-level trace and passes both values on.
func wrapNextFrame(body *ast.BlockStmt) {
	ast.Inspect(body, func(n ast.Node) bool {
		as, ok := n.(*ast.AssignStmt)
		if !ok || len(as.Rhs) != 1 {
			return true
		}
		call, ok := as.Rhs[0].(*ast.CallExpr)
		if !ok {
			return true
		}
		if sel, ok := call.Fun.(*ast.SelectorExpr); ok && sel.Sel.Name == "NextFrame" && len(call.Args) == 0 {
			as.Rhs[0] = &ast.CallExpr{Fun: ast.NewIdent("verifFrame"), Args: []ast.Expr{call}}
			sites = append(sites, "transport.receiveFramesLoop.frame")
		}
		return true
	})
}

func recvName(fd *ast.FuncDecl) string {
	if fd.Recv == nil || len(fd.Recv.List) == 0 {
		return ""
	}
	t := fd.Recv.List[0].Type
	if s, ok := t.(*ast.StarExpr); ok {
		t = s.X
	}
	if id, ok := t.(*ast.Ident); ok {
		return id.Name + "."
	}
	return ""
}

func main() {
	if len(os.Args) < 3 {
		fmt.Fprintln(os.Stderr, "usage: instrument <repo/rpc> <outdir>")
		os.Exit(2)
	}
	dir, outdir := os.Args[1], os.Args[2]
	ents, err := os.ReadDir(dir)
	if err != nil {
		fmt.Fprintln(os.Stderr, err)
		os.Exit(2)
	}
	retyped := 0
	for _, e := range ents {
		n := e.Name()
		if !strings.HasSuffix(n, ".go") || strings.HasSuffix(n, "_test.go") || strings.HasPrefix(n, "zz_verif") {
			continue
		}
		f, err := parser.ParseFile(fset, filepath.Join(dir, n), nil, 0)
		if err != nil {
			fmt.Fprintln(os.Stderr, "parse error:", err)
			os.Exit(3)
		}
		before := len(sites)
		changed := false
		// retype sync primitives
		usesSync := false
		ast.Inspect(f, func(m ast.Node) bool {
			se, ok := m.(*ast.SelectorExpr)
			if !ok {
				return true
			}
			id, ok := se.X.(*ast.Ident)
			if !ok || id.Name != "sync" {
				return true
			}
			switch se.Sel.Name {
			case "Once", "Mutex", "RWMutex":
				// turn `sync.X` into `verifsync.X`-like identifier: we cannot replace the node in place
				// through Inspect, so rename the selector to a package-level alias instead.
				id.Name = "verifSyncNS"
				changed = true
				retyped++
			default:
				usesSync = true
			}
			return true
		})
		for _, d := range f.Decls {
			fd, ok := d.(*ast.FuncDecl)
			if !ok || fd.Body == nil {
				continue
			}
			if recvName(fd)+fd.Name.Name == "transport.receiveFramesLoop" {
				wrapNextFrame(fd.Body)
			}
			c := &fctx{name: recvName(fd) + fd.Name.Name}
			if (recvName(fd) == "callContainer." && fd.Name.Name != "NewCall") || recvName(fd) == "protocolHandler." {
				c.everyStmt = true
			}
			if recvName(fd) == "Connection." {
				c.lockTrace = true
			}
			switch recvName(fd) + fd.Name.Name {
			case "dispatch.Call", "dispatch.Notify", "dispatch.handleCancel", "callRequest.Reply", "callCompressedRequest.Reply",
				"callRequest.Serve", "callCompressedRequest.Serve", "notifyRequest.Serve", "framedMsgpackEncoder.compressData",
				"receiveHandler.handleReceiveDispatch", "receiveHandler.receiveResponse", "receiveHandler.receiveCancel",
				"rpcCallMessage.DecodeMessage", "rpcCallCompressedMessage.DecodeMessage", "rpcNotifyMessage.DecodeMessage",
				"rpcCancelMessage.DecodeMessage", "Client.call", "Client.Notify",
				"framedMsgpackEncoder.encodeAndWriteInternal", "framedMsgpackEncoder.EncodeAndWriteAsync":
				// value hand-overs between goroutine-local steps (compress, encode, hand off) must be interleavable
				c.stmtYield = true
			}
			fd.Body.List = c.stmts(fd.Body.List)
		}
		if len(sites) > before {
			changed = true
		}
		if !changed {
			continue
		}
		var b bytes.Buffer
		if err := printer.Fprint(&b, fset, f); err != nil {
			fmt.Fprintln(os.Stderr, err)
			os.Exit(3)
		}
		src := b.String()
		// comments are dropped by the rewrite; keep the file header (build constraints, licence)
		if orig, err := os.ReadFile(filepath.Join(dir, n)); err == nil {
			o := string(orig)
			if i := strings.Index(o, "\npackage "); i >= 0 {
				src = o[:i+1] + "\n" + src
			}
		}
		// `verifSyncNS.Once` → `verifOnce` etc. (textual: the identifier is unique)
		src = strings.ReplaceAll(src, "verifSyncNS.Once", "verifOnce")
		src = strings.ReplaceAll(src, "verifSyncNS.RWMutex", "verifRWMutex")
		src = strings.ReplaceAll(src, "verifSyncNS.Mutex", "verifMutex")
		if !usesSync && strings.Contains(src, "\"sync\"") {
			src += "\nvar _ sync.WaitGroup // keep the import used after retyping\n"
		}
		if err := os.WriteFile(filepath.Join(outdir, n), []byte(src), 0o644); err != nil {
			fmt.Fprintln(os.Stderr, err)
			os.Exit(2)
		}
	}
	jb, _ := json.Marshal(map[string]interface{}{"sites": sites, "retyped": retyped})
	fmt.Println(string(jb))
}
