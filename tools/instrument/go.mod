module verif/instrument

go 1.21
