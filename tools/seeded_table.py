#!/usr/bin/env python3
"""seeded_table.py <quick-depth regression log> [<default-depth regression log> ...]
Prints the markdown rows + totals of DESIGN §0.6 from seeded/*/meta.json and seeded_regression.sh logs
(quick depth = VERIF_NO_DEEPEN=1; default = DEEPEN=1, only needed for the changes that are not concrete at quick depth)."""
import glob, json, os, re, sys
root = os.path.dirname(os.path.dirname(os.path.abspath(__file__)))
def load(p):
    d = {}
    for line in open(p):
        m = re.match(r"(C\d\d-\d+) rc \d+ wall \S+ (concrete|tie-only|MISSED)", line)
        if m:
            d[m.group(1)] = m.group(2).replace("tie-only", "tie")
    return d
quick = load(sys.argv[1]) if len(sys.argv) > 1 else {}
deep = {}
for p in sys.argv[2:]:
    for k, v in load(p).items():
        if deep.get(k) != "concrete":
            deep[k] = v
def first(c):
    c = c.lower()
    if "missed" in c:
        return "MISSED"
    if "first run" in c and ("tie guard only" in c or "tie-only" in c or "only the tie" in c or "no-failing-input-found" in c.split("after")[0]):
        return "tie"
    return "concrete"
cnt = {"first": {}, "quick": {}, "default": {}}
rows = []
for d in sorted(glob.glob(os.path.join(root, "seeded", "C*"))):
    sid = os.path.basename(d)
    m = json.load(open(os.path.join(d, "meta.json")))
    what = m["what"].replace("|", "/")
    if len(what) > 140:
        what = what[:137] + "…"
    f, q = first(m.get("caught_by", "")), quick.get(sid, "?")
    df = "concrete" if q == "concrete" else deep.get(sid, q)
    rows.append(f"| {sid} | {m.get('round', '1–2')} | {what} | {f} | {q} | {df} |")
    for k, v in (("first", f), ("quick", q), ("default", df)):
        cnt[k][v] = cnt[k].get(v, 0) + 1
print("\n".join(rows))
print("TOTALS", json.dumps(cnt))
