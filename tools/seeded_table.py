#!/usr/bin/env python3
"""Prints the markdown table of DESIGN §0.6 from seeded/*/meta.json and (optionally) a seeded_regression.sh log."""
import glob, json, os, re, sys
root = os.path.dirname(os.path.dirname(os.path.abspath(__file__)))
now = {}
for p in sys.argv[1:]:
    for line in open(p):
        m = re.match(r"(C\d\d-\d+) rc (\d+) wall \S+ (concrete|tie-only|MISSED)(?: replay (\{.*\}|None))?", line)
        if m:
            rp = ""
            if m.group(4) and m.group(4) != "None":
                d = eval(m.group(4))
                if d.get("stuck", 0) + d.get("differs", 0) + d.get("unmapped", 0) > 0:
                    rp = " + replay"
            now[m.group(1)] = m.group(3).replace("tie-only", "tie") + rp
def first(c):
    c = c.lower()
    if "missed" in c:
        return "MISSED"
    if "first run" in c and ("tie guard only" in c or "tie-only" in c or "only the tie" in c or "no-failing-input-found" in c.split("after")[0]):
        return "tie"
    return "concrete"
for d in sorted(glob.glob(os.path.join(root, "seeded", "C*"))):
    sid = os.path.basename(d)
    m = json.load(open(os.path.join(d, "meta.json")))
    what = m["what"].replace("|", "/")
    if len(what) > 150:
        what = what[:147] + "…"
    print(f"| {sid} | {what} | {first(m.get('caught_by',''))} | {now.get(sid, '?')} |")
