// extract: regenerates the facts the Lean model is tied to from /repo's
// current working tree (DESIGN §4.1).  Parses rpc/*.go (non-test) with
// go/parser only; every fact is looked up structurally (function, statement
// kind, ordinal) and rendered either as a number / enum the model's
// definitions consume, or as a normalised string compared by `#guard` in
// lean/FmpRpc/Tie/*.lean.  A pattern that is no longer found yields the
// sentinel "<missing>" (never a crash), so the tie fails by name.
package main

import (
	"bytes"
	"encoding/json"
	"fmt"
	"go/ast"
	"go/parser"
	"go/printer"
	"go/token"
	"os"
	"path/filepath"
	"sort"
	"strconv"
	"strings"
)

var fset = token.NewFileSet()
var files = map[string]*ast.File{}
var out bytes.Buffer
var nfacts int

func render(n ast.Node) string {
	if n == nil {
		return "<nil>"
	}
	var b bytes.Buffer
	cfg := printer.Config{Mode: printer.RawFormat}
	if err := cfg.Fprint(&b, fset, n); err != nil {
		return "<err>"
	}
	s := b.String()
	// single line, collapse whitespace
	s = strings.Join(strings.Fields(s), " ")
	return s
}

func q(s string) string { return strconv.Quote(s) }

func leanStrList(xs []string) string {
	qs := make([]string, len(xs))
	for i, x := range xs {
		qs[i] = q(x)
	}
	return "[" + strings.Join(qs, ", ") + "]"
}

var jsonFacts = map[string]interface{}{}

func emitStr(name, v string) {
	nfacts++
	jsonFacts[name] = v
	fmt.Fprintf(&out, "def %s : String := %s\n", name, q(v))
}
func emitList(name string, v []string) {
	nfacts++
	if v == nil {
		v = []string{}
	}
	jsonFacts[name] = v
	fmt.Fprintf(&out, "def %s : List String := %s\n", name, leanStrList(v))
}
func emitInt(name string, v string) {
	nfacts++
	if iv, err := strconv.Atoi(strings.Trim(v, "()")); err == nil {
		jsonFacts[name] = iv
	} else {
		jsonFacts[name] = v
	}
	if strings.HasPrefix(v, "-") {
		fmt.Fprintf(&out, "def %s : Int := (%s)\n", name, v)
	} else {
		fmt.Fprintf(&out, "def %s : Int := %s\n", name, v)
	}
}
func emitBool(name string, v bool) { nfacts++; jsonFacts[name] = v; fmt.Fprintf(&out, "def %s : Bool := %v\n", name, v) }
func emitCmp(name string, op token.Token) {
	nfacts++
	m := map[token.Token]string{token.LSS: ".lt", token.LEQ: ".le", token.GTR: ".gt", token.GEQ: ".ge",
		token.EQL: ".eq", token.NEQ: ".ne"}
	v, ok := m[op]
	if !ok {
		v = ".unknown"
	}
	jsonFacts[name] = v
	fmt.Fprintf(&out, "def %s : Cmp := %s\n", name, v)
}

// ---------------------------------------------------------------- lookup helpers

func recvName(fd *ast.FuncDecl) string {
	if fd.Recv == nil || len(fd.Recv.List) == 0 {
		return ""
	}
	t := fd.Recv.List[0].Type
	if s, ok := t.(*ast.StarExpr); ok {
		t = s.X
	}
	if id, ok := t.(*ast.Ident); ok {
		return id.Name
	}
	return render(t)
}

// fn finds a function "Recv.Name" or "Name".
func fn(name string) *ast.FuncDecl {
	var names []string
	for k := range files {
		names = append(names, k)
	}
	sort.Strings(names)
	for _, k := range names {
		for _, d := range files[k].Decls {
			fd, ok := d.(*ast.FuncDecl)
			if !ok {
				continue
			}
			full := fd.Name.Name
			if r := recvName(fd); r != "" {
				full = r + "." + full
			}
			if full == name {
				return fd
			}
		}
	}
	return nil
}

func body(name string) ast.Node {
	fd := fn(name)
	if fd == nil || fd.Body == nil {
		return nil
	}
	return fd.Body
}

// collect returns all nodes below root (in source order) satisfying pred.
func collect(root ast.Node, pred func(ast.Node) bool) []ast.Node {
	var r []ast.Node
	if root == nil {
		return r
	}
	ast.Inspect(root, func(n ast.Node) bool {
		if n != nil && pred(n) {
			r = append(r, n)
		}
		return true
	})
	return r
}

func selects(root ast.Node) []*ast.SelectStmt {
	var r []*ast.SelectStmt
	for _, n := range collect(root, func(n ast.Node) bool { _, ok := n.(*ast.SelectStmt); return ok }) {
		r = append(r, n.(*ast.SelectStmt))
	}
	return r
}

// armsOf normalises the arms of a select: "recv <chan>", "send <chan>",
// "default", in source order.
func armsOf(s *ast.SelectStmt) []string {
	var r []string
	for _, c := range s.Body.List {
		cc := c.(*ast.CommClause)
		switch st := cc.Comm.(type) {
		case nil:
			r = append(r, "default")
		case *ast.SendStmt:
			r = append(r, "send "+render(st.Chan))
		case *ast.ExprStmt:
			if u, ok := st.X.(*ast.UnaryExpr); ok && u.Op == token.ARROW {
				r = append(r, "recv "+render(u.X))
			} else {
				r = append(r, "?"+render(st.X))
			}
		case *ast.AssignStmt:
			if len(st.Rhs) == 1 {
				if u, ok := st.Rhs[0].(*ast.UnaryExpr); ok && u.Op == token.ARROW {
					r = append(r, "recv "+render(u.X))
					continue
				}
			}
			r = append(r, "?"+render(st))
		}
	}
	return r
}

func selectFacts(prefix, fnName string) {
	b := body(fnName)
	ss := selects(b)
	if b == nil {
		emitList(prefix+"_missing", []string{"<missing>"})
		return
	}
	emitInt(prefix+"_count", strconv.Itoa(len(ss)))
	for i, s := range ss {
		emitList(fmt.Sprintf("%s_%d", prefix, i), armsOf(s))
	}
}

// compositeLits returns the []interface{}{...} literals below root.
func ifaceLits(root ast.Node) []*ast.CompositeLit {
	var r []*ast.CompositeLit
	for _, n := range collect(root, func(n ast.Node) bool {
		cl, ok := n.(*ast.CompositeLit)
		if !ok {
			return false
		}
		at, ok := cl.Type.(*ast.ArrayType)
		if !ok || at.Len != nil {
			return false
		}
		it, ok := at.Elt.(*ast.InterfaceType)
		return ok && (it.Methods == nil || len(it.Methods.List) == 0)
	}) {
		r = append(r, n.(*ast.CompositeLit))
	}
	return r
}

func litElems(cl *ast.CompositeLit) []string {
	var r []string
	for _, e := range cl.Elts {
		r = append(r, render(e))
	}
	return r
}

func litFacts(prefix, fnName string) {
	b := body(fnName)
	if b == nil {
		emitList(prefix+"_missing", []string{"<missing>"})
		return
	}
	ls := ifaceLits(b)
	emitInt(prefix+"_count", strconv.Itoa(len(ls)))
	for i, l := range ls {
		emitList(fmt.Sprintf("%s_%d", prefix, i), litElems(l))
	}
}

// stmtSeq renders the top-level statements of a function body, each reduced
// to its first line-ish form, for order facts.
func callsIn(root ast.Node) []string {
	var r []string
	for _, n := range collect(root, func(n ast.Node) bool { _, ok := n.(*ast.CallExpr); return ok }) {
		r = append(r, render(n.(*ast.CallExpr).Fun))
	}
	return r
}

// constants of a named type from const blocks: name -> value (iota not needed here)
func constValue(name string) string {
	for _, f := range files {
		for _, d := range f.Decls {
			gd, ok := d.(*ast.GenDecl)
			if !ok || gd.Tok != token.CONST {
				continue
			}
			for _, s := range gd.Specs {
				vs := s.(*ast.ValueSpec)
				for i, id := range vs.Names {
					if id.Name == name && i < len(vs.Values) {
						return render(vs.Values[i])
					}
				}
			}
		}
	}
	return "<missing>"
}

func intConst(leanName, goName string) {
	v := constValue(goName)
	if _, err := strconv.Atoi(strings.ReplaceAll(v, " ", "")); err != nil {
		// not a plain literal: poison so that proofs depending on it fail
		emitStr(leanName+"_unparsed", v)
		emitInt(leanName, "(-999)")
		return
	}
	emitInt(leanName, strings.ReplaceAll(v, " ", ""))
}

// binary conditions "lhs op rhs" of if statements in a function, in order
func ifConds(root ast.Node) []ast.Expr {
	var r []ast.Expr
	for _, n := range collect(root, func(n ast.Node) bool { _, ok := n.(*ast.IfStmt); return ok }) {
		r = append(r, n.(*ast.IfStmt).Cond)
	}
	return r
}

func findCond(fnName string, match func(*ast.BinaryExpr) bool) *ast.BinaryExpr {
	var found *ast.BinaryExpr
	for _, c := range ifConds(body(fnName)) {
		ast.Inspect(c, func(n ast.Node) bool {
			if be, ok := n.(*ast.BinaryExpr); ok && found == nil && match(be) {
				found = be
			}
			return true
		})
	}
	return found
}

func cmpFact(name, fnName, lhs, rhsWant string) {
	be := findCond(fnName, func(b *ast.BinaryExpr) bool { return render(b.X) == lhs })
	if be == nil {
		nfacts++
		fmt.Fprintf(&out, "def %s : Cmp := .unknown\n", name)
		jsonFacts[name] = ".unknown"
		emitStr(name+"_rhs", "<missing>")
		return
	}
	emitCmp(name, be.Op)
	emitStr(name+"_rhs", render(be.Y))
	_ = rhsWant
}

// switch/type-switch case lists
func caseLists(fnName string) [][]string {
	var r [][]string
	b := body(fnName)
	for _, n := range collect(b, func(n ast.Node) bool {
		switch n.(type) {
		case *ast.SwitchStmt, *ast.TypeSwitchStmt:
			return true
		}
		return false
	}) {
		var bl *ast.BlockStmt
		switch s := n.(type) {
		case *ast.SwitchStmt:
			bl = s.Body
		case *ast.TypeSwitchStmt:
			bl = s.Body
		}
		for _, c := range bl.List {
			cc := c.(*ast.CaseClause)
			var items []string
			if cc.List == nil {
				items = append(items, "default")
			}
			for _, e := range cc.List {
				items = append(items, render(e))
			}
			var bodyS []string
			for _, st := range filterStmts(cc.Body) {
				bodyS = append(bodyS, render(st))
			}
			r = append(r, []string{strings.Join(items, ","), strings.Join(bodyS, "; ")})
		}
	}
	return r
}

func caseFacts(prefix, fnName string) {
	if body(fnName) == nil {
		emitList(prefix+"_missing", []string{"<missing>"})
		return
	}
	var flat []string
	for _, c := range caseLists(fnName) {
		flat = append(flat, c[0]+" => "+c[1])
	}
	emitList(prefix, flat)
}

// isNoise: logging / profiling statements, dropped from statement facts so
// that editing a log line does not disturb the tie.
func isNoise(s ast.Stmt) bool {
	var call *ast.CallExpr
	switch x := s.(type) {
	case *ast.ExprStmt:
		call, _ = x.X.(*ast.CallExpr)
	case *ast.DeferStmt:
		call = x.Call
	case *ast.AssignStmt:
		if len(x.Rhs) == 1 {
			if c, ok := x.Rhs[0].(*ast.CallExpr); ok && strings.Contains(render(c.Fun), "StartProfiler") {
				return true
			}
		}
		return false
	}
	if call == nil {
		return false
	}
	f := render(call.Fun)
	for _, pat := range []string{".log.", "log.", ".Log", "LogInvocation", "LogCompletion", "prof.Stop", "profiler.Stop"} {
		if strings.Contains(f, pat) || strings.HasPrefix(f, pat) {
			return true
		}
	}
	return false
}

func filterStmts(in []ast.Stmt) []ast.Stmt {
	var r []ast.Stmt
	for _, s := range in {
		if isNoise(s) {
			continue
		}
		r = append(r, filterStmt(s))
	}
	return r
}

func filterBlock(b *ast.BlockStmt) *ast.BlockStmt {
	if b == nil {
		return nil
	}
	return &ast.BlockStmt{List: filterStmts(b.List)}
}

func filterStmt(s ast.Stmt) ast.Stmt {
	switch x := s.(type) {
	case *ast.BlockStmt:
		return filterBlock(x)
	case *ast.IfStmt:
		c := *x
		c.Body = filterBlock(x.Body)
		if x.Else != nil {
			c.Else = filterStmt(x.Else)
		}
		return &c
	case *ast.ForStmt:
		c := *x
		c.Body = filterBlock(x.Body)
		return &c
	case *ast.RangeStmt:
		c := *x
		c.Body = filterBlock(x.Body)
		return &c
	case *ast.SwitchStmt:
		c := *x
		c.Body = filterBlock(x.Body)
		return &c
	case *ast.TypeSwitchStmt:
		c := *x
		c.Body = filterBlock(x.Body)
		return &c
	case *ast.SelectStmt:
		c := *x
		c.Body = filterBlock(x.Body)
		return &c
	case *ast.CaseClause:
		c := *x
		c.Body = filterStmts(x.Body)
		return &c
	case *ast.CommClause:
		c := *x
		c.Body = filterStmts(x.Body)
		return &c
	case *ast.LabeledStmt:
		c := *x
		c.Stmt = filterStmt(x.Stmt)
		return &c
	case *ast.GoStmt:
		if fl, ok := x.Call.Fun.(*ast.FuncLit); ok {
			c := *x
			call := *x.Call
			nfl := *fl
			nfl.Body = filterBlock(fl.Body)
			call.Fun = &nfl
			c.Call = &call
			return &c
		}
	case *ast.DeferStmt:
		if fl, ok := x.Call.Fun.(*ast.FuncLit); ok {
			c := *x
			call := *x.Call
			nfl := *fl
			nfl.Body = filterBlock(fl.Body)
			call.Fun = &nfl
			c.Call = &call
			return &c
		}
	}
	return s
}

// stmts: normalised top-level statement list of a function (one string each),
// logging and profiling dropped.
func stmtList(fnName string) []string {
	fd := fn(fnName)
	if fd == nil || fd.Body == nil {
		return []string{"<missing>"}
	}
	var r []string
	for _, s := range filterStmts(fd.Body.List) {
		r = append(r, render(s))
	}
	return r
}

// calls made (in source order) inside fn, filtered to a tracked set
func trackedCalls(fnName string, tracked map[string]bool) []string {
	b := body(fnName)
	if b == nil {
		return []string{"<missing>"}
	}
	var r []string
	ast.Inspect(b, func(n ast.Node) bool {
		switch x := n.(type) {
		case *ast.DeferStmt:
			name := render(x.Call.Fun)
			if fl, ok := x.Call.Fun.(*ast.FuncLit); ok {
				// defer func() { ... }(): list tracked calls inside
				for _, c := range callsIn(fl.Body) {
					if tracked[lastSel(c)] {
						r = append(r, "defer "+lastSel(c))
					}
				}
				return false
			}
			if tracked[lastSel(name)] {
				r = append(r, "defer "+lastSel(name))
			}
			return false
		case *ast.CallExpr:
			name := lastSel(render(x.Fun))
			if tracked[name] {
				r = append(r, name)
			}
		case *ast.GoStmt:
			r = append(r, "go")
		case *ast.SelectStmt:
			r = append(r, "select")
		}
		return true
	})
	return r
}

func lastSel(s string) string {
	if i := strings.LastIndex(s, "."); i >= 0 {
		return s[i+1:]
	}
	return s
}

func set(xs ...string) map[string]bool {
	m := map[string]bool{}
	for _, x := range xs {
		m[x] = true
	}
	return m
}

func main() {
	if len(os.Args) < 3 {
		fmt.Fprintln(os.Stderr, "usage: extract <repo/rpc dir> <out.lean>")
		os.Exit(2)
	}
	dir := os.Args[1]
	ents, err := os.ReadDir(dir)
	if err != nil {
		fmt.Fprintln(os.Stderr, err)
		os.Exit(2)
	}
	for _, e := range ents {
		n := e.Name()
		if !strings.HasSuffix(n, ".go") || strings.HasSuffix(n, "_test.go") {
			continue
		}
		f, err := parser.ParseFile(fset, filepath.Join(dir, n), nil, parser.SkipObjectResolution)
		if err != nil {
			fmt.Fprintln(os.Stderr, "parse error:", err)
			os.Exit(3)
		}
		files[n] = f
	}

	fmt.Fprintln(&out, "/- GENERATED by tools/extract from /repo/rpc — do not edit; regenerated on every run. -/")
	fmt.Fprintln(&out, "import FmpRpc.Model.Cmp")
	fmt.Fprintln(&out, "namespace FmpRpc.Gen")
	fmt.Fprintln(&out, "open FmpRpc")

	// ---- protocol.go constants
	for _, c := range [][2]string{{"methodInvalid", "MethodInvalid"}, {"methodCall", "MethodCall"},
		{"methodResponse", "MethodResponse"}, {"methodNotify", "MethodNotify"}, {"methodCancel", "MethodCancel"},
		{"methodCallCompressed", "MethodCallCompressed"}, {"compressionNone", "CompressionNone"},
		{"compressionGzip", "CompressionGzip"}, {"compressionMsgpackzip", "CompressionMsgpackzip"}} {
		intConst(c[0], c[1])
	}
	caseFacts("newCompressorCases", "CompressionType.NewCompressor")
	caseFacts("methodTypeStringCases", "MethodType.String")

	// ---- frame literals
	litFacts("litCall", "dispatch.Call")
	litFacts("litNotify", "dispatch.Notify")
	litFacts("litCancel", "dispatch.handleCancel")
	litFacts("litReply", "callRequest.Reply")
	litFacts("litReplyCompressed", "callCompressedRequest.Reply")
	caseFacts("callCtypeCases", "dispatch.Call")

	// ---- packetizer comparisons
	cmpFact("pktLenLow", "packetizer.NextFrame", "l", "0")
	be := findCond("packetizer.NextFrame", func(b *ast.BinaryExpr) bool {
		return render(b.X) == "l" && strings.Contains(render(b.Y), "maxFrameLength")
	})
	if be != nil {
		emitCmp("pktLenHigh", be.Op)
		emitStr("pktLenHigh_rhs", render(be.Y))
	} else {
		fmt.Fprintln(&out, "def pktLenHigh : Cmp := .unknown")
		jsonFacts["pktLenHigh"] = ".unknown"
		emitStr("pktLenHigh_rhs", "<missing>")
	}
	var conds []string
	for _, c := range ifConds(body("packetizer.NextFrame")) {
		conds = append(conds, render(c))
	}
	emitList("nextFrameConds", conds)
	emitList("nextFrameCalls", trackedCalls("packetizer.NextFrame",
		set("Decode", "newFrameReader", "drain", "ReadByte", "decodeRPC", "NewPacketizerError")))
	emitList("nextFrameStmts", stmtList("packetizer.NextFrame"))
	emitList("frameReaderReadStmts", stmtList("frameReader.Read"))
	emitList("frameReaderReadByteStmts", stmtList("frameReader.ReadByte"))
	emitList("frameReaderDrainStmts", stmtList("frameReader.drain"))
	emitList("lastErrReaderReadStmts", stmtList("lastErrReader.Read"))
	emitList("newPacketizerStmts", stmtList("newPacketizer"))

	// ---- codec.go
	var econds []string
	for _, c := range ifConds(body("framedMsgpackEncoder.encodeFrame")) {
		econds = append(econds, render(c))
	}
	emitList("encodeFrameConds", econds)
	emitList("encodeFrameStmts", stmtList("framedMsgpackEncoder.encodeFrame"))
	emitList("newCodecHandleStmts", stmtList("newCodecMsgpackHandle"))
	emitList("writerLoopStmts", stmtList("framedMsgpackEncoder.writerLoop"))
	emitList("newEncoderStmts", stmtList("newFramedMsgpackEncoder"))
	emitList("compressDataStmts", stmtList("framedMsgpackEncoder.compressData"))
	emitList("encoderCloseStmts", stmtList("framedMsgpackEncoder.Close"))

	// ---- message.go
	for _, m := range []string{"rpcCallMessage", "rpcCallCompressedMessage", "rpcResponseMessage", "rpcNotifyMessage", "rpcCancelMessage"} {
		emitList("minLength_"+m, stmtList(m+".MinLength"))
		emitList("decodeCalls_"+m, trackedCalls(m+".DecodeMessage",
			set("Decode", "getArg", "loadContext", "RetrieveCall", "IncrementSize", "getCompressor", "Decompress",
				"newUncompressedDecoder", "NewNetworkInstrumenter", "MakeArg", "UnwrapError", "newCallNotFoundError")))
		emitList("decodeStmts_"+m, stmtList(m+".DecodeMessage"))
		emitList("seqNo_"+m, stmtList(m+".SeqNo"))
		emitList("type_"+m, stmtList(m+".Type"))
		emitList("compression_"+m, stmtList(m+".Compression"))
	}
	emitList("decodeRPCStmts", stmtList("decodeRPC"))
	emitList("loadContextStmts", stmtList("basicRPCData.loadContext"))
	emitList("fieldDecoderDecodeStmts", stmtList("fieldDecoder.Decode"))
	emitList("newFieldDecoderStmts", stmtList("newFieldDecoder"))
	emitList("newUncompressedDecoderStmts", stmtList("newUncompressedDecoder"))

	// ---- selects
	for _, s := range [][2]string{
		{"selEncodeAndWrite", "framedMsgpackEncoder.encodeAndWriteInternal"},
		{"selEncodeAndWriteAsync", "framedMsgpackEncoder.EncodeAndWriteAsync"},
		{"selWriterLoop", "framedMsgpackEncoder.writerLoop"},
		{"selCall", "dispatch.Call"}, {"selNotify", "dispatch.Notify"}, {"selHandleCancel", "dispatch.handleCancel"},
		{"selReply", "callRequest.Reply"}, {"selReplyCompressed", "callCompressedRequest.Reply"},
		{"selTaskLoop", "receiveHandler.taskLoop"},
		{"selReceiveCancel", "receiveHandler.receiveCancel"}, {"selHandleReceiveDispatch", "receiveHandler.handleReceiveDispatch"},
		{"selReceiveResponse", "receiveHandler.receiveResponse"},
		{"selIsConnected", "transport.IsConnected"}, {"selErr", "transport.err"},
		{"selWaitForConnection", "Connection.waitForConnection"}, {"selDoReconnect", "Connection.doReconnect"},
		{"selTLSDial", "ConnectionTransportTLS.Dial"},
	} {
		selectFacts(s[0], s[1])
	}

	// ---- transport.go / receiver.go / dispatch.go / call.go / request.go statement lists
	for _, f := range [][2]string{
		{"transportCloseStmts", "transport.Close"}, {"transportCloseWithErrStmts", "transport.closeWithErr"}, {"receiveFramesLoopStmts", "transport.receiveFramesLoop"},
		{"receiveFramesStmts", "transport.receiveFrames"},
		{"getDispatcherStmts", "transport.getDispatcher"}, {"getReceiverStmts", "transport.getReceiver"},
		{"isConnectedStmts", "transport.IsConnected"}, {"transportErrStmts", "transport.err"},
		{"transportDoneStmts", "transport.done"},
		{"newTransportStmts", "NewTransport"},
		{"taskLoopStmts", "receiveHandler.taskLoop"}, {"handleReceiveDispatchStmts", "receiveHandler.handleReceiveDispatch"},
		{"receiveResponseStmts", "receiveHandler.receiveResponse"}, {"receiveCancelStmts", "receiveHandler.receiveCancel"},
		{"receiverCloseStmts", "receiveHandler.Close"}, {"receiveStmts", "receiveHandler.Receive"},
		{"newReceiveHandlerStmts", "newReceiveHandler"},
		{"dispatchCallStmts", "dispatch.Call"}, {"dispatchNotifyStmts", "dispatch.Notify"},
		{"handleCancelStmts", "dispatch.handleCancel"}, {"dispatchCloseStmts", "dispatch.Close"},
		{"currySendNotifierStmts", "currySendNotifier"},
		{"newCallStmts", "callContainer.NewCall"}, {"nextSeqidStmts", "callContainer.nextSeqid"},
		{"addCallStmts", "callContainer.AddCall"}, {"retrieveCallStmts", "callContainer.RetrieveCall"},
		{"removeCallStmts", "callContainer.RemoveCall"},
		{"callReplyStmts", "callRequest.Reply"}, {"callServeStmts", "callRequest.Serve"},
		{"callCompressedReplyStmts", "callCompressedRequest.Reply"}, {"callCompressedServeStmts", "callCompressedRequest.Serve"},
		{"notifyServeStmts", "notifyRequest.Serve"}, {"notifyReplyStmts", "notifyRequest.Reply"},
		{"newCallRequestStmts", "newCallRequest"}, {"newCallCompressedRequestStmts", "newCallCompressedRequest"},
		{"newNotifyRequestStmts", "newNotifyRequest"},
		{"clientCallStmts", "Client.call"}, {"clientNotifyStmts", "Client.Notify"},
		{"findServeHandlerStmts", "protocolHandler.findServeHandler"}, {"getArgStmts", "protocolHandler.getArg"},
		{"splitMethodNameStmts", "splitMethodName"}, {"makeMethodNameStmts", "makeMethodName"},
		{"wrapErrorStmts", "wrapError"},
		{"unboxRPCErrorStmts", "unboxRPCError"},
		{"addTagsStmts", "AddRPCTagsToContext"}, {"tagsFromContextStmts", "TagsFromContext"},
		{"instrumentTagStmts", "InstrumentTag"}, {"recordAndFinishStmts", "NetworkInstrumenter.RecordAndFinish"},
		{"finishStmts", "NetworkInstrumenter.Finish"}, {"incrementSizeStmts", "NetworkInstrumenter.IncrementSize"},
		{"getCompressorStmts", "compressorCacher.getCompressor"},
		{"gzipCompressStmts", "gzipCompressor.Compress"}, {"gzipDecompressStmts", "gzipCompressor.Decompress"},
		{"gzipGetReaderStmts", "gzipCompressor.getGzipReader"}, {"gzipGetWriterStmts", "gzipCompressor.getGzipWriter"},
		{"mpzCompressStmts", "msgpackzipCompressor.Compress"}, {"mpzDecompressStmts", "msgpackzipCompressor.Decompress"},
		{"remoteNewStmts", "NewPrioritizedRoundRobinRemote"}, {"remoteResetLockedStmts", "prioritizedRoundRobinRemote.resetLocked"},
		{"remoteResetStmts", "prioritizedRoundRobinRemote.Reset"}, {"remoteGetAddressStmts", "prioritizedRoundRobinRemote.GetAddress"},
		{"remotePeekStmts", "prioritizedRoundRobinRemote.Peek"}, {"remoteStringStmts", "prioritizedRoundRobinRemote.String"},
		{"remoteParseStmts", "ParsePrioritizedRoundRobinRemote"},
		{"parseFMPURIStmts", "ParseFMPURI"}, {"uriUseTLSStmts", "FMPURI.UseTLS"}, {"uriStringStmts", "FMPURI.String"},
		{"timerSwapStmts", "CancellableTimer.swap"}, {"timerGetStmts", "CancellableTimer.get"},
		{"timerStartConstantStmts", "CancellableTimer.StartConstant"}, {"timerStartRandomStmts", "CancellableTimer.StartRandom"},
		{"timerWaitStmts", "CancellableTimer.Wait"}, {"timerFireNowStmts", "CancellableTimer.FireNow"},
		{"fireOnceFireStmts", "fireOnce.fire"}, {"fireOnceWaitStmts", "fireOnce.wait"}, {"newFireOnceStmts", "newFireOnce"},
		{"isWithFireNowStmts", "isWithFireNow"},
		{"connConnectStmts", "Connection.connect"}, {"connDoCommandStmts", "Connection.DoCommand"},
		{"connWaitForConnectionStmts", "Connection.waitForConnection"}, {"connForceReconnectStmts", "Connection.ForceReconnect"},
		{"connCheckForRetryStmts", "Connection.checkForRetry"}, {"connIsConnectedLockedStmts", "Connection.isConnectedLocked"},
		{"connGetReconnectChanLockedStmts", "Connection.getReconnectChanLocked"},
		{"connDoReconnectStmts", "Connection.doReconnect"}, {"connShutdownStmts", "Connection.Shutdown"},
		{"connFastForwardStmts", "Connection.FastForwardConnectDelayTimer"},
		{"connClientCallStmts", "connectionClient.Call"}, {"connClientCallCompressedStmts", "connectionClient.CallCompressed"},
		{"connClientNotifyStmts", "connectionClient.Notify"},
		{"connTransportDialStmts", "connTransport.Dial"}, {"connTransportFinalizeStmts", "connTransport.Finalize"},
		{"connTransportCloseStmts", "connTransport.Close"}, {"connTransportIsConnectedStmts", "connTransport.IsConnected"},
		{"tlsDialStmts", "ConnectionTransportTLS.Dial"}, {"tlsFinalizeStmts", "ConnectionTransportTLS.Finalize"},
		{"tlsCloseStmts", "ConnectionTransportTLS.Close"}, {"tlsIsConnectedStmts", "ConnectionTransportTLS.IsConnected"},
		{"newConnWithLogStmts", "newConnectionWithTransportAndProtocolsWithLog"},
		{"newTLSConnectionWithTLSConfigStmts", "NewTLSConnectionWithTLSConfig"},
		{"copyTLSConfigStmts", "copyTLSConfig"},
		{"serverRegisterStmts", "Server.Register"}, {"serverRunStmts", "Server.Run"}, {"serverErrStmts", "Server.Err"},
		{"serverDoneStmts", "Server.Done"},
		{"registerProtocolStmts", "protocolHandler.registerProtocol"},
	} {
		emitList(f[0], stmtList(f[1]))
	}
	caseFacts("shouldContinueCases", "shouldContinue")
	caseFacts("shouldReceiveCases", "shouldReceive")
	caseFacts("receiveCases", "receiveHandler.Receive")
	caseFacts("decodeRPCCases", "decodeRPC")

	// ---- global text facts
	var insecure []string
	var names []string
	for k := range files {
		names = append(names, k)
	}
	sort.Strings(names)
	for _, k := range names {
		ast.Inspect(files[k], func(n ast.Node) bool {
			if id, ok := n.(*ast.Ident); ok && id.Name == "InsecureSkipVerify" {
				insecure = append(insecure, k)
			}
			return true
		})
	}
	emitList("insecureSkipVerifyUses", insecure)
	// string constants
	emitStr("fmpSchemeStandard", constValue("fmpSchemeStandard"))
	emitStr("fmpSchemeTLS", constValue("fmpSchemeTLS"))

	// channel makes in constructors: rendered make(...) expressions
	for _, f := range [][2]string{{"makesNewEncoder", "newFramedMsgpackEncoder"}, {"makesNewCall", "callContainer.NewCall"},
		{"makesNewReceiveHandler", "newReceiveHandler"}, {"makesNewDispatch", "newDispatch"},
		{"makesEncodeAndWrite", "framedMsgpackEncoder.encodeAndWriteInternal"},
		{"makesEncodeAndWriteAsync", "framedMsgpackEncoder.EncodeAndWriteAsync"}, {"makesNewTransport", "NewTransport"}} {
		var ms []string
		for _, n := range collect(body(f[1]), func(n ast.Node) bool {
			c, ok := n.(*ast.CallExpr)
			if !ok {
				return false
			}
			id, ok := c.Fun.(*ast.Ident)
			return ok && id.Name == "make"
		}) {
			ms = append(ms, render(n))
		}
		emitList(f[0], ms)
	}

	fmt.Fprintf(&out, "def factCount : Nat := %d\n", nfacts)
	fmt.Fprintln(&out, "end FmpRpc.Gen")
	if err := os.WriteFile(os.Args[2], out.Bytes(), 0o644); err != nil {
		fmt.Fprintln(os.Stderr, err)
		os.Exit(2)
	}
	if len(os.Args) > 3 {
		jb, _ := json.MarshalIndent(jsonFacts, "", " ")
		if err := os.WriteFile(os.Args[3], jb, 0o644); err != nil {
			fmt.Fprintln(os.Stderr, err)
			os.Exit(2)
		}
	}
	fmt.Printf("facts=%d\n", nfacts)
}
