#!/usr/bin/env python3
"""Writes /verif/MANIFEST.json from the property table below (claimed
properties) — everything else is listed under not_applicable with a reason."""
import json, os, sys
here = os.path.dirname(os.path.abspath(__file__))
root = os.path.dirname(here)
props = [json.loads(l) for l in open(os.path.join(root, "properties.jsonl"))]

NOTE = ("Trusted: Lean 4.33.0 kernel (axioms propext, Classical.choice, Quot.sound only; printed per theorem in the evidence; "
        "no sorry / native_decide / bv_decide / own axioms — grepped on every run), tools/extract + the #guard ties in "
        "lean/FmpRpc/Tie (regenerated from /repo on every run), the overlay harness in /verif/harness and testing/synctest. ")

CLAIMS = {
 "C02": dict(technique="Lean 4 proof (round trip, LegalEnc acceptance) + regenerated facts + differential vs real encoder/packetizer",
   text="Theorems (Props/C02.lean): the writer's layout equals the specification table for all five kinds and every message is "
        "one fixarray preceded by a msgpack integer equal to its byte length (wire_layout, prefix_roundtrip); every LEGAL "
        "encoding of every value — all integer / string / bin / array / map widths, given as the inductive relation LegalEnc "
        "written independently of the codec — decodes to that value (decode_legal), and every legal encoding of every message "
        "with any prefix width and any number of extra trailing elements is accepted by NextFrame with exactly the same "
        "fields (frame_accepts_any_legal); unbounded in sizes, nesting and counts. Tie: constants, literals, decode orders "
        "regenerated from /repo and #guarded; the real stack's bytes are compared byte for byte with the model's `wire`, and "
        "an independent encoder's alternative encodings are fed to the real packetizer and to the model.",
   note="go-codec's msgpack reader/writer is modelled (Model/Msgpack) and validated by the differential run, not verified."),
 "C04": dict(technique="Lean 4 proof (chunk-oracle reader stack = ideal reader, for every decoder program) + differential over partitions",
   text="Theorems (Props/C04.lean): for EVERY chunk list and EVERY decoder program the reader stack at single-Read "
        "granularity (bufio / frameReader.Read with clamp and decrement / decReadFull loops / drain) computes the same "
        "NextFrame result and leaves the same stream as the ideal reader on the concatenation (nextFrame_chunk_indep, "
        "run_chunk_indep), and a frame with an acceptable prefix whose declared length is present is consumed exactly "
        "whatever its content (consumes_declared_length). Tie: reader functions #guarded; real packetizer fed scripted "
        "partitions (whole, 1-byte, single/double cuts, random, all 2^(n-1) for short streams) and compared with the model.",
   note="bufio.Reader and go-codec's ioDecReader are modelled as a chunk oracle (any non-empty prefix per Read)."),
 "C05": dict(technique="Lean 4 proof (classification, budget, truncation) + regenerated comparison operators + differential on hostile streams",
   text="Theorems (Props/C05.lean) over ALL byte streams: a prefix that is not an integer, <= 0 or > max yields an error with "
        "at most 9 bytes consumed (bad_prefix_stops_early, len_checks with the regenerated operators); at most 9 + max bytes "
        "are consumed per frame (budget); a stream ending inside a frame body always yields a fatal error other than io.EOF "
        "(truncation_never_clean — full strength after the fix commit 43f3f95), a stream ending on a frame boundary yields "
        "io.EOF; the loop continues exactly after nil and the three not-found errors. PARTIAL: absence of panics, real "
        "allocation and hangs are runtime behaviour, observed by the correspondence run (mutated / truncated / random / "
        "huge-inner-length streams through the real packetizer; a panic is an abnormal exit), not proved.",
   note="Panics, allocation and goroutine hangs cannot be exhibited by the model; covered by the run only."),
 "C16": dict(technique="Lean 4 proof (timer state machine) + differential under virtual time",
   text="Theorems (Props/C16.lean): the random delay lies in [0, window) for every 63-bit input; Wait returns only in a state "
        "where the timer's current fire-once is the one the waiter saw fire or there is none; a waiter is blocked only on an "
        "unfired fire-once (no deadlock), fired is monotone, start fires the previous object, FireNow fires the current one, "
        "clock ticks alone do not fire a timer before its deadline. Tie: timer functions #guarded; op sequences over "
        "StartConstant/StartRandom/FireNow/Wait/sleep on the real CancellableTimer under testing/synctest, return instants "
        "compared with the model. PARTIAL: the connection-level clause (dialing held back / fire-now command) is exercised by "
        "the C14 connection scenarios; a marked command arriving before the timer is armed is a known finding.",
   note="Real timers are a discrete clock (virtual time)."),
 "C18": dict(technique="Lean 4 proof (rotation cycle, peek, parse/print round trips, SplitHostPort model) + differential",
   text="Theorems (Props/C18.lean): for every shuffle oracle a full cycle returns exactly the arrangement's flatten (each "
        "address of a group once, groups in order) and empties the iteration list; Peek names the next GetAddress and is "
        "unobservable; the index expression is always defined; construction normalises; parse(String()) returns the same "
        "groups for separator-free addresses (splitOn/join round trip proved); ParseFMPURI rejects every non-whitelisted "
        "scheme, every authority SplitHostPort rejects, every empty host; TLS iff fmprpc+tls; String() re-parses under the "
        "net/url contract. Tie: functions #guarded (incl. Lock/Unlock presence); real remotes with the shuffle reproduced from "
        "the seed; URIs with url.Parse's own result handed to the model.",
   note="net/url.Parse and Unicode ToLower/TrimSpace are contracts validated by the run."),
 "C19": dict(technique="Lean 4 proof (heap-of-maps model: no aliasing, persistence) + differential + wire/session runs",
   text="Theorems (Props/C19.lean): over ALL operation sequences (additions, reads, user mutations of any held map) no object "
        "bound in a context is ever reachable from a user reference (no_alias) and no operation changes the tags seen "
        "through an existing context (add_is_persistent); add returns a new context with old tags overridden by the added "
        "ones; a map read out is a fresh copy; the tag map is the last wire element iff non-empty for calls, compressed calls "
        "and notifications (tags_on_wire; with C02's round trip the handler sees exactly the normalised tags). Tie: "
        "context.go / client.go functions #guarded; random derivation trees with external mutation vs the model; wire bytes "
        "and end-to-end sessions (handler-side TagsFromContext) compared.",
   note="context.WithValue immutability is the context package's contract."),
 "C06": dict(technique="Lean 4 proof (compression plumbing over an abstract law-abiding compressor) + real-compressor law run + wire/session runs",
   text="Theorems (Props/C06.lean), for EVERY compressor satisfying the two stated laws and every compression type: the frame a "
        "client writes for a compressed call decodes on the server to exactly the argument the caller supplied — the same as "
        "the uncompressed call (compressed_call_transparent); an unknown type is treated as none on both ends (unknown_is_none); "
        "the payload is the compressed msgpack encoding and decompresses to it (payload_roundtrip); a reply compressed with the "
        "request's type and decompressed with the type remembered by the pending call yields the handler's result and error "
        "(compressed_reply_transparent). PARTIAL: DEFLATE / msgpackzip themselves, sync.Pool reuse and 'gzip corruption yields an "
        "error' are assumptions, validated on the real compressors: round trips, non-empty output, every single-bit flip of "
        "small payloads, decompression right after a failed one, 16-way concurrent pool reuse; plus byte-exact wire comparison "
        "of compressed calls/replies (payload decompressed and compared with the model's encoding) and end-to-end sessions.",
   note="The compressors and sync.Pool are not modelled; their laws are hypotheses of the theorems."),
 "C17": dict(technique="Lean 4 proof (Dial's decision logic over the assumed crypto/tls contract) + exhaustive 60-case run against a scripted tls.Server",
   text="Theorems (Props/C17.lean): without a user configuration the configuration handed to tls.Client has no "
        "InsecureSkipVerify, the dialed host as server name and the PEM's roots (system roots when none), so a completed dial "
        "implies chain, name and validity (library_config_verifies); a supplied configuration is used verbatim; every failing "
        "path (bad issuer / name / expiry, close, timeout) creates no transport; a stalled handshake fails at exactly the "
        "configured timeout (one minute by default). PARTIAL: certificate validation and the handshake are crypto/tls's (contract "
        "`verify`). Tie: Dial's statements, its select arms and the absence of InsecureSkipVerify in the package are "
        "#guarded; the full product constructor x certificate x server behaviour (60 cases) runs through the real Dial under "
        "virtual time, incl. a caller mutating its config after construction.",
   note="crypto/tls and crypto/x509 are trusted through the `verify` contract."),
 'C01': dict(technique='Lean 4 proof (transport LTS invariants over all reachable states) + regenerated facts + controlled-scheduler histories judged by Lean monitors',
   text="Model/Transport.lean: one endpoint as an LTS at the granularity of the code's synchronisation sites (every channel operation, select arm, close, mutex section is one action; any number of callers, notifiers, handlers, closers, frames; hostile peer and user as environment). Theorems (Props/C01.lean): issued seqnos pairwise distinct (seq_distinct); a call frame reaches the writer only while the pending table maps its seqno to the issuing call (pending_before_wire); the result buffer and slot of a call only ever receive responses carrying its own seqno, whatever the peer sends (reply_routing, result_is_own_corrected, result_taken_from_buffer); each delivered request invokes its handler at most once with that frame's seqno and argument (invoke_once); at most one reply per invocation, carrying the request's seqno (one_reply). With C02's round trip this gives argument / tags / result equality end to end. The full 'returned value = buffer' statement is kept as a comment with its proved counterexample (duplicated reply, known finding C12). Known finding (open): a handler result too large for a frame gets NO reply. Tie: the statements / select arms / channel capacities of every modelled function are regenerated from /repo and #guarded per property; the real code runs under a controlled scheduler (every goroutine of an instrumented copy parks at every sync statement, one released at a time, seeded; synctest virtual time) in generated two-endpoint sessions (concurrent calls / compressed calls / notifications both ways, cancels, timeouts, external / handler / repeated Close, cuts, fault at every scheduling step, hostile injected frames, payloads around the frame limit) and the totally ordered observable history is judged by Lean monitors.",
   note='Go channel/select/once/mutex semantics and the memory model at synchronisation granularity are modelled; handler invocation equality of arguments end-to-end composes C01 with C02 (not a single theorem).'),
 'C03': dict(technique='Lean 4 proof (encodeFrame lemmas + write-log invariant of the transport LTS) + byte-exact wire run around the limit + scheduler histories',
   text="Model/Transport.lean: one endpoint as an LTS at the granularity of the code's synchronisation sites (every channel operation, select arm, close, mutex section is one action; any number of callers, notifiers, handlers, closers, frames; hostile peer and user as environment). Theorems (Props/C03.lean): what encodeFrame hands out is one whole frame within the limit whose prefix decodes to its length and which a receiver with the same max accepts (encodeFrame_whole, with the two regenerated comparisons); oversize content is refused (oversize_refused) and the refusal changes nothing but the sender's own record — nothing handed over, nothing written (oversize_is_local); the write log has no duplicates and only bundles encodeFrame accepted, each written by the single writer (writes_are_frames); an abandoned send (context ended, encoder closed, too big) never reaches the write log (abandon_is_whole). Tie: the statements / select arms / channel capacities of every modelled function are regenerated from /repo and #guarded per property; the real code runs under a controlled scheduler (every goroutine of an instrumented copy parks at every sync statement, one released at a time, seeded; synctest virtual time) in generated two-endpoint sessions (concurrent calls / compressed calls / notifications both ways, cancels, timeouts, external / handler / repeated Close, cuts, fault at every scheduling step, hostile injected frames, payloads around the frame limit) and the totally ordered observable history is judged by Lean monitors. Plus the wire run: frame limit set to content-k..content+k for every kind; every Write must be one frame or the send refused, and a follow-up send must succeed.",
   note='net.Conn.Write is assumed all-or-error.'),
 'C07': dict(technique='Lean 4 proof (lifecycle invariants of the transport LTS) + scheduler histories with atomic-safe observer sequences',
   text="Model/Transport.lean: one endpoint as an LTS at the granularity of the code's synchronisation sites (every channel operation, select arm, close, mutex section is one action; any number of callers, notifiers, handlers, closers, frames; hostile peer and user as environment). Theorems (Props/C07.lean): the done channel closes at most once and stopCh is set exactly then (done_once); connected never becomes true again (connected_monotone); Err is nil before and one fixed non-nil value after, also for a local Close — the error is assigned inside the once (err_stable; full strength after fix 4614c8d); a response / cancellation for an unknown seqno changes nothing but the history (stray_*_ignored); an unknown method gets exactly one reply with the same seqno, no handler, no task entry, an unknown notification is dropped (notfound_*); any other error makes the loop close the transport (fatal_closes). Tie: the statements / select arms / channel capacities of every modelled function are regenerated from /repo and #guarded per property; the real code runs under a controlled scheduler (every goroutine of an instrumented copy parks at every sync statement, one released at a time, seeded; synctest virtual time) in generated two-endpoint sessions (concurrent calls / compressed calls / notifications both ways, cancels, timeouts, external / handler / repeated Close, cuts, fault at every scheduling step, hostile injected frames, payloads around the frame limit) and the totally ordered observable history is judged by Lean monitors. Observers read Err, Done, IsConnected, Done, Err in an order whose implications are valid under any interleaving.",
   note='Known finding (open, not in the model): two ends answering not-found calls over a synchronous connection block each other.'),
 'C08': dict(technique='Lean 4 proof (own-step enabledness + write-log order in the transport LTS) + cancel at every scheduling step',
   text="Model/Transport.lean: one endpoint as an LTS at the granularity of the code's synchronisation sites (every channel operation, select arm, close, mutex section is one action; any number of callers, notifiers, handlers, closers, frames; hostile peer and user as environment). Theorems (Props/C08.lean): once its context has ended a caller has an enabled step of its own at every wait, whatever peer, writer and connection do (cancel_returns_without_help), and the rest of the cancel path never waits (cancel_path_never_blocks); it returns the context's error (cancel_outcome); the cancel frame carries the call's seqno and follows the call frame in the write log (cancel_follows_call, via the FIFO single writer); a delivered cancel cancels exactly the handler registered under that seqno, and a running uncancelled handler is registered (cancel_reaches_handler, task_registered_before_next_frame under the peer-seqno hypothesis). Tie: the statements / select arms / channel capacities of every modelled function are regenerated from /repo and #guarded per property; the real code runs under a controlled scheduler (every goroutine of an instrumented copy parks at every sync statement, one released at a time, seeded; synctest virtual time) in generated two-endpoint sessions (concurrent calls / compressed calls / notifications both ways, cancels, timeouts, external / handler / repeated Close, cuts, fault at every scheduling step, hostile injected frames, payloads around the frame limit) and the totally ordered observable history is judged by Lean monitors.",
   note="'Promptly' is own-step enabledness in the model; real time is observed under virtual time."),
 'C09': dict(technique='Lean 4 proof (ghost cancel causes in the transport LTS) + scheduler histories',
   text="Model/Transport.lean: one endpoint as an LTS at the granularity of the code's synchronisation sites (every channel operation, select arm, close, mutex section is one action; any number of callers, notifiers, handlers, closers, frames; hostile peer and user as environment). Theorems (Props/C09.lean), under the explicit peer hypothesis (call seqnos non-negative and distinct — what C01 proves of this library's client): task keys of distinct handlers differ, notifications included (each has its own key since fix cd104ca); every cancellation of a handler's context has a legitimate cause: a delivered cancel for its own seqno, the transport closing, or its own end (cancel_justified); when the task loop stops every started, unfinished handler is cancelled (close_cancels_all). Tie: the statements / select arms / channel capacities of every modelled function are regenerated from /repo and #guarded per property; the real code runs under a controlled scheduler (every goroutine of an instrumented copy parks at every sync statement, one released at a time, seeded; synctest virtual time) in generated two-endpoint sessions (concurrent calls / compressed calls / notifications both ways, cancels, timeouts, external / handler / repeated Close, cuts, fault at every scheduling step, hostile injected frames, payloads around the frame limit) and the totally ordered observable history is judged by Lean monitors.",
   note='A hostile peer reusing seqnos is outside the hypothesis (the model shows the cross-cancel as cause otherEnd).'),
 'C10': dict(technique='Lean 4 proof (enabledness after stop, Close termination in the transport LTS) + close / cut at every scheduling step',
   text="Model/Transport.lean: one endpoint as an LTS at the granularity of the code's synchronisation sites (every channel operation, select arm, close, mutex section is one action; any number of callers, notifiers, handlers, closers, frames; hostile peer and user as environment). Theorems (Props/C10.lean): once the stop has propagated every blocked call, notification and reply hand-off has an enabled own step returning io.EOF / its own result (stopped_*_not_blocked, stop_returns_eof); calls and notifications issued after the stop fail at once with io.EOF without touching writer or tables (after_stop_eof*); Close waits only for the task loop and the writer, each of which always has an enabled step until it has exited, every other step of Close is always enabled (close_waits_only_for_live_goroutines, close_steps_enabled); raced / repeated Close: one closer inside the once, the others wait and return (close_idempotent). Tie: the statements / select arms / channel capacities of every modelled function are regenerated from /repo and #guarded per property; the real code runs under a controlled scheduler (every goroutine of an instrumented copy parks at every sync statement, one released at a time, seeded; synctest virtual time) in generated two-endpoint sessions (concurrent calls / compressed calls / notifications both ways, cancels, timeouts, external / handler / repeated Close, cuts, fault at every scheduling step, hostile injected frames, payloads around the frame limit) and the totally ordered observable history is judged by Lean monitors.",
   note='Bounded time = bounded model steps. Known finding (open, outside the model): Close called from the send-notifier callback waits for the writer, i.e. for itself.'),
 'C11': dict(technique='Lean 4 proof (quiescence ⇒ all goroutines exited; pending table exact) + leak scan after every scenario',
   text="Model/Transport.lean: one endpoint as an LTS at the granularity of the code's synchronisation sites (every channel operation, select arm, close, mutex section is one action; any number of callers, notifiers, handlers, closers, frames; hostile peer and user as environment). Theorems (Props/C11.lean): the pending table holds exactly the calls between AddCall and RemoveCall, so a returned call is absent (pending_exact, returned_call_removed); the task table holds only registered handlers under their own key (tasks_exact); in every quiescent state in which Close has completed and handlers have returned, writer, task loop, receive loop, every handler goroutine and every async cancel sender have exited and every caller / notifier has returned (no_leak, no_api_call_left; full strength after fixes 4b64cc8, c38d505). Tie: the statements / select arms / channel capacities of every modelled function are regenerated from /repo and #guarded per property; the real code runs under a controlled scheduler (every goroutine of an instrumented copy parks at every sync statement, one released at a time, seeded; synctest virtual time) in generated two-endpoint sessions (concurrent calls / compressed calls / notifications both ways, cancels, timeouts, external / handler / repeated Close, cuts, fault at every scheduling step, hostile injected frames, payloads around the frame limit) and the totally ordered observable history is judged by Lean monitors. After every scenario runtime.Stack is scanned for library frames and the pending table is read.",
   note="Real goroutine exit is observed (stack scan, synctest), proved for the model's goroutines."),
 'C12': dict(technique='Lean 4 proof (partial theorem + proved counterexample trace) + scheduler histories with a yield point before the result decode',
   text="Model/Transport.lean: one endpoint as an LTS at the granularity of the code's synchronisation sites (every channel operation, select arm, close, mutex section is one action; any number of callers, notifiers, handlers, closers, frames; hostile peer and user as environment). The full statement does NOT hold of the code: late_write_counterexample proves, on a concrete trace of the model (look-up, cancellation, return, decode), a write after the return; it is reproduced on the real code (known findings C12-late-write-*). Proved: only the receive loop's decode of a looked-up reply ever changes a buffer (writes_only_in_decode_corrected); every write precedes the signal, so a call returning by receiving its reply has that reply's writes before its return (write_before_signal); once a call has returned and the loop holds no looked-up reference to it, its buffer never changes again for any continuation (no_late_write_partial). Tie: the statements / select arms / channel capacities of every modelled function are regenerated from /repo and #guarded per property; the real code runs under a controlled scheduler (every goroutine of an instrumented copy parks at every sync statement, one released at a time, seeded; synctest virtual time) in generated two-endpoint sessions (concurrent calls / compressed calls / notifications both ways, cancels, timeouts, external / handler / repeated Close, cuts, fault at every scheduling step, hostile injected frames, payloads around the frame limit) and the totally ordered observable history is judged by Lean monitors. The monitor classifies late writes: returned-without-reply and duplicated-reply match the two open findings; a late write after a normal return with reply is a new violation.",
   note='Open known findings: C12-late-write-after-ctx-return, C12-late-write-duplicated-reply.'),
 'C13': dict(technique='Lean 4 proof (write log / notifier log / history invariants of the transport LTS) + scheduler histories',
   text="Model/Transport.lean: one endpoint as an LTS at the granularity of the code's synchronisation sites (every channel operation, select arm, close, mutex section is one action; any number of callers, notifiers, handlers, closers, frames; hostile peer and user as environment). Theorems (Props/C13.lean): frames reach the connection in hand-off order and the write log is exactly the history's writes (wire_order_is_handoff_order: single FIFO writer, hence program order); seqnos never reused and below the counter (seq_never_reused); the notifier log is exactly, in wire order, the calls and notifications handed to the connection, each fired immediately before its Write with the frame's seqno, never for replies, cancels or abandoned sends (notifier_exact); a cancel frame of a sent call is written after the call frame (cancel_after_call). Tie: the statements / select arms / channel capacities of every modelled function are regenerated from /repo and #guarded per property; the real code runs under a controlled scheduler (every goroutine of an instrumented copy parks at every sync statement, one released at a time, seeded; synctest virtual time) in generated two-endpoint sessions (concurrent calls / compressed calls / notifications both ways, cancels, timeouts, external / handler / repeated Close, cuts, fault at every scheduling step, hostile injected frames, payloads around the frame limit) and the totally ordered observable history is judged by Lean monitors.",
   note=''),
 'C14': dict(technique='Lean 4 proof (connection LTS invariants) + scripted-transport scheduler histories + real built-in transports run',
   text="Model/Conn.lean: the Connection's mutex-protected fields, reconnect sequences (doReconnect / RetryNotifyWithContext / connect), waiters, Shutdown, disconnections as an LTS; dial / OnConnect outcomes, retry verdicts and backoff stops are environment choices; any number of waiters and sequences. Theorems (Props/C14.lean): at most one sequence alive, it is the registered one, at most one dial in progress (one_sequence); each sequence announces itself exactly once, first-status iff first and not forced (announced_once); one error notification per retried failure; finalize at most once, and a sequence ending without error finalized exactly one registered transport with a successful OnConnect (finalize_then_release); every waiter released by a sequence returns that sequence's slot value, stable after close (released_with_same_outcome, slot_stable_after_close); after cancellation at most one more dial and every cancellable step leads to the release (shutdown_bounded). Tie: connection.go functions #guarded; a real Connection over a scripted transport/handler under the controlled scheduler with virtual time (commands, forced reconnects, disconnects, fast-forward, Shutdown racing), histories judged by Lean monitors; the real plain and TLS connection transports over an in-memory dialer for the close clause.",
   note="keybase/backoff's retry loop is modelled; the close clause of the built-in transports is checked by the run, not modelled. Observation (outside the clause): a TLS dial failing in the handshake leaves its base connection open."),
 'C15': dict(technique='Lean 4 proof (connection LTS + DoCommand decision logic) + scripted command outcomes under the scheduler',
   text="Theorems (Props/C15.lean) over Model/Conn.lean: a published client always belongs to a transport whose OnConnect succeeded and whose protocols are registered, and a waiter is told 'connected' only when a client is published (runs_with_published_client, client_stays); DoCommand's decision after one execution: success returned, retriable error re-run after backoff with one notification or returned when the policy stops, io.EOF waits for the connection and runs again, anything else returned unchanged (retry_exactly_when_due); a waiting command whose context ended can return at once with the context's error (wait_interruptible); a non-retriable connect error ends the sequence with that error in the slot the waiters read. Tie: DoCommand / waitForConnection / connect #guarded; scripted command outcomes x connection faults x cancellations under the controlled scheduler, judged by Lean monitors.",
   note='keybase/backoff.RetryNotify is modelled.'),
 'C20': dict(technique='Lean 4 proof (record counters in the transport LTS) + storage contents vs write log in scheduler histories',
   text="Model/Transport.lean: one endpoint as an LTS at the granularity of the code's synchronisation sites (every channel operation, select arm, close, mutex section is one action; any number of callers, notifiers, handlers, closers, frames; hostile peer and user as environment). Theorems (Props/C20.lean): a call that entered dispatch.Call has exactly one record once returned, however it ended (one_record_per_call); as many cancel records as handleCancel invocations (one_record_per_cancel); one per notification; exactly one per served call once past Reply, none for notifications (one_record_per_served_call). Finish-twice refusal and the tag format are #guarded statements. The SIZE formula (frame bytes + payload of the matching reply / request) is checked by the correspondence run against the write log, not proved. Tie: the statements / select arms / channel capacities of every modelled function are regenerated from /repo and #guarded per property; the real code runs under a controlled scheduler (every goroutine of an instrumented copy parks at every sync statement, one released at a time, seeded; synctest virtual time) in generated two-endpoint sessions (concurrent calls / compressed calls / notifications both ways, cancels, timeouts, external / handler / repeated Close, cuts, fault at every scheduling step, hostile injected frames, payloads around the frame limit) and the totally ordered observable history is judged by Lean monitors.",
   note='Hypothesis: compressing the argument / result succeeds (the early return precedes the deferred record). A duplicated reply adds its payload once more (accepted by the monitor).'),
}

PENDING = ("the Lean obligations of this property (transport / connection model) are still being discharged in this round; "
           "the check exists (bin/check) but is not claimed until every theorem is sorry-free")

def main():
    checks, na = [], []
    for p in props:
        pid = p["id"]
        c = CLAIMS.get(pid)
        if not c:
            na.append({"property_id": pid, "reason": PENDING})
            continue
        checks.append({
            "property_id": pid,
            "quick_cmd": f"bin/check {pid} --tier quick",
            "thorough_cmd": f"bin/check {pid} --tier thorough",
            "evidence_file": f"/verif/evidence/{pid}.json",
            "replay_cmd_template": f"bin/check {pid} --replay {{path}}",
            "engine": "lean4-proof+correspondence",
            "level_claimed": {"category": "proof", "text": c["text"], "design_ref": f"DESIGN.md §5 {pid}"},
            "level_note": NOTE + c["note"],
            "technique": c["technique"],
        })
    m = {
        "version": 1,
        "setup_cmd": "bin/setup",
        "hooks": {
            "guard": "verif",
            "enable": "go1.26 test -c -tags verif -overlay <generated overlay.json> ./rpc — harness files (/verif/harness) and "
                      "the yield-point instrumented copies (tools/instrument) are added through the overlay only; nothing is "
                      "committed to /repo except fix: commits",
            "baseline_off_cmd": "cd /repo && go test -mod=mod -vet=off -count=1 ./...",
            "source_commits": [],
            "add_only": True,
        },
        "engines": [{"name": "lean4-proof+correspondence", "path": "/verif/lean + /verif/bin/check",
                     "serves_properties": [c["property_id"] for c in checks],
                     "kind_free_text": "Lean 4 theorems about an executable model of the code; facts regenerated from /repo on "
                                       "every run and #guarded; correspondence runs (differential line protocol, controlled "
                                       "scheduler histories judged by Lean monitors)"}],
        "checks": checks,
        "not_applicable": na,
        "notes": "Fix commits in /repo (genuine defects found by the checks): see /verif/known_findings.json.",
    }
    json.dump(m, open(os.path.join(root, "MANIFEST.json"), "w"), indent=1)
    print("claimed:", [c["property_id"] for c in checks])

main()
