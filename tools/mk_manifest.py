#!/usr/bin/env python3
"""Writes /verif/MANIFEST.json from the property table below (claimed
properties) — everything else is listed under not_applicable with a reason."""
import json, os, sys
here = os.path.dirname(os.path.abspath(__file__))
root = os.path.dirname(here)
props = [json.loads(l) for l in open(os.path.join(root, "properties.jsonl"))]

NOTE = ("Trusted: Lean 4.33.0 kernel (axioms propext, Classical.choice, Quot.sound only; printed per theorem in the evidence; "
        "no sorry / native_decide / bv_decide / own axioms — grepped on every run), tools/extract + the #guard ties in "
        "lean/FmpRpc/Tie (regenerated from /repo on every run), the overlay harness in /verif/harness and testing/synctest. ")

CLAIMS = {
 "C02": dict(technique="Lean 4 proof (round trip, LegalEnc acceptance) + regenerated facts + differential vs real encoder/packetizer",
   text="Theorems (Props/C02.lean): the writer's layout equals the specification table for all five kinds and every message is "
        "one fixarray preceded by a msgpack integer equal to its byte length (wire_layout, prefix_roundtrip); every LEGAL "
        "encoding of every value — all integer / string / bin / array / map widths, given as the inductive relation LegalEnc "
        "written independently of the codec — decodes to that value (decode_legal), and every legal encoding of every message "
        "with any prefix width and any number of extra trailing elements is accepted by NextFrame with exactly the same "
        "fields (frame_accepts_any_legal); unbounded in sizes, nesting and counts. Tie: constants, literals, decode orders "
        "regenerated from /repo and #guarded; the real stack's bytes are compared byte for byte with the model's `wire`, and "
        "an independent encoder's alternative encodings are fed to the real packetizer and to the model.",
   note="go-codec's msgpack reader/writer is modelled (Model/Msgpack) and validated by the differential run, not verified."),
 "C04": dict(technique="Lean 4 proof (chunk-oracle reader stack = ideal reader, for every decoder program) + differential over partitions",
   text="Theorems (Props/C04.lean): for EVERY chunk list and EVERY decoder program the reader stack at single-Read "
        "granularity (bufio / frameReader.Read with clamp and decrement / decReadFull loops / drain) computes the same "
        "NextFrame result and leaves the same stream as the ideal reader on the concatenation (nextFrame_chunk_indep, "
        "run_chunk_indep), and a frame with an acceptable prefix whose declared length is present is consumed exactly "
        "whatever its content (consumes_declared_length). Tie: reader functions #guarded; real packetizer fed scripted "
        "partitions (whole, 1-byte, single/double cuts, random, all 2^(n-1) for short streams) and compared with the model.",
   note="bufio.Reader and go-codec's ioDecReader are modelled as a chunk oracle (any non-empty prefix per Read)."),
 "C05": dict(technique="Lean 4 proof (classification, budget, truncation) + regenerated comparison operators + differential on hostile streams",
   text="Theorems (Props/C05.lean) over ALL byte streams: a prefix that is not an integer, <= 0 or > max yields an error with "
        "at most 9 bytes consumed (bad_prefix_stops_early, len_checks with the regenerated operators); at most 9 + max bytes "
        "are consumed per frame (budget); a stream ending inside a frame body always yields a fatal error other than io.EOF "
        "(truncation_never_clean — full strength after the fix commit 43f3f95), a stream ending on a frame boundary yields "
        "io.EOF; the loop continues exactly after nil and the three not-found errors. PARTIAL: absence of panics, real "
        "allocation and hangs are runtime behaviour, observed by the correspondence run (mutated / truncated / random / "
        "huge-inner-length streams through the real packetizer; a panic is an abnormal exit), not proved.",
   note="Panics, allocation and goroutine hangs cannot be exhibited by the model; covered by the run only."),
 "C16": dict(technique="Lean 4 proof (timer state machine) + differential under virtual time",
   text="Theorems (Props/C16.lean): the random delay lies in [0, window) for every 63-bit input; Wait returns only in a state "
        "where the timer's current fire-once is the one the waiter saw fire or there is none; a waiter is blocked only on an "
        "unfired fire-once (no deadlock), fired is monotone, start fires the previous object, FireNow fires the current one, "
        "clock ticks alone do not fire a timer before its deadline. Tie: timer functions #guarded; op sequences over "
        "StartConstant/StartRandom/FireNow/Wait/sleep on the real CancellableTimer under testing/synctest, return instants "
        "compared with the model. PARTIAL: the connection-level clause (dialing held back / fire-now command) is exercised by "
        "the C14 connection scenarios; a marked command arriving before the timer is armed is a known finding.",
   note="Real timers are a discrete clock (virtual time)."),
 "C18": dict(technique="Lean 4 proof (rotation cycle, peek, parse/print round trips, SplitHostPort model) + differential",
   text="Theorems (Props/C18.lean): for every shuffle oracle a full cycle returns exactly the arrangement's flatten (each "
        "address of a group once, groups in order) and empties the iteration list; Peek names the next GetAddress and is "
        "unobservable; the index expression is always defined; construction normalises; parse(String()) returns the same "
        "groups for separator-free addresses (splitOn/join round trip proved); ParseFMPURI rejects every non-whitelisted "
        "scheme, every authority SplitHostPort rejects, every empty host; TLS iff fmprpc+tls; String() re-parses under the "
        "net/url contract. Tie: functions #guarded (incl. Lock/Unlock presence); real remotes with the shuffle reproduced from "
        "the seed; URIs with url.Parse's own result handed to the model.",
   note="net/url.Parse and Unicode ToLower/TrimSpace are contracts validated by the run."),
 "C19": dict(technique="Lean 4 proof (heap-of-maps model: no aliasing, persistence) + differential + wire/session runs",
   text="Theorems (Props/C19.lean): over ALL operation sequences (additions, reads, user mutations of any held map) no object "
        "bound in a context is ever reachable from a user reference (no_alias) and no operation changes the tags seen "
        "through an existing context (add_is_persistent); add returns a new context with old tags overridden by the added "
        "ones; a map read out is a fresh copy; the tag map is the last wire element iff non-empty for calls, compressed calls "
        "and notifications (tags_on_wire; with C02's round trip the handler sees exactly the normalised tags). Tie: "
        "context.go / client.go functions #guarded; random derivation trees with external mutation vs the model; wire bytes "
        "and end-to-end sessions (handler-side TagsFromContext) compared.",
   note="context.WithValue immutability is the context package's contract."),
 "C06": dict(technique="Lean 4 proof (compression plumbing over an abstract law-abiding compressor) + real-compressor law run + wire/session runs",
   text="Theorems (Props/C06.lean), for EVERY compressor satisfying the two stated laws and every compression type: the frame a "
        "client writes for a compressed call decodes on the server to exactly the argument the caller supplied — the same as "
        "the uncompressed call (compressed_call_transparent); an unknown type is treated as none on both ends (unknown_is_none); "
        "the payload is the compressed msgpack encoding and decompresses to it (payload_roundtrip); a reply compressed with the "
        "request's type and decompressed with the type remembered by the pending call yields the handler's result and error "
        "(compressed_reply_transparent). PARTIAL: DEFLATE / msgpackzip themselves, sync.Pool reuse and 'gzip corruption yields an "
        "error' are assumptions, validated on the real compressors: round trips, non-empty output, every single-bit flip of "
        "small payloads, decompression right after a failed one, 16-way concurrent pool reuse; plus byte-exact wire comparison "
        "of compressed calls/replies (payload decompressed and compared with the model's encoding) and end-to-end sessions.",
   note="The compressors and sync.Pool are not modelled; their laws are hypotheses of the theorems."),
 "C17": dict(technique="Lean 4 proof (Dial's decision logic over the assumed crypto/tls contract) + exhaustive 60-case run against a scripted tls.Server",
   text="Theorems (Props/C17.lean): without a user configuration the configuration handed to tls.Client has no "
        "InsecureSkipVerify, the dialed host as server name and the PEM's roots (system roots when none), so a completed dial "
        "implies chain, name and validity (library_config_verifies); a supplied configuration is used verbatim; every failing "
        "path (bad issuer / name / expiry, close, timeout) creates no transport; a stalled handshake fails at exactly the "
        "configured timeout (one minute by default). PARTIAL: certificate validation and the handshake are crypto/tls's (contract "
        "`verify`). Tie: Dial's statements, its select arms and the absence of InsecureSkipVerify in the package are "
        "#guarded; the full product constructor x certificate x server behaviour (60 cases) runs through the real Dial under "
        "virtual time, incl. a caller mutating its config after construction.",
   note="crypto/tls and crypto/x509 are trusted through the `verify` contract."),
}

PENDING = ("the Lean obligations of this property (transport / connection model) are still being discharged in this round; "
           "the check exists (bin/check) but is not claimed until every theorem is sorry-free")

def main():
    checks, na = [], []
    for p in props:
        pid = p["id"]
        c = CLAIMS.get(pid)
        if not c:
            na.append({"property_id": pid, "reason": PENDING})
            continue
        checks.append({
            "property_id": pid,
            "quick_cmd": f"bin/check {pid} --tier quick",
            "thorough_cmd": f"bin/check {pid} --tier thorough",
            "evidence_file": f"/verif/evidence/{pid}.json",
            "replay_cmd_template": f"bin/check {pid} --replay {{path}}",
            "engine": "lean4-proof+correspondence",
            "level_claimed": {"category": "proof", "text": c["text"], "design_ref": f"DESIGN.md §5 {pid}"},
            "level_note": NOTE + c["note"],
            "technique": c["technique"],
        })
    m = {
        "version": 1,
        "setup_cmd": "bin/setup",
        "hooks": {
            "guard": "verif",
            "enable": "go1.26 test -c -tags verif -overlay <generated overlay.json> ./rpc — harness files (/verif/harness) and "
                      "the yield-point instrumented copies (tools/instrument) are added through the overlay only; nothing is "
                      "committed to /repo except fix: commits",
            "baseline_off_cmd": "cd /repo && go test -mod=mod -vet=off -count=1 ./...",
            "source_commits": [],
            "add_only": True,
        },
        "engines": [{"name": "lean4-proof+correspondence", "path": "/verif/lean + /verif/bin/check",
                     "serves_properties": [c["property_id"] for c in checks],
                     "kind_free_text": "Lean 4 theorems about an executable model of the code; facts regenerated from /repo on "
                                       "every run and #guarded; correspondence runs (differential line protocol, controlled "
                                       "scheduler histories judged by Lean monitors)"}],
        "checks": checks,
        "not_applicable": na,
        "notes": "Fix commits in /repo (genuine defects found by the checks): see /verif/known_findings.json.",
    }
    json.dump(m, open(os.path.join(root, "MANIFEST.json"), "w"), indent=1)
    print("claimed:", [c["property_id"] for c in checks])

main()
