#!/bin/sh
# run_seeded.sh <seeded id> <property> [...]: apply /verif/seeded/<id>/patch.diff to /repo, run the quick checks, revert.
ID=$1; shift
git -C /repo status --short | grep -q . && { echo "/repo is not clean"; exit 2; }
git -C /repo apply /verif/seeded/$ID/patch.diff || { echo "patch does not apply"; exit 3; }
for P in "$@"; do
  ( cd /verif && bin/check $P ${TIER:+--tier $TIER} 2>/dev/null | grep -E "VIOLATION|KNOWN" | cut -c1-200; echo "$ID $P rc=$?" )
done
git -C /repo checkout -- .
git -C /verif checkout -- evidence/ 2>/dev/null
git -C /repo status --short | head -3
