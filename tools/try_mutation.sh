#!/bin/sh
# try_mutation.sh <worktree> <property> [more properties...]
# Confirms a seeded change in its scratch worktree (suite passes with it, demo fails
# with it and passes without it), then applies it to /repo, runs the checks and
# reverts /repo straight afterwards.
set -u
WT=$1; shift
export GOFLAGS=-mod=mod GOPROXY=off GOSUMDB=off
cd "$WT" || exit 2
echo "== confirm in $WT"
mkdir -p /tmp/mutdemo && cp rpc/zz_demo_test.go /tmp/mutdemo/zz_demo_test.go.$$ 
mv rpc/zz_demo_test.go /tmp/mutdemo/held.$$
if go test -vet=off -count=1 ./... >/tmp/mutdemo/suite.$$ 2>&1; then echo "suite with patch: PASS"; else echo "suite with patch: FAIL"; tail -5 /tmp/mutdemo/suite.$$; fi
mv /tmp/mutdemo/held.$$ rpc/zz_demo_test.go
if go test -vet=off -count=1 -run 'TestDemo$' ./rpc/ >/tmp/mutdemo/d1.$$ 2>&1; then echo "demo with patch: PASS (unexpected)"; else echo "demo with patch: FAIL (expected)"; fi
# (no git stash: the stash is shared between worktrees)
git apply -R _out/patch.diff || { echo "cannot reverse the patch"; exit 3; }
if go test -vet=off -count=1 -run 'TestDemo$' ./rpc/ >/tmp/mutdemo/d2.$$ 2>&1; then echo "demo without patch: PASS (expected)"; else echo "demo without patch: FAIL (unexpected)"; tail -5 /tmp/mutdemo/d2.$$; fi
git apply _out/patch.diff
echo "== apply to /repo and run checks"
cd /repo && git apply "$WT/_out/patch.diff" || { echo "patch does not apply to /repo"; exit 3; }
for P in "$@"; do
  ( cd /verif && bin/check $P 2>/dev/null | grep -E "VIOLATION|KNOWN" | cut -c1-300; echo "$P rc=$?" )
done
git -C /repo checkout -- . 
# evidence written while the change was applied describes the mutated tree: never keep it
git -C /verif checkout -- evidence/ 2>/dev/null
git -C /repo status --short | head -3
rm -rf /tmp/mutdemo
