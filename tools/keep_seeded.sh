#!/bin/sh
# keep_seeded.sh <worktree> <seeded id> : archive a confirmed seeded change (meta.json is written by hand afterwards)
WT=$1; ID=$2
D=/verif/seeded/$ID
mkdir -p $D
cp $WT/_out/patch.diff $D/patch.diff
cp $WT/rpc/zz_demo_test.go $D/zz_demo_test.go
[ -f $WT/_out/notes.md ] && cp $WT/_out/notes.md $D/notes.md
ls $D
