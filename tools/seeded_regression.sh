#!/bin/sh
# seeded_regression.sh [<seeded id> ...]: every seeded change (default: all) against the check of the property it
# breaks.  Works on a COPY of the repository ($VP_RUN_REPO under `vp run --with-repo`, else a scratch clone), never on
# /repo.  One line per change: concrete | tie-only (no-failing-input-found) | MISSED, plus the replay verdict counts.
cd "$(dirname "$0")/.."
ROOT=$(pwd)
if [ -n "$VP_RUN_REPO" ]; then R=$VP_RUN_REPO; else R=$(mktemp -d /tmp/seedrepo-XXXX); git clone -q /repo "$R"; fi
export VERIF_REPO=$R
# DEEPEN=1: let a broken tie deepen the runs (what bin/check does by default); default here: quick depth only,
# i.e. what the quick tier finds on its own
[ "${DEEPEN:-0}" = "1" ] || export VERIF_NO_DEEPEN=1
bin/setup >/dev/null 2>&1 || { echo "setup failed"; exit 1; }
IDS="$@"
[ -z "$IDS" ] && IDS=$(ls seeded)
for ID in $IDS; do
  P=${ID%-*}
  git -C "$R" checkout -q -- . 
  git -C "$R" apply "$ROOT/seeded/$ID/patch.diff" || { echo "$ID patch-failed"; continue; }
  T0=$(date +%s)
  bin/check $P > /tmp/seedreg_$ID.log 2>&1
  rc=$?
  T1=$(date +%s)
  git -C "$R" checkout -q -- .
  python3 - "$ID" "$P" "$rc" "$((T1-T0))" "$ROOT" <<'PY'
import json,sys
ID,P,rc,wall,root=sys.argv[1:6]
try:
    e=json.load(open(f'{root}/evidence/{P}.json')); c=e['coverage']
except Exception as ex:
    print(ID,'rc',rc,'no-evidence',ex); sys.exit(0)
rp=[r.get('replay') for r in c.get('runs',[]) if r.get('replay')]
viol=[l for l in open(f'/tmp/seedreg_{ID}.log') if l.startswith('VIOLATION')]
conc=[v for v in viol if 'no-failing-input-found' not in v]
sigs=sorted(set(v.get('sig','') if isinstance(v,dict) else '' for v in (e.get('violation_details') or [])))[:4]
print(ID,'rc',rc,'wall',wall+'s', 'concrete' if conc else ('tie-only' if viol else 'MISSED'),
      'replay', ({k:rp[0][k] for k in ('ok','stuck','differs','unmapped')} if rp else None))
PY
done
[ -z "$VP_RUN_REPO" ] && rm -rf "$R"
