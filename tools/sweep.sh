#!/bin/sh
# sweep.sh <tier> <seed> [<seed> ...]: every property, every given seed, on the unchanged tree.
# Prints one line per (property, seed); any VIOLATION line on the unchanged tree is a false alarm to fix.
TIER=$1; shift
[ -n "$VP_RUN_REPO" ] && export VERIF_REPO=$VP_RUN_REPO
bin/setup >/dev/null 2>&1 || { echo "setup failed"; exit 1; }
for S in "$@"; do
  for P in C01 C02 C03 C04 C05 C06 C07 C08 C09 C10 C11 C12 C13 C14 C15 C16 C17 C18 C19 C20; do
    T0=$(date +%s)
    OUT=$(VERIF_SEED=$S bin/check $P --tier $TIER 2>/dev/null | grep -E "VIOLATION" | head -3)
    T1=$(date +%s)
    echo "$P seed=$S tier=$TIER wall=$((T1-T0))s ${OUT:-ok}"
  done
done
