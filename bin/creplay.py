"""Site-level replay for the connection model (DESIGN §0.8): the trace of one
controlled execution of the real `Connection` (scripted transport and
handler, virtual time) is translated into `Cn.Act` names + assertions and run
through `Cn.step` by `Model/ConnReplay.replay`.

Linearisation points: a locked section of connection.go acts at the moment its
lock is acquired (`L` lines, added by the instrumenter after every
`c.mutex.Lock()` of a Connection method); the reconnect goroutine's progress is
read off the callbacks it makes into the scripted transport / handler (`E`
lines) and off the arm of its context check (`A`)."""
import re


class Unsupported(Exception):
    pass


class Unmapped(Exception):
    pass


RET = {"dialfatal": "ret:dialfatal", "dialerr": "ret:dialerr", "onconnecterr": "ret:onconnect",
       "canceled": "ret:ctx", "deadline": "ret:ctx"}


class ConnTranslator:
    def __init__(self, lines):
        self.L = lines
        self.items = []
        self.delay = 0
        self.window = 0
        self.next_w = 0
        self.next_sid = 0
        self.chan = None
        self.seq = {}            # sid -> dict(phase, lasterr)
        self.g_sid = {}          # reconnect goroutine -> sid
        self.unbound = []        # sids created whose goroutine has not shown up yet
        self.g_w = {}            # goroutine -> (waiter id, state) of its current waitForConnection call
        self.g_exec = {}         # goroutine -> outcome of its last command execution whose follow-up has not been seen
        self.asserts = 0

    def act(self, s):
        self.items.append(s)

    def next_of(self, i, g):
        j = i + 1
        while j < len(self.L):
            t = self.L[j]
            if t[0] in "PAELT" and len(t) > 2 and t[2] == g:
                return t
            j += 1
        return None

    def new_waiter(self, i, g, force, phantom=False):
        w = self.next_w
        self.next_w += 1
        self.act("wNew %d %d" % (w, 1 if force else 0))
        self.act("wStart %d" % w)
        nxt = self.next_of(i, g)
        creates = nxt is not None and nxt[0] == "P" and nxt[3] == "Connection.getReconnectChanLocked#0.go@"
        waits = creates or (nxt is not None and nxt[0] == "P" and nxt[3] == "Connection.waitForConnection#0.select")
        if creates:
            sid = self.next_sid
            self.next_sid += 1
            self.chan = sid
            self.seq[sid] = dict(phase="announce", lasterr=None)
            self.unbound.append(sid)
            self.act("?chan %d" % sid)
            self.asserts += 1
        if phantom:
            return
        if waits:
            self.act("?waiting %d" % w)
            self.g_w[g] = [w, "waiting"]
        else:
            self.act("?wpc %d ret:nil" % w)
            self.g_w[g] = [w, "returned"]
        self.asserts += 1

    def after(self, g, what):
        """what DoCommand did after the last execution of the command by goroutine g"""
        out = self.g_exec.pop(g, None)
        if out is None:
            return
        self.act("?after %s %d 0 %s" % (out, 1 if out == "retry" else 0, what))
        self.asserts += 1

    def flush_to_release(self, sid):
        q = self.seq[sid]
        ph = q["phase"]
        if ph == "delay":
            self.act("sDelayDone %d" % sid)
            ph = "retryStart"
        if ph == "retryStart":
            self.act("sRetryStart %d" % sid)     # the context was cancelled before the first attempt
        elif ph == "backoff":
            self.act("sBackoff %d 1" % sid)       # the policy said Stop
        elif ph == "sleep":
            self.act("sSleepCtx %d" % sid)
        elif ph == "release":
            pass
        else:
            raise Unmapped("sequence %d reaches its final section in phase %s" % (sid, ph))
        self.act("sRelease %d" % sid)
        q["phase"] = "done"
        if self.chan == sid:
            self.chan = None

    def run(self):
        for i, t in enumerate(self.L):
            k = t[0]
            if k == "G":
                name = t[2]
                if name.split("/")[0] == "Connection.getReconnectChanLocked#0.go":
                    if not self.unbound:
                        raise Unmapped("reconnect goroutine without a sequence")
                    self.g_sid[name] = self.unbound.pop(0)
            elif k == "L":
                g, fn = t[2], t[3]
                if fn == "Connection.waitForConnection":
                    self.after(g, "waitForConnectionThenRerun")
                    self.new_waiter(i, g, g.startswith("@force"))
                elif fn == "Connection.getReconnectChan":
                    self.new_waiter(i, g, True, phantom=True)
                elif fn == "Connection.doReconnect":
                    sid = self.g_sid.get(g)
                    if sid is None:
                        raise Unmapped("final section of an unknown reconnect goroutine")
                    self.flush_to_release(sid)
                elif fn == "Connection.Shutdown":
                    self.act("shutdown")
            elif k == "A":
                g, site, arm = t[2], t[3], int(t[4])
                if site == "Connection.waitForConnection#0.select":
                    w = self.g_w.get(g)
                    if w is None:
                        raise Unmapped("wait arm of a goroutine that is not waiting")
                    if arm == 0:
                        self.act("wCtx %d" % w[0])
                        self.act("wCtxRet %d" % w[0])
                        self.act("?wpc %d ret:ctx" % w[0])
                        w[1] = "ctx"
                    else:
                        self.act("wRelease %d" % w[0])
                        w[1] = "released"
                elif site == "Connection.doReconnect#0.select":
                    sid = self.g_sid.get(g)
                    q = self.seq[sid]
                    if arm == 0:
                        self.act("sAttemptEnd %d 0" % sid)
                        q["phase"] = "release"
                    else:
                        retry = q["lasterr"] != "fatal"
                        self.act("sAttemptEnd %d %d" % (sid, 1 if retry else 0))
                        q["phase"] = "release" if q["lasterr"] in (None, "fatal") else "backoff"
            elif k == "E":
                self.on_event(i, t)
        return " ; ".join(self.items)

    def on_event(self, i, t):
        g, ev = t[2], t[3:]
        if not ev:
            return
        k = ev[0]
        if k == "cfg":
            kv = dict(x.split("=") for x in ev[1:])
            self.items.insert(0, "cfg %d" % (1 if kv.get("fib") == "true" else 0))
            self.delay = int(kv.get("delay", "0"))
            self.window = int(kv.get("window", "0"))
            return
        sid = self.g_sid.get(g)
        if k == "ondisc":
            status = int(ev[1])
            if sid is None:
                raise Unmapped("OnDisconnected outside a reconnect goroutine")
            first = status == int(self.first_status())
            delay = (first and self.delay > 0) or ((not first) and self.window > 0)
            self.act("?sfirst %d %d" % (sid, 1 if first else 0))
            self.act("sAnnounce %d %d" % (sid, 1 if delay else 0))
            self.seq[sid]["phase"] = "delay" if delay else "retryStart"
            self.asserts += 1
            return
        if k == "dialb":
            q = self.seq[sid]
            if q["phase"] == "delay":
                self.act("sDelayDone %d" % sid)
                q["phase"] = "retryStart"
            if q["phase"] == "retryStart":
                self.act("sRetryStart %d" % sid)
            elif q["phase"] == "sleep":
                self.act("sSleepDone %d" % sid)
            else:
                raise Unmapped("dial in phase %s" % q["phase"])
            q["phase"] = "dial"
            self.act("?spc %d dial" % sid)
            self.act("?dialing 1")
            self.asserts += 2
            return
        if k == "diale":
            q = self.seq[sid]
            out = ev[2]
            self.act("sDialEnd %d %d %d" % (sid, 1 if out == "ok" else 0, 1 if out == "fatal" else 0))
            q["lasterr"] = None if out == "ok" else out
            q["phase"] = "dialed" if out == "ok" else "attemptEnd"
            return
        if k == "reg":
            q = self.seq.get(sid)
            if q and q["phase"] == "dialed":
                self.act("sRegister %d" % sid)
                q["phase"] = "registered"
            return
        if k == "onconnect":
            q = self.seq[sid]
            ok = ev[2] == "ok"
            self.act("sOnConnect %d %d" % (sid, 1 if ok else 0))
            q["phase"] = "connected" if ok else "attemptEnd"
            q["lasterr"] = None if ok else "onconnect"
            return
        if k == "finalize":
            q = self.seq[sid]
            self.act("sPublish %d" % sid)
            self.act("?client %s" % ev[1])
            self.asserts += 1
            q["phase"] = "attemptEnd"
            q["lasterr"] = None
            return
        if k == "onconnerr":
            q = self.seq[sid]
            self.act("sBackoff %d 0" % sid)
            q["phase"] = "sleep"
            return
        if k == "disc":
            self.act("disconnect")
            return
        if k == "oncmderr":
            self.after(g, "backoffThenRerun")
            return
        if k == "exec":
            self.g_exec[g] = ev[4]
            w = self.g_w.get(g)
            if w is not None:
                self.act("?wpc %d ret:nil" % w[0])
                self.asserts += 1
                w[1] = "exec"
            self.act("?client %s" % ("-" if ev[3] == "-1" else ev[3]))
            self.asserts += 1
            return
        if k == "cmde":
            w = self.g_w.get(g)
            res = ev[2]
            if g in self.g_exec:
                self.after(g, "returnNil" if res == "ok" else "returnErr:" + res)
            if w is not None and w[1] in ("released", "ctx", "waiting") and res in RET:
                self.act("?wpc %d %s" % (w[0], RET[res]))
                self.asserts += 1
            return
        if k == "fre":
            w = self.g_w.get(g)
            res = ev[2]
            if w is None:
                return
            if res == "ok":
                want = "ret:nil"
            elif "fatal" in res:
                want = "ret:dialfatal"
            elif "retriable" in res:
                want = "ret:dialerr"
            elif "onconnect" in res:
                want = "ret:onconnect"
            elif "context" in res:
                want = "ret:ctx"
            else:
                raise Unsupported("ForceReconnect result %s" % res)
            self.act("?wpc %d %s" % (w[0], want))
            self.asserts += 1
            return

    def first_status(self):
        return 2   # StartingFirstConnection (UsingExistingConnection = 1, StartingNonFirstConnection = 3)


def translate(lines):
    tr = ConnTranslator(lines)
    body = tr.run()
    return body, dict(asserts=tr.asserts)
