"""Shared machinery of bin/check and bin/setup (python3, stdlib only).

Pipeline per check (DESIGN §2): extract facts from /repo's working tree ->
build the Lean modules of the property (proof obligations + tie guards) ->
audit axioms -> build the overlay harness for the current tree -> run the
correspondence (implementation vs Lean oracle, implementation histories vs
Lean monitors) -> decide -> write evidence.
"""
import fcntl
import glob
import hashlib
import json
import os
import re
import shutil
import subprocess
import sys
import tempfile
import time

VERIF = os.path.dirname(os.path.dirname(os.path.abspath(__file__)))
REPO = os.environ.get("VERIF_REPO", "/repo")
LEAN = os.path.join(VERIF, "lean")
CACHE = os.path.join(VERIF, ".cache")
OUT = os.path.join(VERIF, "out")
REPLAY_DIR = os.path.join(OUT, "replay")
EVID = os.path.join(VERIF, "evidence")
ORACLE = os.path.join(LEAN, ".lake", "build", "bin", "oracle")
ALLOWED_AXIOMS = {"propext", "Classical.choice", "Quot.sound"}

GOENV = dict(os.environ, GOFLAGS="-mod=mod", GOPROXY="off", GOSUMDB="off", GOTOOLCHAIN="local")


def log(*a):
    print("[check]", *a, file=sys.stderr, flush=True)


def run(cmd, cwd=None, env=None, timeout=None, stdin=None):
    p = subprocess.run(cmd, cwd=cwd, env=env, timeout=timeout, stdin=stdin,
                       stdout=subprocess.PIPE, stderr=subprocess.STDOUT, text=True)
    return p.returncode, p.stdout


def sha_files(paths):
    h = hashlib.sha256()
    for p in sorted(paths):
        h.update(p.encode())
        try:
            with open(p, "rb") as f:
                h.update(f.read())
        except OSError:
            h.update(b"<missing>")
    return h.hexdigest()[:20]


def repo_files():
    fs = glob.glob(os.path.join(REPO, "rpc", "*.go")) + glob.glob(os.path.join(REPO, "rpc", "*", "*.go"))
    fs += [os.path.join(REPO, "go.mod"), os.path.join(REPO, "go.sum")]
    return fs


def tree_hash():
    fs = repo_files()
    fs += glob.glob(os.path.join(VERIF, "harness", "*.go"))
    fs += glob.glob(os.path.join(VERIF, "harness", "rt", "*.go"))
    fs += glob.glob(os.path.join(VERIF, "tools", "*", "*.go"))
    return sha_files(fs)


class Lock:
    def __init__(self, name="lock"):
        os.makedirs(CACHE, exist_ok=True)
        self.path = os.path.join(CACHE, name)

    def __enter__(self):
        self.f = open(self.path, "w")
        fcntl.flock(self.f, fcntl.LOCK_EX)
        return self

    def __exit__(self, *a):
        fcntl.flock(self.f, fcntl.LOCK_UN)
        self.f.close()


# ------------------------------------------------------------------ tools

def build_tool(name):
    """Build tools/<name> into .cache/tools/<name> (keyed by its sources)."""
    src = os.path.join(VERIF, "tools", name)
    key = sha_files(glob.glob(os.path.join(src, "*")))
    dst = os.path.join(CACHE, "tools", f"{name}-{key}")
    if not os.path.exists(dst):
        os.makedirs(os.path.dirname(dst), exist_ok=True)
        rc, out = run(["go", "build", "-o", dst, "."], cwd=src, env=GOENV)
        if rc != 0:
            raise RuntimeError(f"building tool {name} failed:\n{out}")
    return dst


def extract_facts():
    """Regenerate lean/FmpRpc/Gen/Facts.lean from /repo's working tree.
    Returns (facts dict, changed?)."""
    tool = build_tool("extract")
    gen = os.path.join(LEAN, "FmpRpc", "Gen", "Facts.lean")
    os.makedirs(os.path.dirname(gen), exist_ok=True)
    tmpd = tempfile.mkdtemp(prefix="verif-facts-")
    try:
        tl, tj = os.path.join(tmpd, "Facts.lean"), os.path.join(tmpd, "facts.json")
        rc, out = run([tool, os.path.join(REPO, "rpc"), tl, tj])
        if rc != 0:
            raise RuntimeError("extract failed (does /repo/rpc parse?):\n" + out)
        new = open(tl).read()
        old = open(gen).read() if os.path.exists(gen) else None
        if new != old:
            with open(gen, "w") as f:
                f.write(new)
        facts = json.load(open(tj))
        return facts, new != old
    finally:
        shutil.rmtree(tmpd, ignore_errors=True)


# ------------------------------------------------------------------ lean

def lake_build(targets, timeout=1800):
    rc, out = run(["lake", "build"] + targets, cwd=LEAN, timeout=timeout)
    return rc, out


def theorem_names(module):
    """(name, line) of every theorem in lean/<module path>.lean"""
    path = os.path.join(LEAN, *module.split(".")) + ".lean"
    res = []
    ns = []
    if not os.path.exists(path):
        return res
    in_block = 0
    for i, line in enumerate(open(path), 1):
        # skip block comments (a full statement kept as a comment is not a theorem)
        if in_block:
            if "-/" in line:
                in_block = 0
            continue
        st = line.lstrip()
        if st.startswith("/-") and "-/" not in st[2:]:
            in_block = 1
            continue
        if st.startswith("--"):
            continue
        m = re.match(r"\s*namespace\s+(\S+)", line)
        if m:
            ns.append(m.group(1))
        m = re.match(r"\s*end\s+(\S+)", line)
        if m and ns and ns[-1] == m.group(1):
            ns.pop()
        m = re.match(r"\s*(?:@\[[^\]]*\]\s*)?(?:private\s+|protected\s+)?theorem\s+([^\s:({\[]+)", line)
        if m:
            res.append((".".join(ns + [m.group(1)]), i))
    return res


def failed_decls(module, build_out):
    """Map error lines of a failed build back to theorem names."""
    path = "/".join(module.split(".")) + ".lean"
    thms = theorem_names(module)
    bad = set()
    for m in re.finditer(re.escape(path) + r":(\d+):\d+:\s*error", build_out):
        ln = int(m.group(1))
        cur = None
        for name, l in thms:
            if l <= ln:
                cur = name
        bad.add(cur or f"{module}:{ln}")
    return sorted(bad)


def audit_axioms(modules):
    """#print axioms for every theorem of the given modules.
    Returns {theorem: [axioms]} (None when the module does not build)."""
    names = []
    for m in modules:
        names += [n for n, _ in theorem_names(m)]
    if not names:
        return {}
    src = "\n".join(f"import {m}" for m in modules) + "\n" + "\n".join(f"#print axioms {n}" for n in names) + "\n"
    fd, p = tempfile.mkstemp(suffix=".lean", prefix="verif-audit-")
    os.write(fd, src.encode())
    os.close(fd)
    try:
        rc, out = run(["lake", "env", "lean", p], cwd=LEAN, timeout=900)
    finally:
        os.unlink(p)
    res = {}
    for m in re.finditer(r"'([^']+)' (?:depends on axioms: \[([^\]]*)\]|does not depend on any axioms)", out):
        ax = [a.strip() for a in (m.group(2) or "").replace("\n", " ").split(",") if a.strip()]
        res[m.group(1)] = ax
    for n in names:
        res.setdefault(n, None)
    return res


FORBIDDEN = re.compile(r"\bsorry\b|\badmit\b|^\s*axiom\s|native_decide|bv_decide|implemented_by|\bunsafe\s|maxHeartbeats\s+0")


def grep_forbidden(modules):
    hits = []
    for m in modules:
        path = os.path.join(LEAN, *m.split(".")) + ".lean"
        if not os.path.exists(path):
            continue
        in_block = 0
        for i, line in enumerate(open(path), 1):
            code = line
            # strip block comments (roughly) and line comments
            if in_block:
                if "-/" in code:
                    code = code.split("-/", 1)[1]
                    in_block = 0
                else:
                    continue
            while "/-" in code:
                pre, rest = code.split("/-", 1)
                if "-/" in rest:
                    code = pre + rest.split("-/", 1)[1]
                else:
                    code = pre
                    in_block = 1
                    break
            code = code.split("--", 1)[0]
            if FORBIDDEN.search(code):
                hits.append(f"{m}:{i}: {line.strip()}")
    return hits


def imports_closure(module):
    """Project-local modules imported (transitively) by module."""
    seen, todo = [], [module]
    while todo:
        m = todo.pop()
        if m in seen:
            continue
        path = os.path.join(LEAN, *m.split(".")) + ".lean"
        if not os.path.exists(path):
            continue
        seen.append(m)
        for line in open(path):
            mm = re.match(r"\s*import\s+(FmpRpc\.\S+)", line)
            if mm:
                todo.append(mm.group(1))
    return seen


# ------------------------------------------------------------------ harness

def build_harness():
    """Build the overlay harness (package rpc + /verif/harness files, tag
    verif, go1.26) for /repo's current working tree.  Cached per tree hash.
    Returns (path to test binary, build output or None on success)."""
    th = tree_hash()
    d = os.path.join(CACHE, "trees", th)
    binp = os.path.join(d, "rpc.test")
    if os.path.exists(binp):
        return binp, None
    os.makedirs(d, exist_ok=True)
    scratch = tempfile.mkdtemp(prefix="verif-build-")
    try:
        rep = {}
        for f in glob.glob(os.path.join(VERIF, "harness", "*.go")) + glob.glob(os.path.join(VERIF, "harness", "rt", "*.go")):
            rep[os.path.join(REPO, "rpc", os.path.basename(f))] = f
        instr = os.path.join(VERIF, "tools", "instrument")
        if os.path.isdir(instr):
            tool = build_tool("instrument")
            idir = os.path.join(scratch, "instr")
            os.makedirs(idir)
            rc, out = run([tool, os.path.join(REPO, "rpc"), idir])
            if rc != 0:
                return None, "instrumenter failed:\n" + out
            for f in glob.glob(os.path.join(idir, "*.go")):
                rep[os.path.join(REPO, "rpc", os.path.basename(f))] = f
            with open(os.path.join(d, "sites.json"), "w") as fo:
                fo.write(out if out.strip().startswith("{") else "{}")
        ov = os.path.join(scratch, "overlay.json")
        json.dump({"Replace": rep}, open(ov, "w"))
        tmpbin = os.path.join(scratch, "rpc.test")
        rc, out = run(["go1.26", "test", "-c", "-tags", "verif", "-vet=off", "-overlay", ov, "-o", tmpbin, "./rpc"],
                      cwd=REPO, env=GOENV, timeout=600)
        if rc != 0 or not os.path.exists(tmpbin):
            return None, out
        shutil.move(tmpbin, binp)
        prune_cache()
        return binp, None
    finally:
        shutil.rmtree(scratch, ignore_errors=True)


def prune_cache(keep=4):
    root = os.path.join(CACHE, "trees")
    if not os.path.isdir(root):
        return
    ds = sorted((os.path.join(root, x) for x in os.listdir(root)), key=os.path.getmtime, reverse=True)
    for d in ds[keep:]:
        shutil.rmtree(d, ignore_errors=True)


def run_harness(binp, mode, seed, n, tier, workdir, extra_env=None, timeout=1200):
    """Run one harness mode. Returns (rc, stdout, ops path, out path)."""
    ops = os.path.join(workdir, f"{mode}.ops")
    outp = os.path.join(workdir, f"{mode}.go.out")
    env = dict(os.environ, VERIF_MODE=mode, VERIF_SEED=str(seed), VERIF_N=str(n), VERIF_TIER=tier,
               VERIF_OPS=ops, VERIF_OUT=outp, VERIF_META=os.path.join(workdir, f"{mode}.meta"),
               GOMEMLIMIT="8GiB")
    if extra_env:
        env.update(extra_env)
    try:
        rc, out = run([binp, "-test.run", "^TestVerif$", "-test.timeout", f"{timeout}s"], cwd=workdir, env=env,
                      timeout=timeout + 60)
    except subprocess.TimeoutExpired:
        return 124, "harness timed out", ops, outp
    return rc, out, ops, outp


def run_oracle(ops, outp, timeout=1200):
    with open(ops) as fi, open(outp, "w") as fo:
        p = subprocess.run([ORACLE], stdin=fi, stdout=fo, stderr=subprocess.PIPE, text=True, timeout=timeout)
    return p.returncode, p.stderr


def read_lines(p):
    with open(p) as f:
        return f.read().split("\n")
