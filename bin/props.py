"""Per-property configuration of bin/check: Lean modules (obligations), the
correspondence runs, and the judges that turn implementation output into
findings.  A *finding* is a concrete input / history on which the property
fails on the implementation; a *break* is a proof, tie or correspondence that
no longer checks without (yet) a concrete failing input."""
import json
import os
import re

import vlib
from vlib import log

TRUSTED_BASE = [
    "Lean 4.33.0 kernel; axioms limited to propext, Classical.choice, Quot.sound (printed per theorem)",
    "tools/extract (facts mean what their names say) and the #guard ties in lean/FmpRpc/Tie",
    "the overlay harness in /verif/harness (generators, simulated connection, scheduler) and testing/synctest",
    "the correspondence runs are sampling: they validate the model against the code, they are not the proof",
]

KNOWN_FILE = os.path.join(vlib.VERIF, "known_findings.json")


def load_known(pid):
    if not os.path.exists(KNOWN_FILE):
        return []
    return [k for k in json.load(open(KNOWN_FILE))["findings"] if k["property"] == pid]


def match_known(known, f):
    for k in known:
        if k.get("status") != "open":
            continue
        if re.search(k["match"], f["sig"]):
            return k
    return None


def add_sample(cov, s):
    if len(cov["samples"]) < 12:
        cov["samples"].append(s)


# ---------------------------------------------------------------- generic run execution

def execute_run(pid, P, r, binp, seed, tier, work, findings, breaks, cov):
    n = r["n"][1] if tier == "thorough" else r["n"][0]
    mode = r["mode"]
    xenv = dict(r.get("env") or {})
    tlog_path = None
    if mode in ("session", "conn") and pid in REPLAY_RELEVANT:
        tlog_path = os.path.join(work, mode + ".tlog")
        xenv["VERIF_TLOG_FILE"] = tlog_path
    rc, out, ops, gout = vlib.run_harness(binp, mode, seed, n, tier, work, extra_env=xenv,
                                         timeout=r.get("timeout", 1500))
    rec = dict(mode=mode, n=n, rc=rc)
    cov["runs"].append(rec)
    dist = {}
    for line in out.split("\n"):
        m = re.match(r"DIST (\S+) (\d+)", line)
        if m:
            dist[m.group(1)] = int(m.group(2))
        m = re.match(r"STAT (\S+) (\d+)", line)
        if m:
            rec[m.group(1)] = int(m.group(2))
            cov[m.group(1)] = cov.get(m.group(1), 0) + int(m.group(2))
    if dist:
        rec["distribution"] = dict(sorted(dist.items(), key=lambda kv: -kv[1])[:40])
    if rc != 0:
        tail = out[-3000:]
        findings.append(dict(sig=f"{mode}:harness-abnormal-exit", what=f"harness mode {mode} exited abnormally (rc={rc})",
                             data=dict(mode=mode, seed=seed, n=n, output_tail=tail)))
        return
    if not os.path.exists(ops):
        breaks.append(dict(what=f"harness mode {mode} produced no operations"))
        return
    opl = vlib.read_lines(ops)
    gol = vlib.read_lines(gout)
    metap = os.path.join(work, f"{mode}.meta")
    metal = vlib.read_lines(metap) if os.path.exists(metap) else []
    lel = None
    if r.get("oracle", True):
        lout = os.path.join(work, f"{mode}.lean.out")
        orc, oerr = vlib.run_oracle(ops, lout)
        if orc != 0:
            breaks.append(dict(what=f"oracle failed on mode {mode}", detail=oerr[-2000:]))
            return
        lel = vlib.read_lines(lout)
    judge = JUDGES[r["judge"]]
    judge(pid, r, opl, gol, lel, metal, findings, breaks, cov, rec, seed)
    if tlog_path:
        try:
            replay_session_traces(pid, tlog_path, findings, breaks, cov, rec, seed, r.get("env", {}), conn=(mode == "conn"))
        except Exception as e:  # never let the replay machinery take the check down: report it as a correspondence break
            import traceback
            breaks.append(dict(what=f"site-level replay could not be carried out: {e!r}", detail=traceback.format_exc()[-1500:]))


def replay(pid, P, binp, path, work, findings, cov):
    """Re-run the case stored in a replay file."""
    obj = json.load(open(path))
    f = obj.get("finding") or {}
    d = f.get("data", {})
    if "op" in d:
        ops = os.path.join(work, "replay.ops")
        open(ops, "w").write(d["op"] + "\n")
        lout = os.path.join(work, "replay.lean.out")
        vlib.run_oracle(ops, lout)
        print("op:    ", d["op"][:400])
        print("model: ", open(lout).read().strip()[:400])
        print("impl (recorded): ", str(d.get("impl"))[:400])
    if "mode" in d and "seed" in d:
        rs = [r for r in P.get("runs", []) if r["mode"] == d["mode"]]
        for r in rs:
            br = []
            execute_run(pid, P, r, binp, d["seed"], obj.get("tier", "quick"), work, findings, br, cov)


# ---------------------------------------------------------------- judges

def lines_of(opl, gol, lel):
    n = len(opl)
    while n > 0 and opl[n - 1] == "":
        n -= 1
    return n


def judge_dec(pid, r, opl, gol, lel, metal, findings, breaks, cov, rec, seed):
    """dec streams: implementation (real packetizer) vs model (`run`).
    C02 looks at fully legal streams, C04 at all partitions of every stream
    (same result for every partition, resynchronisation positions), C05 at the
    hostile streams (class, bytes consumed, never a panic, never a clean EOF
    inside a frame body)."""
    n = lines_of(opl, gol, lel)
    rec["ops"] = n
    cats = {}
    uns = 0
    distinct = set()
    by_stream = {}
    for i in range(n):
        meta = metal[i] if i < len(metal) else ""
        cat = meta.split(" ")[0] if meta else "?"
        go = gol[i] if i < len(gol) else "<missing>"
        le = lel[i] if i < len(lel) else "<missing>"
        mm = re.search(r"stream=(\d+)", meta)
        sid = mm.group(1) if mm else str(i)
        by_stream.setdefault(sid, []).append(i)
        if pid == "C02" and cat != "legal":
            continue
        if pid == "C05" and cat == "legal":
            continue
        cats[cat] = cats.get(cat, 0) + 1
        cov["evaluations"] += 1
        if go.startswith("PANIC") or "RUNAWAY" in go:
            findings.append(dict(sig="dec:panic", what="the packetizer panicked / ran away on a byte stream",
                                 data=dict(op=opl[i], impl=go, model=le, meta=meta, mode="dec", seed=seed)))
            continue
        if "unsupported" in le:
            uns += 1
            # framing-level comparison still applies: positions of every frame boundary
            if pid in ("C04", "C05"):
                gp = re.findall(r"@(\d+)", go)
                lp = re.findall(r"@(\d+)", le)
                k = le.split(" | ")
                upto = next((j for j, seg in enumerate(k) if "unsupported" in seg), len(k))
                if gp[:upto] != lp[:upto]:
                    findings.append(dict(sig="dec:position", what="frame boundary differs from the model",
                                         data=dict(op=opl[i], impl=go, model=le, meta=meta, mode="dec", seed=seed)))
            continue
        if go != le:
            sa, sb = go.split(" | "), le.split(" | ")
            # a stream that ends inside a frame whose arrived part go-codec already rejects (e.g. a map repeating a key
            # with values of different kinds, which the model's value decoder accepts): `dec` vs `ueof` at the same
            # position — both fatal, same bytes consumed; counted, not compared further
            if len(sa) == len(sb) and sa[:-1] == sb[:-1] and sa[-1].split(" @") [-1:] == sb[-1].split(" @")[-1:] and \
                    sa[-1].startswith("dec @") and sb[-1].startswith("ueof @"):
                rec["dec_vs_ueof_on_truncated_frame"] = rec.get("dec_vs_ueof_on_truncated_frame", 0) + 1
                uns += 1
                continue
            k = 0
            while k < min(len(sa), len(sb)) and sa[k] == sb[k]:
                k += 1
            ga = sa[k] if k < len(sa) else "END"
            la = sb[k] if k < len(sb) else "END"
            sig = f"dec:{cat}:{ga.split(' ')[0]}!={la.split(' ')[0]}"
            findings.append(dict(sig=sig, what=f"implementation and model disagree on a {cat} stream: impl `{ga[:120]}` model `{la[:120]}`",
                                 data=dict(op=opl[i], impl=go, model=le, meta=meta, mode="dec", seed=seed)))
            continue
        distinct.add(opl[i].split(" ", 2)[-1][:200] if pid != "C04" else opl[i][:300])
        if i % max(1, n // 6) == 0:
            vlib_sample = dict(op=opl[i][:300], impl=go[:300], meta=meta)
            add_sample(cov, vlib_sample)
    if pid == "C04":
        # all partitions of one stream give the same implementation output
        for sid, idx in by_stream.items():
            outs = set(gol[i] for i in idx if i < len(gol))
            if len(outs) > 1:
                i0 = idx[0]
                alt = next(i for i in idx if gol[i] != gol[i0])
                findings.append(dict(sig="dec:chunking", what="the result depends on how the stream is split across reads",
                                     data=dict(op=opl[alt], impl=gol[alt], impl_whole=gol[i0], model=lel[alt],
                                               meta=metal[alt] if alt < len(metal) else "", mode="dec", seed=seed)))
        rec["streams"] = len(by_stream)
        rec["partitions"] = n
    if pid == "C05":
        # a stream that ends inside a frame body is never reported as a clean EOF (monitor on the implementation
        # output alone, using the model only to know where the declared frame ends)
        pass
    rec["categories"] = cats
    rec["unsupported_skipped"] = uns
    cov["distinct_nontrivial"] += len(distinct)


def judge_eq(pid, r, opl, gol, lel, metal, findings, breaks, cov, rec, seed):
    """Generic differential judge: one line per operation, the implementation's
    line must equal the model's.  `unsupported` on the model side skips the
    case; meta's first word is the category used in the signature."""
    n = lines_of(opl, gol, lel)
    rec["ops"] = n
    cats, uns, distinct = {}, 0, set()
    only = r.get("only")
    for i in range(n):
        meta = metal[i] if i < len(metal) else ""
        cat = meta.split(" ")[0] if meta else "?"
        if only and not re.search(only, meta):
            continue
        go = gol[i] if i < len(gol) else "<missing>"
        le = lel[i] if i < len(lel) else "<missing>"
        cats[cat] = cats.get(cat, 0) + 1
        cov["evaluations"] += 1
        if "unsupported" in le:
            uns += 1
            continue
        if go != le:
            opk = opl[i].split(" ")[0]
            detail = ""
            for tok in ("toobig", "AFTER=", "WRITES=", "NOWRITE", "PANIC", "DECOMPRESS-ERROR"):
                if tok in go or tok in le:
                    detail = ":" + tok.strip("=")
                    break
            findings.append(dict(sig=f"{r['mode']}:{cat}:{opk}{detail}",
                                 what=f"implementation and model disagree on a {cat} case of mode {r['mode']}: impl `{go[:100]}` model `{le[:100]}`",
                                 data=dict(op=opl[i], impl=go, model=le, meta=meta, mode=r["mode"], seed=seed)))
            continue
        distinct.add(opl[i][:400])
        if i % max(1, n // 5) == 0:
            add_sample(cov, dict(op=opl[i][:300], impl=go[:200], meta=meta))
    rec["categories"] = cats
    rec["unsupported_skipped"] = uns
    cov["distinct_nontrivial"] += len(distinct)


def judge_mon(pid, r, opl, gol, lel, metal, findings, breaks, cov, rec, seed):
    """Histories of controlled executions of the real code, judged by the Lean
    monitors (`mon` op): the model side prints `ok` or `viol <sig> ...`; this
    property's signatures are the ones prefixed with its id.  HARNESS: lines
    mean the scenario itself went wrong (reported for every property)."""
    n = lines_of(opl, gol, lel)
    rec["ops"] = n
    cats, distinct = {}, set()
    steps = 0
    for i in range(n):
        meta = metal[i] if i < len(metal) else ""
        cat = meta.split(" ")[0] if meta else "?"
        cats[cat] = cats.get(cat, 0) + 1
        m = re.search(r"steps=(\d+)", meta)
        if m:
            steps += int(m.group(1))
        le = lel[i] if i < len(lel) else "<missing>"
        cov["evaluations"] += 1
        if le == "ok":
            distinct.add(hash(opl[i]))
            if i % max(1, n // 4) == 0:
                add_sample(cov, dict(history=opl[i][:600], verdict="ok", meta=meta))
            continue
        if not le.startswith("viol"):
            breaks.append(dict(what=f"monitor driver failed on a history of mode {r['mode']}: {le[:200]}"))
            continue
        mine = [v for v in le.split(" ")[1:] if v.startswith(pid + ":") or v.startswith("HARNESS:")]
        if not mine:
            distinct.add(hash(opl[i]))
            continue
        for v in mine:
            findings.append(dict(sig=f"{r['mode']}:{cat}:{v}", what=f"{v} on a {cat} scenario of mode {r['mode']}",
                                 data=dict(op=opl[i], verdict=le, meta=meta, mode=r["mode"], seed=seed,
                                           env=r.get("env", {}))))
    rec["categories"] = cats
    rec["scheduling_steps"] = steps
    cov["distinct_nontrivial"] += len(distinct)
    cov["traces_validated_against_impl"] = cov.get("traces_validated_against_impl", 0) + n


# which model actions / assertions a property's theorems are about: a replay divergence at one of them is a
# correspondence break for that property (DESIGN §4.4); "*" = any divergence
REPLAY_RELEVANT = {
    "C01": r"cNew|cSel2Res|rDeliver|rLookup|rDecode|rDeliverSlot|rBegSend|rSpawn|hReturn|hEnc|hHand|hSel|wRecv|\?cpc|\?capp|\?hpc|\?seq",
    "C03": r"cEnc|nEnc|hEnc|rNfEnc|cCancelEnc|wRecv|wNotify|wWrite|wDone|\?wlog",
    "C07": r"rDeliver|rFatal|rNf|rLookup|kEnter|kStep|kWake|kStart|rCloseDone|\?stop|\?err|\?kpc",
    "C08": r"ctxCancel|cHandCtx|cSel1Ctx|cSel2Ctx|cCancel|cPoll|aDone|rCanSend|rCanStop|\?hctx|nHandCtx|nSelCtx|\?cpc|\?npc",
    "C09": r"rBegSend|rBegStop|rCanSend|hEndSend|hEndStop|tStop|\?hctx",
    "C10": r"cHandDone|cSel1Stop|cSel2Stop|cCancelDone|aDone|nHandDone|nSelStop|hHandDone|hHandCtx|hSelCtx|rNfHandDone|rBegStop|rCanStop|hEndStop|wStop|tStop|k[A-Z]|rCloseDone|cBegin|nBegin|\?cpc|\?npc|\?kpc",
    "C11": r"cAdd|cRm|\?pend|wStop|tStop|hEndSend|hEndStop|rCloseDone|aDone|k[A-Z]|\?kpc",
    "C12": r"rLookup|rDecode|rDeliverSlot|cRm|cAdd|cSel2|\?pend",
    "C13": r"cNew|wRecv|wNotify|wWrite|wDone|\?seq|\?wlog",
    "C20": r"cFin|cCancelRec|nFin|hFin|rNfSel|\?rec|\?inc",
    # connection model (Model/Conn, mode conn)
    "C14": r"s[A-Z]|wRelease|wStart|shutdown|disconnect|\?sfirst|\?chan|\?dialing|\?client|\?spc|\?nextseq",
    "C15": r"w[A-Z]|sRelease|\?wpc|\?waiting|\?client",
    "C16": r"sAnnounce|sDelayDone|sRetryStart|\?spc",
}


# assertion mismatches that ARE the property failing on that execution: the replay has validated every step up to
# the assertion against the real execution, and what is compared is an observable the property speaks about whose
# value in the model is a function of that validated prefix
REPLAY_PROMOTE = {
    "C14": {"?wpc": "a waiter released by a reconnect sequence returned something else than that sequence's outcome",
            "?sfirst": "a reconnect sequence announced the wrong first / non-first status"},
    "C15": {"?wpc": "waitForConnection returned something else than the outcome of the sequence the command waited for",
            "?client": "a command was executed with a client other than the published one",
            "?after": "DoCommand did not do what its decision table says after an execution"},
    "C11": {"?pend": "the pending table does not hold exactly the outstanding calls"},
    "C20": {"?rec": "the stored size of a call record is not the bytes of its frame plus the replies received before it was finished"},
    "C09": {"?hctx": "a handler's context was (not) cancelled although the model, following the same execution, says otherwise"},
}


def replay_session_traces(pid, tlog_path, findings, breaks, cov, rec, seed, mode_env, conn=False):
    """Site-level replay of every session of this run through Model/Transport.step (Model/Conn.step for mode conn)."""
    import replay as rp
    import creplay as crp
    try:
        text = open(tlog_path).read()
    except OSError:
        breaks.append(dict(what="the session run produced no site-level trace"))
        return
    sessions = rp.parse_tlog(text)
    ops, meta = [], []
    stat = dict(sessions=len(sessions), endpoint_runs=0, ok=0, unsupported=0, unmapped=0, stuck=0, differs=0, model_steps=0)
    unsup = {}
    bad = []
    for idx, fl, lines in sessions:
        try:
            if conn:
                body, _ = crp.translate(lines)
                items = {0: body}
            else:
                items, _ = rp.translate(lines)
        except (rp.Unsupported, crp.Unsupported) as e:
            stat["unsupported"] += 1
            unsup[str(e)[:80]] = unsup.get(str(e)[:80], 0) + 1
            continue
        except (rp.Unmapped, crp.Unmapped) as e:
            stat["unmapped"] += 1
            bad.append((idx, fl, -1, "unmapped: " + str(e), ""))
            continue
        except Exception as e:  # a trace the translator cannot read at all
            stat["unmapped"] += 1
            bad.append((idx, fl, -1, "translator failed: %r" % (e,), ""))
            continue
        for ep, body in items.items():
            ops.append(("creplay " if conn else "replay ") + body)
            meta.append((idx, fl, ep))
    if ops:
        d = os.path.dirname(tlog_path)
        opf, outf = os.path.join(d, "replay.ops"), os.path.join(d, "replay.lean.out")
        open(opf, "w").write("\n".join(ops) + "\n")
        orc, oerr = vlib.run_oracle(opf, outf)
        if orc != 0:
            breaks.append(dict(what="oracle failed on the replay", detail=oerr[-2000:]))
            return
        res = vlib.read_lines(outf)
        for (idx, fl, ep), line, op in zip(meta, res, ops):
            stat["endpoint_runs"] += 1
            if line.startswith("ok"):
                if stat["ok"] in (0, 7):
                    add_sample(cov, dict(replay_of=f"session {idx} ({fl}), endpoint {ep}", verdict=line,
                                         first_items=" ; ".join(op.split(" ", 1)[1].split(" ; ")[:60])))
                stat["ok"] += 1
                m = re.search(r"steps=(\d+)", line)
                if m:
                    stat["model_steps"] += int(m.group(1))
                continue
            stat["stuck" if line.startswith("stuck") else "differs"] += 1
            bad.append((idx, fl, ep, line, op))
    rec["replay"] = stat
    if unsup:
        rec["replay_unsupported"] = unsup
    cov["replay_endpoint_runs_ok"] = cov.get("replay_endpoint_runs_ok", 0) + stat["ok"]
    cov["replay_model_steps"] = cov.get("replay_model_steps", 0) + stat["model_steps"]
    rel = re.compile(REPLAY_RELEVANT.get(pid, "."))
    if stat["endpoint_runs"] + stat["unmapped"] > 0 and \
            5 * (stat["stuck"] + stat["differs"] + stat["unmapped"]) > stat["endpoint_runs"] + stat["unmapped"]:
        # more than a fifth of the executions diverge: the site table no longer matches the code at all
        rel = re.compile(".")
    mine, others = [], 0
    for idx, fl, ep, line, op in bad:
        m = re.search(r"`([^`]*)`", line)
        tok = (m.group(1).split(" ")[0] if m else "")
        if ep == -1 or not tok or rel.match(tok):
            mine.append((idx, fl, ep, line, op))
        else:
            others += 1
    rec["replay_divergences_elsewhere"] = others
    promote = REPLAY_PROMOTE.get(pid, {})
    rest = []
    for idx, fl, ep, line, op in mine:
        m = re.search(r"differs at (\d+) `(\S+)([^`]*)`: (.*?) \|", line)
        if m and m.group(2) in promote and len(findings) < 40:
            its = op.split(" ", 1)[1].split(" ; ") if " " in op else []
            k = int(m.group(1))
            findings.append(dict(sig=f"replay:{m.group(2)}:differs",
                                 what=f"{promote[m.group(2)]} ({m.group(2)}{m.group(3)}: {m.group(4)}; session {idx}, flavour {fl}, endpoint {ep})",
                                 data=dict(mode="conn" if conn else "session", seed=seed, session=idx, flavour=fl, endpoint=ep,
                                           env=mode_env, last_actions=its[max(0, k - 40):k + 1], verdict=line[:600])))
        else:
            rest.append((idx, fl, ep, line, op))
    mine = rest
    for idx, fl, ep, line, op in mine[:3]:
        its = op.split(" ", 1)[1].split(" ; ") if " " in op else []
        m = re.search(r"at (\d+)", line)
        k = int(m.group(1)) if m else len(its)
        breaks.append(dict(what=f"site-level replay: a controlled execution of the real code is not a run of {'Model/Conn' if conn else 'Model/Transport'} "
                                f"(session {idx}, flavour {fl}, endpoint {ep}): {line[:400]}",
                           correspondence=("Model/ConnReplay.replay (Cn.step) vs harness mode conn" if conn else
                                           "Model/Replay.replay (T.step) vs harness mode session"),
                           replay=dict(mode="conn" if conn else "session", seed=seed, session=idx, flavour=fl, endpoint=ep, env=mode_env,
                                       last_actions=its[max(0, k - 40):k + 1])))
    if len(mine) > 3:
        breaks.append(dict(what=f"site-level replay: {len(mine) - 3} further divergences of the same run"))


JUDGES = {"dec": judge_dec, "eq": judge_eq, "mon": judge_mon}

# ---------------------------------------------------------------- property table

PROPS = {}


def prop(pid, **kw):
    PROPS[pid] = kw


RULE_DEC = ("streams are generated from the repo's five message kinds with an encoder independent of go-codec that picks "
            "among all legal widths, then (hostile half) mutated by bit flips, length edits, splices, truncation, random "
            "bytes, huge inner lengths; each stream is fed in 4+ partitions (whole, 1-byte, single/double cut, random; "
            "all 2^(n-1) for short streams in the thorough tier); a case is distinct by its byte stream and non-trivial "
            "when the model is inside its fragment (not `unsupported`) and agrees with the implementation")

RULE_WIRE = ("messages of every kind (call, compressed call with ctype 0/1/2/unknown, notify, cancel, reply) with generated "
             "seqnos, methods, arguments, results, errors and tag maps are sent through the real stack (Client / receive "
             "loop + handler) over a recording connection, with the frame limit set around the content size (max-k..max+k); "
             "the bytes of every Write are compared with the model's `wire` (byte for byte; values with multi-entry maps are "
             "read back by the model's decoder instead); distinct = distinct operation lines on which model and "
             "implementation agree")

prop("C02",
     lean=["FmpRpc.Tie.C02", "FmpRpc.Props.C02"],
     runs=[dict(mode="wire", n=(1500, 20000), judge="eq"), dict(mode="dec", n=(3000, 40000), judge="dec")],
     rule=RULE_WIRE + " || " + RULE_DEC,
     assumptions=["go-codec's msgpack reader/writer is modelled (Model/Msgpack) and validated by the differential run, not verified"])
prop("C04",
     lean=["FmpRpc.Tie.C04", "FmpRpc.Props.C04"],
     runs=[dict(mode="dec", n=(3000, 40000), judge="dec")],
     rule=RULE_DEC,
     assumptions=["bufio.Reader and go-codec's ioDecReader are modelled as a chunk oracle (any non-empty prefix per Read)"])
prop("C05",
     lean=["FmpRpc.Tie.C05", "FmpRpc.Props.C05"],
     runs=[dict(mode="dec", n=(4000, 60000), judge="dec"), dict(mode="alloc", n=(150, 1500), judge="eq")],
     rule=RULE_DEC + " || alloc: frames whose inner msgpack lengths claim up to 2^31 elements / bytes (argument, tag map, "
          "method name, result, nested) with a 16 MiB frame limit and only a few bytes present: bytes allocated per frame "
          "(runtime.MemStats) must stay below max + 8 MiB",
     assumptions=["absence of panics, allocation bounds and hangs are runtime behaviour: observed by the run, not proved"])

RULE_SESSION = ("two transports of the library talk over a simulated connection inside a synctest bubble; every goroutine of "
                "the (instrumented copy of the) package parks at every channel operation / select / close / go statement and "
                "a controller releases one at a time (seeded random or PCT-style priorities), so each scenario is one "
                "reproducible interleaving; scenarios mix 1-5 concurrent calls, compressed calls and notifications in both "
                "directions with cancellations, timeouts (virtual time), external / handler / repeated Close, connection cuts "
                "and payloads around the frame limit; the totally ordered observable history is judged by the Lean monitors; "
                "distinct = distinct histories on which every monitor of this property holds")

SESSION = dict(mode="session", n=(900, 12000), judge="mon")

for _pid, _extra in [("C01", []), ("C03", [dict(mode="wire", n=(1500, 20000), judge="eq")]), ("C07", []), ("C08", []),
                     ("C09", []), ("C10", []), ("C11", []), ("C12", []),
                     ("C13", [dict(mode="wire", n=(50, 500), judge="eq", only="seqrun|case=\\d+ ")]), ("C20", [])]:
    prop(_pid, lean=[f"FmpRpc.Tie.{_pid}", f"FmpRpc.Props.{_pid}"], runs=[dict(SESSION)] + _extra,
         rule=RULE_SESSION + ((" || " + RULE_WIRE) if _extra else ""),
         assumptions=["Go channel / select / once / mutex semantics and the memory model at synchronisation granularity are modelled",
                      "testing/synctest quiescence detection; the instrumenter only adds yield points and swaps sync primitives for equivalent channel-based ones"])

RULE_SAT = ("operation sequences generated from one PRNG are executed on the implementation and on the model's executable "
            "definitions through the line protocol and compared line by line; distinct = distinct operation lines on which "
            "both agree")

prop("C16", lean=["FmpRpc.Tie.C16", "FmpRpc.Props.C16"],
     runs=[dict(mode="timer", n=(1500, 20000), judge="eq")],
     rule=RULE_SAT + " — timer: sequences over StartConstant / StartRandom / FireNow / Wait / sleep under virtual time "
          "(testing/synctest): the instant every Wait returns is compared with the model",
     assumptions=["real timers are a discrete clock (testing/synctest virtual time)"])
prop("C18", lean=["FmpRpc.Tie.C18", "FmpRpc.Props.C18"],
     runs=[dict(mode="remote", n=(1500, 20000), judge="eq"), dict(mode="uri", n=(4000, 40000), judge="eq")],
     rule=RULE_SAT + " — remotes: group shapes up to 3x3 with duplicates, blanks, mixed case; sequences over GetAddress / Peek / "
          "Reset with the shuffle reproduced from the seed; String() re-parsed. URIs: grammar-based (schemes x hosts incl. IPv6 "
          "literals and zones x ports) plus byte mutations; url.Parse's own result is passed to the model (contract of net/url)",
     assumptions=["net/url.Parse and strings.ToLower/TrimSpace beyond ASCII are contracts validated by the run, not modelled"])
prop("C19", lean=["FmpRpc.Tie.C19", "FmpRpc.Props.C19"],
     runs=[dict(mode="tags", n=(2000, 20000), judge="eq"), dict(mode="wire", n=(1000, 10000), judge="eq"), dict(SESSION)],
     rule=RULE_SAT + " — tags: random trees of contexts derived by AddRPCTagsToContext with external mutation of every map the "
          "user holds (passed in or read out) after every step; tags of every context and every user map compared at the end "
          "|| " + RULE_WIRE + " || " + RULE_SESSION,
     assumptions=["context.WithValue chains are immutable (contract of the context package)"])

RULE_CONN = ("a Connection over a scripted ConnectionTransport / ConnectionHandler (dial, OnConnect and command outcomes, retry "
             "verdicts, backoff stops from one PRNG) runs under the controlled scheduler with virtual time: 0-3 commands (with "
             "fire-now marker, cancellation, timeout), forced reconnects, disconnections, fast-forward and Shutdown race; the "
             "history (announcements, dials with instants, registrations, OnConnect, finalize, releases, executions) is judged by "
             "the Lean monitors; distinct = distinct histories on which every monitor of this property holds")
CONN = dict(mode="conn", n=(1500, 20000), judge="mon")
prop("C14", lean=["FmpRpc.Tie.C14", "FmpRpc.Props.C14", "FmpRpc.Props.C14ct"],
     runs=[dict(CONN), dict(mode="builtin", n=(400, 4000), judge="eq")],
     rule=RULE_CONN + " || builtin: the real plain and TLS connection transports over an in-memory dialer: random sequences of "
          "Dial (ok / refused / failing handshake), Finalize and Close in the order a Connection issues them; after every "
          "Finalize every earlier transport and its network connection must be closed, after Close all of them",
     assumptions=["keybase/backoff.RetryNotifyWithContext is modelled (its loop: operation, NextBackOff, notify, sleep-or-ctx)"])
prop("C15", lean=["FmpRpc.Tie.C15", "FmpRpc.Props.C15"], runs=[dict(CONN)], rule=RULE_CONN,
     assumptions=["keybase/backoff.RetryNotify is modelled"])
PROPS["C16"]["runs"].append(dict(CONN))
PROPS["C16"]["rule"] += " || " + RULE_CONN

prop("C06", lean=["FmpRpc.Tie.C06", "FmpRpc.Props.C06"],
     runs=[dict(mode="compress", n=(600, 6000), judge="eq"), dict(mode="wire", n=(1500, 15000), judge="eq", only="callc|resp|payload"),
           dict(SESSION)],
     rule="compress: payloads (empty, tiny, incompressible, repetitive, msgpack documents, up to 70 kB) through the real gzip / "
          "msgpackzip compressors: round trip, non-empty output, every single-bit flip of payloads <= 256 B (thorough) / sampled "
          "bit and byte corruptions, decompression right after a failed one, 16-way concurrent reuse of the pools || " + RULE_WIRE +
          " || " + RULE_SESSION,
     assumptions=["DEFLATE / msgpackzip, sync.Pool and gzip's CRC are not modelled: the compressor laws are hypotheses of the theorems, "
                  "validated on the real compressors by the run"])
prop("C17", lean=["FmpRpc.Tie.C17", "FmpRpc.Props.C17"],
     runs=[dict(mode="tls", n=(1, 1), judge="eq")],
     rule="the full product constructor {root PEM, explicit config, explicit config mutated after construction, custom dialer} x "
          "certificate {valid, other CA, other name, expired, self-signed} x server behaviour {handshakes, stalls, closes "
          "mid-handshake} (60 cases, exhaustive) through the real ConnectionTransportTLS.Dial over an in-memory dialer against "
          "a scripted tls.Server with certificates generated at check time, under virtual time; outcome class, transport "
          "created or not and elapsed virtual time compared with the model",
     assumptions=["X.509 path validation and the TLS handshake are crypto/tls's: the `verify` contract of Model/TLS is assumed, "
                  "exercised by the run"])
