import sys, os, subprocess, tempfile, collections
sys.path.insert(0, os.path.dirname(os.path.abspath(__file__)))
import vlib, replay
binp, err = vlib.build_harness()
assert binp, err
n = int(sys.argv[1]); fl = sys.argv[2]; seed = sys.argv[3] if len(sys.argv) > 3 else "1"
work = tempfile.mkdtemp(prefix="verif-replay-")
env = dict(os.environ, VERIF_MODE="session", VERIF_SEED=seed, VERIF_N=str(n), VERIF_TLOG="1", VERIF_FLAVOURS=fl,
           VERIF_OPS=work+"/ops", VERIF_OUT=work+"/out", VERIF_META=work+"/meta")
out = subprocess.run([binp, "-test.run", "^TestVerif$"], env=env, cwd=work, stdout=subprocess.PIPE, stderr=subprocess.STDOUT, text=True).stdout
sessions = replay.parse_tlog(out)
print(len(sessions), "sessions")
ops = []; meta = []
stat = collections.Counter()
for idx, flv, lines in sessions:
    try:
        items, st = replay.translate(lines)
    except replay.Unsupported as e:
        stat["unsupported: " + str(e)[:60]] += 1; continue
    except replay.Unmapped as e:
        stat["unmapped: " + str(e)[:90]] += 1
        if stat["unmapped: " + str(e)[:90]] == 1: print("UNMAPPED", idx, flv, e)
        continue
    for ep, body in items.items():
        ops.append("replay " + body); meta.append((idx, flv, ep))
open(work+"/r.ops","w").write("\n".join(ops)+"\n")
vlib.run_oracle(work+"/r.ops", work+"/r.out")
res = open(work+"/r.out").read().split("\n")
shown = 0
for (idx, flv, ep), line, op in zip(meta, res, ops):
    key = line.split(" at ")[0] if not line.startswith("ok") else "ok"
    stat[key] += 1
    if not line.startswith("ok") and shown < int(os.environ.get("SHOW", "3")):
        shown += 1
        print("----", idx, flv, "ep", ep); print(line)
        its = op[7:].split(" ; ")
        import re
        m = re.search(r"at (\d+)", line)
        k = int(m.group(1)) if m else 0
        print("   ...", " ; ".join(its[max(0,k-25):k+1]))
for k, v in stat.most_common(): print(v, k)
print("work", work)
