import sys, os, subprocess, tempfile, collections, re
sys.path.insert(0, os.path.dirname(os.path.abspath(__file__)))
import vlib, replay, creplay
binp, err = vlib.build_harness()
assert binp, err
n = int(sys.argv[1]); seed = sys.argv[2] if len(sys.argv) > 2 else "1"
work = tempfile.mkdtemp(prefix="verif-creplay-")
env = dict(os.environ, VERIF_MODE="conn", VERIF_SEED=seed, VERIF_N=str(n), VERIF_TLOG_FILE=work+"/tlog",
           VERIF_OPS=work+"/ops", VERIF_OUT=work+"/out", VERIF_META=work+"/meta")
out = subprocess.run([binp, "-test.run", "^TestVerif$"], env=env, cwd=work, stdout=subprocess.PIPE, stderr=subprocess.STDOUT, text=True).stdout
sessions = replay.parse_tlog(open(work+"/tlog").read())
print(len(sessions), "sessions")
ops = []; meta = []
stat = collections.Counter()
for idx, flv, lines in sessions:
    try:
        body, st = creplay.translate(lines)
    except creplay.Unsupported as e:
        stat["unsupported: " + str(e)[:60]] += 1; continue
    except creplay.Unmapped as e:
        stat["unmapped: " + str(e)[:90]] += 1
        if stat["unmapped: " + str(e)[:90]] == 1: print("UNMAPPED", idx, e)
        continue
    ops.append("creplay " + body); meta.append(idx)
open(work+"/r.ops","w").write("\n".join(ops)+"\n")
vlib.run_oracle(work+"/r.ops", work+"/r.out")
res = open(work+"/r.out").read().split("\n")
shown = 0
for idx, line, op in zip(meta, res, ops):
    key = line.split(" at ")[0] if not line.startswith("ok") else "ok"
    stat[key] += 1
    if not line.startswith("ok") and shown < int(os.environ.get("SHOW", "3")):
        shown += 1
        print("----", idx); print(line)
        its = op[8:].split(" ; ")
        m = re.search(r"at (\d+)", line)
        k = int(m.group(1)) if m else 0
        print("   ...", " ; ".join(its[max(0,k-30):k+1]))
for k, v in stat.most_common(): print(v, k)
print("work", work)
