"""Site-level replay (DESIGN §4.4): translate the site-level trace of one
controlled two-endpoint session of the REAL code (P/A/G/E/F/T lines written by
the instrumentation runtime) into the action vocabulary of the Lean transport
model (`Model/Transport.Act`), one action list per endpoint, interleaved with
assertions about what the real code observably did.  `Model/Replay.replay`
then runs the list through `T.step`: every real synchronisation step must be an
enabled model action and every observation must agree with the model state.

The translation table below is the reviewed link between instrumentation
sites (function#ordinal.kind, select arm) and model actions.  A change of the
code that moves or adds synchronisation statements changes site names, the
table no longer matches and the replay reports `unmapped`/`stuck`: that is a
correspondence break (DESIGN §6), not by itself a violation.
"""
import re


class Unsupported(Exception):
    """The trace leaves the fragment the model covers (recorded, not an error)."""


class Unmapped(Exception):
    """A site of the real code that the table does not know."""


def short(site):
    # "receiveHandler.handleReceiveDispatch#2.go/3" -> base name without the instance number
    return site.split("/")[0]


SEND_ARMS = {("framedMsgpackEncoder.encodeAndWriteInternal#3.select", 2),
             ("framedMsgpackEncoder.EncodeAndWriteAsync#5.select", 1),
             ("framedMsgpackEncoder.EncodeAndWriteAsync#3.select", 1)}

IGNORED_SITES = (
    "protocolHandler.", "@", "handler.", "conn.Write", "transport.receiveFrames#1.once",
    "transport.receiveFrames#0.go", "newFramedMsgpackEncoder#0.go", "newReceiveHandler#0.go",
    "framedMsgpackEncoder.encodeAndWriteInternal#1.send", "framedMsgpackEncoder.encodeAndWriteInternal#2.send",
    "framedMsgpackEncoder.EncodeAndWriteAsync#1.send", "framedMsgpackEncoder.EncodeAndWriteAsync#2.send",
    "framedMsgpackEncoder.EncodeAndWriteAsync#4.go", "receiveHandler.handleReceiveDispatch#2.go",
    "callContainer.nextSeqid#0", "callContainer.nextSeqid#1", "callContainer.nextSeqid#2", "callContainer.nextSeqid#4",
    "callContainer.AddCall#0", "callContainer.AddCall#1",
    "callContainer.RetrieveCall#0", "callContainer.RetrieveCall#1",
    "callContainer.RemoveCall#0", "callContainer.RemoveCall#1",
    "dispatch.Call#0.call:NewCall", "dispatch.Call#1.call:AddCall",
    "framedMsgpackEncoder.writerLoop#3.select", "receiveHandler.taskLoop#1.select",
    "dispatch.Call#3.select", "dispatch.Call#4.select", "dispatch.Notify#1.select", "dispatch.handleCancel#1.select",
    "callRequest.Reply#1.select", "callCompressedRequest.Reply#1.select",
    "receiveHandler.handleReceiveDispatch#0.select", "receiveHandler.handleReceiveDispatch#1.select",
    "receiveHandler.receiveCancel#0.select", "receiveHandler.receiveResponse#0.select",
    "framedMsgpackEncoder.EncodeAndWriteAsync#3.select",
    "transport.IsConnected#0.select", "transport.err#0.select", "transport.closeWithErr#1.recv",
    "transport.closeWithErr#2.recv", "receiveHandler.taskLoop#0.close",
)


def mp_int(b, i):
    """msgpack integer at b[i]: (value, next index) or None"""
    if i >= len(b):
        return None
    c = b[i]
    if c <= 0x7f:
        return c, i + 1
    if c >= 0xe0:
        return c - 256, i + 1
    w = {0xcc: 1, 0xcd: 2, 0xce: 4, 0xcf: 8, 0xd0: 1, 0xd1: 2, 0xd2: 4, 0xd3: 8}.get(c)
    if w is None or i + 1 + w > len(b):
        return None
    v = int.from_bytes(b[i + 1:i + 1 + w], "big", signed=(c >= 0xd0))
    return v, i + 1 + w


def frame_info(hexs):
    """(total bytes, content length, type, seqno) of one written frame, leniently"""
    try:
        b = bytes.fromhex(hexs)
    except ValueError:
        return None
    r = mp_int(b, 0)
    if r is None:
        return None
    _, i = r
    content = len(b) - i
    if i >= len(b) or not (0x91 <= b[i] <= 0x9f):
        return len(b), content, None, None
    t = mp_int(b, i + 1)
    if t is None:
        return len(b), content, None, None
    q = mp_int(b, t[1])
    return len(b), content, t[0], (q[0] if q else None)


class Endpoint:
    def __init__(self, ep):
        self.ep = ep
        self.fsize = {}              # send id -> bytes of its frame (known once it has been handed to the connection)
        self.psize = {}              # payload id of a delivered response -> its content length
        self.psize_bad = set()       # payload ids seen with two different lengths (no size assertion then)
        self.next_pid = 0
        self.items = ["notifier 1"]
        self.next_send = 0
        self.next_handler = 0
        self.next_caller = 0
        self.next_notifier = 0
        self.next_closer = 1
        self.once = "idle"          # mirror of closeOnce: idle | running | done
        self.g = {}                  # goroutine name -> role record
        self.rx_handler = None       # handler index waiting at begSel / spawn
        self.pending_handlers = []   # handler indices spawned (rSpawn emitted) whose goroutine has not shown up yet
        self.writer_cur = None       # send id the writer holds
        self.writer_notified = False
        self.rx_closing = False
        self.closer0_done = False
        self.rx_exited = False
        self.runner = None

    def act(self, s):
        self.items.append(s)


class Role:
    def __init__(self, kind, **kw):
        self.kind = kind
        self.__dict__.update(kw)


def nonce_nat(s):
    try:
        v = int(s)
        return v if v >= 0 else 0
    except ValueError:
        return 0


class Translator:
    cancel_enc_fail = True    # was gated until Model/Transport has Act.cCancelEncFail
    sizes = True    # was gated until Model/Replay understands the `sizes` item and `?rec`

    def __init__(self, lines):
        self.lines = lines
        self.eps = {0: Endpoint(0), 1: Endpoint(1)}
        self.consumed = set()      # indices of A lines already accounted for (rendezvous partners)
        self.ops = {}              # harness caller number -> dict(ep, kind, timeout, cancel, role)
        self.cx = set()
        self.actor_op = {}         # actor name -> harness caller number
        self.stats = {"actions": 0, "asserts": 0}
        self.teardown = False
        # responses each endpoint wrote: (seqno, payload nonce) -> content length (pre-pass: the receiver's
        # `rDeliver resp` needs the length of the frame the peer wrote)
        self.resp_len = {0: {}, 1: {}}
        for t in lines:
            if t[0] == "E" and len(t) > 6 and t[3] == "wr":
                fi = frame_info(t[5])
                if fi and fi[2] == 1 and fi[3] is not None:
                    self.resp_len[int(t[4])].setdefault(fi[3], set()).add(fi[1])

    # -- helpers
    def lookahead(self, i, pred):
        """first line after i (up to the next release P) satisfying pred; returns index or None"""
        j = i + 1
        while j < len(self.lines):
            t = self.lines[j]
            if t[0] == "P":
                return None
            if pred(t):
                return j
            j += 1
        return None

    def next_frame_of(self, i, gname):
        j = i
        while j < len(self.lines):
            t = self.lines[j]
            if t[0] == "F" and t[2] == gname:
                return t
            j += 1
        return None

    def ensure_ctx(self, E, r):
        """the context of a caller / notifier ended: say so to the model (cause known: cancel actor or timeout)"""
        if getattr(r, "ctx_done", False):
            return
        op = self.ops.get(r.opno, {})
        if r.opno in self.cx or op.get("timeout", 0) > 0 or op.get("cancel"):
            E.act(("ctxCancel %d" if r.kind == "caller" else "nctxCancel %d") % r.idx)
            r.ctx_done = True
        else:
            raise Unmapped("context arm taken by op %s without a cancellation or timeout" % r.opno)

    def do_wrecv(self, E, x):
        E.act("wRecv %d" % x)
        E.writer_cur = x
        E.writer_notified = False

    # -- main
    def run(self):
        L = self.lines
        for i, t in enumerate(L):
            kind = t[0]
            if kind == "G":
                self.on_go(i, t)
            elif kind == "P":
                self.on_point(i, t)
            elif kind == "A":
                if i in self.consumed:
                    continue
                self.on_arm(i, t)
            elif kind == "E":
                self.on_event(i, t)
            elif kind == "F":
                self.on_frame(i, t)
            elif kind == "T":
                self.on_trace(i, t)
        for E in self.eps.values():
            self.flush_end(E)
            fs = ",".join("%d=%d" % kv for kv in sorted(E.fsize.items())) or "-"
            ps = ",".join("%d=%d" % kv for kv in sorted(E.psize.items()) if kv[0] not in E.psize_bad) or "-"
            if self.sizes:
                E.items.insert(1, "sizes f:%s p:%s" % (fs, ps))
        return {ep: " ; ".join(E.items) for ep, E in self.eps.items()}

    def ep_of(self, t):
        try:
            ep = int(t[1])
        except ValueError:
            ep = -1
        return self.eps.get(ep)

    def role(self, E, g):
        return E.g.get(g) if E else None

    def on_go(self, i, t):
        # G ep name parent
        E = self.ep_of(t)
        if E is None:
            return
        name, base = t[2], short(t[2])
        if base == "transport.receiveFrames#0.go":
            E.g[name] = Role("rx", closer=None)
            E.act("rStart")
        elif base == "newFramedMsgpackEncoder#0.go":
            E.g[name] = Role("writer")
        elif base == "newReceiveHandler#0.go":
            E.g[name] = Role("taskloop")
        elif base == "receiveHandler.handleReceiveDispatch#2.go":
            if not E.pending_handlers:
                raise Unmapped("handler goroutine without a go statement of the receive loop")
            h = E.pending_handlers.pop(0)
            E.g[name] = Role("handler", idx=h, x=None, closer=None)
        elif base == "framedMsgpackEncoder.EncodeAndWriteAsync#4.go":
            parent = E.g.get(t[3])
            if parent is None or parent.kind != "caller":
                raise Unmapped("async sender started by %s" % t[3])
            E.g[name] = Role("async", y=parent.y)

    def on_trace(self, i, t):
        # T ep name what...
        what = t[3:]
        if what and what[0] == "op":
            opno = int(what[1])
            to = int(what[2].split("=")[1])
            cancel = what[3].split("=")[1] == "true"
            self.ops.setdefault(opno, {}).update(timeout=to, cancel=cancel)
            self.actor_op[t[2]] = opno
        elif what and what[0] == "wres":
            E = self.eps.get(int(what[1]))
            if E is None or E.writer_cur is None:
                return
            E.act("wWrite %d" % (1 if what[2] == "ok" else 0))
        elif what and what[0] == "teardown":
            self.teardown = True

    # ------------------------------------------------------------ release points
    def on_point(self, i, t):
        E = self.ep_of(t)
        g, site = t[2], t[3]
        if E is None:
            return
        r = self.role(E, g)
        b = site
        if r is None:
            return
        # ---- closers (any goroutine inside closeWithErr)
        if b == "transport.closeWithErr#3.once":
            k = self.closer_of(E, g, r)
            E.act("kEnter %d" % k)
            if E.once == "idle":
                E.once = "running"
                E.runner = k
                r.closer_path = "runner"
            elif E.once == "running":
                r.closer_path = "waiter"
            else:
                r.closer_path = "done"
            return
        if b == "transport.closeWithErr#0.close":
            k = r.closer
            E.act("kStep %d" % k)
            E.act("kStep %d" % k)
            return
        if b == "dispatch.Close#0.close":
            E.act("kStep %d" % r.closer)
            return
        if b == "receiveHandler.Close#0.close":
            E.act("kStep %d" % r.closer)
            return
        if b == "framedMsgpackEncoder.Close#0.close":
            k = r.closer
            E.act("kStep %d" % k)   # waitTask -> encClose (the task loop has closed closedCh)
            E.act("kStep %d" % k)   # close(doneCh)
            E.act("kStep %d" % k)   # t.c.Close()
            return
        # ---- callers
        if r.kind == "caller":
            c = r.idx
            if b == "callContainer.nextSeqid#3.stmt":
                E.act("cNew %d" % c)
                return
            if b == "callContainer.AddCall#2.stmt":
                E.act("cAdd %d" % c)
                r.stage = "enc"
                return
            if b == "framedMsgpackEncoder.encodeAndWriteInternal#0.send":
                E.act("cEnc %d 0" % c)
                E.next_send += 1
                r.stage = "sel1"
                return
            if b == "framedMsgpackEncoder.encodeAndWriteInternal#3.select":
                E.act("cEnc %d 1" % c)
                r.x = E.next_send
                E.next_send += 1
                r.stage = "hand"
                return
            if b == "framedMsgpackEncoder.EncodeAndWriteAsync#5.select":
                E.act("cCancelEnc %d" % c)
                r.y = E.next_send
                E.next_send += 1
                return
            if b == "framedMsgpackEncoder.EncodeAndWriteAsync#0.send":
                if not self.cancel_enc_fail:
                    raise Unsupported("a cancellation that cannot be encoded")
                # the cancellation of a call refused for its method name does not fit a frame either
                E.act("cCancelEncFail %d" % c)
                r.y = E.next_send
                E.next_send += 1
                return
            if b == "dispatch.handleCancel#0.call:RecordAndFinish":
                E.act("cCancelRec %d" % c)
                return
            if b == "dispatch.Call#2.call:RecordAndFinish":
                E.act("cFin %d" % c)
                return
            if b == "callContainer.RemoveCall#2.stmt":
                if getattr(r, "stage", "") == "enc":
                    # compressData failed: Call returns with only RemoveCall deferred (no frame, no send, no record)
                    E.act("cCompressFail %d" % c)
                E.act("cRm %d" % c)
                return
        if r.kind == "notifier":
            n = r.idx
            if b == "framedMsgpackEncoder.encodeAndWriteInternal#0.send":
                E.act("nEnc %d 0" % n)
                E.next_send += 1
                return
            if b == "framedMsgpackEncoder.encodeAndWriteInternal#3.select":
                E.act("nEnc %d 1" % n)
                r.x = E.next_send
                E.next_send += 1
                return
            if b == "dispatch.Notify#0.call:RecordAndFinish":
                E.act("nFin %d" % n)
                return
        if r.kind == "writer":
            if b == "framedMsgpackEncoder.writerLoop#1.call:ConnWrite":
                if not E.writer_notified:
                    E.act("wNotify")
                    E.writer_notified = True
                return
            if b == "framedMsgpackEncoder.writerLoop#2.send":
                E.act("wDone")
                E.writer_cur = None
                return
            if b == "framedMsgpackEncoder.writerLoop#0.close":
                E.act("wStop")
                return
        if r.kind == "rx":
            if b == "receiveHandler.handleReceiveDispatch#2.go@":
                if E.rx_handler is None:
                    raise Unmapped("go statement while the model's receive loop holds no request")
                E.pending_handlers.append(E.rx_handler)
                E.rx_handler = None
                E.act("rSpawn")
                return
            if b == "rpcResponseMessage.DecodeMessage#0.call:RetrieveCall":
                f = self.next_frame_of(i, g)
                if f is None:
                    raise Unsupported("trace ends inside a response")
                # F ep g resp seq found payload appErr cls
                if f[3] == "none":
                    # the connection died while this reply was being decoded: NextFrame returns no message at all
                    raise Unsupported("a reply cut off while it was being decoded (not modelled)")
                if f[3] != "resp":
                    raise Unmapped("look-up not followed by a response frame")
                r.resp = f
                if f[6] == "-":
                    # no nonce in the payload (error replies): a payload id of its own, so that its length is its own
                    E.next_pid += 1
                    pid = 1000000000 + E.next_pid
                else:
                    pid = nonce_nat(f[6])
                lens = self.resp_len[1 - E.ep].get(int(f[4]), set())
                if len(lens) == 1 and E.psize.get(pid, next(iter(lens))) == next(iter(lens)):
                    E.psize[pid] = next(iter(lens))
                else:
                    E.psize_bad.add(pid)   # injected / ambiguous: the length of this frame is not known
                E.act("rDeliver resp %s %d %s" % (f[4], pid, f[7]))
                r.resp_pid = pid
                r.decoded = False
                return
            if b == "callContainer.RetrieveCall#2.stmt":
                E.act("rLookup")
                f = getattr(r, "resp", None)
                if f is not None and f[5] == "1" and getattr(r, "resp_pid", None) in E.psize_bad:
                    # found, but how long the frame was is unknown: no size assertion for that caller
                    for rr in E.g.values():
                        if rr.kind == "caller":
                            rr.size_unknown = True
                return
            if b == "rpcResponseMessage.DecodeMessage#1.call:DecodeRes":
                E.act("rDecode")
                r.decoded = True
                return
            if b == "framedMsgpackEncoder.encodeAndWriteInternal#3.select":
                E.act("rNfEnc")
                r.x = E.next_send
                E.next_send += 1
                return
            if b == "framedMsgpackEncoder.encodeAndWriteInternal#0.send":
                raise Unsupported("a not-found reply that cannot be encoded")
            if b in ("callRequest.Reply#0.call:RecordAndFinish", "callCompressedRequest.Reply#0.call:RecordAndFinish"):
                return
        if r.kind == "handler":
            h = r.idx
            if b == "framedMsgpackEncoder.encodeAndWriteInternal#0.send":
                E.act("hEnc %d 0" % h)
                E.next_send += 1
                return
            if b == "framedMsgpackEncoder.encodeAndWriteInternal#3.select":
                E.act("hEnc %d 1" % h)
                r.x = E.next_send
                E.next_send += 1
                return
            if b in ("callRequest.Reply#0.call:RecordAndFinish", "callCompressedRequest.Reply#0.call:RecordAndFinish"):
                E.act("hFin %d" % h)
                r.replied = True
                return
        if r.kind == "async":
            pass
        if b.endswith(".start") or any(b.startswith(p) for p in IGNORED_SITES) or re.search(r"#s\d+\.stmt$", b):
            return
        raise Unmapped("release point %s of a %s goroutine" % (b, r.kind))

    def closer_of(self, E, g, r):
        if getattr(r, "closer", None) is None:
            if r.kind == "rx":
                r.closer = 0
            else:
                r.closer = E.next_closer
                E.next_closer += 1
                E.act("kStart %d" % r.closer)
        return r.closer

    # ------------------------------------------------------------ select arms
    def on_arm(self, i, t):
        E = self.ep_of(t)
        if E is None:
            return
        g, site, arm = t[2], t[3], int(t[4])
        r = self.role(E, g)
        if r is None:
            return
        key = (site, arm)
        # observers and everybody else reading the lifecycle accessors
        if site in ("transport.IsConnected#0.select", "transport.err#0.select"):
            if r.kind == "caller" and getattr(r, "stage", "") == "begin" and site == "transport.IsConnected#0.select":
                E.act("cBegin %d" % r.idx)
                r.stage = "new"
                if arm == 0:
                    E.act("?cpc %d ret:err:eof" % r.idx)
                return
            if r.kind == "notifier" and getattr(r, "stage", "") == "begin" and site == "transport.IsConnected#0.select":
                E.act("nBegin %d" % r.idx)
                r.stage = "enc"
                if arm == 0:
                    E.act("?npc %d ret:err:eof" % r.idx)
                return
            E.act("?stop %d" % (1 if arm == 0 else 0))
            self.stats["asserts"] += 1
            return
        # the hand-off: send arm of a sender = receive arm of the writer (one joint action)
        if key in SEND_ARMS:
            x = r.y if (r.kind == "async" or site.startswith("framedMsgpackEncoder.EncodeAndWriteAsync")) else r.x
            # the writer's matching arm (before or after this line, between the same two releases)
            self.consume_writer_arm(i, E)
            self.do_wrecv(E, x)
            return
        if site == "framedMsgpackEncoder.writerLoop#3.select":
            if arm == 0:
                return  # doneCh: wStop at the close that follows
            # receive arm seen before the sender's line: find the sender's arm, emit there
            j = self.lookahead(i, lambda u: u[0] == "A" and u[1] == t[1] and (u[3], int(u[4])) in SEND_ARMS)
            if j is None:
                # the sender's line may precede (already handled) - otherwise the table is wrong
                if E.writer_cur is None:
                    raise Unmapped("writer received a bundle without a sender")
                return
            u = self.lines[j]
            self.consumed.add(j)
            ru = self.role(E, u[2])
            x = ru.y if (ru.kind == "async" or u[3].startswith("framedMsgpackEncoder.EncodeAndWriteAsync")) else ru.x
            self.do_wrecv(E, x)
            return
        if r.kind == "caller":
            c = r.idx
            m = {
                ("framedMsgpackEncoder.encodeAndWriteInternal#3.select", 0): "cHandDone",
                ("dispatch.Call#3.select", 0): "cSel1Err", ("dispatch.Call#3.select", 2): "cSel1Stop",
                ("dispatch.Call#4.select", 0): "cSel2Res", ("dispatch.Call#4.select", 2): "cSel2Stop",
                ("framedMsgpackEncoder.EncodeAndWriteAsync#5.select", 0): "cCancelDone",
                ("framedMsgpackEncoder.EncodeAndWriteAsync#5.select", 2): "cCancelAsync",
                ("dispatch.handleCancel#1.select", 0): "cPoll", ("dispatch.handleCancel#1.select", 1): "cPoll",
            }
            ctxarms = {("framedMsgpackEncoder.encodeAndWriteInternal#3.select", 1): "cHandCtx",
                       ("dispatch.Call#3.select", 1): "cSel1Ctx", ("dispatch.Call#4.select", 1): "cSel2Ctx"}
            if key in ctxarms:
                self.ensure_ctx(E, r)
                E.act("%s %d" % (ctxarms[key], c))
                return
            if key in m:
                if m[key] == "cSel2Res":
                    # woken by the receive loop's delivery, whose own line may come later in the same window
                    j = self.lookahead(i, lambda u: u[0] == "A" and self.ep_of(u) is E and u[3] == "receiveHandler.receiveResponse#0.select")
                    if j is not None and j not in self.consumed:
                        self.consumed.add(j)
                        self.on_arm(j, self.lines[j])
                E.act("%s %d" % (m[key], c))
                return
        if r.kind == "notifier":
            n = r.idx
            m = {("framedMsgpackEncoder.encodeAndWriteInternal#3.select", 0): "nHandDone",
                 ("dispatch.Notify#1.select", 0): "nSelErr", ("dispatch.Notify#1.select", 1): "nSelStop"}
            ctxarms = {("framedMsgpackEncoder.encodeAndWriteInternal#3.select", 1): "nHandCtx",
                       ("dispatch.Notify#1.select", 2): "nSelCtx"}
            if key in ctxarms:
                self.ensure_ctx(E, r)
                E.act("%s %d" % (ctxarms[key], n))
                return
            if key in m:
                E.act("%s %d" % (m[key], n))
                return
        if r.kind == "async":
            if key == ("framedMsgpackEncoder.EncodeAndWriteAsync#3.select", 0):
                E.act("aDone %d" % r.y)
                return
        if r.kind == "taskloop":
            if site == "receiveHandler.taskLoop#1.select":
                if arm == 0:
                    E.act("tStop")
                    return
                # the receiving half of rBegSend / rCanSend / hEndSend: the joint action happens at whichever of the two
                # lines comes first (the task loop cancels contexts right after its own line)
                want = {1: ("receiveHandler.handleReceiveDispatch#0.select", 0),
                        2: ("receiveHandler.receiveCancel#0.select", 0),
                        3: ("receiveHandler.handleReceiveDispatch#1.select", 0)}[arm]
                j = self.lookahead(i, lambda u: u[0] == "A" and self.ep_of(u) is E and (u[3], int(u[4])) == want)
                if j is not None and j not in self.consumed:
                    self.consumed.add(j)
                    self.on_arm(j, self.lines[j])
                return
        if r.kind == "rx":
            m = {("receiveHandler.handleReceiveDispatch#0.select", 0): "rBegSend",
                 ("receiveHandler.handleReceiveDispatch#0.select", 1): "rBegStop",
                 ("receiveHandler.receiveCancel#0.select", 0): "rCanSend",
                 ("receiveHandler.receiveCancel#0.select", 1): "rCanStop",
                 ("receiveHandler.receiveResponse#0.select", 0): "rDeliverSlot",
                 ("receiveHandler.receiveResponse#0.select", 1): "rDeliverSlot",
                 ("framedMsgpackEncoder.encodeAndWriteInternal#3.select", 0): "rNfHandDone",
                 ("callRequest.Reply#1.select", 0): "rNfSel", ("callCompressedRequest.Reply#1.select", 0): "rNfSel"}
            if key in m:
                if m[key] == "rDeliverSlot" and not getattr(r, "decoded", True):
                    E.act("rDecode")   # a reply carrying an error: the result is not decoded, the model's buffer step is a no-op for the caller
                    r.decoded = True
                if m[key] == "rBegStop":
                    E.rx_handler = None
                E.act(m[key])
                return
            if key == ("framedMsgpackEncoder.encodeAndWriteInternal#3.select", 1):
                raise Unmapped("context arm in the receive loop's own reply")
        if r.kind == "handler":
            h = r.idx
            m = {("framedMsgpackEncoder.encodeAndWriteInternal#3.select", 0): "hHandDone",
                 ("framedMsgpackEncoder.encodeAndWriteInternal#3.select", 1): "hHandCtx",
                 ("callRequest.Reply#1.select", 0): "hSelErr", ("callRequest.Reply#1.select", 1): "hSelCtx",
                 ("callCompressedRequest.Reply#1.select", 0): "hSelErr", ("callCompressedRequest.Reply#1.select", 1): "hSelCtx",
                 ("receiveHandler.handleReceiveDispatch#1.select", 0): "hEndSend",
                 ("receiveHandler.handleReceiveDispatch#1.select", 1): "hEndStop"}
            if key in m:
                E.act("%s %d" % (m[key], h))
                return
        raise Unmapped("select arm %s/%d of a %s goroutine" % (site, arm, r.kind))

    def consume_writer_arm(self, i, E):
        j = self.lookahead(i, lambda u: u[0] == "A" and u[3] == "framedMsgpackEncoder.writerLoop#3.select" and u[4] == "1"
                           and self.ep_of(u) is E)
        if j is not None:
            self.consumed.add(j)

    # ------------------------------------------------------------ frames
    def on_frame(self, i, t):
        # F ep g kind ...
        E = self.ep_of(t)
        if E is None:
            return
        g = t[2]
        r = self.role(E, g)
        if r is None or r.kind != "rx":
            raise Unmapped("frame reported by %s" % g)
        kind, cls = t[3], t[-1]
        if kind == "resp":
            found = t[5] == "1"
            if cls == "fatal":
                raise Unsupported("a reply that was found but could not be decoded (fatal): not modelled")
            if found and not getattr(r, "decoded", True):
                pass  # decoded flag handled at the delivery select
            return
        if cls == "fatal" or kind == "none":
            if cls != "fatal":
                raise Unmapped("no message and no fatal error")
            E.act("rFatal")
            r.closer = 0
            E.rx_closing = True
            return
        if kind == "call":
            seq, known, arg = t[4], t[5], nonce_nat(t[6])
            E.act("rDeliver call %s %s %d" % (seq, known, arg))
            if known == "1":
                E.rx_handler = E.next_handler
                E.next_handler += 1
                self.handler_is_call = True
            return
        if kind == "notify":
            known, arg = t[4], nonce_nat(t[5])
            E.act("rDeliver notify %s %d" % (known, arg))
            if known == "1":
                E.rx_handler = E.next_handler
                E.next_handler += 1
            return
        if kind == "cancel":
            E.act("rDeliver cancel %s" % t[4])
            return
        raise Unsupported("frame kind %s" % kind)

    # ------------------------------------------------------------ harness events
    def on_event(self, i, t):
        # E ep actor name args...
        actor, ev = t[2], t[3:]
        if not ev:
            return
        k = ev[0]
        if k == "cb":
            opno, ep, kind = int(ev[1]), int(ev[2]), ev[3]
            E = self.eps[ep]
            self.ops.setdefault(opno, {}).update(ep=ep, kind=kind)
            if kind == "notify":
                r = Role("notifier", idx=E.next_notifier, opno=opno, stage="begin", x=None)
                E.next_notifier += 1
                E.act("notifyStart %d" % r.idx)
            else:
                r = Role("caller", idx=E.next_caller, opno=opno, stage="begin", x=None, y=None)
                E.next_caller += 1
                E.act("callStart %d" % r.idx)
            E.g[actor] = r
            self.ops[opno]["role"] = r
            return
        if k == "cx":
            self.cx.add(int(ev[1]))
            return
        if k == "ce":
            opno, out, res = int(ev[1]), ev[2], ev[3]
            op = self.ops.get(opno)
            if not op or "role" not in op:
                return
            E = self.eps[op["ep"]]
            r = op["role"]
            cls = {"eof": "err:eof", "canceled": "err:ctx", "deadline": "err:ctx", "writeerr": "err:wr",
                   "toobig": "err:toobig", "encodeerr": "err:toobig"}.get(out)
            if r.kind == "caller":
                if out == "ok":
                    E.act("?cpc %d ret:ok:%d:0" % (r.idx, nonce_nat(res)))
                elif out.startswith("app:") or out == "notfound":
                    E.act("?capp %d" % r.idx)
                elif cls:
                    E.act("?cpc %d ret:%s" % (r.idx, cls))
                else:
                    raise Unsupported("outcome %s" % out)
            else:
                if out == "ok":
                    E.act("?npc %d ret:ok:0:0" % r.idx)
                elif cls:
                    E.act("?npc %d ret:%s" % (r.idx, cls))
                else:
                    raise Unsupported("outcome %s" % out)
            self.stats["asserts"] += 1
            # the actor goroutine may go on (closer actors do not issue calls); forget the role
            E.g.pop(actor, None)
            return
        if k in ("wr", "wrf"):
            E = self.eps[int(ev[1])]
            fi = frame_info(ev[2])
            if E.writer_cur is not None and fi:
                E.fsize[E.writer_cur] = fi[0]
            return
        if k == "rec":
            # the call record of a caller: its stored size, when the bytes of its frame are known
            E = self.eps[int(ev[1])]
            r = E.g.get(actor)
            try:
                tag = bytes.fromhex(ev[2]).decode()
            except ValueError:
                tag = ""
            if self.sizes and r is not None and r.kind == "caller" and tag.startswith("Call") \
                    and getattr(r, "x", None) in E.fsize and not getattr(r, "size_unknown", False):
                E.act("?rec %d %s" % (r.idx, ev[3]))
                self.stats["asserts"] += 1
            return
        if k == "sn":
            E = self.eps[int(ev[1])]
            E.act("wNotify")
            E.writer_notified = True
            return
        if k == "he":
            ep, hno, res, er, ce = int(ev[1]), int(ev[2]), ev[3], ev[4], ev[5]
            E = self.eps[ep]
            r = E.g.get(actor)
            if r is None or r.kind != "handler":
                raise Unmapped("handler end reported by %s" % actor)
            E.act("?hctx %d %s" % (r.idx, ce))
            self.stats["asserts"] += 1
            E.act("hReturn %d %d %s" % (r.idx, nonce_nat(res), er))
            r.returned = True
            return
        if k == "iv":
            ep = int(ev[1])
            E = self.eps[ep]
            r = E.g.get(actor)
            if r is None or r.kind != "handler":
                raise Unmapped("invocation reported by %s" % actor)
            E.act("?hpc %d run" % r.idx)
            return
        if k == "clb":
            ep = int(ev[1])
            E = self.eps[ep]
            r = E.g.get(actor)
            if r is None:
                r = Role("closer", closer=None)
                E.g[actor] = r
            r.closer = None
            self.closer_of(E, actor, r)
            return
        if k == "cle":
            ep = int(ev[1])
            E = self.eps[ep]
            r = E.g.get(actor)
            if r is None or getattr(r, "closer", None) is None:
                return
            path = getattr(r, "closer_path", None)
            if path == "runner":
                self.finish_runner(E)
            elif path == "waiter":
                # Close returned: the goroutine inside the once has left it (it has no event of its own for that)
                self.finish_runner(E)
                E.act("kWake %d" % r.closer)
            E.act("?kpc %d done" % r.closer)
            r.closer = None
            r.closer_path = None
            return
        if k == "pend":
            ep, n = int(ev[1]), int(ev[2])
            self.eps[ep].act("?pend %d" % n)
            self.stats["asserts"] += 1
            return
        if k == "inj" and len(ev) > 2 and ev[2] == "oldresp":
            return

    def finish_runner(self, E):
        if E.once == "running":
            E.act("kStep %d" % E.runner)    # the writer has closed closedCh: the last wait of closeWithErr is over
            E.once = "done"

    def flush_end(self, E):
        # the receive loop that closed the transport itself: its closeWithErr finishes without a harness event
        for g, r in list(E.g.items()):
            if r.kind == "rx" and getattr(r, "closer", None) == 0 and getattr(r, "closer_path", None) == "runner":
                self.finish_runner(E)
                E.act("rCloseDone")
            elif r.kind == "rx" and getattr(r, "closer", None) == 0 and getattr(r, "closer_path", None) == "waiter":
                self.finish_runner(E)
                E.act("kWake 0")
                E.act("rCloseDone")
            elif r.kind == "rx" and getattr(r, "closer", None) == 0 and getattr(r, "closer_path", None) == "done":
                E.act("rCloseDone")


def parse_tlog(text):
    """split harness output into sessions: [(index, flavour, [token lists])]"""
    sessions = []
    cur = None
    for line in text.split("\n"):
        if line.startswith("TLOG "):
            _, idx, fl = line.split(" ", 2)
            cur = (int(idx), fl.strip(), [])
            sessions.append(cur)
            continue
        if cur is None:
            continue
        if line[:2] in ("P ", "A ", "G ", "E ", "F ", "T ", "L "):
            cur[2].append(line.split(" "))
        elif line.startswith("TRACE ") or line.startswith("STAT ") or line.startswith("DIST "):
            cur = None
    return sessions


def translate(lines):
    tr = Translator(lines)
    return tr.run(), tr.stats
