import os, sys, time
sys.path.insert(0, os.path.dirname(os.path.abspath(__file__)))
import vlib, props
t0 = time.time()
with vlib.Lock():
    facts, _ = vlib.extract_facts()
    print("facts:", len(facts))
    mods = ["oracle"]
    for pid, P in sorted(props.PROPS.items()):
        for m in P.get("lean", []):
            if m not in mods:
                mods.append(m)
    rc, out = vlib.lake_build(mods)
    print(out[-3000:])
    if rc != 0:
        print("lake build failed", file=sys.stderr)
        sys.exit(1)
    binp, err = vlib.build_harness()
    if binp is None:
        print(err, file=sys.stderr)
        sys.exit(1)
print("setup ok in %.1fs" % (time.time() - t0))
