import FmpRpc.Model.Bytes
import FmpRpc.Model.Prog
import FmpRpc.Model.Msgpack
import FmpRpc.Model.Cmp
import FmpRpc.Gen.Facts
import FmpRpc.Model.Msg
import FmpRpc.Model.Frame
import FmpRpc.Model.Text
