import FmpRpc.Model.Text
import FmpRpc.Model.Monitors
import Driver.Sat
import FmpRpc.Model.ConnMon
import FmpRpc.Model.Replay
import FmpRpc.Model.ConnReplay
import FmpRpc.Model.CT
/-
  Oracle: runs the model's executable definitions on the operations the Go
  harness ran on the implementation, one line in, one line out.
-/
open FmpRpc

def defaultMethods : List (Bytes × List Bytes) :=
  [ ("p".toUTF8.toList, ["m".toUTF8.toList, "n".toUTF8.toList]),
    ("q.r".toUTF8.toList, ["s".toUTF8.toList]),
    ([], ["z".toUTF8.toList]) ]

def parsePend (s : String) : Option (List (Int × Int × Bool)) :=
  if s = "-" then some [] else
  (s.splitOn ",").mapM fun e =>
    match e.splitOn ":" with
    | [a, b, c] => do
      let a ← parseInt? a
      let b ← parseInt? b
      pure (a, b, c = "1")
    | _ => none

def parseZ (s : String) : Option (List (Int × Bytes × Option Bytes)) :=
  if s = "-" then some [] else
  (s.splitOn ",").mapM fun e =>
    match e.splitOn ":" with
    | [a, b, c] => do
      let a ← parseInt? a
      let b ← unhx b
      if c = "ERR" then pure (a, b, none) else do
        let c ← unhx c
        pure (a, b, some c)
    | _ => none

def zLookup (tbl : List (Int × Bytes × Option Bytes)) (ct : Int) (blob : Bytes) : Option (Option Bytes) :=
  match tbl with
  | [] => none
  | (c, b, r) :: t => if c = ct ∧ b = blob then some r else zLookup t ct blob

def stepsText (total : Nat) (steps : List FrameStep) : String :=
  " | ".intercalate (steps.map fun st => s!"{st.res.text} @{total - st.rest.length}")

def handle (line : String) : String :=
  match (line.splitOn " ").filter (· ≠ "") with
  | "wire" :: max :: rest =>
    match max.toNat?, parseMsg rest with
    | some max, some m =>
      match wire max m with
      | some b => toHex b
      | none => "toobig"
    | _, _ => "bad-op"
  | "encv" :: rest =>
    match parseValue rest with
    | some (v, _) => toHex (enc v)
    | none => "bad-op"
  | ["decv", h] =>
    match unhx h with
    | some b =>
      let r := runStream (decValue (b.length + 1)) b
      match r.val with
      | .ok v => s!"ok {vtext v} @{b.length - r.rest.length}"
      | .error e => e.name
    | none => "bad-op"
  | ["run", max, pend, z, chunks] =>
    match max.toNat?, parsePend pend, parseZ z, (chunks.splitOn ",").mapM unhx with
    | some max, some pend, some z, some cs =>
      let s := cs.flatten
      let ctx : Ctx := { methods := defaultMethods, pending := pend, decompress := zLookup z }
      stepsText s.length (run max ctx s)
    | _, _, _, _ => "bad-op"
  | "rr" :: rest => Sat.rr rest
  | "uri" :: rest => Sat.uri rest
  | "tags" :: rest => Sat.tags rest
  | "timer" :: rest => Sat.timer rest
  | "tlsdial" :: rest => Sat.tlsdial rest
  | "tlsdial2" :: rest => Sat.tlsdial2 rest
  | ["selfcheck"] => "ok"
  | "replay" :: _ => T.replay ((line.drop 7).toString)
  | ["ct", tls, ops] =>
    (match (ops.splitOn ",").mapM CT.parseOp with
     | some os => " | ".intercalate (CT.trace { tls := tls = "1" } os)
     | none => "bad-op")
  | "creplay" :: _ => Cn.replay ((line.drop 8).toString)
  | "cmon" :: _ =>
    let v := CM.all (CM.parseHist ((line.drop 5).toString))
    if v.isEmpty then "ok" else "viol " ++ " ".intercalate v
  | "mon" :: max :: _ =>
    match max.toNat? with
    | some max =>
      -- the history is everything after "mon <max> "
      let body := (line.drop (4 + (toString max).length + 1)).toString
      let v := Mon.all max (parseHist body)
      if v.isEmpty then "ok" else "viol " ++ " ".intercalate v
    | none => "bad-op"
  | _ => "bad-op"

partial def loop (h : IO.FS.Stream) (out : IO.FS.Stream) : IO Unit := do
  let line ← h.getLine
  if line.isEmpty then return ()
  out.putStrLn (handle (line.trimAscii.toString))
  loop h out

def main : IO Unit := do
  let out ← IO.getStdout
  loop (← IO.getStdin) out
  out.flush
