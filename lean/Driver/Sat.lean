import FmpRpc.Model.Remote
import FmpRpc.Model.Tags
import FmpRpc.Model.Timer
import FmpRpc.Model.Bytes
import FmpRpc.Model.TLS
/-
  Oracle operations for the pure satellites (C16, C18, C19): executable
  wrappers around `Model/Remote`, `Model/Tags`, `Model/Timer`.
-/
open FmpRpc

namespace Sat

def strOfHex (s : String) : Option R.Str :=
  if s = "-" then some [] else
  (ofHex s).map fun bs => (String.fromUTF8! ⟨bs.toArray⟩).toList

def hexOfStr (s : R.Str) : String :=
  if s.isEmpty then "-" else toHex (String.ofList s).toUTF8.toList

def isSpace (c : Char) : Bool :=
  c = ' ' || c = '\t' || c = '\n' || c = '\r' || c.toNat = 11 || c.toNat = 12 || c.toNat = 0x85 || c.toNat = 0xa0

def trim (s : R.Str) : R.Str := ((s.dropWhile isSpace).reverse.dropWhile isSpace).reverse
def lower (s : R.Str) : R.Str := s.map fun c => if 'A' ≤ c ∧ c ≤ 'Z' then Char.ofNat (c.toNat + 32) else c

/-- `strings.ToLower(strings.TrimSpace(·))` on ASCII; idempotence is only
    needed by the theorems, the driver just runs it -/
def asciiNorm (s : R.Str) : R.Str := lower (trim s)

theorem asciiNorm_idem_unused : True := trivial

def parseGroups (s : String) : Option (List (List R.Str)) :=
  if s = "." then some [] else
  (s.splitOn "|").mapM fun g =>
    if g = "." then some [] else (g.splitOn ",").mapM strOfHex

/-- a `Norm` needs the idempotence proof; the driver uses the raw function
    through this executable copy of `R.new` / `R.parse` -/
def cleanX (groups : List (List R.Str)) : List (List R.Str) :=
  (groups.map fun g => (g.map asciiNorm).filter (fun a => !a.isEmpty)).filter (fun g => !g.isEmpty)

def newX (groups sh : List (List R.Str)) : Option R.Remote :=
  let c := cleanX groups
  if c.isEmpty then none else some ⟨c, sh⟩

def rr (toks : List String) : String :=
  let rec go (r : Option R.Remote) (toks : List String) (acc : List String) : List String :=
    match toks with
    | [] => acc.reverse
    | t :: rest =>
      match t.splitOn ":" with
      | ["new", gs, arr] =>
        match parseGroups gs, parseGroups arr with
        | some gs, some arr =>
          match newX gs arr with
          | some r' => go (some r') rest (("ok:" ++ hexOfStr (R.toStr r')) :: acc)
          | none => go none rest ("ERR" :: acc)
        | _, _ => ("bad-op" :: acc).reverse
      | [op, arr] =>
        match r, parseGroups arr with
        | some r0, some arr =>
          if op = "reset" then go (some (R.reset r0 arr)) rest ("-" :: acc)
          else if op = "get" then
            match R.getAddress r0 arr with
            | some (a, r') => go (some r') rest (hexOfStr a :: acc)
            | none => go (some r0) rest ("PANIC" :: acc)
          else if op = "peek" then
            match R.peek r0 arr with
            | some (a, r') => go (some r') rest (hexOfStr a :: acc)
            | none => go (some r0) rest ("PANIC" :: acc)
          else if op = "reparse" then
            match newX ((R.splitOn ';' (R.toStr r0)).map (R.splitOn ',')) arr with
            | some r2 => go (some r0) rest (("ok:" ++ hexOfStr (R.toStr r2)) :: acc)
            | none => go (some r0) rest ("ERR" :: acc)
          else ("bad-op" :: acc).reverse
        | _, _ => ("bad-op" :: acc).reverse
      | _ => ("bad-op" :: acc).reverse
  " ".intercalate (go none toks [])

def uri (toks : List String) : String :=
  match toks with
  | s :: rest =>
    match strOfHex s with
    | none => "bad-op"
    | some s =>
      let up : Option (R.Str × R.Str) := match rest with
        | [sc, h] => match strOfHex sc, strOfHex h with
          | some sc, some h => some (sc, h)
          | _, _ => none
        | _ => none
      match R.parseFMPURI (fun _ => up) s with
      | none => "ERR"
      | some f =>
        -- round trip under the net/url contract
        let rt := match R.parseFMPURI (fun _ => some (f.scheme, f.hostPort)) f.toStr with
          | some f2 => if f2 = f then "rt" else "RT-ERR"
          | none => "RT-ERR"
        s!"{hexOfStr f.scheme} {hexOfStr f.hostPort} {hexOfStr f.host} tls={if f.useTLS then 1 else 0} {rt}"
  | _ => "bad-op"

/-! tags -/

def renderMap (m : Tg.TagMap) : String :=
  if m.isEmpty then "." else
  let ents := m.map fun (k, v) => s!"{k}:{v}"
  ",".intercalate (ents.toArray.qsort (· < ·)).toList

def tags (toks : List String) : String :=
  let step (st : Tg.World × List Nat) (t : String) : Tg.World × List Nat :=
    let (w, user) := st
    match t.splitOn ":" with
    | ["new", ents] =>
      let m : Tg.TagMap := if ents = "." then [] else
        (ents.splitOn ",").filterMap fun e => match e.splitOn "=" with
          | [k, v] => some (k.toNat!, v.toNat!)
          | _ => none
      let (w', o) := Tg.userNew w m
      (w', user ++ [o])
    | ["set", o, k, v] =>
      match user[o.toNat!]? with
      | some obj => (Tg.userSet w obj k.toNat! v.toNat!, user)
      | none => (w, user)
    | ["add", c, o] =>
      match user[o.toNat!]? with
      | some obj => ((Tg.addTags w c.toNat! obj).1, user)
      | none => (w, user)
    | ["read", c] =>
      let (w', r) := Tg.tagsFromContext w c.toNat!
      match r with
      | some o => (w', user ++ [o])
      | none => (w', user)
    | _ => (w, user)
  let (w, user) := toks.foldl step (Tg.World.init, [])
  let cs := (List.range w.ctxs.length).map fun c =>
    match Tg.tagsOf w c with
    | none => s!"c{c}=-"
    | some m => s!"c{c}={renderMap m}"
  let us := (List.range user.length).map fun i => s!"u{i}={renderMap (w.obj (user.getD i 0))}"
  " ".intercalate (cs ++ us)

/-! timer -/

structure TW where
  pc : Tm.WPc
  ret : Option Nat

partial def runWaiter (s : Tm.St) (w : TW) : TW :=
  match w.pc with
  | .returned => w
  | pc =>
    match Tm.waitStep s pc with
    | none => w
    | some .returned => { pc := .returned, ret := some s.now }
    | some pc' => runWaiter s { w with pc := pc' }

def runWaiters (s : Tm.St) (ws : List TW) : List TW := ws.map (runWaiter s)

/-- advance the clock by `d`, stopping at every deadline on the way -/
partial def sleepTo (s : Tm.St) (ws : List TW) (target : Nat) : Tm.St × List TW :=
  let due := (s.deadlines.filter fun x => x.1 ≤ target).map (·.1)
  match due.foldl (fun acc t => match acc with | none => some t | some m => some (min m t)) none with
  | none => ({ s with now := target }, ws)
  | some t =>
    let s1 := Tm.fireDue { s with now := max s.now t }
    sleepTo s1 (runWaiters s1 ws) target

def timer (toks : List String) : String :=
  let step (st : Tm.St × List TW) (t : String) : Tm.St × List TW :=
    let (s, ws) := st
    match t.splitOn ":" with
    | ["start", d] => let s' := Tm.apply s (.start d.toNat!); (s', runWaiters s' ws)
    | ["firenow"] => let s' := Tm.apply s .fireNow; (s', runWaiters s' ws)
    | ["wait"] => (s, ws ++ [runWaiter s { pc := .get, ret := none }])
    | ["sleep", d] => sleepTo s ws (s.now + d.toNat!)
    | _ => (s, ws)
  let (_, ws) := toks.foldl step (({} : Tm.St), [])
  " ".intercalate ((List.range ws.length).map fun i =>
    match (ws.getD i { pc := .get, ret := none }).ret with
    | some t => s!"w{i}@{t}"
    | none => s!"w{i}@never")

/-! TLS -/

def tlsdial (toks : List String) : String :=
  match toks with
  | [ck, bh, to] =>
    let host := "good.example.com"
    let cfg : TLS.Cfg := { roots := .pem 0, serverName := host }
    let cert : TLS.Cert := match ck with
      | "valid" => ⟨.pem 0, [host], true⟩
      | "otherca" => ⟨.pem 1, [host], true⟩
      | "othername" => ⟨.pem 0, ["evil.example.com"], true⟩
      | "expired" => ⟨.pem 0, [host], false⟩
      | _ => ⟨.pem 2, [host], true⟩
    let b : TLS.Behav := match bh with
      | "stall" => .stalls | "close" => .closes | _ => .handshakes
    let (o, el, cr) := TLS.dial cfg cert b to.toNat!
    let os := match o with | .ok => "ok" | .fail => "fail" | .timeout => "timeout"
    s!"{os} created={if cr then 1 else 0} elapsed={el}"
  | _ => "bad-op"

/-- a second dial of the same (root-PEM) transport to another host, the server presenting a certificate for
    the first host: the library's configuration takes the server name from the dialed address -/
def tlsdial2 (toks : List String) : String :=
  match toks with
  | [ck] =>
    match TLS.dialConfig none (some (some 0)) "other.example.com" with
    | none => "fail"
    | some cfg =>
      let host := "good.example.com"
      let cert : TLS.Cert := match ck with
        | "valid" => ⟨.pem 0, [host], true⟩
        | "otherca" => ⟨.pem 1, [host], true⟩
        | "othername" => ⟨.pem 0, ["evil.example.com"], true⟩
        | "expired" => ⟨.pem 0, [host], false⟩
        | _ => ⟨.pem 2, [host], true⟩
      match (TLS.dial cfg cert .handshakes 0).1 with
      | .ok => "ok"
      | _ => "fail"
  | _ => "bad-op"

end Sat
