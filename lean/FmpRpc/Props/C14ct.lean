import FmpRpc.Model.CT
/-
  C14, last clause — with the built-in plain and TLS connection transports,
  finalizing a new transport or closing the connection transport closes every
  earlier or merely staged transport together with its network connection.
  For every sequence of Dial / failing Dial / Finalize / Close, of any length.
-/
namespace FmpRpc.C14ct
open FmpRpc.CT

/-- whatever is open is the finalized or the staged transport, and what the transport refers to exists -/
def Ok (s : S) : Prop :=
  (∀ k, (s.xpOpen k = true ∨ s.connOpen k = true) → k < s.next ∧ (s.cur = some k ∨ s.staged = some k)) ∧
  (∀ k, s.cur = some k → k < s.next) ∧ (∀ k, s.staged = some k → k < s.next) ∧ (∀ k, s.conn = some k → k < s.next)

theorem ok_init (tls : Bool) : Ok { tls := tls } := by
  refine ⟨?_, ?_, ?_, ?_⟩ <;> intro k h <;> simp at h

theorem ok_step (s : S) (o : Op) (h : Ok s) : Ok (step s o) := by
  obtain ⟨ho, hc, hs, hn⟩ := h
  cases o
  all_goals
    unfold Ok step closeXp closeConn
    try (cases htls : s.tls)
    all_goals
      simp only [Bool.false_eq_true, if_false, if_true]
      refine ⟨?_, ?_, ?_, ?_⟩
      all_goals (intro k; grind)

theorem ok_run (s : S) (ops : List Op) (h : Ok s) : Ok (run s ops) := by
  induction ops generalizing s with
  | nil => exact h
  | cons o os ih => exact ih _ (ok_step s o h)

/-- **Finalize**: after it, every transport ever created except the finalized one is closed, and so is its network
    connection — for every history of operations, for both transports -/
theorem finalize_closes_every_other (tls : Bool) (ops : List Op) (k : Nat) :
    (step (run { tls := tls } ops) .finalize).cur ≠ some k →
    (step (run { tls := tls } ops) .finalize).xpOpen k = false ∧
    (step (run { tls := tls } ops) .finalize).connOpen k = false := by
  intro hk
  have h : Ok (step (run { tls := tls } ops) .finalize) := ok_step _ _ (ok_run _ ops (ok_init tls))
  have hst : (step (run { tls := tls } ops) .finalize).staged = none := by simp [step, closeXp]
  have h1 := h.1 k
  rw [hst] at h1
  constructor
  · cases hx : (step (run { tls := tls } ops) .finalize).xpOpen k
    · rfl
    · have := (h1 (.inl hx)).2; grind
  · cases hx : (step (run { tls := tls } ops) .finalize).connOpen k
    · rfl
    · have := (h1 (.inr hx)).2; grind

/-- **Close**: after it no transport and no network connection of a transport is open -/
theorem close_closes_everything (tls : Bool) (ops : List Op) (k : Nat) :
    (step (run { tls := tls } ops) .close).xpOpen k = false ∧
    (step (run { tls := tls } ops) .close).connOpen k = false := by
  have h0 : Ok (run { tls := tls } ops) := ok_run _ ops (ok_init tls)
  have hopen := h0.1 k
  unfold step closeXp closeConn
  cases htls : (run { tls := tls } ops).tls <;> simp only [Bool.false_eq_true, if_false, if_true] <;> grind

/-- a dial that fails creates nothing and opens nothing -/
theorem failed_dial_creates_nothing (s : S) (k : Nat) :
    (step s .dialfail).next = s.next ∧
    ((step s .dialfail).xpOpen k = true → s.xpOpen k = true) ∧
    ((step s .dialfail).connOpen k = true → s.connOpen k = true) := by
  unfold step closeConn
  cases htls : s.tls <;> simp only [Bool.false_eq_true, if_false, if_true] <;> grind

/-- a successful dial stages exactly the new transport, open over its own open connection, and closes the one staged before -/
theorem dial_stages_new (s : S) (h : Ok s) :
    (step s .dial).staged = some s.next ∧ (step s .dial).xpOpen s.next = true ∧ (step s .dial).connOpen s.next = true ∧
    (∀ j, s.staged = some j → (step s .dial).xpOpen j = false ∧ (step s .dial).connOpen j = false) := by
  obtain ⟨ho, hc, hs, hn⟩ := h
  unfold step closeXp closeConn
  simp only []
  refine ⟨trivial, ?_, ?_, ?_⟩
  · grind
  · grind
  · intro j hj; have := hs j hj; grind

/-- non-vacuity: dial, finalize, dial again, finalize: transport 0 and its connection are closed, transport 1 is open -/
example : (run { tls := true } [.dial, .finalize, .dial, .finalize]).cur = some 1 ∧
    (run { tls := true } [.dial, .finalize, .dial, .finalize]).xpOpen 0 = false ∧
    (run { tls := true } [.dial, .finalize, .dial, .finalize]).connOpen 0 = false ∧
    (run { tls := true } [.dial, .finalize, .dial, .finalize]).xpOpen 1 = true := by decide

end FmpRpc.C14ct
