import FmpRpc.Proofs.ReaderEq
import FmpRpc.Props.C04
/-
  C05 — hostile or damaged input fails closed.  What a theorem can carry: the
  classification of every byte stream by `nextFrame` (a total function), the
  bound on what is read on behalf of one frame, truncation never reported as
  a clean end of stream.  Panics, real allocation and hangs are runtime
  behaviour observed by the correspondence run (DESIGN §5 C05, partial).
-/
namespace FmpRpc.C05
open FmpRpc

/-- A length prefix that is not an integer, is zero or negative, or exceeds
    the maximum stops the connection with an error (never a message) before
    any payload is consumed: at most the 9 bytes of the prefix are read. -/
theorem bad_prefix_stops_early (max : Nat) (ctx : Ctx) (s : Bytes)
    (hbad : ∀ l rest, runStream (decIntBits 32) s = ⟨.ok l, rest⟩ →
      lenTooLow l = true ∨ lenTooHigh l max = true) :
    (∃ e, (nextFrame max ctx s).res = .fail e) ∧
    s.length - (nextFrame max ctx s).rest.length ≤ 9 := by
  obtain ⟨h9, _⟩ := decIntBits_consumes_le 32 s
  unfold nextFrame
  revert hbad h9
  generalize runStream (decIntBits 32) s = y
  obtain ⟨v, rest⟩ := y
  intro hbad h9
  simp only at h9
  cases v with
  | error e => cases e <;> exact ⟨⟨_, rfl⟩, h9⟩
  | ok l =>
    simp only []
    rcases hbad l rest rfl with h | h
    · simp only [h, if_true]; exact ⟨⟨_, rfl⟩, h9⟩
    · simp only [h, if_true]; split <;> exact ⟨⟨_, rfl⟩, h9⟩

/-- `lenTooLow` / `lenTooHigh` are the comparisons of the property statement
    (with the regenerated operators). -/
theorem len_checks (l : Int) (max : Nat) :
    (lenTooLow l = true ↔ l ≤ 0) ∧ (lenTooHigh l max = true ↔ l > max) := by
  simp [lenTooLow, lenTooHigh, Gen.pktLenLow, Gen.pktLenHigh, Cmp.eval]

/-- On behalf of one frame never more than the prefix (≤ 9 bytes) plus the
    maximum frame length is consumed from the stream. -/
theorem budget (max : Nat) (ctx : Ctx) (s : Bytes) :
    s.length - (nextFrame max ctx s).rest.length ≤ 9 + max := by
  obtain ⟨h9, h9'⟩ := decIntBits_consumes_le 32 s
  unfold nextFrame
  revert h9 h9'
  generalize runStream (decIntBits 32) s = y
  obtain ⟨v, rest⟩ := y
  intro h9 h9'
  simp only at h9 h9'
  cases v with
  | error e => cases e <;> simp only [] <;> omega
  | ok l =>
    simp only []
    split
    · simp only []; omega
    split
    · simp only []; omega
    rename_i hlo hhi
    have hL : l.toNat ≤ max := by
      simp [lenTooHigh, Gen.pktLenHigh, Cmp.eval] at hhi
      omega
    obtain ⟨a1, a2⟩ := runFrame_budget Prog.byte l.toNat rest
    revert a1 a2
    generalize runFrame Prog.byte l.toNat rest = x
    obtain ⟨⟨v, r⟩, rem1⟩ := x
    intro a1 a2
    simp only at a1 a2
    cases v with
    | error e =>
      simp only []
      have := finishFrame_le (.fail e) rem1 r
      omega
    | ok nb =>
      simp only []
      split
      · have := finishFrame_le (.fail .pkt) rem1 r
        omega
      obtain ⟨b1, b2⟩ := runFrame_budget (decodeRPC ctx l.toNat (nb.toNat - 0x90)) rem1 r
      revert b1 b2
      generalize runFrame (decodeRPC ctx l.toNat (nb.toNat - 0x90)) rem1 r = y
      obtain ⟨⟨v', r'⟩, rem2⟩ := y
      intro b1 b2
      simp only at b1 b2
      cases v' with
      | error e =>
        simp only []
        have := finishFrame_le (.fail (wrapBodyErr e)) rem2 r'
        omega
      | ok fr =>
        simp only []
        have := finishFrame_le fr rem2 r'
        omega

/-- A stream that ends exactly on a frame boundary is reported as io.EOF. -/
theorem empty_is_eof (max : Nat) (ctx : Ctx) :
    (nextFrame max ctx []).res = .fail .eof := by
  rfl

/-- A stream that ends inside the body of a frame makes `NextFrame` return a
    fatal error other than io.EOF: never a message, never a not-found error
    the receive loop would continue after, never a clean end of stream.

    (On the pinned tree this failed for a truncated frame whose arrived part
    decoded to a not-found error — repaired by the commit "fix: a truncated
    frame could be followed by a clean io.EOF"; `finishFrame` models the
    repaired drain rule.) -/
theorem truncation_never_clean (max : Nat) (ctx : Ctx) (s rest : Bytes) (l : Int)
    (hp : runStream (decIntBits 32) s = ⟨.ok l, rest⟩)
    (hlo : lenTooLow l = false) (hhi : lenTooHigh l max = false)
    (hshort : rest.length < l.toNat) :
    ∃ e, (nextFrame max ctx s).res = .fail e ∧ e ≠ .eof := by
  unfold nextFrame
  rw [hp]
  simp only [hlo, hhi, Bool.false_eq_true, if_false]
  have hL : l.toNat ≠ 0 := by omega
  cases rest with
  | nil =>
    rw [Prog.byte, runFrame_readn1_nil _ _ hL]
    simp only []
    rw [finishFrame_fail_res]
    exact ⟨.ueof, rfl, by simp⟩
  | cons nb r =>
    rw [Prog.byte, runFrame_readn1_cons _ _ hL, runFrame]
    simp only []
    split
    · rw [finishFrame_fail_res]; exact ⟨.pkt, rfl, by simp⟩
    obtain ⟨b1, b2⟩ := runFrame_budget (decodeRPC ctx l.toNat (nb.toNat - 0x90)) (l.toNat - 1) r
    have hall := Prog.All_runFrame _ _ (decodeRPC_all ctx l.toNat (nb.toNat - 0x90)) (l.toNat - 1) r
    revert b1 b2 hall
    generalize runFrame (decodeRPC ctx l.toNat (nb.toNat - 0x90)) (l.toNat - 1) r = y
    obtain ⟨⟨v', r'⟩, rem2⟩ := y
    intro b1 b2 hall
    simp only at b1 b2 hall
    cases v' with
    | error e =>
      simp only []
      rw [finishFrame_fail_res]
      exact ⟨wrapBodyErr e, rfl, by cases e <;> simp [wrapBodyErr]⟩
    | ok fr =>
      simp only []
      have hshort' : ¬ rem2 ≤ r'.length := by
        simp only [List.length_cons] at hshort
        omega
      simp only [finishFrame, if_neg hshort']
      cases fr with
      | ok m => exact ⟨.ueof, by simp [FrameRes.continues], by simp⟩
      | notFound e k sq n => exact ⟨.ueof, by simp [FrameRes.continues], by simp⟩
      | fail e => exact absurd rfl (hall (.fail e) rfl e)

/-- … while a stream that holds whole frames and then ends is reported as
    io.EOF by the call after the last frame (`empty_is_eof` on what
    `consumes_declared_length` leaves). -/
theorem clean_end_after_whole_frame (max : Nat) (ctx : Ctx) (s rest : Bytes) (l : Int)
    (hp : runStream (decIntBits 32) s = ⟨.ok l, rest⟩)
    (hlo : lenTooLow l = false) (hhi : lenTooHigh l max = false)
    (hlen : l.toNat = rest.length) :
    (nextFrame max ctx (nextFrame max ctx s).rest).res = .fail .eof := by
  have h := C04.consumes_declared_length max ctx s rest l hp hlo hhi (by omega)
  rw [h, hlen, List.drop_length]
  rfl

/-- The receive loop goes on exactly after a message and after the three
    not-found errors; every other result stops it (and closes the
    transport). -/
theorem loop_stops_iff (r : FrameRes) :
    r.continues = false ↔ ∃ e, r = .fail e := by
  cases r <;> simp [FrameRes.continues]

end FmpRpc.C05
