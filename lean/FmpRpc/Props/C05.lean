import FmpRpc.Proofs.ReaderEq
/-
  C05 — hostile or damaged input fails closed.  What a theorem can carry: the
  classification of every byte stream by `nextFrame` (a total function), the
  bound on what is read on behalf of one frame, truncation never reported as
  a clean end of stream.  Panics, real allocation and hangs are runtime
  behaviour observed by the correspondence run (DESIGN §5 C05, partial).
-/
namespace FmpRpc.C05
open FmpRpc

/-- A length prefix that is not an integer, is zero or negative, or exceeds
    the maximum stops the connection with an error (never a message) before
    any payload is consumed: at most the 9 bytes of the prefix are read. -/
theorem bad_prefix_stops_early (max : Nat) (ctx : Ctx) (s : Bytes)
    (hbad : ∀ l rest, runStream (decIntBits 32) s = ⟨.ok l, rest⟩ →
      lenTooLow l = true ∨ lenTooHigh l max = true) :
    (∃ e, (nextFrame max ctx s).res = .fail e) ∧
    s.length - (nextFrame max ctx s).rest.length ≤ 9 := by
  sorry

/-- `lenTooLow` / `lenTooHigh` are the comparisons of the property statement
    (with the regenerated operators). -/
theorem len_checks (l : Int) (max : Nat) :
    (lenTooLow l = true ↔ l ≤ 0) ∧ (lenTooHigh l max = true ↔ l > max) := by
  simp [lenTooLow, lenTooHigh, Gen.pktLenLow, Gen.pktLenHigh, Cmp.eval]

/-- On behalf of one frame never more than the prefix (≤ 9 bytes) plus the
    maximum frame length is consumed from the stream. -/
theorem budget (max : Nat) (ctx : Ctx) (s : Bytes) :
    s.length - (nextFrame max ctx s).rest.length ≤ 9 + max := by
  sorry

/-- A stream that ends exactly on a frame boundary is reported as io.EOF. -/
theorem empty_is_eof (max : Nat) (ctx : Ctx) :
    (nextFrame max ctx []).res = .fail .eof := by
  rfl

/-- FULL STATEMENT (does not hold on the unchanged tree, see
    `truncation_counterexample`): a stream that ends inside the body of a
    frame makes `NextFrame` return a fatal error other than io.EOF.

    PROVED PART: it never yields a message and never io.EOF; the only
    non-fatal outcome is a not-found error decoded from the part of the body
    that did arrive (packetizer.go keeps that error and drops the drain
    error). -/
theorem truncation_never_clean_partial (max : Nat) (ctx : Ctx) (s rest : Bytes) (l : Int)
    (hp : runStream (decIntBits 32) s = ⟨.ok l, rest⟩)
    (hlo : lenTooLow l = false) (hhi : lenTooHigh l max = false)
    (hshort : rest.length < l.toNat) :
    (∀ m, (nextFrame max ctx s).res ≠ .ok m) ∧ (nextFrame max ctx s).res ≠ .fail .eof := by
  sorry

/-- The receive loop goes on exactly after a message and after the three
    not-found errors; every other result stops it (and closes the
    transport). -/
theorem loop_stops_iff (r : FrameRes) :
    r.continues = false ↔ ∃ e, r = .fail e := by
  cases r <;> simp [FrameRes.continues]

end FmpRpc.C05
