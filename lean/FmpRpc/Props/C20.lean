import FmpRpc.Proofs.TransportInv
import FmpRpc.Proofs.TransportInvA5
/-
  C20 — each RPC is accounted exactly once (record counts; the size formula is
  checked by the correspondence run against the write log).  Hypothesis of the
  code, stated in DESIGN: compressing the argument / result succeeds (the
  early return on a compression error precedes the deferred record).
-/
namespace FmpRpc.C20
open FmpRpc.T

/-- a call that went into `dispatch.Call` has exactly one record once it has
    returned — however it ended (reply, application error, cancellation,
    transport failure, oversize) — and never more than one -/
theorem one_record_per_call (s : St) (hr : Reachable s) (c : Nat) :
    (s.callers c).records ≤ 1 ∧
    (∀ o, (s.callers c).pc = .ret o → (s.callers c).seq ≠ -1 → (s.callers c).records = 1) ∧
    (∀ o, (s.callers c).pc = .ret o → (s.callers c).seq = -1 → (s.callers c).records = 0) := by
  have h := (CInv_reach s hr).loc c
  have h0 := h.rec0; have h1 := h.rec1; have hr := h.recr
  refine ⟨?_, ?_, ?_⟩
  · cases hpc : (s.callers c).pc <;> simp [hpc] at h0 h1 hr <;> omega
  · intro o hpc hq; simp [hpc] at hr; omega
  · intro o hpc hq; simp [hpc] at hr; omega

/-- one record per cancellation sent: as many cancel records as invocations of
    `handleCancel`, once the caller is past it -/
theorem one_record_per_cancel (s : St) (hr : Reachable s) (c : Nat) :
    (s.callers c).cancels ≤ 1 ∧ (s.callers c).crecords ≤ (s.callers c).cancels ∧
    (∀ o, (s.callers c).pc = .ret o → (s.callers c).crecords = (s.callers c).cancels) := by
  have h := (CInv_reach s hr).loc c
  have h0 := h.can0; have h1 := h.can1; have h2 := h.can2
  refine ⟨?_, ?_, ?_⟩
  · cases hpc : (s.callers c).pc <;> simp [hpc] at h0 h1 h2 <;> omega
  · cases hpc : (s.callers c).pc <;> simp [hpc] at h0 h1 h2 <;> omega
  · intro o hpc; simp [hpc] at h2; omega

theorem one_record_per_notify (s : St) (hr : Reachable s) (n : Nat) :
    (s.notifiers n).records ≤ 1 ∧
    (∀ o, (s.notifiers n).pc = .fin o → (s.notifiers n).records = 0) := by
  have h := NInv_reach s hr
  exact ⟨h.rec1 n, fun o hpc => h.rec0 n (by simp [hpc])⟩

/-- every call a server replied to (or tried to) has exactly one record once
    its handler goroutine is past `Reply`; notifications have none -/
theorem one_record_per_served_call (s : St) (hr : Reachable s) (h : Nat) :
    (s.handlers h).records ≤ 1 ∧
    (((s.handlers h).pc = .endSel ∨ (s.handlers h).pc = .exited) →
      (s.handlers h).records = if (s.handlers h).isCall then 1 else 0) := by
  have hk := (HAInv_reach s hr).loc h
  obtain ⟨-, -, h3, -, h5⟩ := hk
  refine ⟨?_, ?_⟩
  · cases hpc : (s.handlers h).pc <;> simp [hpc] at h3 h5 <;> (try omega) <;> (rw [h5]; split <;> omega)
  · rintro (hpc | hpc) <;> exact h5 (by simp [hpc])

end FmpRpc.C20
