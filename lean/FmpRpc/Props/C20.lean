import FmpRpc.Proofs.TransportInv
import FmpRpc.Proofs.TransportInvA5
/-
  C20 — each RPC is accounted exactly once (record counts; the size formula is
  checked by the correspondence run against the write log).

  Argument side: NO hypothesis any more.  `dispatch.Call` returns early when
  `compressData` fails on the argument of a compressed call, and that return
  precedes the `defer record.RecordAndFinish`: the model has this path
  (`Act.cCompressFail`, ghost `Caller.cfail`), such a call ends with NO record
  (`compress_failure_leaves_no_record`) and `one_record_per_call` says
  "exactly one record unless the call ended in compressData".

  Result side: still an explicit hypothesis of the code, stated in DESIGN:
  compressing the RESULT succeeds.  `callCompressedRequest.Reply` returns
  before the deferred record when the result cannot be compressed; the model's
  handler always goes through `hFin`, so `one_record_per_served_call` is a
  statement about replies whose result compresses.
-/
namespace FmpRpc.C20
open FmpRpc.T

/-- a call that went into `dispatch.Call` has exactly one record once it has
    returned — however it ended (reply, application error, cancellation,
    transport failure, oversize) — and never more than one; the single
    exception is a call that ended in `compressData` (`cfail`), which returns
    before the record is deferred and has none -/
theorem one_record_per_call (s : St) (hr : Reachable s) (c : Nat) :
    (s.callers c).records ≤ 1 ∧
    (∀ o, (s.callers c).pc = .ret o → (s.callers c).seq ≠ -1 →
      (s.callers c).records = if (s.callers c).cfail then 0 else 1) ∧
    (∀ o, (s.callers c).pc = .ret o → (s.callers c).seq = -1 → (s.callers c).records = 0) := by
  have h := (CInv_reach s hr).loc c
  have h0 := h.rec0; have h1 := h.rec1; have hr := h.recr
  refine ⟨?_, ?_, ?_⟩
  · cases hpc : (s.callers c).pc <;> simp [hpc] at h0 h1 hr <;> (try split at h1) <;> (try split at hr) <;> omega
  · intro o hpc hq; simp [hpc] at hr; rcases hr with ⟨h, -⟩ | ⟨-, h⟩
    · exact absurd h hq
    · exact h
  · intro o hpc hq; simp [hpc] at hr; omega

/-- the ghost flag `cfail` is set only by `cCompressFail` — the early return of
    `dispatch.Call` on a `compressData` error: such a call never had a frame
    (nothing went through the hand-off) and, because the return precedes the
    deferred `RecordAndFinish`, it leaves NO record — neither while the deferred
    `RemoveCall` is still to run nor after the call has returned -/
theorem compress_failure_leaves_no_record (s : St) (hr : Reachable s) (c : Nat)
    (hf : (s.callers c).cfail = true) :
    (s.callers c).sent = false ∧ (s.callers c).records = 0 := by
  have h := ((CInv_reach s hr).loc c).cfl hf
  exact ⟨h.1, h.2.1⟩

/-- … and it is on its way out with the compression error, with only the
    deferred `RemoveCall` between it and the return -/
theorem compress_failure_outcome (s : St) (hr : Reachable s) (c : Nat)
    (hf : (s.callers c).cfail = true) :
    (s.callers c).pc = .rm (.err .toobig) ∨ (s.callers c).pc = .ret (.err .toobig) := by
  have h := ((CInv_reach s hr).loc c).cfl hf
  obtain ⟨-, -, ho, hp⟩ := h
  cases hpc : (s.callers c).pc <;> simp [hpc] at ho hp
  · left; rw [ho]
  · right; rw [ho]

/-- the flag is raised by exactly that step: `cCompressFail` sets it, allocates
    no send, logs nothing and leaves every other caller alone -/
theorem compress_failure_step (s s' : St) (c : Nat) (hs : step s (.cCompressFail c) = some s') :
    (s.callers c).pc = .enc ∧ (s'.callers c).cfail = true ∧ (s'.callers c).pc = .rm (.err .toobig) ∧
    (s'.callers c).records = (s.callers c).records ∧
    s'.sends = s.sends ∧ s'.nextSend = s.nextSend ∧ s'.hist = s.hist ∧ s'.pending = s.pending ∧
    s'.w = s.w ∧ s'.wlog = s.wlog ∧ (∀ c', c' ≠ c → s'.callers c' = s.callers c') := by
  simp only [step] at hs
  split at hs
  · rename_i hpc
    injection hs with hs; subst hs
    simp [hpc]
    intro c' hc'; simp [hc']
  · simp at hs

set_option maxHeartbeats 1000000 in
/-- … and by no other step: whatever the user, the peer and the scheduler do,
    the only action that turns a caller's `cfail` from false to true is that
    caller's own `cCompressFail` -/
theorem cfail_set_only_by_compress_failure (s s' : St) (a : Act) (c : Nat) (hs : step s a = some s')
    (h0 : (s.callers c).cfail = false) (h1 : (s'.callers c).cfail = true) : a = .cCompressFail c := by
  step_cases a hs
  all_goals (try simp at h1)
  all_goals (first | done | (exfalso; grind) | grind)

/-- one record per cancellation sent: as many cancel records as invocations of
    `handleCancel`, once the caller is past it -/
theorem one_record_per_cancel (s : St) (hr : Reachable s) (c : Nat) :
    (s.callers c).cancels ≤ 1 ∧ (s.callers c).crecords ≤ (s.callers c).cancels ∧
    (∀ o, (s.callers c).pc = .ret o → (s.callers c).crecords = (s.callers c).cancels) := by
  have h := (CInv_reach s hr).loc c
  have h0 := h.can0; have h1 := h.can1; have h2 := h.can2
  refine ⟨?_, ?_, ?_⟩
  · cases hpc : (s.callers c).pc <;> simp [hpc] at h0 h1 h2 <;> omega
  · cases hpc : (s.callers c).pc <;> simp [hpc] at h0 h1 h2 <;> omega
  · intro o hpc; simp [hpc] at h2; omega

theorem one_record_per_notify (s : St) (hr : Reachable s) (n : Nat) :
    (s.notifiers n).records ≤ 1 ∧
    (∀ o, (s.notifiers n).pc = .fin o → (s.notifiers n).records = 0) := by
  have h := NInv_reach s hr
  exact ⟨h.rec1 n, fun o hpc => h.rec0 n (by simp [hpc])⟩

/-- every call a server replied to (or tried to) has exactly one record once
    its handler goroutine is past `Reply`; notifications have none -/
theorem one_record_per_served_call (s : St) (hr : Reachable s) (h : Nat) :
    (s.handlers h).records ≤ 1 ∧
    (((s.handlers h).pc = .endSel ∨ (s.handlers h).pc = .exited) →
      (s.handlers h).records = if (s.handlers h).isCall then 1 else 0) := by
  have hk := (HAInv_reach s hr).loc h
  obtain ⟨-, -, h3, -, h5⟩ := hk
  refine ⟨?_, ?_⟩
  · cases hpc : (s.handlers h).pc <;> simp [hpc] at h3 h5 <;> (try omega) <;> (rw [h5]; split <;> omega)
  · rintro (hpc | hpc) <;> exact h5 (by simp [hpc])

end FmpRpc.C20
