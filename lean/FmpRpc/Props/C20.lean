import FmpRpc.Proofs.TransportInv
import FmpRpc.Proofs.TransportInvA5
import FmpRpc.Proofs.TransportInvSize
/-
  C20 — each RPC is accounted exactly once: record counts, and — for CALL
  records — the size formula.

  Size of a CALL record: PROVED here (`call_record_size`, `record_size`,
  `record_size_final`, with `counted_replies_were_delivered` and the `enc_size_*`
  theorems saying what the two summands are).  The model carries the size as ghost
  state: `St.fsize x` (bytes of the frame of send `x`) and `St.psize p` (content
  length of a response frame with payload `p`) are parameters of a run that no
  step modifies; `Caller.encSize` is what `EncodeAndWrite` returned, `Caller.inc`
  the replies whose `IncrementSize` ran before `Finish`, `Caller.recSize` the Size
  as stored.  The stored Size is
      encSize + Σ psize over the replies looked up for the call before Finish
  and a reply that finds the call in the table AFTER Finish (the deferred
  `RemoveCall` has not run yet) is not counted: `Finish` stored a copy.
  The sizes of cancel / notify / served-call records are NOT modelled: they are
  still only checked by the correspondence run against the write log.

  Argument side: NO hypothesis any more.  `dispatch.Call` returns early when
  `compressData` fails on the argument of a compressed call, and that return
  precedes the `defer record.RecordAndFinish`: the model has this path
  (`Act.cCompressFail`, ghost `Caller.cfail`), such a call ends with NO record
  (`compress_failure_leaves_no_record`) and `one_record_per_call` says
  "exactly one record unless the call ended in compressData".

  Result side: still an explicit hypothesis of the code, stated in DESIGN:
  compressing the RESULT succeeds.  `callCompressedRequest.Reply` returns
  before the deferred record when the result cannot be compressed; the model's
  handler always goes through `hFin`, so `one_record_per_served_call` is a
  statement about replies whose result compresses.
-/
namespace FmpRpc.C20
open FmpRpc.T

/-- a call that went into `dispatch.Call` has exactly one record once it has
    returned — however it ended (reply, application error, cancellation,
    transport failure, oversize) — and never more than one; the single
    exception is a call that ended in `compressData` (`cfail`), which returns
    before the record is deferred and has none -/
theorem one_record_per_call (s : St) (hr : Reachable s) (c : Nat) :
    (s.callers c).records ≤ 1 ∧
    (∀ o, (s.callers c).pc = .ret o → (s.callers c).seq ≠ -1 →
      (s.callers c).records = if (s.callers c).cfail then 0 else 1) ∧
    (∀ o, (s.callers c).pc = .ret o → (s.callers c).seq = -1 → (s.callers c).records = 0) := by
  have h := (CInv_reach s hr).loc c
  have h0 := h.rec0; have h1 := h.rec1; have hr := h.recr
  refine ⟨?_, ?_, ?_⟩
  · cases hpc : (s.callers c).pc <;> simp [hpc] at h0 h1 hr <;> (try split at h1) <;> (try split at hr) <;> omega
  · intro o hpc hq; simp [hpc] at hr; rcases hr with ⟨h, -⟩ | ⟨-, h⟩
    · exact absurd h hq
    · exact h
  · intro o hpc hq; simp [hpc] at hr; omega

/-- the ghost flag `cfail` is set only by `cCompressFail` — the early return of
    `dispatch.Call` on a `compressData` error: such a call never had a frame
    (nothing went through the hand-off) and, because the return precedes the
    deferred `RecordAndFinish`, it leaves NO record — neither while the deferred
    `RemoveCall` is still to run nor after the call has returned -/
theorem compress_failure_leaves_no_record (s : St) (hr : Reachable s) (c : Nat)
    (hf : (s.callers c).cfail = true) :
    (s.callers c).sent = false ∧ (s.callers c).records = 0 := by
  have h := ((CInv_reach s hr).loc c).cfl hf
  exact ⟨h.1, h.2.1⟩

/-- … and it is on its way out with the compression error, with only the
    deferred `RemoveCall` between it and the return -/
theorem compress_failure_outcome (s : St) (hr : Reachable s) (c : Nat)
    (hf : (s.callers c).cfail = true) :
    (s.callers c).pc = .rm (.err .toobig) ∨ (s.callers c).pc = .ret (.err .toobig) := by
  have h := ((CInv_reach s hr).loc c).cfl hf
  obtain ⟨-, -, ho, hp⟩ := h
  cases hpc : (s.callers c).pc <;> simp [hpc] at ho hp
  · left; rw [ho]
  · right; rw [ho]

/-- the flag is raised by exactly that step: `cCompressFail` sets it, allocates
    no send, logs nothing and leaves every other caller alone -/
theorem compress_failure_step (s s' : St) (c : Nat) (hs : step s (.cCompressFail c) = some s') :
    (s.callers c).pc = .enc ∧ (s'.callers c).cfail = true ∧ (s'.callers c).pc = .rm (.err .toobig) ∧
    (s'.callers c).records = (s.callers c).records ∧
    s'.sends = s.sends ∧ s'.nextSend = s.nextSend ∧ s'.hist = s.hist ∧ s'.pending = s.pending ∧
    s'.w = s.w ∧ s'.wlog = s.wlog ∧ (∀ c', c' ≠ c → s'.callers c' = s.callers c') := by
  simp only [step] at hs
  split at hs
  · rename_i hpc
    injection hs with hs; subst hs
    simp [hpc]
    intro c' hc'; simp [hc']
  · simp at hs

set_option maxHeartbeats 1000000 in
/-- … and by no other step: whatever the user, the peer and the scheduler do,
    the only action that turns a caller's `cfail` from false to true is that
    caller's own `cCompressFail` -/
theorem cfail_set_only_by_compress_failure (s s' : St) (a : Act) (c : Nat) (hs : step s a = some s')
    (h0 : (s.callers c).cfail = false) (h1 : (s'.callers c).cfail = true) : a = .cCompressFail c := by
  step_cases a hs
  all_goals (try simp at h1)
  all_goals (first | done | (exfalso; grind) | grind)

/-! ### the size of the call record -/

/-- (S1) the Size of the call record, in every reachable state: before the
    record is finished it holds what the receive loop has added so far (the
    content lengths of the replies looked up for this call); once finished
    (`records = 1`, and `records ≤ 1` always) it additionally holds the size
    `EncodeAndWrite` returned -/
theorem call_record_size (s : St) (hr : Reachable s) (c : Nat) :
    (s.callers c).recSize =
      (if (s.callers c).records = 1 then (s.callers c).encSize else 0) +
        ((s.callers c).inc.map s.psize).sum :=
  ((ZInv_reach s hr).loc c).size

/-- (S2) a call that went into `dispatch.Call`, did not end in `compressData`
    and has returned: its one record has Size = what `EncodeAndWrite` returned
    + the content lengths of the replies counted before it was finished -/
theorem record_size (s : St) (hr : Reachable s) (c : Nat) (o : Out) :
    (s.callers c).pc = .ret o → (s.callers c).cfail = false → (s.callers c).seq ≠ -1 →
    (s.callers c).recSize = (s.callers c).encSize + ((s.callers c).inc.map s.psize).sum := by
  intro hpc hcf hq
  have h1 := (one_record_per_call s hr c).2.1 o hpc hq
  rw [hcf] at h1
  have h2 := call_record_size s hr c
  rw [if_pos (by simpa using h1)] at h2
  exact h2

/-- (S3) the stored Size is final: once the record is finished no step changes
    it, nor the list of counted replies, nor the encoder's size — a reply that
    is looked up afterwards (the call is still in the table until the deferred
    `RemoveCall`) increments a record whose copy has already been stored -/
theorem record_size_final (s s' : St) (hr : Reachable s) (a : Act) (c : Nat) (hs : step s a = some s')
    (h1 : (s.callers c).records = 1) :
    (s'.callers c).recSize = (s.callers c).recSize ∧ (s'.callers c).inc = (s.callers c).inc ∧
    (s'.callers c).encSize = (s.callers c).encSize ∧ (s'.callers c).records = 1 :=
  finished_frame s s' a (CInv_reach s hr) hs c h1

/-- … in particular the lookup of a late reply for a finished call moves the
    receive loop on and leaves the caller's record alone -/
theorem late_reply_not_counted (s s' : St) (c : Nat) (q : Int) (p : Nat) (ae : Bool)
    (hr : s.r = .respLookup q p ae) (hp : s.pending q = some c) (h1 : (s.callers c).records = 1)
    (hs : step s .rLookup = some s') :
    s'.r = .respDecode c q p ae ∧ s'.callers = s.callers := by
  simp only [step, hr, hp] at hs
  rw [if_neg (by omega)] at hs
  injection hs with hs; subst hs
  exact ⟨rfl, rfl⟩

/-- … while the lookup of a reply for a call whose record is not finished yet
    adds exactly that reply's content length -/
theorem early_reply_counted (s s' : St) (c : Nat) (q : Int) (p : Nat) (ae : Bool)
    (hr : s.r = .respLookup q p ae) (hp : s.pending q = some c) (h0 : (s.callers c).records = 0)
    (hs : step s .rLookup = some s') :
    (s'.callers c).recSize = (s.callers c).recSize + s.psize p ∧ (s'.callers c).inc = (s.callers c).inc ++ [p] := by
  simp only [step, hr, hp] at hs
  rw [if_pos h0] at hs
  injection hs with hs; subst hs
  simp [setCaller]

/-- (S4) every reply counted in the record is a response the peer delivered
    with the call's own seqno -/
theorem counted_replies_were_delivered (s : St) (hr : Reachable s) (c : Nat) (p : Nat)
    (hp : p ∈ (s.callers c).inc) :
    ∃ ae, Evt.delivered (.resp (s.callers c).seq p ae) ∈ s.hist :=
  (ZHInv_reach s hr).incd c p hp

/-- (S5) what `EncodeAndWrite` returned: the length of the frame of the call's
    own send `x` when `encodeFrame` accepted it (the caller is in the hand-off
    select only in that case, and waits on the encoder's result channel either
    way), 0 when it did not; 0 as long as the encoder has not run, and 0 for a
    call that ended in `compressData` -/
theorem enc_size_hand (s : St) (hr : Reachable s) (c x : Nat) (hpc : (s.callers c).pc = .hand x) :
    (s.sends x).who = c ∧ (s.sends x).kind = .call ∧ (s.sends x).fits = true ∧
    (s.callers c).encSize = s.fsize x := by
  have hS := SInv_reach s hr
  obtain ⟨-, hw, hk, hwho, -, -⟩ := hS.cHand c x hpc
  exact ⟨hwho, hk, (hS.fitsW x (.inl hw)).1, ((ZInv_reach s hr).loc c).hand x hpc⟩

theorem enc_size_sel1 (s : St) (hr : Reachable s) (c x : Nat) (hpc : (s.callers c).pc = .sel1 x) :
    (s.callers c).encSize = if (s.sends x).fits then s.fsize x else 0 :=
  ((ZInv_reach s hr).sel1 c x hpc).2

theorem enc_size_zero (s : St) (hr : Reachable s) (c : Nat)
    (h : (s.callers c).pc.preEnc = true ∨ (s.callers c).cfail = true) : (s.callers c).encSize = 0 := by
  rcases h with h | h
  · exact ((ZInv_reach s hr).loc c).enc0 h
  · exact ((ZInv_reach s hr).loc c).cfl h

set_option maxHeartbeats 1000000 in
/-- … and it is fixed by the encoding step: whatever happens afterwards, the
    value does not change -/
theorem enc_size_stable (s s' : St) (a : Act) (c : Nat) (hs : step s a = some s')
    (h : (s.callers c).pc.preEnc = false) : (s'.callers c).encSize = (s.callers c).encSize := by
  step_cases a hs
  all_goals (try simp)
  all_goals (first | done | grind)

/-- the encoding step itself: `cEnc c fits` allocates the send `x = s.nextSend`
    and sets `encSize` to the length of its frame, or to 0 when it does not fit -/
theorem enc_size_step (s s' : St) (c : Nat) (fits : Bool) (hs : step s (.cEnc c fits) = some s') :
    (s'.sends s.nextSend).who = c ∧ (s'.sends s.nextSend).kind = .call ∧ (s'.sends s.nextSend).fits = fits ∧
    (s'.callers c).encSize = if fits then s.fsize s.nextSend else 0 := by
  simp only [step] at hs
  split at hs
  · split at hs <;> (injection hs with hs; subst hs; simp_all [newSend, failedSend, setSend, setCaller])
  · simp at hs

/-- one record per cancellation sent: as many cancel records as invocations of
    `handleCancel`, once the caller is past it -/
theorem one_record_per_cancel (s : St) (hr : Reachable s) (c : Nat) :
    (s.callers c).cancels ≤ 1 ∧ (s.callers c).crecords ≤ (s.callers c).cancels ∧
    (∀ o, (s.callers c).pc = .ret o → (s.callers c).crecords = (s.callers c).cancels) := by
  have h := (CInv_reach s hr).loc c
  have h0 := h.can0; have h1 := h.can1; have h2 := h.can2
  refine ⟨?_, ?_, ?_⟩
  · cases hpc : (s.callers c).pc <;> simp [hpc] at h0 h1 h2 <;> omega
  · cases hpc : (s.callers c).pc <;> simp [hpc] at h0 h1 h2 <;> omega
  · intro o hpc; simp [hpc] at h2; omega

theorem one_record_per_notify (s : St) (hr : Reachable s) (n : Nat) :
    (s.notifiers n).records ≤ 1 ∧
    (∀ o, (s.notifiers n).pc = .fin o → (s.notifiers n).records = 0) := by
  have h := NInv_reach s hr
  exact ⟨h.rec1 n, fun o hpc => h.rec0 n (by simp [hpc])⟩

/-- every call a server replied to (or tried to) has exactly one record once
    its handler goroutine is past `Reply`; notifications have none -/
theorem one_record_per_served_call (s : St) (hr : Reachable s) (h : Nat) :
    (s.handlers h).records ≤ 1 ∧
    (((s.handlers h).pc = .endSel ∨ (s.handlers h).pc = .exited) →
      (s.handlers h).records = if (s.handlers h).isCall then 1 else 0) := by
  have hk := (HAInv_reach s hr).loc h
  obtain ⟨-, -, h3, -, h5⟩ := hk
  refine ⟨?_, ?_⟩
  · cases hpc : (s.handlers h).pc <;> simp [hpc] at h3 h5 <;> (try omega) <;> (rw [h5]; split <;> omega)
  · rintro (hpc | hpc) <;> exact h5 (by simp [hpc])

end FmpRpc.C20
