import FmpRpc.Proofs.TransportInv
import FmpRpc.Proofs.TransportInvBK
/-
  C07 — only framing / decoding violations are fatal, and the lifecycle
  observers (Done, IsConnected, Err) agree.
-/
namespace FmpRpc.C07
open FmpRpc.T

/-- what `Err()` returns: nil until the done channel is closed -/
def errAccessor (s : St) : Option EV := if s.stopCh then s.stopErr else none
/-- what `IsConnected()` returns -/
def isConnected (s : St) : Bool := !s.stopCh

def stopClosedCount (h : List Evt) : Nat :=
  (h.filter fun e => match e with | .stopClosed => true | _ => false).length

/-- The done channel is closed at most once (and `stopCh` is set exactly when
    that happened). -/
theorem done_once (s : St) (hr : Reachable s) :
    stopClosedCount s.hist ≤ 1 ∧ (s.stopCh = true ↔ stopClosedCount s.hist = 1) := by
  have hi := KInv_reachable s hr
  have hc : stopClosedCount s.hist = if s.stopCh then 1 else 0 := hi.cnt
  rw [hc]
  cases s.stopCh <;> simp

/-- The connected flag turns false when the done channel closes and never
    becomes true again. -/
theorem connected_monotone (s s' : St) (a : Act) (hs : step s a = some s') (h : s.stopCh = true) :
    s'.stopCh = true := by
  exact stopCh_mono s s' a hs h

/-- **Err is nil before the done channel closes and one fixed non-nil value
    afterwards** — also when the transport was closed locally (the error is
    assigned inside the once, before `stopCh` is closed). -/
theorem err_stable (s : St) (hr : Reachable s) :
    (s.stopCh = false → errAccessor s = none) ∧
    (s.stopCh = true → ∃ e, s.stopErr = some e) ∧
    (∀ s' a, step s a = some s' → s.stopCh = true → s'.stopErr = s.stopErr) := by
  have hi := KInv_reachable s hr
  refine ⟨fun h => by simp [errAccessor, h], fun h => ?_, fun s' a hs h => ?_⟩
  · have h1 : 2 ≤ lvl s := hi.fStop.mp h
    have h2 : s.stopErr.isSome = true := hi.fErr.mpr (by omega)
    exact Option.isSome_iff_exists.mp h2
  · exact stopErr_stable s s' a hi hs h

/-- A response for a seqno that is in no table is ignored: after the lookup
    the endpoint is exactly as before the frame arrived, history aside. -/
theorem stray_response_ignored (s s1 s2 : St) (q : Int) (p : Nat) (ae : Bool)
    (h0 : s.pending q = none)
    (h1 : step s (.rDeliver (.resp q p ae)) = some s1) (h2 : step s1 .rLookup = some s2) :
    s2 = { s with hist := s2.hist } := by
  simp only [step] at h1
  split at h1
  · injection h1 with h1; subst h1
    simp only [step, log, h0] at h2
    injection h2 with h2; subst h2
    rename_i hr
    cases s; simp_all
  · cases h1

/-- A cancellation for a seqno with no registered task changes nothing but
    the history. -/
theorem stray_cancel_ignored (s s1 s2 : St) (q : Int) (h0 : s.tasks q = none)
    (h1 : step s (.rDeliver (.cancel q)) = some s1) (h2 : step s1 .rCanSend = some s2) :
    s2 = { s with hist := s2.hist, tasks := s2.tasks } ∧ ∀ k, s2.tasks k = s.tasks k := by
  simp only [step] at h1
  split at h1
  · injection h1 with h1; subst h1
    rename_i hr
    simp only [step, log, h0] at h2
    split at h2
    · injection h2 with h2; subst h2
      refine ⟨?_, ?_⟩
      · cases s; simp_all [setTask]
      · intro k; simp only [setTask]; split <;> simp_all
    · cases h2
  · cases h1

/-- A call naming an unregistered protocol or method is answered with one
    reply carrying the same seqno; no handler is invoked, no task entry made;
    a notification for an unknown method is dropped. -/
theorem notfound_replied (s s1 s2 : St) (q : Int) (arg : Nat)
    (h1 : step s (.rDeliver (.call q false arg)) = some s1) (h2 : step s1 .rNfEnc = some s2) :
    (s2.sends s.nextSend).kind = .reply ∧ (s2.sends s.nextSend).seq = q ∧
    (s2.sends s.nextSend).st = .waiting ∧ s2.nextHandler = s.nextHandler ∧ s2.tasks = s.tasks ∧
    s2.r = .nfHand s.nextSend := by
  simp only [step] at h1
  split at h1
  · injection h1 with h1; subst h1
    simp only [step, log, newSend, setSend] at h2
    injection h2 with h2; subst h2
    simp
  · cases h1

theorem notfound_notify_dropped (s s1 : St) (arg : Nat)
    (h1 : step s (.rDeliver (.notify false arg)) = some s1) :
    s1 = { s with hist := s1.hist } := by
  simp only [step] at h1
  split at h1
  · injection h1 with h1; subst h1
    cases s; simp [log]
  · cases h1

/-- Any other framing or decoding violation, read error or end of stream
    makes the receive loop close the transport. -/
theorem fatal_closes (s s' : St) (h : step s .rFatal = some s') :
    s'.r = .closing ∧ (s'.closers 0).pc = .enter := by
  simp only [step] at h
  split at h
  · injection h with h; subst h
    simp [setCloser]
  · cases h

end FmpRpc.C07
