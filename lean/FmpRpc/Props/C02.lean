import FmpRpc.Proofs.MsgpackRT
/-
  C02 — the wire format of every message kind is exact, and any legal
  encoding is accepted.  Property theorems only.
-/
namespace FmpRpc.C02
open FmpRpc

/-- The layout table of the property statement, with literal type codes:
    [0,seqno,method,arg], [4,seqno,ctype,method,arg], [1,seqno,error,result],
    [2,method,arg], [3,seqno,method], plus a trailing tag map on calls and
    notifications iff there are tags. -/
def specLayout : Msg → List Value
  | .call seq name arg tags => [.int 0, .int seq, .str name, arg] ++ tagTail tags
  | .callc seq ct name arg tags => [.int 4, .int seq, .int ct, .str name, arg] ++ tagTail tags
  | .resp seq e r => [.int 1, .int seq, e, r]
  | .notify name arg tags => [.int 2, .str name, arg] ++ tagTail tags
  | .cancel seq name => [.int 3, .int seq, .str name]

/-- The writer's element order and type codes (regenerated literals and
    constants) are those of the specification. -/
theorem layout_is_spec (m : Msg) : layout m = specLayout m := by
  cases m <;> rfl

theorem specLayout_length_le (m : Msg) : (specLayout m).length ≤ 6 := by
  cases m with
  | call _ _ _ t => cases t with | none => simp [specLayout, tagTail] | some t => cases t <;> simp [specLayout, tagTail]
  | callc _ _ _ _ t => cases t with | none => simp [specLayout, tagTail] | some t => cases t <;> simp [specLayout, tagTail]
  | resp _ _ _ => simp [specLayout]
  | notify _ _ t => cases t with | none => simp [specLayout, tagTail] | some t => cases t <;> simp [specLayout, tagTail]
  | cancel _ _ => simp [specLayout]

/-- Every message is written as one msgpack fixarray holding the elements of
    the specification's layout, preceded by a msgpack integer equal to the
    encoded byte length of that array (and refused above the limit). -/
theorem wire_layout (max : Nat) (m : Msg) :
    wire max m =
      (let content := UInt8.ofNat (0x90 + (specLayout m).length) :: encList (specLayout m)
       if content.length > max then none else some (encInt content.length ++ content)) := by
  have hl := specLayout_length_le m
  rw [← layout_is_spec] at hl ⊢
  have h16 : (layout m).length < 16 := by omega
  simp [wire, encodeFrameBytes, body, enc, arrHdr, h16]

/-- The length prefix written by the encoder decodes to the length. -/
theorem prefix_roundtrip (n : Nat) (h : n < 2147483648) (r : Bytes) :
    runStream (decIntBits 32) (encInt n ++ r) = ⟨.ok (n : Int), r⟩ :=
  decInt32_legal (n : Int) (encInt n) (encInt_legal (n : Int) (by omega)) (by omega) r

/-- Any legal encoding of any value — every integer width that fits, every
    string / bin / array / map header width — is decoded to that value, and
    the rest of the stream is untouched. -/
theorem decode_legal (v : Value) (bs : Bytes) (h : LegalEnc v bs) (r : Bytes) :
    runStream (decValue bs.length) (bs ++ r) = ⟨.ok v, r⟩ :=
  decValue_legal v bs h bs.length (legal_depth_le v bs h) r

/-- What the writer emits is a legal encoding, hence decodes to itself. -/
theorem value_roundtrip (v : Value) (hw : v.wf = true) (hr : v.rt = true) (r : Bytes) :
    runStream (decValue (enc v).length) (enc v ++ r) = ⟨.ok v, r⟩ :=
  decode_legal v (enc v) (enc_legal v hw hr) r

/-- Typed fields (type, seqno, compression type; method name) accept every
    legal width. -/
theorem int_field_any_width (i : Int) (bs : Bytes) (h : IntEnc i bs)
    (hr : -9223372036854775808 ≤ i ∧ i < 9223372036854775808) (r : Bytes) :
    runStream decInt (bs ++ r) = ⟨.ok i, r⟩ := decInt_legal i bs h hr r

theorem str_field_any_width (s hd : Bytes) (h : StrHdr s.length hd) (r : Bytes) :
    runStream decStr (hd ++ s ++ r) = ⟨.ok s, r⟩ := decStr_legal s hd h r

/-- The elements an independent encoder sends for `m`: the layout, with the
    tag map present whenever `tags` is `some _` (also when empty). -/
def readerLayout : Msg → List Value
  | .call seq name arg tags =>
      [.int 0, .int seq, .str name, arg] ++ (match tags with | none => [] | some t => [tagsValue t])
  | .callc seq ct name arg tags =>
      [.int 4, .int seq, .int ct, .str name, arg] ++ (match tags with | none => [] | some t => [tagsValue t])
  | .resp seq e r => [.int 1, .int seq, e, r]
  | .notify name arg tags =>
      [.int 2, .str name, arg] ++ (match tags with | none => [] | some t => [tagsValue t])
  | .cancel seq name => [.int 3, .int seq, .str name]

def msgTags : Msg → Option (Option Tags)
  | .call _ _ _ t => some t
  | .callc _ _ _ _ t => some t
  | .notify _ _ t => some t
  | _ => none

/-- A frame for `m` as *any* conforming encoder may produce it: a length
    prefix of any legal integer width, a fixarray header counting the layout
    plus `extras` trailing elements (at most 15 in total), every element in
    any legal encoding. For calls and notifications the element after the
    argument is the tag map, so extra elements require a tag map. -/
def LegalFrame (m : Msg) (extras : List Value) (bs : Bytes) : Prop :=
  ∃ pre body : Bytes,
    (readerLayout m ++ extras).length ≤ 15 ∧
    LegalEncList (readerLayout m ++ extras) body ∧
    IntEnc ((1 + body.length : Nat) : Int) pre ∧
    (msgTags m = some none → extras = []) ∧
    bs = pre ++ UInt8.ofNat (0x90 + (readerLayout m ++ extras).length) :: body

/-- What the endpoint must know for `m` to be decodable: the method is
    registered (calls, notifications), the call is pending and wants a result
    (responses); fields in range. Compressed payloads are the subject of C06:
    here the compression type has no compressor. -/
def Decodable (ctx : Ctx) : Msg → Prop
  | .call seq name _ _ => findMethod ctx name = .ok () ∧ -9223372036854775808 ≤ seq ∧ seq < 9223372036854775808
  | .callc seq ct name _ _ =>
      findMethod ctx name = .ok () ∧ hasCompressor ct = false ∧
      -9223372036854775808 ≤ seq ∧ seq < 9223372036854775808 ∧
      -9223372036854775808 ≤ ct ∧ ct < 9223372036854775808
  | .resp seq e _ =>
      (∃ ct, lookupCall ctx.pending seq = some (ct, true) ∧ hasCompressor ct = false) ∧
      (∃ s, e = .str s) ∧ -9223372036854775808 ≤ seq ∧ seq < 9223372036854775808
  | .notify name _ _ => findMethod ctx name = .ok ()
  | .cancel seq _ => -9223372036854775808 ≤ seq ∧ seq < 9223372036854775808

/-- **Any legal encoding of any message is accepted**: whatever integer /
    string / header widths, whatever width of the length prefix, and however
    many extra trailing elements an independent encoder uses, `NextFrame`
    returns exactly `m` (type, seqno, method, argument, error, result,
    compression type, tags) and leaves the rest of the stream untouched. -/
theorem frame_accepts_any_legal (max : Nat) (ctx : Ctx) (m : Msg) (extras : List Value)
    (bs r : Bytes) (h : LegalFrame m extras bs) (hd : Decodable ctx m)
    (hmax : bs.length ≤ max) (hsmall : bs.length < 2147483648) :
    nextFrame max ctx (bs ++ r) = ⟨.ok m, r⟩ := by
  obtain ⟨pre, body, hlen, hlist, hpre, hext, rfl⟩ := h
  obtain ⟨b1, ex, rfl, h1, h2⟩ := legalList_append_inv _ _ _ hlist
  have hpl := hpre.length_pos
  have hxl := legalList_length_le _ _ h2
  simp only [List.length_append, List.length_cons] at hmax hsmall hlen
  have hn3 : 3 ≤ (readerLayout m ++ extras).length := by
    cases m <;> simp [readerLayout] <;> omega
  apply nextFrame_legal max ctx pre (b1 ++ ex) ex r _ _ (by omega)
    (by simpa using hlen) hpre (by simp <;> omega) (by simp <;> omega) (by simp)
  rw [List.append_assoc]
  cases m with
  | call seq name arg tags =>
    obtain ⟨hfind, hseq⟩ := hd
    have hrl : readerLayout (.call seq name arg tags) =
        .int 0 :: .int seq :: .str name :: arg :: tagElems tags := by cases tags <;> rfl
    rw [hrl] at h1 ⊢
    have hb1 := legalList_length_le _ _ h1
    refine decodeRPC_call ctx _ _ seq name arg tags b1 (ex ++ r) h1 (by simp <;> omega) hfind hseq
      (by simp <;> omega) ?_ ?_
    · rintro rfl; simp [hext rfl, tagElems]
    · intro h; cases tags with
      | none => exact absurd rfl h
      | some t => simp [tagElems] <;> omega
  | callc seq ct name arg tags =>
    obtain ⟨hfind, hc, hs1, hs2, hc1, hc2⟩ := hd
    have hrl : readerLayout (.callc seq ct name arg tags) =
        .int 4 :: .int seq :: .int ct :: .str name :: arg :: tagElems tags := by cases tags <;> rfl
    rw [hrl] at h1 ⊢
    refine decodeRPC_callc ctx _ _ seq ct name arg tags b1 (ex ++ r) h1 (by simp <;> omega) hfind hc
      ⟨hs1, hs2⟩ ⟨hc1, hc2⟩ (by simp <;> omega) ?_ ?_
    · rintro rfl; simp [hext rfl, tagElems]
    · intro h; cases tags with
      | none => exact absurd rfl h
      | some t => simp [tagElems] <;> omega
  | resp seq e res =>
    obtain ⟨⟨ct, hlook, hc⟩, ⟨s, rfl⟩, hseq⟩ := hd
    exact decodeRPC_resp ctx _ _ seq ct s res b1 (ex ++ r) h1 (by simp <;> omega) hlook hc hseq
      (by simp [readerLayout] <;> omega)
  | notify name arg tags =>
    have hrl : readerLayout (.notify name arg tags) =
        .int 2 :: .str name :: arg :: tagElems tags := by cases tags <;> rfl
    rw [hrl] at h1 ⊢
    refine decodeRPC_notify ctx _ _ name arg tags b1 (ex ++ r) h1 (by simp <;> omega) hd
      (by simp <;> omega) ?_ ?_
    · rintro rfl; simp [hext rfl, tagElems]
    · intro h; cases tags with
      | none => exact absurd rfl h
      | some t => simp [tagElems] <;> omega
  | cancel seq name =>
    exact decodeRPC_cancel ctx _ _ seq name b1 (ex ++ r) h1 hd (by simp [readerLayout] <;> omega)

end FmpRpc.C02
