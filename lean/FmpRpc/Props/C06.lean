import FmpRpc.Model.Compress
import FmpRpc.Props.C02
import FmpRpc.Proofs.CompressLemmas
/-
  C06 — compression is transparent (plumbing proved for every law-abiding
  compressor; PARTIAL: DEFLATE / msgpackzip themselves, sync.Pool reuse and
  gzip's CRC are assumptions validated by the correspondence run `compress`).
-/
namespace FmpRpc.C06
open FmpRpc FmpRpc.Z

/-- **A compressed call delivers the same argument as the uncompressed call**:
    whatever the compression type (none, gzip, msgpackzip, unknown), the frame
    the client writes decodes, on a server with the same compressor table, to
    a call with exactly the argument and tags the caller supplied. -/
theorem compressed_call_transparent (k : Cacher) (max : Nat) (methods : List (Bytes × List Bytes))
    (seq ctype : Int) (name : Bytes) (arg : Value) (tags : Option Tags) (bs r : Bytes)
    (hw : arg.wf = true) (hr : arg.rt = true)
    (hm : findMethod (ctxOf k methods []) name = .ok ())
    (hseq : -9223372036854775808 ≤ seq ∧ seq < 9223372036854775808)
    (hct : 0 ≤ ctype ∧ ctype < 9223372036854775808)
    (htags : tags = none)
    (hlen : (name.length < 4294967296))
    (hwire : wire max (requestMsg k seq ctype name arg tags) = some bs) (hsmall : bs.length < 2147483648) :
    (nextFrame max (ctxOf k methods []) (bs ++ r)).rest = r ∧
    ((nextFrame max (ctxOf k methods []) (bs ++ r)).res = .ok (.call seq name arg none) ∨
     (nextFrame max (ctxOf k methods []) (bs ++ r)).res = .ok (.callc seq ctype name arg none)) := by
  subst htags
  have hseqwf : (Value.int seq).wf = true := by simp [Value.wf]; omega
  by_cases h0 : ctype = Gen.compressionNone
  · have hm0 : requestMsg k seq ctype name arg none = .call seq name arg none := by
      simp [requestMsg, h0]
    rw [hm0] at hwire
    have hfr : nextFrame max (ctxOf k methods []) (bs ++ r) = ⟨.ok (.call seq name arg none), r⟩ := by
      apply nextFrame_wire max _ (.call seq name arg none) bs r _ (by simp [layout, tagTail])
        (by simp [layout, tagTail]) hwire hsmall
      have hl : LegalEncList (.int 0 :: .int seq :: .str name :: arg :: tagElems none)
          (encList (layout (.call seq name arg none))) := by
        apply encList_legal
        · simp [wfList, Value.wf, hw, hlen, tagElems]; omega
        · simp [rtList, Value.rt, hr, tagElems]
      exact decodeRPC_call _ _ _ seq name arg none _ r hl (by omega) hm hseq
        (by simp [layout, tagTail]) (by simp [layout, tagTail]) (by simp)
    rw [hfr]; exact ⟨rfl, Or.inl rfl⟩
  · have hm0 : requestMsg k seq ctype name arg none =
        .callc seq ctype name (compressData k ctype arg) none := by
      simp [requestMsg, h0]
    rw [hm0] at hwire
    have hlb := wire_len max _ bs (by simp [layout, tagTail]) hwire
    have hfr : nextFrame max (ctxOf k methods []) (bs ++ r) =
        ⟨.ok (.callc seq ctype name arg none), r⟩ := by
      apply nextFrame_wire max _ _ bs r _ (by simp [layout, tagTail])
        (by simp [layout, tagTail]) hwire hsmall
      simp only [layout, tagTail, List.append_nil, encList, List.length_append, List.length_cons,
        List.length_nil, List.append_assoc] at hlb ⊢
      refine decodeRPC_callc_gen _ _ _ seq ctype name arg _ _ _ _ _ r
        (enc_legal _ (by simp [Value.wf]) rfl) (enc_legal _ hseqwf rfl)
        (enc_legal _ (by simp [Value.wf]; omega) rfl)
        (enc_legal _ (by simp [Value.wf, hlen]) rfl)
        (decodeSlot k methods [] _ ctype _ arg hw hr (compressData_wf k ctype arg hw (by omega))
          (by omega) r)
        hm hseq ⟨by omega, hct.2⟩ (by simp)
    rw [hfr]; exact ⟨rfl, Or.inr rfl⟩

/-- an unknown compression type is "none" on both ends: the sender ships the
    raw argument, the receiver decodes it directly -/
theorem unknown_is_none (k : Cacher) (ctype : Int) (v : Value) (h : hasCompressor ctype = false) :
    compressData k ctype v = v := by
  simp [compressData, get_none k ctype h]

/-- the payload of a compressed slot is the compressed msgpack encoding, and
    decompressing it gives that encoding back -/
theorem payload_roundtrip (k : Cacher) (ctype : Int) (v : Value) (h : hasCompressor ctype = true) :
    ∃ c blob, k.get ctype = some c ∧ compressData k ctype v = .bin blob ∧ blob ≠ [] ∧
      decompressOf k ctype blob = some (some (enc v)) := by
  obtain ⟨c, hg⟩ := get_some k ctype h
  exact ⟨c, c.compress (enc v), hg, by simp [compressData, hg], c.nonempty _,
    by simp [decompressOf, hg, c.law]⟩

/-- **The reply is compressed with the type of the request and decompressed
    with the type remembered by the pending call**: with the pending table
    holding the call's own compression type, the caller decodes exactly the
    result (and error) the handler produced. -/
theorem compressed_reply_transparent (k : Cacher) (max : Nat) (seq ctype : Int) (err : Bytes) (res : Value)
    (bs r : Bytes) (hw : res.wf = true) (hr : res.rt = true)
    (hseq : -9223372036854775808 ≤ seq ∧ seq < 9223372036854775808)
    (herr : err.length < 4294967296)
    (hwire : wire max (replyMsg k seq ctype err res) = some bs) (hsmall : bs.length < 2147483648) :
    nextFrame max (ctxOf k [] [(seq, ctype, true)]) (bs ++ r) = ⟨.ok (.resp seq (.str err) res), r⟩ := by
  have hlb := wire_len max _ bs (by simp [layout, replyMsg]) hwire
  apply nextFrame_wire max _ _ bs r _ (by simp [layout, replyMsg])
    (by simp [layout, replyMsg]) hwire hsmall
  simp only [replyMsg, layout, encList, List.length_append, List.length_cons,
    List.length_nil, List.append_assoc, List.append_nil] at hlb ⊢
  exact decodeRPC_resp_gen _ _ _ seq ctype err res _ _ _ _ r
    (enc_legal _ (by simp [Value.wf]) rfl)
    (enc_legal _ (by simp [Value.wf]; omega) rfl)
    (decErrStr_slot err herr _)
    (decodeSlot k [] _ _ ctype _ res hw hr (compressData_wf k ctype res hw (by omega))
      (by omega) r)
    (by simp [ctxOf, lookupCall]) hseq (by simp)

end FmpRpc.C06
