import FmpRpc.Model.Compress
import FmpRpc.Props.C02
/-
  C06 — compression is transparent (plumbing proved for every law-abiding
  compressor; PARTIAL: DEFLATE / msgpackzip themselves, sync.Pool reuse and
  gzip's CRC are assumptions validated by the correspondence run `compress`).
-/
namespace FmpRpc.C06
open FmpRpc FmpRpc.Z

/-- **A compressed call delivers the same argument as the uncompressed call**:
    whatever the compression type (none, gzip, msgpackzip, unknown), the frame
    the client writes decodes, on a server with the same compressor table, to
    a call with exactly the argument and tags the caller supplied. -/
theorem compressed_call_transparent (k : Cacher) (max : Nat) (methods : List (Bytes × List Bytes))
    (seq ctype : Int) (name : Bytes) (arg : Value) (tags : Option Tags) (bs r : Bytes)
    (hw : arg.wf = true) (hr : arg.rt = true)
    (hm : findMethod (ctxOf k methods []) name = .ok ())
    (hseq : -9223372036854775808 ≤ seq ∧ seq < 9223372036854775808)
    (hct : 0 ≤ ctype ∧ ctype < 9223372036854775808)
    (htags : tags = none)
    (hlen : (name.length < 4294967296))
    (hwire : wire max (requestMsg k seq ctype name arg tags) = some bs) (hsmall : bs.length < 2147483648) :
    (nextFrame max (ctxOf k methods []) (bs ++ r)).rest = r ∧
    ((nextFrame max (ctxOf k methods []) (bs ++ r)).res = .ok (.call seq name arg none) ∨
     (nextFrame max (ctxOf k methods []) (bs ++ r)).res = .ok (.callc seq ctype name arg none)) := by
  sorry

/-- an unknown compression type is "none" on both ends: the sender ships the
    raw argument, the receiver decodes it directly -/
theorem unknown_is_none (k : Cacher) (ctype : Int) (v : Value) (h : hasCompressor ctype = false) :
    compressData k ctype v = v := by
  sorry

/-- the payload of a compressed slot is the compressed msgpack encoding, and
    decompressing it gives that encoding back -/
theorem payload_roundtrip (k : Cacher) (ctype : Int) (v : Value) (h : hasCompressor ctype = true) :
    ∃ c blob, k.get ctype = some c ∧ compressData k ctype v = .bin blob ∧ blob ≠ [] ∧
      decompressOf k ctype blob = some (some (enc v)) := by
  sorry

/-- **The reply is compressed with the type of the request and decompressed
    with the type remembered by the pending call**: with the pending table
    holding the call's own compression type, the caller decodes exactly the
    result (and error) the handler produced. -/
theorem compressed_reply_transparent (k : Cacher) (max : Nat) (seq ctype : Int) (err : Bytes) (res : Value)
    (bs r : Bytes) (hw : res.wf = true) (hr : res.rt = true)
    (hseq : -9223372036854775808 ≤ seq ∧ seq < 9223372036854775808)
    (herr : err.length < 4294967296)
    (hwire : wire max (replyMsg k seq ctype err res) = some bs) (hsmall : bs.length < 2147483648) :
    nextFrame max (ctxOf k [] [(seq, ctype, true)]) (bs ++ r) = ⟨.ok (.resp seq (.str err) res), r⟩ := by
  sorry

end FmpRpc.C06
