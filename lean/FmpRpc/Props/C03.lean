import FmpRpc.Proofs.TransportInv
import FmpRpc.Proofs.TransportInvA4
import FmpRpc.Proofs.TransportInvA6
import FmpRpc.Props.C02
/-
  C03 — the outgoing byte stream is a sequence of whole, size-limited frames.
-/
namespace FmpRpc.C03
open FmpRpc

/-- What `encodeFrame` hands out is one whole frame within the limit: the
    prefix decodes to the content length, the content is not longer than
    `max`, and a receiver configured with the same `max` accepts the prefix
    (same threshold in both regenerated comparisons). -/
theorem encodeFrame_whole (max : Nat) (content bs : Bytes) (hmax : max < 2147483648)
    (hc : 0 < content.length)
    (h : encodeFrameBytes max content = some bs) :
    content.length ≤ max ∧
    runStream (decIntBits 32) bs = ⟨.ok content.length, content⟩ ∧
    lenTooLow content.length = false ∧ lenTooHigh content.length max = false := by
  unfold encodeFrameBytes at h
  split at h
  · simp at h
  · rename_i hle
    injection h with h; subst h
    have hle' : content.length ≤ max := by omega
    refine ⟨hle', C02.prefix_roundtrip content.length (by omega) content, ?_, ?_⟩
    · simp [lenTooLow, Gen.pktLenLow, Cmp.eval]; intro h0; simp [h0] at hc
    · simp [lenTooHigh, Gen.pktLenHigh, Cmp.eval]; omega

/-- A message whose encoding exceeds the maximum is refused. -/
theorem oversize_refused (max : Nat) (content : Bytes) (h : max < content.length) :
    encodeFrameBytes max content = none := by
  simp [encodeFrameBytes, h]

open FmpRpc.T in
/-- Only the writer appends to the write log, one entry per hand-off, and only
    bundles that `encodeFrame` accepted ever get there: every `Write` is
    exactly one whole frame. -/
theorem writes_are_frames (s : T.St) (hr : T.Reachable s) :
    s.wlog.Nodup ∧ ∀ x ∈ s.wlog, (s.sends x).fits = true ∧
      ((s.sends x).st = .handed ∨ (s.sends x).st = .completed) := by
  have hW := WInv_reach s hr
  exact ⟨hW.nd, fun x hx => ⟨(hW.wl1 x hx).1, (hW.wl1 x hx).2.1⟩⟩

open FmpRpc.T in
/-- An oversize call is refused to its own sender only: nothing is handed to
    the writer, nothing is written, every other field of the endpoint is
    unchanged (so the connection stays fully usable). -/
theorem oversize_is_local (s s' : T.St) (c : Nat) (h : T.step s (.cEnc c false) = some s') :
    s'.wlog = s.wlog ∧ s'.w = s.w ∧ s'.pending = s.pending ∧ s'.r = s.r ∧ s'.nextSeq = s.nextSeq ∧
    s'.stopCh = s.stopCh ∧ s'.encDone = s.encDone ∧
    (∀ c', c' ≠ c → s'.callers c' = s.callers c') ∧
    (∀ x, x ≠ s.nextSend → s'.sends x = s.sends x) ∧
    (s'.sends s.nextSend).st = .completed ∧ (s'.sends s.nextSend).slot = some .toobig := by
  simp only [T.step] at h
  split at h
  · simp only [Bool.false_eq_true, if_false] at h
    injection h with h; subst h
    simp
    refine ⟨?_, ?_⟩
    · intro c' hc'; simp [hc']
    · intro x hx; simp [hx]
  · simp at h

open FmpRpc.T in
/-- The cancellation of a call that was itself refused for its method name can be
    refused by `encodeFrame` too (`EncodeAndWriteAsync`: `ch <- err; return 0, ch`).
    That refusal is as local as the call's: nothing is handed to the writer, nothing
    is written, no send notifier runs, the pending table, the receive loop, every
    notifier, every handler, every other caller and every other send are unchanged;
    the caller only moves on to its non-blocking receive; the new send is completed
    at once with `toobig` in its slot, `fits = false`, and it is not in the write log. -/
theorem oversize_cancel_is_local (s s' : T.St) (c : Nat) (hr : T.Reachable s)
    (h : T.step s (.cCancelEncFail c) = some s') :
    s'.wlog = s.wlog ∧ s'.nlog = s.nlog ∧ s'.w = s.w ∧ s'.pending = s.pending ∧ s'.r = s.r ∧
    s'.nextSeq = s.nextSeq ∧ s'.stopCh = s.stopCh ∧ s'.encDone = s.encDone ∧
    s'.notifiers = s.notifiers ∧ s'.handlers = s.handlers ∧ s'.tasks = s.tasks ∧
    (∀ c', c' ≠ c → s'.callers c' = s.callers c') ∧
    s'.callers c = { s.callers c with pc := .cPoll s.nextSend } ∧
    (∀ x, x ≠ s.nextSend → s'.sends x = s.sends x) ∧
    s'.nextSend = s.nextSend + 1 ∧
    (s'.sends s.nextSend).kind = .cancel ∧ (s'.sends s.nextSend).who = c ∧
    (s'.sends s.nextSend).seq = (s.callers c).seq ∧ (s'.sends s.nextSend).async = false ∧
    (s'.sends s.nextSend).st = .completed ∧ (s'.sends s.nextSend).slot = some .toobig ∧
    (s'.sends s.nextSend).fits = false ∧
    s.nextSend ∉ s'.wlog := by
  have hlt := wlog_lt s (SInv_reach s hr) (WInv_reach s hr)
  have hnot : s.nextSend ∉ s.wlog := fun hx => Nat.lt_irrefl _ (hlt _ (by simp [hx]))
  simp only [T.step] at h
  split at h
  · injection h with h; subst h
    simp
    refine ⟨?_, ?_, hnot⟩
    · intro c' hc'; simp [hc']
    · intro x hx; simp [hx]
  · simp at h

open FmpRpc.T in
/-- a run from a reachable state ends in a reachable state, and never changes
    the `fits` flag of a send that exists already -/
theorem run_reachable_fits (l : List T.Act) (s t : T.St) (hr : T.Reachable s) (h : T.run s l = some t) :
    T.Reachable t ∧ ∀ x, x < s.nextSend → (t.sends x).fits = (s.sends x).fits := by
  induction l generalizing s with
  | nil => simp only [T.run] at h; injection h with h; subst h; exact ⟨hr, fun _ _ => rfl⟩
  | cons a l ih =>
    simp only [T.run] at h
    split at h
    · rename_i s1 hs1
      obtain ⟨hle, hst⟩ := step_frame s s1 a hs1
      obtain ⟨hr', hf⟩ := ih s1 (.step s s1 a hr hs1) h
      exact ⟨hr', fun x hx => (hf x (Nat.lt_of_lt_of_le hx hle)).trans (hst x hx).2.2.2.2⟩
    · simp at h

open FmpRpc.T in
/-- ... and it never gets there: whatever happens after the refused cancellation,
    its send id never appears in the write log. -/
theorem oversize_cancel_never_written (s s' : T.St) (c : Nat) (hr : T.Reachable s)
    (h : T.step s (.cCancelEncFail c) = some s') (l : List T.Act) (t : T.St) (ht : T.run s' l = some t) :
    s.nextSend ∉ t.wlog := by
  obtain ⟨-, -, -, -, -, -, -, -, -, -, -, -, -, -, hn, -, -, -, -, -, -, hf, -⟩ := oversize_cancel_is_local s s' c hr h
  obtain ⟨hrt, hfits⟩ := run_reachable_fits l s' t (.step s s' _ hr h) ht
  intro hx
  have h1 := ((writes_are_frames t hrt).2 _ hx).1
  rw [hfits _ (by omega), hf] at h1
  exact absurd h1 (by simp)

open FmpRpc.T in
/-- A sender whose context ends, or that finds the encoder closed, abandons
    its whole bundle: an abandoned send never reaches the write log. -/
theorem abandon_is_whole (s : T.St) (hr : T.Reachable s) (x : Nat)
    (h : (s.sends x).st = .completed)
    (he : (s.sends x).slot = some .ctx ∨ (s.sends x).slot = some .eof ∨ (s.sends x).slot = some .toobig) :
    x ∉ s.wlog := by
  have hW := WInv_reach s hr
  intro hx
  have := (hW.wl1 x hx).2.2
  rcases he with he | he | he <;> simp [he] at this

end FmpRpc.C03
