import FmpRpc.Proofs.TransportInv
import FmpRpc.Proofs.TransportInvA7
import FmpRpc.Props.C01
/-
  C13 — sends keep their order, seqnos are never reused, the send notifier is
  exact.
-/
namespace FmpRpc.C13
open FmpRpc.T

def handoffs (h : List Evt) : List Nat :=
  h.filterMap fun e => match e with | .handoff x => some x | _ => none
def writesOf (h : List Evt) : List Nat :=
  h.filterMap fun e => match e with | .write x => some x | _ => none

/-- One writer, first in first out: the frames reach the connection in the
    order in which their senders' hand-offs completed (a send returns to its
    goroutine only after its own hand-off, so program order is kept). -/
theorem wire_order_is_handoff_order (s : St) (hr : Reachable s) :
    writesOf s.hist <+: handoffs s.hist ∧ s.wlog = writesOf s.hist := by
  have h := HInv_reach s hr
  have ho : handoffs s.hist = writesOf s.hist ++ wPend s.w := h.ho
  exact ⟨⟨wPend s.w, ho.symm⟩, h.wl⟩

/-- Sequence numbers are never reused (C01.seq_distinct) and the next one is
    above all of them. -/
theorem seq_never_reused (s : St) (hr : Reachable s) :
    (C01.issuedSeqs s.hist).Nodup ∧ ∀ q ∈ C01.issuedSeqs s.hist, q < (s.nextSeq : Int) :=
  ⟨(HInv_reach s hr).iss_nd, (HInv_reach s hr).iss_lt⟩

/-- the send being written right now (notifier already run, `Write` not yet
    called) -/
def inWrite (s : St) : List Nat :=
  match s.w with
  | .writing x => [x]
  | _ => []

/-- The notifier log is exactly, in wire order, the calls and notifications
    handed to the connection: one entry per such frame, fired immediately
    before its `Write` with the seqno the frame carries; never for replies,
    cancellations or abandoned sends. -/
theorem notifier_exact (s : St) (hr : Reachable s) :
    s.nlog.map Prod.fst = (s.wlog ++ inWrite s).filter (fun x => (s.sends x).notif) ∧
    (∀ e ∈ s.nlog, e.2 = (s.sends e.1).seq ∧
      ((s.sends e.1).kind = .call ∨ (s.sends e.1).kind = .notify)) ∧
    (∀ x, (s.sends x).notif = true → (s.sends x).kind = .call ∨ (s.sends x).kind = .notify) := by
  have h0 := NL0_reach s hr
  have h1 := NL1_reach s hr
  have hn1 : s.nlog.map Prod.fst = (s.wlog ++ wWriting s.w).filter (fun x => (s.sends x).notif) := h1.nl1
  have hiw : inWrite s = wWriting s.w := by
    unfold inWrite; cases s.w <;> rfl
  refine ⟨by rw [hiw]; exact hn1, ?_, h0.nl3⟩
  intro e he
  refine ⟨(h1.nl2 e he).2, ?_⟩
  apply h0.nl3
  have hm : e.1 ∈ s.nlog.map Prod.fst := List.mem_map.mpr ⟨e, he, rfl⟩
  rw [hn1] at hm
  simpa using (List.mem_filter.mp hm).2

/-- A cancellation never precedes its call on the wire: when the cancel frame
    of a call whose frame went through the hand-off is written, the call frame
    was written before it. -/
theorem cancel_after_call (s : St) (hr : Reachable s) (y : Nat) (hy : y ∈ s.wlog)
    (hk : (s.sends y).kind = .cancel) (hsent : (s.callers (s.sends y).who).sent = true) :
    ∃ x, (s.sends x).kind = .call ∧ (s.sends x).who = (s.sends y).who ∧
      (s.sends x).seq = (s.sends y).seq ∧
      ∃ i j : Nat, s.wlog[i]? = some x ∧ s.wlog[j]? = some y ∧ i < j := by
  have h := (OAll_reach s hr).o4
  obtain ⟨j, hj, hget⟩ := List.mem_iff_getElem.mp hy
  have hj' : s.wlog[j]? = some y := by rw [List.getElem?_eq_getElem hj, hget]
  obtain ⟨x, i, h1, h2, h3, h4, h5⟩ := h j y hj' hk hsent
  exact ⟨x, h1, h2, h3, i, j, h4, hj', h5⟩

end FmpRpc.C13
