import FmpRpc.Proofs.TransportInv
import FmpRpc.Proofs.TransportInvA9
/-
  C12 — the caller's result buffer is never written after the call returned.

  FULL STATEMENT (`NoLateWrite`) does NOT hold of the code: the receive loop
  looks the call up, the caller may then return (cancellation, timeout,
  close), and the reply is decoded into the caller's buffer afterwards; a
  duplicated reply has the same effect.  `late_write_counterexample` proves
  the negation on a concrete trace (replayed on the implementation by the
  harness scenario `latewrite`, known finding C12-late-write);
  `no_late_write_partial` states what does hold.
-/
namespace FmpRpc.C12
open FmpRpc.T

/-- position of the first `returned c` event -/
def returnedAt (h : List Evt) (c : Nat) : Option Nat :=
  h.findIdx? fun e => match e with | .returned c' _ => c' == c | _ => false

/-- no `resWritten c` after `returned c` -/
def NoLateWrite (h : List Evt) : Prop :=
  ∀ c i j, returnedAt h c = some i → i < j → h[j]? ≠ some (.resWritten c)

/-- the code violates the full statement: look-up, cancellation, return,
    then the decode writes -/
def lateTrace : List Act :=
  [.callStart 0, .cBegin 0, .cNew 0, .cAdd 0, .cEnc 0 true, .wRecv 0, .wNotify, .wWrite true, .wDone,
   .cSel1Err 0, .rDeliver (.resp 0 42 false), .rLookup, .ctxCancel 0, .cSel2Ctx 0, .cCancelEnc 0,
   .wRecv 1, .cPoll 0, .cCancelRec 0, .cFin 0, .cRm 0, .rDecode]

theorem late_write_counterexample :
    ∃ s, run init lateTrace = some s ∧ ¬ NoLateWrite s.hist := by
  have h : (run init lateTrace).map (fun s => s.hist) = some
      [.issued 0 0, .handoff 0, .notifier 0 0, .write 0, .writeDone 0 .nil, .delivered (.resp 0 42 false),
       .handoff 1, .returned 0 (.err .ctx), .resWritten 0] := rfl
  cases hrun : run init lateTrace with
  | none => rw [hrun] at h; simp at h
  | some s =>
    rw [hrun] at h
    simp only [Option.map_some, Option.some.injEq] at h
    refine ⟨s, rfl, ?_⟩
    intro hn
    exact hn 0 7 8 (by rw [h]; rfl) (by omega) (by rw [h]; rfl)

/-- every write into the buffer precedes the signal: a call that returns *by
    receiving its reply* has all writes of that reply before its return -/
theorem write_before_signal (s : St) (hr : Reachable s) (c : Nat) (p : Nat) (ae : Bool)
    (h : (s.callers c).rslot = some (p, ae)) :
    Evt.resWritten c ∈ s.hist ∧ (s.callers c).bufSeq = some (s.callers c).seq := by
  have hb := ((CInv_reach s hr).loc c).slot _ h
  exact ⟨(HInv_reach s hr).rw c _ hb, hb⟩

/- `writes_only_in_decode` was first stated without a reachability hypothesis;
   that version is false in unreachable states (counterexample below) and was
   replaced by `writes_only_in_decode_corrected`. -/

/-- the hypothesis-free statement fails in an unreachable state: a caller slot that is
    `absent` but whose buffer is not in its initial state is reset by
    `callStart` -/
theorem writes_only_in_decode_counterexample :
    ∃ (s s' : St) (a : Act) (c : Nat), step s a = some s' ∧ (s'.callers c).buf ≠ (s.callers c).buf ∧
      a ≠ .rDecode :=
  ⟨{ callers := fun _ => { buf := 5 } }, _, .callStart 0, 0, rfl, by decide, by simp⟩

/-- CORRECTED `writes_only_in_decode`: in every reachable state the only step that
    changes a caller's buffer is the receive loop's decode of a looked-up reply -/
theorem writes_only_in_decode_corrected (s s' : St) (hr : Reachable s) (a : Act) (c : Nat)
    (hs : step s a = some s') (hb : (s'.callers c).buf ≠ (s.callers c).buf) :
    a = .rDecode ∧ ∃ q p ae, s.r = .respDecode c q p ae :=
  buf_step s s' a c (CInv_reach s hr) hs hb

/-- PARTIAL: once a call has returned and the receive loop is not holding a
    looked-up reference to it, no later write can happen unless the peer sends
    another response with that seqno while … the seqno is no longer in the
    table — i.e. never: the only late writes come from a reference obtained
    before the return. -/
theorem no_late_write_partial (s : St) (hr : Reachable s) (c : Nat) (o : Out)
    (hret : (s.callers c).pc = .ret o)
    (hnoref : ∀ q p ae, s.r ≠ .respDecode c q p ae) :
    ∀ acts s', run s acts = some s' → (s'.callers c).buf = (s.callers c).buf := by
  intro acts
  induction acts generalizing s with
  | nil => intro s' h; simp [run] at h; subst h; rfl
  | cons a as ih =>
    intro s' h
    simp only [run] at h
    cases hst : step s a with
    | none => rw [hst] at h; simp at h
    | some s1 =>
      rw [hst] at h
      have hC := CInv_reach s hr
      obtain ⟨hpc1, hnr1⟩ := ret_stable s s1 a c o hC hst hret hnoref
      have hbuf : (s1.callers c).buf = (s.callers c).buf := by
        by_cases hb : (s1.callers c).buf = (s.callers c).buf
        · exact hb
        · obtain ⟨-, q, p, ae, hq⟩ := buf_step s s1 a c hC hst hb
          exact absurd hq (hnoref q p ae)
      rw [← hbuf]
      exact ih s1 (Reachable.step s s1 a hr hst) hpc1 hnr1 s' h

end FmpRpc.C12
