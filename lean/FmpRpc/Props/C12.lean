import FmpRpc.Proofs.TransportInv
/-
  C12 — the caller's result buffer is never written after the call returned.

  FULL STATEMENT (`NoLateWrite`) does NOT hold of the code: the receive loop
  looks the call up, the caller may then return (cancellation, timeout,
  close), and the reply is decoded into the caller's buffer afterwards; a
  duplicated reply has the same effect.  `late_write_counterexample` proves
  the negation on a concrete trace (replayed on the implementation by the
  harness scenario `latewrite`, known finding C12-late-write);
  `no_late_write_partial` states what does hold.
-/
namespace FmpRpc.C12
open FmpRpc.T

/-- position of the first `returned c` event -/
def returnedAt (h : List Evt) (c : Nat) : Option Nat :=
  h.findIdx? fun e => match e with | .returned c' _ => c' == c | _ => false

/-- no `resWritten c` after `returned c` -/
def NoLateWrite (h : List Evt) : Prop :=
  ∀ c i j, returnedAt h c = some i → i < j → h[j]? ≠ some (.resWritten c)

/-- the code violates the full statement: look-up, cancellation, return,
    then the decode writes -/
def lateTrace : List Act :=
  [.callStart 0, .cBegin 0, .cNew 0, .cAdd 0, .cEnc 0 true, .wRecv 0, .wNotify, .wWrite true, .wDone,
   .cSel1Err 0, .rDeliver (.resp 0 42 false), .rLookup, .ctxCancel 0, .cSel2Ctx 0, .cCancelEnc 0,
   .wRecv 1, .cPoll 0, .cCancelRec 0, .cFin 0, .cRm 0, .rDecode]

theorem late_write_counterexample :
    ∃ s, run init lateTrace = some s ∧ ¬ NoLateWrite s.hist := by
  sorry

/-- every write into the buffer precedes the signal: a call that returns *by
    receiving its reply* has all writes of that reply before its return -/
theorem write_before_signal (s : St) (hr : Reachable s) (c : Nat) (p : Nat) (ae : Bool)
    (h : (s.callers c).rslot = some (p, ae)) :
    Evt.resWritten c ∈ s.hist ∧ (s.callers c).bufSeq = some (s.callers c).seq := by
  sorry

/-- the receive loop writes into a buffer only between looking the call up
    and offering the reply: outside those two program points nothing writes -/
theorem writes_only_in_decode (s s' : St) (a : Act) (c : Nat) (hs : step s a = some s')
    (hb : (s'.callers c).buf ≠ (s.callers c).buf) :
    a = .rDecode ∧ ∃ q p ae, s.r = .respDecode c q p ae := by
  sorry

/-- PARTIAL: once a call has returned and the receive loop is not holding a
    looked-up reference to it, no later write can happen unless the peer sends
    another response with that seqno while … the seqno is no longer in the
    table — i.e. never: the only late writes come from a reference obtained
    before the return. -/
theorem no_late_write_partial (s : St) (hr : Reachable s) (c : Nat) (o : Out)
    (hret : (s.callers c).pc = .ret o)
    (hnoref : ∀ q p ae, s.r ≠ .respDecode c q p ae) :
    ∀ acts s', run s acts = some s' → (s'.callers c).buf = (s.callers c).buf := by
  sorry

end FmpRpc.C12
