import FmpRpc.Model.TLS
/-
  C17 — TLS connections authenticate the server and bound the handshake.
  PARTIAL by nature: X.509 path validation and the TLS handshake are the
  standard library's and enter through the contract `TLS.verify`; what is
  proved is the library's own decision logic around them.
-/
namespace FmpRpc.C17
open FmpRpc.TLS

/-- **Without a user configuration the library's configuration verifies**: no
    InsecureSkipVerify, server name = host of the dialed address, roots = the
    PEM's certificates (system roots when none); so a completed dial implies
    the certificate chains to those roots, is valid for the dialed host name
    and is within its validity period. -/
theorem library_config_verifies (pem : Option (Option Nat)) (host : String) (cfg : Cfg) (cert : Cert)
    (b : Behav) (t : Nat) (hc : dialConfig none pem host = some cfg) (hok : (dial cfg cert b t).1 = .ok) :
    cfg.insecureSkipVerify = false ∧ cfg.serverName = host ∧
    cert.issuer = cfg.roots ∧ cert.names.contains host = true ∧ cert.inValidity = true ∧
    (∀ id, pem = some (some id) → cfg.roots = .pem id) ∧ (pem = none → cfg.roots = .system) := by
  unfold dialConfig at hc
  cases pem with
  | none =>
    simp at hc; subst hc
    cases b <;> simp [dial, verify] at hok ⊢
    split at hok <;> simp_all
  | some p =>
    cases p with
    | none => simp at hc
    | some id =>
      simp at hc; subst hc
      cases b <;> simp [dial, verify] at hok ⊢
      split at hok <;> simp_all

/-- a PEM without certificates fails before dialing -/
theorem empty_pem_fails (host : String) : dialConfig none (some none) host = none := rfl

/-- **A supplied configuration is used verbatim** (the copy made at
    construction): a dial completes only if the certificate satisfies it. -/
theorem user_config_used_verbatim (u : Cfg) (pem : Option (Option Nat)) (host : String) (cert : Cert)
    (b : Behav) (t : Nat) :
    dialConfig (some u) pem host = some u ∧
    ((dial u cert b t).1 = .ok → verify u cert = true ∧ b = .handshakes) := by
  refine ⟨rfl, ?_⟩
  cases b <;> simp [dial]
  split <;> simp_all

/-- **A wrong issuer, a wrong name or an expired certificate makes the dial
    fail without a transport being created** (for a configuration that
    verifies), and so does every failing path. -/
theorem no_transport_on_failure (cfg : Cfg) (cert : Cert) (b : Behav) (t : Nat) :
    ((dial cfg cert b t).1 ≠ .ok → (dial cfg cert b t).2.2 = false) ∧
    (cfg.insecureSkipVerify = false →
      (cert.issuer ≠ cfg.roots ∨ cert.names.contains cfg.serverName = false ∨ cert.inValidity = false) →
      (dial cfg cert b t).1 ≠ .ok) := by
  constructor
  · cases b <;> simp [dial]
    split <;> simp_all
  · intro hi hbad
    cases b <;> simp [dial, verify, hi]
    rcases hbad with h | h | h <;> simp_all

/-- **The handshake is bounded**: a peer that never completes it makes the
    dial fail with the timeout error at exactly the configured timeout, one
    minute when none is configured. -/
theorem handshake_bounded (cfg : Cfg) (cert : Cert) (t : Nat) :
    dial cfg cert .stalls t = (.timeout, (if t = 0 then 60000 else t), false) := rfl

end FmpRpc.C17
