import FmpRpc.Model.Conn
import FmpRpc.Proofs.ConnInv
/-
  C14 — one reconnect sequence at a time, announced once, waiters released
  together.  Every reachable state of `Model/Conn`: any number of commands,
  forced reconnects, disconnections, `Shutdown` at any step, any script of
  dial / OnConnect outcomes and retry verdicts.  (The close behaviour of the
  built-in plain and TLS connection transports is checked by the
  correspondence run `builtin`, not modelled here.)
-/
namespace FmpRpc.C14
open FmpRpc.Cn

/-- **At most one sequence is alive, it is the registered one, and at most one
    dial is in progress.** -/
theorem one_sequence (fi : Bool) (s : St) (hr : Reachable fi s) :
    (∀ i j, alive (s.seqs i) = true → alive (s.seqs j) = true → i = j) ∧
    (∀ i, s.reconnectChan = some i ↔ alive (s.seqs i) = true) ∧
    s.dialing ≤ 1 ∧
    (s.dialing = 1 ↔ ∃ i, (s.seqs i).pc = .dial) := by
  have h := CInv.reach hr
  have hal : ∀ i, alive (s.seqs i) = true ↔ ((s.seqs i).pc ≠ .absent ∧ (s.seqs i).pc ≠ .done) := by
    intro i; simp [alive]
  refine ⟨?_, ?_, ?_, ?_⟩
  · intro i j hi hj
    have h1 := (h.chan i).2 ((hal i).1 hi)
    have h2 := (h.chan j).2 ((hal j).1 hj)
    rw [h1] at h2; exact Option.some.inj h2
  · intro i; rw [hal]; exact h.chan i
  · by_cases hd : s.dialing = 0
    · omega
    · obtain ⟨i, hi⟩ := h.dialB hd
      have := h.dialA i hi; omega
  · constructor
    · intro hd; exact h.dialB (by omega)
    · rintro ⟨i, hi⟩; exact h.dialA i hi

/-- **Each sequence reports its start exactly once**, before anything else it
    does, with the first-connection status for the first sequence unless
    initial backoff is forced and the non-first status afterwards. -/
theorem announced_once (fi : Bool) (s : St) (hr : Reachable fi s) (i : Nat) :
    (s.seqs i).announcements ≤ 1 ∧
    ((s.seqs i).pc ≠ .absent → (s.seqs i).pc ≠ .announce → (s.seqs i).announcements = 1) ∧
    ((s.seqs i).pc = .announce → (s.seqs i).announcements = 0 ∧ (s.seqs i).dials = 0) ∧
    ((s.seqs i).pc ≠ .absent → ((s.seqs i).first = true ↔ (i = 0 ∧ fi = false))) := by
  have h := CInv.reach hr
  have h0 := h.ann0 i
  have h1 := h.ann1 i
  have h2 := h.ann2 i
  refine ⟨?_, h2, h1, h.first i⟩
  by_cases ha : (s.seqs i).pc = .absent
  · have := h0 ha; omega
  · by_cases hb : (s.seqs i).pc = .announce
    · have := (h1 hb).1; omega
    · have := h2 ha hb; omega

/-- one error notification per failed attempt that is retried -/
theorem one_note_per_retry (fi : Bool) (s : St) (hr : Reachable fi s) (i : Nat) :
    (s.seqs i).errNotes ≤ (s.seqs i).fails ∧ (s.seqs i).fails ≤ (s.seqs i).errNotes + 1 ∧
    (∀ e, (s.seqs i).pc = .sleep e → (s.seqs i).errNotes = (s.seqs i).fails) := by
  have h := CInv.reach hr
  refine ⟨(h.notes i).1, (h.notes i).2, ?_⟩
  intro e he
  have := h.notesE i (by simp [he]) (by simp [he]) (by simp [he])
  omega

/-- **Finalize exactly once, with the protocols registered and OnConnect
    succeeded, before the release**: a sequence that ends without an error has
    finalized exactly one transport — registered, connected through a
    successful OnConnect — and published it; a sequence never finalizes more
    than once. -/
theorem finalize_then_release (fi : Bool) (s : St) (hr : Reachable fi s) (i : Nat) :
    (s.seqs i).finalizes ≤ 1 ∧
    ((s.seqs i).closed = true → (s.seqs i).errSlot = none →
      (s.seqs i).finalizes = 1 ∧ ∃ x, (s.seqs i).published = some x ∧ s.xpRegistered x = true ∧
        Evt.onConnectOk x ∈ s.hist) ∧
    ((s.seqs i).finalizes = 1 → ∃ x, (s.seqs i).published = some x ∧ s.xpRegistered x = true) := by
  have h := CInv.reach hr
  refine ⟨?_, ?_, ?_⟩
  · cases hp : (s.seqs i).published with
    | none => have := h.fin0 i hp; omega
    | some x => have := (h.fin1 i x hp).1; omega
  · intro hc he
    have hd := (h.closed i).1 hc
    have hne := h.finR i (Or.inr hd) he
    cases hp : (s.seqs i).published with
    | none => exact absurd hp hne
    | some x =>
      have := h.fin1 i x hp
      exact ⟨this.1, x, rfl, this.2.1, this.2.2.1⟩
  · intro hf
    cases hp : (s.seqs i).published with
    | none => have := h.fin0 i hp; omega
    | some x => exact ⟨x, rfl, (h.fin1 i x hp).2.1⟩

/-- **All waiters of one sequence are released together with the same
    outcome**: a waiter released by sequence `i` returns the value of that
    sequence's error slot, which is written before the channel is closed and
    never afterwards. -/
theorem released_with_same_outcome (fi : Bool) (s : St) (hr : Reachable fi s) (w i : Nat) (r : Option CErr)
    (hw : (s.waiters w).pc = .ret r) (hf : (s.waiters w).relBy = some i) :
    (s.seqs i).closed = true ∧ r = (s.seqs i).errSlot := by
  have h := CInv.reach hr
  have := h.wrel w i hf
  refine ⟨this.1, ?_⟩
  have h2 := this.2
  rw [hw] at h2
  exact WPc.ret.inj h2

theorem slot_stable_after_close (fi : Bool) (s s' : St) (a : Act) (hr : Reachable fi s)
    (hs : step s a = some s') (i : Nat) (hc : (s.seqs i).closed = true) :
    (s'.seqs i).errSlot = (s.seqs i).errSlot ∧ (s'.seqs i).closed = true := by
  have h := CInv.reach hr
  have hd := (h.closed i).1 hc
  have hch := h.chan i
  have hfr := h.fresh i
  cases a <;> simp only [step] at hs
  all_goals (repeat' split at hs)
  all_goals (try cases hs)
  all_goals (simp only [setSeq, setWaiter, log, getReconnectChan] at * <;> grind)

/-- **Shutdown is bounded**: after its context has been cancelled a sequence
    starts at most one more dial, and every step of a cancelled sequence that
    is not inside `Dial`, a callback or the (non-cancellable) delay wait leads
    it to the release. -/
theorem shutdown_bounded (fi : Bool) (s : St) (hr : Reachable fi s) (i : Nat) :
    (s.seqs i).dialsAfterCancel ≤ 1 ∧
    ((s.seqs i).ctxCancelled = true →
      ((s.seqs i).pc = .retryStart → ∃ s', step s (.sRetryStart i) = some s' ∧ (s'.seqs i).pc = .release) ∧
      (∀ e, (s.seqs i).pc = .sleep e → ∃ s', step s (.sSleepCtx i) = some s' ∧ (s'.seqs i).pc = .release) ∧
      (∀ e r, (s.seqs i).pc = .attemptEnd e → ∃ s', step s (.sAttemptEnd i r) = some s' ∧ (s'.seqs i).pc = .release)) := by
  have h := CInv.reach hr
  refine ⟨h.dac i, ?_⟩
  intro hc
  refine ⟨?_, ?_, ?_⟩
  · intro hp; simp [step, hp, hc, setSeq]
  · intro e hp; simp [step, hp, hc, setSeq]
  · intro e r hp; simp [step, hp, hc, setSeq]

/-- Shutdown cancels the sequence that is registered at that moment -/
theorem shutdown_cancels_live (s s' : St) (i : Nat) (h : s.reconnectChan = some i) (hc : s.cancelSet = true)
    (hs : step s .shutdown = some s') : (s'.seqs i).ctxCancelled = true := by
  simp only [step, h, hc] at hs
  split at hs <;> cases hs <;> simp [setSeq]

end FmpRpc.C14
