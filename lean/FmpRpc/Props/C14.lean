import FmpRpc.Model.Conn
/-
  C14 — one reconnect sequence at a time, announced once, waiters released
  together.  Every reachable state of `Model/Conn`: any number of commands,
  forced reconnects, disconnections, `Shutdown` at any step, any script of
  dial / OnConnect outcomes and retry verdicts.  (The close behaviour of the
  built-in plain and TLS connection transports is checked by the
  correspondence run `builtin`, not modelled here.)
-/
namespace FmpRpc.C14
open FmpRpc.Cn

/-- **At most one sequence is alive, it is the registered one, and at most one
    dial is in progress.** -/
theorem one_sequence (fi : Bool) (s : St) (hr : Reachable fi s) :
    (∀ i j, alive (s.seqs i) = true → alive (s.seqs j) = true → i = j) ∧
    (∀ i, s.reconnectChan = some i ↔ alive (s.seqs i) = true) ∧
    s.dialing ≤ 1 ∧
    (s.dialing = 1 ↔ ∃ i, (s.seqs i).pc = .dial) := by
  sorry

/-- **Each sequence reports its start exactly once**, before anything else it
    does, with the first-connection status for the first sequence unless
    initial backoff is forced and the non-first status afterwards. -/
theorem announced_once (fi : Bool) (s : St) (hr : Reachable fi s) (i : Nat) :
    (s.seqs i).announcements ≤ 1 ∧
    ((s.seqs i).pc ≠ .absent → (s.seqs i).pc ≠ .announce → (s.seqs i).announcements = 1) ∧
    ((s.seqs i).pc = .announce → (s.seqs i).announcements = 0 ∧ (s.seqs i).dials = 0) ∧
    ((s.seqs i).pc ≠ .absent → ((s.seqs i).first = true ↔ (i = 0 ∧ fi = false))) := by
  sorry

/-- one error notification per failed attempt that is retried -/
theorem one_note_per_retry (fi : Bool) (s : St) (hr : Reachable fi s) (i : Nat) :
    (s.seqs i).errNotes ≤ (s.seqs i).fails ∧ (s.seqs i).fails ≤ (s.seqs i).errNotes + 1 ∧
    (∀ e, (s.seqs i).pc = .sleep e → (s.seqs i).errNotes = (s.seqs i).fails) := by
  sorry

/-- **Finalize exactly once, with the protocols registered and OnConnect
    succeeded, before the release**: a sequence that ends without an error has
    finalized exactly one transport — registered, connected through a
    successful OnConnect — and published it; a sequence never finalizes more
    than once. -/
theorem finalize_then_release (fi : Bool) (s : St) (hr : Reachable fi s) (i : Nat) :
    (s.seqs i).finalizes ≤ 1 ∧
    ((s.seqs i).closed = true → (s.seqs i).errSlot = none →
      (s.seqs i).finalizes = 1 ∧ ∃ x, (s.seqs i).published = some x ∧ s.xpRegistered x = true ∧
        Evt.onConnectOk x ∈ s.hist) ∧
    ((s.seqs i).finalizes = 1 → ∃ x, (s.seqs i).published = some x ∧ s.xpRegistered x = true) := by
  sorry

/-- **All waiters of one sequence are released together with the same
    outcome**: a waiter released by sequence `i` returns the value of that
    sequence's error slot, which is written before the channel is closed and
    never afterwards. -/
theorem released_with_same_outcome (fi : Bool) (s : St) (hr : Reachable fi s) (w i : Nat) (r : Option CErr)
    (hw : (s.waiters w).pc = .ret r) (hf : (s.waiters w).relBy = some i) :
    (s.seqs i).closed = true ∧ r = (s.seqs i).errSlot := by
  sorry

theorem slot_stable_after_close (fi : Bool) (s s' : St) (a : Act) (hr : Reachable fi s)
    (hs : step s a = some s') (i : Nat) (hc : (s.seqs i).closed = true) :
    (s'.seqs i).errSlot = (s.seqs i).errSlot ∧ (s'.seqs i).closed = true := by
  sorry

/-- **Shutdown is bounded**: after its context has been cancelled a sequence
    starts at most one more dial, and every step of a cancelled sequence that
    is not inside `Dial`, a callback or the (non-cancellable) delay wait leads
    it to the release. -/
theorem shutdown_bounded (fi : Bool) (s : St) (hr : Reachable fi s) (i : Nat) :
    (s.seqs i).dialsAfterCancel ≤ 1 ∧
    ((s.seqs i).ctxCancelled = true →
      ((s.seqs i).pc = .retryStart → ∃ s', step s (.sRetryStart i) = some s' ∧ (s'.seqs i).pc = .release) ∧
      (∀ e, (s.seqs i).pc = .sleep e → ∃ s', step s (.sSleepCtx i) = some s' ∧ (s'.seqs i).pc = .release) ∧
      (∀ e r, (s.seqs i).pc = .attemptEnd e → ∃ s', step s (.sAttemptEnd i r) = some s' ∧ (s'.seqs i).pc = .release)) := by
  sorry

/-- Shutdown cancels the sequence that is registered at that moment -/
theorem shutdown_cancels_live (s s' : St) (i : Nat) (h : s.reconnectChan = some i) (hc : s.cancelSet = true)
    (hs : step s .shutdown = some s') : (s'.seqs i).ctxCancelled = true := by
  sorry

end FmpRpc.C14
