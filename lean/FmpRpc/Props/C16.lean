import FmpRpc.Model.Timer
import FmpRpc.Proofs.TimerLemmas
/-
  C16 — connect-delay timers (timer part; the connection-level statements
  `dial_not_before_delay` live with the connection model).
-/
namespace FmpRpc.C16
open FmpRpc.Tm

/-- the random delay lies in [0, window) (0 for an empty window): the sign
    bit is cleared before the modulus, so the value is never negative -/
theorem random_in_window (r w : Nat) :
    (0 < w → randomDelay r w < w) ∧ (w = 0 → randomDelay r w = 0) := by
  unfold randomDelay
  constructor
  · intro hw
    rw [if_neg (by omega)]
    exact Nat.mod_lt _ hw
  · intro hw
    rw [if_pos hw]

def Inv (s : St) : Prop :=
  (∀ o, s.current = some o → o < s.fired.length) ∧
  (∀ d ∈ s.deadlines, d.2 < s.fired.length)

theorem inv_init : Inv {} := by
  constructor
  · intro o ho; cases ho
  · intro d hd; cases hd

theorem inv_apply (s : St) (op : Op) (h : Inv s) : Inv (apply s op) := by
  exact invT_apply s op h

/-- fired is monotone: no operation un-fires a fire-once (fire is idempotent,
    nothing is closed twice) -/
theorem fired_monotone (s : St) (op : Op) (o : Nat) (h : s.isFired o = true) (hi : Inv s) :
    (apply s op).isFired o = true := by
  exact apply_isFired_mono s op o h

/-- **Wait returns only when the current timer has fired, or there is none**:
    the only step into `returned` is taken in a state where the fire-once the
    timer currently holds is the one the waiter saw fire (or the timer holds
    none). -/
theorem wait_returns_only_when_current_fired (s : St) (pc : WPc) (h : waitStep s pc = some .returned) :
    s.current = none ∨ ∃ o, s.current = some o ∧ pc = .recheck (some o) := by
  cases pc with
  | get =>
    simp only [waitStep] at h
    split at h
    · left; assumption
    · cases h
  | blocked f =>
    cases f with
    | none => simp [waitStep] at h
    | some o =>
      simp only [waitStep] at h
      split at h <;> cases h
  | recheck f =>
    simp only [waitStep] at h
    split at h
    · rename_i hc
      cases f with
      | none => left; exact hc
      | some o => right; exact ⟨o, hc, rfl⟩
    · cases h
  | returned => simp [waitStep] at h

/-- a waiter reaches `recheck (some o)` only after `o` has fired -/
theorem recheck_means_fired (s : St) (o : Nat) (h : waitStep s (.blocked (some o)) = some (.recheck (some o))) :
    s.isFired o = true := by
  simp only [waitStep] at h
  split at h
  · assumption
  · cases h

/-- **No deadlock**: a waiter is blocked only on an unfired fire-once; once
    that one has fired (naturally or by FireNow / a restart) it has a step. -/
theorem wait_not_blocked (s : St) (pc : WPc) (hp : pc ≠ .returned) :
    waitStep s pc = none ↔ ∃ o, pc = .blocked (some o) ∧ s.isFired o = false := by
  cases pc with
  | get =>
    simp only [waitStep]
    constructor
    · intro h; split at h <;> cases h
    · rintro ⟨o, ho, _⟩; cases ho
  | blocked f =>
    cases f with
    | none =>
      simp only [waitStep]
      constructor
      · intro h; cases h
      · rintro ⟨o, ho, _⟩; cases ho
    | some o =>
      simp only [waitStep]
      constructor
      · intro h
        split at h
        · cases h
        · rename_i hf
          exact ⟨o, rfl, by simpa using hf⟩
      · rintro ⟨o', ho, hf⟩
        cases ho
        simp [hf]
  | recheck f =>
    simp only [waitStep]
    constructor
    · intro h; split at h <;> cases h
    · rintro ⟨o, ho, _⟩; cases ho
  | returned => exact absurd rfl hp

/-- `Wait` returns immediately when no timer is running -/
theorem wait_immediate_without_timer (s : St) (h : s.current = none) : waitStep s .get = some .returned := by
  simp [waitStep, h]

/-- starting a timer fires the previous one (waiters re-check and then wait
    for the new one), `FireNow` fires the current one -/
theorem start_fires_old (s : St) (d o : Nat) (h : s.current = some o) (hi : Inv s) :
    (apply s (.start d)).isFired o = true ∧ (apply s (.start d)).current = some s.fired.length := by
  constructor
  · exact fireDue_isFired_mono _ _ (start_fires_old' s d o h (hi.1 o h))
  · show (fireDue (start s d)).current = _
    rw [fireDue_current, start_current]

theorem fireNow_fires_current (s : St) (o : Nat) (h : s.current = some o) (hi : Inv s) :
    (apply s .fireNow).isFired o = true ∧ (apply s .fireNow).current = none := by
  exact ⟨fireNow_fires s o h (hi.1 o h), fireNow_current s⟩

/-- **A timer does not fire before its delay has elapsed** unless it is
    fast-forwarded or replaced: by clock ticks alone a fire-once started at
    `t0` with delay `d` stays unfired while `now < t0 + d`. -/
theorem not_before_delay (s : St) (o t : Nat) (hd : (t, o) ∈ s.deadlines) (hnf : s.isFired o = false)
    (hlt : s.now + 1 < t) (huniq : ∀ d ∈ s.deadlines, d.2 = o → d.1 = t) (hi : Inv s) :
    (apply s .tick).isFired o = false := by
  apply tick_not_fired s o hnf
  intro d hd hdo
  have := huniq d hd hdo
  omega

end FmpRpc.C16
