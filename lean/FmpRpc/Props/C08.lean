import FmpRpc.Proofs.TransportInv
import FmpRpc.Proofs.TransportInvA7
import FmpRpc.Proofs.TransportInvA8
import FmpRpc.Props.C13
import FmpRpc.Props.PeerHyp
/-
  C08 — cancellation and timeouts end the call promptly and reach its
  handler.  (A timeout is a context with a deadline: the same environment
  action `ctxCancel`.)
-/
namespace FmpRpc.C08
open FmpRpc.T

/-- the program points at which a call can be waiting -/
def waiting : CPc → Bool
  | .hand _ | .sel1 _ | .sel2 | .cHand _ => true
  | _ => false

/-- the caller's own ways out of a wait once its context has ended -/
def ownActs (c : Nat) (pc : CPc) : List Act :=
  match pc with
  | .hand _ => [.cHandCtx c]
  | .sel1 _ => [.cSel1Ctx c]
  | .sel2 => [.cSel2Ctx c]
  | .cHand y => [.cCancelDone c, .cCancelAsync c, .wRecv y]
  | _ => []

/-- **Prompt return**: once the context of a call has ended, the caller has an
    enabled step of its own at every wait — whatever the peer, the writer and
    the connection do (peer silent, not reading, writer stuck in `Write`). -/
theorem cancel_returns_without_help (s : St) (hr : Reachable s) (c : Nat)
    (hctx : (s.callers c).ctxDone = true) (hw : waiting (s.callers c).pc = true) :
    ∃ a ∈ ownActs c (s.callers c).pc, (step s a).isSome := by
  have hS := SInv_reach s hr
  cases hpc : (s.callers c).pc <;> simp [hpc, waiting] at hw
  case hand x => exact ⟨.cHandCtx c, by simp [ownActs], by simp [step, hpc, hctx]⟩
  case sel1 x => exact ⟨.cSel1Ctx c, by simp [ownActs], by simp [step, hpc, hctx]⟩
  case sel2 => exact ⟨.cSel2Ctx c, by simp [ownActs], by simp [step, hpc, hctx]⟩
  case cHand y =>
    obtain ⟨-, hst, hk, hwho, hasync, -⟩ := hS.cCHand c y hpc
    by_cases hd : s.encDone = true
    · exact ⟨.cCancelDone c, by simp [ownActs], by simp [step, hpc, hd]⟩
    · by_cases hw : s.w = .idle
      · refine ⟨.wRecv y, by simp [ownActs], ?_⟩
        simp [step, hw, hst, hk, hasync, hwho, hpc]
      · exact ⟨.cCancelAsync c, by simp [ownActs], by simp [step, hpc, hd, hw]⟩

/-- After the wait, the remaining steps of the caller (encode the cancel,
    poll, records, remove) never wait for anybody. -/
theorem cancel_path_never_blocks (s : St) (hr : Reachable s) (c : Nat) :
    ((s.callers c).pc = .cEnc → (step s (.cCancelEnc c)).isSome) ∧
    (∀ y, (s.callers c).pc = .cPoll y → (step s (.cPoll c)).isSome) ∧
    ((s.callers c).pc = .cRec → (step s (.cCancelRec c)).isSome) ∧
    (∀ o, (s.callers c).pc = .fin o → (step s (.cFin c)).isSome) ∧
    (∀ o, (s.callers c).pc = .rm o → (step s (.cRm c)).isSome) := by
  refine ⟨?_, ?_, ?_, ?_, ?_⟩
  · intro h; simp [step, h]
  · intro y h; simp [step, h]
  · intro h; simp [step, h]
  · intro o h; simp [step, h]
  · intro o h; simp [step, h]

/-- A call that goes through `handleCancel` returns the context's error. -/
theorem cancel_outcome (s s' : St) (c : Nat) (h : step s (.cCancelRec c) = some s') :
    (s'.callers c).pc = .fin (.err .ctx) := by
  simp only [step] at h
  split at h
  · injection h with h; subst h; simp
  · simp at h

/-- A call whose own frame was refused for its method name (`cEnc c false`) and whose
    context ended before it looked at the error (`cSel1Ctx`) arrives in `handleCancel`
    (`.cEnc`); the cancellation may be refused by `encodeFrame` too.  From there the run
    `cCancelEncFail c ; cPoll c ; cCancelRec c` is enabled step by step — it waits for
    nobody: no hand-off, no writer — the poll drains the error out of the result channel,
    nothing is written, and the call returns the context's error. -/
theorem cancel_after_refused_call_returns_ctx (s : St) (c : Nat) (h : (s.callers c).pc = .cEnc) :
    ∃ s1 s2 s3,
      step s (.cCancelEncFail c) = some s1 ∧ (s1.callers c).pc = .cPoll s.nextSend ∧
      step s1 (.cPoll c) = some s2 ∧ (s2.callers c).pc = .cRec ∧ (s2.sends s.nextSend).slot = none ∧
      step s2 (.cCancelRec c) = some s3 ∧ (s3.callers c).pc = .fin (.err .ctx) ∧
      s3.wlog = s.wlog ∧ s3.w = s.w ∧ s3.pending = s.pending := by
  -- step 1: the refused cancellation
  have e1 : ∃ s1, step s (.cCancelEncFail c) = some s1 ∧ (s1.callers c).pc = .cPoll s.nextSend ∧
      (s1.sends s.nextSend).slot = some .toobig ∧ s1.wlog = s.wlog ∧ s1.w = s.w ∧ s1.pending = s.pending := by
    simp [step, h]
  obtain ⟨s1, h1, p1, sl1, a1, b1, c1⟩ := e1
  -- step 2: the non-blocking receive finds the error and drains it
  have e2 : ∃ s2, step s1 (.cPoll c) = some s2 ∧ (s2.callers c).pc = .cRec ∧
      (s2.sends s.nextSend).slot = none ∧ s2.wlog = s1.wlog ∧ s2.w = s1.w ∧ s2.pending = s1.pending := by
    simp [step, p1, sl1]
  obtain ⟨s2, h2, p2, sl2, a2, b2, c2⟩ := e2
  -- step 3: the cancel record; the call returns the context's error
  have e3 : ∃ s3, step s2 (.cCancelRec c) = some s3 ∧ (s3.callers c).pc = .fin (.err .ctx) ∧
      s3.wlog = s2.wlog ∧ s3.w = s2.w ∧ s3.pending = s2.pending := by
    simp [step, p2]
  obtain ⟨s3, h3, p3, a3, b3, c3⟩ := e3
  exact ⟨s1, s2, s3, h1, p1, h2, p2, sl2, h3, p3, by rw [a3, a2, a1], by rw [b3, b2, b1], by rw [c3, c2, c1]⟩

/-- The cancellation frame carries the seqno of its call and follows the call
    frame on the wire (C13.cancel_after_call). -/
theorem cancel_follows_call (s : St) (hr : Reachable s) (y : Nat) (hy : y ∈ s.wlog)
    (hk : (s.sends y).kind = .cancel) (hsent : (s.callers (s.sends y).who).sent = true) :
    (s.sends y).seq = (s.callers (s.sends y).who).seq ∧
    ∃ x, (s.sends x).kind = .call ∧ (s.sends x).who = (s.sends y).who ∧
      ∃ i j : Nat, s.wlog[i]? = some x ∧ s.wlog[j]? = some y ∧ i < j := by
  have hA := OAll_reach s hr
  have hlt : y < s.nextSend := wlog_lt s hA.si hA.wi y (by simp [hy])
  refine ⟨(hA.o1.o1 y hlt (.inr hk)).1, ?_⟩
  obtain ⟨x, h1, h2, -, h4⟩ := C13.cancel_after_call s hr y hy hk hsent
  exact ⟨x, h1, h2, h4⟩

/-- A delivered cancellation cancels the context of exactly the handler
    registered under that seqno — which, because a handler is registered
    before the receive loop reads the next frame, is the handler of that very
    call if it is still running. -/
theorem cancel_reaches_handler (s s' : St) (hr : Reachable s) (q : Int) (h : Nat)
    (hr' : s.r = .canSel q) (ht : s.tasks q = some h) (hs : step s .rCanSend = some s') :
    (s'.handlers h).ctxCancelled = true ∧
    ∀ h', h' ≠ h → (s'.handlers h').ctxCancelled = (s.handlers h').ctxCancelled := by
  simp only [step, hr'] at hs
  split at hs
  · rename_i htl
    simp only [ht] at hs
    injection hs with hs; subst hs
    refine ⟨?_, ?_⟩
    · simp [cancelHandler_h_ctx]
    · intro h' hne; simp [cancelHandler_h_ctx, hne]
  · simp at hs

/-- A request is registered in the task table before its handler runs and
    before the receive loop reads another frame. -/
theorem task_registered_before_next_frame (s : St) (hr : Reachable s) (hp : C09.PeerSeqsDistinct s)
    (h : Nat) (hrun : (s.handlers h).pc = .run) (hnc : (s.handlers h).ctxCancelled = false) :
    s.tasks (s.handlers h).task = some h := by
  have hp' : PeerOK s.hist := ⟨hp.1, hp.2.1⟩
  exact (TInv_reach s hr hp').t4 h hrun hnc

end FmpRpc.C08
