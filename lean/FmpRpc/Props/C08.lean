import FmpRpc.Proofs.TransportInv
import FmpRpc.Proofs.TransportInvA7
import FmpRpc.Proofs.TransportInvA8
import FmpRpc.Props.C13
import FmpRpc.Props.PeerHyp
/-
  C08 — cancellation and timeouts end the call promptly and reach its
  handler.  (A timeout is a context with a deadline: the same environment
  action `ctxCancel`.)
-/
namespace FmpRpc.C08
open FmpRpc.T

/-- the program points at which a call can be waiting -/
def waiting : CPc → Bool
  | .hand _ | .sel1 _ | .sel2 | .cHand _ => true
  | _ => false

/-- the caller's own ways out of a wait once its context has ended -/
def ownActs (c : Nat) (pc : CPc) : List Act :=
  match pc with
  | .hand _ => [.cHandCtx c]
  | .sel1 _ => [.cSel1Ctx c]
  | .sel2 => [.cSel2Ctx c]
  | .cHand y => [.cCancelDone c, .cCancelAsync c, .wRecv y]
  | _ => []

/-- **Prompt return**: once the context of a call has ended, the caller has an
    enabled step of its own at every wait — whatever the peer, the writer and
    the connection do (peer silent, not reading, writer stuck in `Write`). -/
theorem cancel_returns_without_help (s : St) (hr : Reachable s) (c : Nat)
    (hctx : (s.callers c).ctxDone = true) (hw : waiting (s.callers c).pc = true) :
    ∃ a ∈ ownActs c (s.callers c).pc, (step s a).isSome := by
  have hS := SInv_reach s hr
  cases hpc : (s.callers c).pc <;> simp [hpc, waiting] at hw
  case hand x => exact ⟨.cHandCtx c, by simp [ownActs], by simp [step, hpc, hctx]⟩
  case sel1 x => exact ⟨.cSel1Ctx c, by simp [ownActs], by simp [step, hpc, hctx]⟩
  case sel2 => exact ⟨.cSel2Ctx c, by simp [ownActs], by simp [step, hpc, hctx]⟩
  case cHand y =>
    obtain ⟨-, hst, hk, hwho, hasync, -⟩ := hS.cCHand c y hpc
    by_cases hd : s.encDone = true
    · exact ⟨.cCancelDone c, by simp [ownActs], by simp [step, hpc, hd]⟩
    · by_cases hw : s.w = .idle
      · refine ⟨.wRecv y, by simp [ownActs], ?_⟩
        simp [step, hw, hst, hk, hasync, hwho, hpc]
      · exact ⟨.cCancelAsync c, by simp [ownActs], by simp [step, hpc, hd, hw]⟩

/-- After the wait, the remaining steps of the caller (encode the cancel,
    poll, records, remove) never wait for anybody. -/
theorem cancel_path_never_blocks (s : St) (hr : Reachable s) (c : Nat) :
    ((s.callers c).pc = .cEnc → (step s (.cCancelEnc c)).isSome) ∧
    (∀ y, (s.callers c).pc = .cPoll y → (step s (.cPoll c)).isSome) ∧
    ((s.callers c).pc = .cRec → (step s (.cCancelRec c)).isSome) ∧
    (∀ o, (s.callers c).pc = .fin o → (step s (.cFin c)).isSome) ∧
    (∀ o, (s.callers c).pc = .rm o → (step s (.cRm c)).isSome) := by
  refine ⟨?_, ?_, ?_, ?_, ?_⟩
  · intro h; simp [step, h]
  · intro y h; simp [step, h]
  · intro h; simp [step, h]
  · intro o h; simp [step, h]
  · intro o h; simp [step, h]

/-- A call that goes through `handleCancel` returns the context's error. -/
theorem cancel_outcome (s s' : St) (c : Nat) (h : step s (.cCancelRec c) = some s') :
    (s'.callers c).pc = .fin (.err .ctx) := by
  simp only [step] at h
  split at h
  · injection h with h; subst h; simp
  · simp at h

/-- The cancellation frame carries the seqno of its call and follows the call
    frame on the wire (C13.cancel_after_call). -/
theorem cancel_follows_call (s : St) (hr : Reachable s) (y : Nat) (hy : y ∈ s.wlog)
    (hk : (s.sends y).kind = .cancel) (hsent : (s.callers (s.sends y).who).sent = true) :
    (s.sends y).seq = (s.callers (s.sends y).who).seq ∧
    ∃ x, (s.sends x).kind = .call ∧ (s.sends x).who = (s.sends y).who ∧
      ∃ i j : Nat, s.wlog[i]? = some x ∧ s.wlog[j]? = some y ∧ i < j := by
  have hA := OAll_reach s hr
  have hlt : y < s.nextSend := wlog_lt s hA.si hA.wi y (by simp [hy])
  refine ⟨(hA.o1.o1 y hlt (.inr hk)).1, ?_⟩
  obtain ⟨x, h1, h2, -, h4⟩ := C13.cancel_after_call s hr y hy hk hsent
  exact ⟨x, h1, h2, h4⟩

/-- A delivered cancellation cancels the context of exactly the handler
    registered under that seqno — which, because a handler is registered
    before the receive loop reads the next frame, is the handler of that very
    call if it is still running. -/
theorem cancel_reaches_handler (s s' : St) (hr : Reachable s) (q : Int) (h : Nat)
    (hr' : s.r = .canSel q) (ht : s.tasks q = some h) (hs : step s .rCanSend = some s') :
    (s'.handlers h).ctxCancelled = true ∧
    ∀ h', h' ≠ h → (s'.handlers h').ctxCancelled = (s.handlers h').ctxCancelled := by
  simp only [step, hr'] at hs
  split at hs
  · rename_i htl
    simp only [ht] at hs
    injection hs with hs; subst hs
    refine ⟨?_, ?_⟩
    · simp [cancelHandler_h_ctx]
    · intro h' hne; simp [cancelHandler_h_ctx, hne]
  · simp at hs

/-- A request is registered in the task table before its handler runs and
    before the receive loop reads another frame. -/
theorem task_registered_before_next_frame (s : St) (hr : Reachable s) (hp : C09.PeerSeqsDistinct s)
    (h : Nat) (hrun : (s.handlers h).pc = .run) (hnc : (s.handlers h).ctxCancelled = false) :
    s.tasks (s.handlers h).task = some h := by
  have hp' : PeerOK s.hist := ⟨hp.1, hp.2.1⟩
  exact (TInv_reach s hr hp').t4 h hrun hnc

end FmpRpc.C08
