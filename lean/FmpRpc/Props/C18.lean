import FmpRpc.Model.Remote
import FmpRpc.Proofs.RemoteLemmas
/-
  C18 — remote address rotation and address parsing are complete and stable.
  Concurrency: every method of the remote runs under its mutex (tie:
  `remote*Stmts`), so concurrent use is a sequence of these atomic operations.
-/
namespace FmpRpc.C18
open FmpRpc.R

/-- the invariant that keeps `toIterate[0][0]` defined -/
theorem getAddress_defined (r : Remote) (sh : List (List Str))
    (hi : GroupsNonEmpty r.toIterate) (hs : GroupsNonEmpty sh) (hne : sh ≠ []) :
    ∃ a r', getAddress r sh = some (a, r') ∧ GroupsNonEmpty r'.toIterate := by
  obtain ⟨he, hne'⟩ := effIt_nonEmpty r sh hi hs hne
  obtain ⟨a, g, gs, hit, hgs⟩ := nonEmpty_shape _ he hne'
  refine ⟨a, _, getAddress_of_eff r sh a g gs hit, ?_⟩
  show GroupsNonEmpty (prune (g :: gs))
  rw [prune_cons_rest g gs hgs]
  exact rest_nonEmpty g gs hgs

theorem peek_defined (r : Remote) (sh : List (List Str))
    (hi : GroupsNonEmpty r.toIterate) (hs : GroupsNonEmpty sh) (hne : sh ≠ []) :
    ∃ a r', peek r sh = some (a, r') ∧ GroupsNonEmpty r'.toIterate := by
  obtain ⟨he, hne'⟩ := effIt_nonEmpty r sh hi hs hne
  obtain ⟨a, g, gs, hit, hgs⟩ := nonEmpty_shape _ he hne'
  refine ⟨a, _, peek_of_eff r sh a g gs hit, ?_⟩
  show GroupsNonEmpty ((a :: g) :: gs)
  rw [← hit]; exact he

/-- **A full cycle**: from a freshly reset state with arrangement `sh` (all
    groups non-empty), the next `Σ|gᵢ|` calls of `GetAddress` return exactly
    `sh.flatten` — every address of the first group once, in the arrangement's
    order, then every address of the next group, and so on — and leave the
    iteration list empty, so that the next call starts over with a new
    arrangement. -/
theorem cycle_complete (r : Remote) (sh : List (List Str)) (shs : List (List (List Str)))
    (hs : GroupsNonEmpty sh) (hr : r.toIterate = sh) (hne : sh ≠ []) :
    ∃ r', getN sh.flatten.length r shs = some (sh.flatten, r') ∧ r'.toIterate = [] ∧
      r'.addresses = r.addresses := by
  exact getN_cycle _ sh r shs rfl hs hr

/-- each arrangement is, group by group, a permutation of the configured
    addresses: so a cycle hands out every address of a group exactly once -/
theorem shuffle_flatten_perm (addresses sh : List (List Str)) (h : IsShuffle addresses sh) :
    sh.flatten.Perm addresses.flatten ∧ sh.map List.length = addresses.map List.length := by
  exact isShuffle_perm addresses sh h

/-- **Peek names the address the next GetAddress returns and changes nothing
    observable**: after `Peek`, `GetAddress` returns the same address and the
    same successor state as it would have without the `Peek`. -/
theorem peek_is_next (r : Remote) (sh sh2 : List (List Str)) (a : Str) (r' : Remote)
    (hp : peek r sh = some (a, r')) (hs : GroupsNonEmpty sh) :
    getAddress r' sh2 = getAddress r sh ∧ (getAddress r sh).map (·.1) = some a := by
  obtain ⟨g, gs, hit, hr'⟩ := peek_some_inv r sh a r' hp
  subst hr'
  rw [getAddress_of_eff r sh a g gs hit,
    getAddress_of_eff _ sh2 a g gs (effIt_of_toIterate _ _ _ _ _ rfl)]
  exact ⟨rfl, rfl⟩

/-- `Reset` restarts from the first group of a new arrangement -/
theorem reset_restarts (r : Remote) (sh sh2 : List (List Str)) (a : Str) (g : List Str) (gs : List (List Str))
    (h : sh = (a :: g) :: gs) : (getAddress (reset r sh) sh2).map (·.1) = some a := by
  subst h
  rw [getAddress_of_eff _ sh2 a g gs (effIt_of_toIterate _ _ _ _ _ rfl)]
  rfl

/-- construction keeps exactly the non-blank addresses, normalised, drops
    empty groups, and fails iff none remain -/
theorem new_normalises (n : Norm) (groups sh : List (List Str)) :
    (new n groups sh = none ↔ clean n groups = []) ∧
    (∀ r, new n groups sh = some r → r.addresses = clean n groups ∧ GroupsNonEmpty r.addresses ∧
      ∀ g ∈ r.addresses, ∀ a ∈ g, a ≠ [] ∧ n.norm a = a) := by
  constructor
  · unfold new
    cases hc : clean n groups with
    | nil => simp
    | cons g gs => simp
  · intro r hr
    have hr' : r.addresses = clean n groups := by
      unfold new at hr
      simp only at hr
      split at hr
      · cases hr
      · cases hr; rfl
    refine ⟨hr', ?_, ?_⟩
    · intro g hg
      rw [hr'] at hg
      exact (clean_mem n groups g hg).1
    · intro g hg
      rw [hr'] at hg
      exact (clean_mem n groups g hg).2

theorem splitOn_join (sep : Char) (parts : List Str) (hne : parts ≠ [])
    (hs : ∀ p ∈ parts, sep ∉ p) : splitOn sep (join sep parts) = parts := by
  exact splitOn_join' sep parts hne hs

/-- **Parsing a remote's `String()` yields the same groups**, for addresses
    free of the separator characters (addresses of a constructed remote are
    already normalised and non-blank, `new_normalises`). -/
theorem parse_string_roundtrip (n : Norm) (r : Remote) (sh : List (List Str))
    (hg : GroupsNonEmpty r.addresses) (hne : r.addresses ≠ [])
    (hnorm : ∀ g ∈ r.addresses, ∀ a ∈ g, a ≠ [] ∧ n.norm a = a ∧ ',' ∉ a ∧ ';' ∉ a) :
    ∃ r', parse n (toStr r) sh = some r' ∧ r'.addresses = r.addresses := by
  exact ⟨_, parse_roundtrip n r sh hg hne hnorm, rfl⟩

/-- **URI rejection**: whenever the scheme is neither fmprpc nor fmprpc+tls,
    the authority has no port separator (or `SplitHostPort` fails otherwise),
    or the host is empty. -/
theorem uri_reject (up : Str → Option (Str × Str)) (s scheme hp : Str) (h : up s = some (scheme, hp)) :
    (scheme ≠ schemeStandard ∧ scheme ≠ schemeTLS → parseFMPURI up s = none) ∧
    (splitHostPort hp = none → parseFMPURI up s = none) ∧
    (lastIndex ':' hp = none → parseFMPURI up s = none) ∧
    (∀ port, splitHostPort hp = some ([], port) → parseFMPURI up s = none) := by
  have h2 : splitHostPort hp = none → parseFMPURI up s = none := by
    intro hsp
    unfold parseFMPURI
    simp only [h, hsp]
    split <;> rfl
  refine ⟨?_, h2, ?_, ?_⟩
  · intro hsch
    unfold parseFMPURI
    simp only [h]
    rw [if_neg (by intro hc; rcases hc with hc | hc; exact hsch.1 hc; exact hsch.2 hc)]
  · intro hli
    apply h2
    unfold splitHostPort
    rw [hli]
  · intro port hsp
    unfold parseFMPURI
    simp only [h, hsp]
    split <;> rfl

/-- every accepted URI reports TLS use exactly for the fmprpc+tls scheme -/
theorem uri_tls_iff (up : Str → Option (Str × Str)) (s : Str) (f : FMPURI) (h : parseFMPURI up s = some f) :
    (f.useTLS = true ↔ f.scheme = schemeTLS) ∧ (f.scheme = schemeStandard ∨ f.scheme = schemeTLS) ∧
    f.host ≠ [] ∧ ∃ port, splitHostPort f.hostPort = some (f.host, port) := by
  obtain ⟨_, hsch, hh, hp⟩ := parseFMPURI_some_inv up s f h
  exact ⟨by simp [FMPURI.useTLS], hsch, hh, hp⟩

/-- `String()` of an accepted URI parses back to an equal value, given that
    `url.Parse` returns the scheme and authority of `scheme://authority`
    (contract of net/url, validated by the correspondence run). -/
theorem uri_roundtrip (up : Str → Option (Str × Str)) (s : Str) (f : FMPURI)
    (h : parseFMPURI up s = some f)
    (hup : up f.toStr = some (f.scheme, f.hostPort)) :
    parseFMPURI up f.toStr = some f := by
  obtain ⟨_, hsch, hh, port, hp⟩ := parseFMPURI_some_inv up s f h
  exact parseFMPURI_of up f.toStr f.scheme f.hostPort f.host port hup hsch hp hh

end FmpRpc.C18
