import FmpRpc.Proofs.TransportInv
import FmpRpc.Proofs.TransportInvA4
import FmpRpc.Proofs.TransportInvA5
/-
  C01 — every call is answered by its own handler invocation, exactly once.
  Single-endpoint statements over every reachable state of `Model/Transport`
  (any number of concurrent callers / handlers, hostile peer); the end-to-end
  reading (argument and tags equal what the caller supplied) composes them
  with C02's round trip through the wire.
-/
namespace FmpRpc.C01
open FmpRpc.T

def issuedSeqs (h : List Evt) : List Int :=
  h.filterMap fun e => match e with | .issued _ q => some q | _ => none

/-- Sequence numbers of the calls issued on one transport are pairwise
    distinct, for the life of the transport. -/
theorem seq_distinct (s : St) (hr : Reachable s) : (issuedSeqs s.hist).Nodup :=
  (HInv_reach s hr).iss_nd

/-- A call frame reaches the writer only while the pending table maps its
    seqno to the issuing call (AddCall precedes the hand-off; removal only on
    the owner's way out). -/
theorem pending_before_wire (s s' : St) (hr : Reachable s) (x : Nat)
    (hs : step s (.wRecv x) = some s') (hk : (s.sends x).kind = .call) :
    s.pending (s.sends x).seq = some (s.sends x).who := by
  have hS := SInv_reach s hr
  have hC := CInv_reach s hr
  simp only [step] at hs
  split at hs
  · simp only [hk] at hs
    split at hs
    · rename_i hpc
      simp only [log, setSend] at hpc
      have h1 := hS.cHand _ _ hpc
      have h2 := hC.pend2 (s.sends x).who (by simp [hpc])
      rw [h1.2.2.2.2.2]; exact h2
    · simp at hs
  · simp at hs

/-- No caller ever observes another call's reply: the result buffer and the
    result slot of a call only ever receive responses that carry that call's
    own seqno — whatever the peer sends (duplicates, strays, any order). -/
theorem reply_routing (s : St) (hr : Reachable s) (c : Nat) :
    (∀ q, (s.callers c).bufSeq = some q → q = (s.callers c).seq) ∧
    (∀ q, (s.callers c).slotSeq = some q → q = (s.callers c).seq) := by
  have h := (CInv_reach s hr).loc c
  exact ⟨fun q hq => (h.bseq q hq).1, h.sseq⟩

/- FULL STATEMENT (does NOT hold of the code, see `result_is_own_counterexample`):

     theorem result_is_own … (h : (s.callers c).pc = .ret (.ok res ae)) :
       (s.callers c).bufSeq = some (s.callers c).seq ∧ res = (s.callers c).buf

   "a call that returns a result returns what is in its buffer".  The second
   half fails when the peer sends the reply twice: the second copy is looked up
   before the caller takes the first from its result channel and decoded
   after (the duplicated-reply form of the known finding C12-late-write).  What
   does hold is proved below: `result_is_own_corrected` (the buffer was last
   written by a response with the call's own seqno) and
   `result_taken_from_buffer` (the returned value is the buffer's content at
   the moment the reply is taken). -/

/-- the counterexample to the full statement: the peer sends the reply twice, the
    second copy is looked up before the caller takes the first from its result
    channel and decoded after -/
def dupTrace : List Act :=
  [.callStart 0, .cBegin 0, .cNew 0, .cAdd 0, .cEnc 0 true, .wRecv 0, .wNotify, .wWrite true, .wDone,
   .cSel1Err 0, .rDeliver (.resp 0 1 false), .rLookup, .rDecode, .rDeliverSlot,
   .rDeliver (.resp 0 2 false), .rLookup, .cSel2Res 0, .rDecode, .cFin 0, .cRm 0]

theorem result_is_own_counterexample :
    ∃ s, run init dupTrace = some s ∧ ∃ c res ae, (s.callers c).pc = .ret (.ok res ae) ∧
      res ≠ (s.callers c).buf := by
  have h : (run init dupTrace).map (fun s => ((s.callers 0).pc, (s.callers 0).buf)) =
      some (.ret (.ok 1 false), 2) := rfl
  cases hrun : run init dupTrace with
  | none => rw [hrun] at h; simp at h
  | some s =>
    rw [hrun] at h
    simp only [Option.map_some, Option.some.injEq, Prod.mk.injEq] at h
    exact ⟨s, rfl, 0, 1, false, h.1, by rw [h.2]; decide⟩

/-- CORRECTED `result_is_own`: the buffer of a call that returns a result was
    last written by a response carrying the call's own seqno, and the value
    returned is the content of the buffer at the moment the caller took the
    reply from its result channel (`cSel2Res`).  (The buffer itself may be
    overwritten afterwards by a duplicate of that response — C12.) -/
theorem result_is_own_corrected (s : St) (hr : Reachable s) (c : Nat) (res : Nat) (ae : Bool)
    (h : (s.callers c).pc = .ret (.ok res ae)) :
    (s.callers c).bufSeq = some (s.callers c).seq :=
  ((CInv_reach s hr).loc c).okb res ae (by simp [h])

theorem result_taken_from_buffer (s s' : St) (hr : Reachable s) (c : Nat)
    (hs : step s (.cSel2Res c) = some s') :
    ∃ ae, (s'.callers c).pc = .fin (.ok (s.callers c).buf ae) ∧
      (s.callers c).bufSeq = some (s.callers c).seq ∧ (s'.callers c).buf = (s.callers c).buf := by
  have hC := (CInv_reach s hr).loc c
  simp only [step] at hs
  split at hs
  · split at hs
    · rename_i v ae hsl
      injection hs with hs; subst hs
      exact ⟨ae, by simp, hC.slot _ hsl, by simp⟩
    · simp at hs
  · simp at hs

def invokedCount (h : List Evt) (hd : Nat) : Nat :=
  (h.filter fun e => match e with | .invoked h' _ _ => h' == hd | _ => false).length

/-- Each delivered request invokes its handler at most once, with the seqno
    and argument of that frame; a handler that is running was invoked exactly
    once. -/
theorem invoke_once (s : St) (hr : Reachable s) (hd : Nat) :
    invokedCount s.hist hd ≤ 1 ∧
    ((s.handlers hd).pc ≠ .absent → invokedCount s.hist hd = 1) ∧
    (∀ q a, Evt.invoked hd q a ∈ s.hist → q = (s.handlers hd).seq ∧ a = (s.handlers hd).arg) := by
  have hB := HBInv_reach s hr
  have hc : invokedCount s.hist hd = if (s.handlers hd).pc = .absent then 0 else 1 := hB.cnt hd
  refine ⟨?_, ?_, ?_⟩
  · rw [hc]; split <;> omega
  · intro hne; rw [hc, if_neg hne]
  · intro q a hm; exact (hB.inv hd q a hm).2

/-- At most one reply frame per invocation is ever handed to the writer, and
    the reply a handler sends carries the seqno of its request. -/
theorem one_reply (s : St) (hr : Reachable s) (hd : Nat) :
    (s.handlers hd).replies ≤ 1 ∧
    (∀ x, ((s.handlers hd).pc = .rHand x ∨ (s.handlers hd).pc = .rSel x) →
      (s.sends x).kind = .reply ∧ (s.sends x).seq = (s.handlers hd).seq ∧ (s.sends x).who = hd) := by
  have hA := (HAInv_reach s hr).loc hd
  have hS := SInv_reach s hr
  refine ⟨hA.2.1, ?_⟩
  rintro x (hpc | hpc)
  · have := hS.hHand hd x hpc
    exact ⟨this.2.2.1, this.2.2.2.2.2.1, this.2.2.2.1⟩
  · have := hS.hSel hd x hpc
    exact ⟨this.2.1, this.2.2.2, this.2.2.1⟩

end FmpRpc.C01
