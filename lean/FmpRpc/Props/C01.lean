import FmpRpc.Proofs.TransportInv
/-
  C01 — every call is answered by its own handler invocation, exactly once.
  Single-endpoint statements over every reachable state of `Model/Transport`
  (any number of concurrent callers / handlers, hostile peer); the end-to-end
  reading (argument and tags equal what the caller supplied) composes them
  with C02's round trip through the wire.
-/
namespace FmpRpc.C01
open FmpRpc.T

def issuedSeqs (h : List Evt) : List Int :=
  h.filterMap fun e => match e with | .issued _ q => some q | _ => none

/-- Sequence numbers of the calls issued on one transport are pairwise
    distinct, for the life of the transport. -/
theorem seq_distinct (s : St) (hr : Reachable s) : (issuedSeqs s.hist).Nodup := by
  sorry

/-- A call frame reaches the writer only while the pending table maps its
    seqno to the issuing call (AddCall precedes the hand-off; removal only on
    the owner's way out). -/
theorem pending_before_wire (s s' : St) (hr : Reachable s) (x : Nat)
    (hs : step s (.wRecv x) = some s') (hk : (s.sends x).kind = .call) :
    s.pending (s.sends x).seq = some (s.sends x).who := by
  sorry

/-- No caller ever observes another call's reply: the result buffer and the
    result slot of a call only ever receive responses that carry that call's
    own seqno — whatever the peer sends (duplicates, strays, any order). -/
theorem reply_routing (s : St) (hr : Reachable s) (c : Nat) :
    (∀ q, (s.callers c).bufSeq = some q → q = (s.callers c).seq) ∧
    (∀ q, (s.callers c).slotSeq = some q → q = (s.callers c).seq) := by
  sorry

/-- A call that returns a result returns what the response with its own seqno
    carried (the buffer it reads was last written by such a response). -/
theorem result_is_own (s : St) (hr : Reachable s) (c : Nat) (res : Nat) (ae : Bool)
    (h : (s.callers c).pc = .ret (.ok res ae)) :
    (s.callers c).bufSeq = some (s.callers c).seq ∧ res = (s.callers c).buf := by
  sorry

def invokedCount (h : List Evt) (hd : Nat) : Nat :=
  (h.filter fun e => match e with | .invoked h' _ _ => h' == hd | _ => false).length

/-- Each delivered request invokes its handler at most once, with the seqno
    and argument of that frame; a handler that is running was invoked exactly
    once. -/
theorem invoke_once (s : St) (hr : Reachable s) (hd : Nat) :
    invokedCount s.hist hd ≤ 1 ∧
    ((s.handlers hd).pc ≠ .absent → invokedCount s.hist hd = 1) ∧
    (∀ q a, Evt.invoked hd q a ∈ s.hist → q = (s.handlers hd).seq ∧ a = (s.handlers hd).arg) := by
  sorry

/-- At most one reply frame per invocation is ever handed to the writer, and
    the reply a handler sends carries the seqno of its request. -/
theorem one_reply (s : St) (hr : Reachable s) (hd : Nat) :
    (s.handlers hd).replies ≤ 1 ∧
    (∀ x, ((s.handlers hd).pc = .rHand x ∨ (s.handlers hd).pc = .rSel x) →
      (s.sends x).kind = .reply ∧ (s.sends x).seq = (s.handlers hd).seq ∧ (s.sends x).who = hd) := by
  sorry

end FmpRpc.C01
