import FmpRpc.Proofs.ReaderEq
/-
  C04 — decoding is independent of read chunking and resynchronises on every
  frame.  Property theorems only; lemmas live in `Proofs/ReaderEq`.
-/
namespace FmpRpc.C04
open FmpRpc

/-- Every way of splitting the incoming bytes across reads (down to one byte
    at a time, any chunk list whose concatenation is the stream) yields the
    same `NextFrame` result and leaves the same stream. -/
theorem nextFrame_chunk_indep (max : Nat) (ctx : Ctx) (cs : Chunks) :
    (nextFrameImpl max ctx cs).1 = (nextFrame max ctx cs.flatten).res ∧
    (nextFrameImpl max ctx cs).2.flatten = (nextFrame max ctx cs.flatten).rest :=
  nextFrameImpl_eq max ctx cs

/-- … and so does the whole receive loop: the same sequence of messages and
    errors, at the same stream positions, for all chunkings `cs₁`, `cs₂` of
    one stream. -/
theorem run_chunk_indep (max : Nat) (ctx : Ctx) (fuel : Nat) (cs₁ cs₂ : Chunks)
    (h : cs₁.flatten = cs₂.flatten) :
    (runLoopImpl max ctx fuel cs₁).map (fun st => (st.1, st.2.flatten)) =
      (runLoopImpl max ctx fuel cs₂).map (fun st => (st.1, st.2.flatten)) := by
  rw [runLoopImpl_eq, runLoopImpl_eq, h]

/-- A frame whose length prefix is acceptable and whose declared length is
    present in the stream is consumed exactly — whatever its content is
    (wrong header, invalid type, content shorter or longer than the array
    header implies, unknown method, undecodable field): the next frame is
    decoded from its first byte. -/
theorem consumes_declared_length (max : Nat) (ctx : Ctx) (s rest : Bytes) (l : Int)
    (hp : runStream (decIntBits 32) s = ⟨.ok l, rest⟩)
    (hlo : lenTooLow l = false) (hhi : lenTooHigh l max = false)
    (hlen : l.toNat ≤ rest.length) :
    (nextFrame max ctx s).rest = rest.drop l.toNat := by
  unfold nextFrame
  rw [hp]
  simp only [hlo, hhi, Bool.false_eq_true, if_false]
  obtain ⟨a1, a2⟩ := runFrame_then_drain Prog.byte l.toNat rest hlen
  revert a1 a2
  generalize runFrame Prog.byte l.toNat rest = x
  obtain ⟨⟨v, r⟩, rem1⟩ := x
  intro a1 a2
  simp only at a1 a2
  cases v with
  | error e => simp only []; rw [finishFrame_rest _ _ _ a1, a2]
  | ok nb =>
    simp only []
    split
    · rw [finishFrame_rest _ _ _ a1, a2]
    obtain ⟨b1, b2⟩ := runFrame_then_drain (decodeRPC ctx l.toNat (nb.toNat - 0x90)) rem1 r a1
    revert b1 b2
    generalize runFrame (decodeRPC ctx l.toNat (nb.toNat - 0x90)) rem1 r = y
    obtain ⟨⟨v', r'⟩, rem2⟩ := y
    intro b1 b2
    simp only at b1 b2
    cases v' with
    | error e => simp only []; rw [finishFrame_rest _ _ _ b1, b2, a2]
    | ok fr => simp only []; rw [finishFrame_rest _ _ _ b1, b2, a2]

/-- Each frame is decoded by a fresh decoder: the result of `NextFrame` is a
    function of the stream suffix and the endpoint context only (no state
    survives a frame boundary) — true by construction of `nextFrame`; stated
    for the implementation-level reader through `nextFrame_chunk_indep`. -/
theorem fresh_decoder (max : Nat) (ctx : Ctx) (cs₁ cs₂ : Chunks) (h : cs₁.flatten = cs₂.flatten) :
    (nextFrameImpl max ctx cs₁).1 = (nextFrameImpl max ctx cs₂).1 := by
  rw [(nextFrameImpl_eq max ctx cs₁).1, (nextFrameImpl_eq max ctx cs₂).1, h]

end FmpRpc.C04
