import FmpRpc.Proofs.TransportInv
/-
  C09 — a handler's context is cancelled only for its own cancellation or on
  close.  Hypothesis on the peer (spelled out, `PeerSeqsDistinct`): the seqnos
  of the calls it sends are non-negative and pairwise distinct — what this
  library's own client guarantees (C01.seq_distinct).  Notifications need no
  hypothesis (each gets its own task key since the fix commit).
-/
namespace FmpRpc.C09
open FmpRpc.T

def callSeqs (h : List Evt) : List Int :=
  h.filterMap fun e => match e with | .delivered (.call q true _) => some q | _ => none

def PeerSeqsDistinct (s : St) : Prop :=
  (callSeqs s.hist).Nodup ∧ (∀ q ∈ callSeqs s.hist, 0 ≤ q) ∧
  (∀ q, Evt.delivered (.cancel q) ∈ s.hist → 0 ≤ q)

/-- task keys of distinct handlers are distinct -/
theorem task_keys_distinct (s : St) (hr : Reachable s) (hp : PeerSeqsDistinct s) (h1 h2 : Nat)
    (hl1 : h1 < s.nextHandler) (hl2 : h2 < s.nextHandler) (hne : h1 ≠ h2) :
    (s.handlers h1).task ≠ (s.handlers h2).task := by
  sorry

/-- **Every cancellation of a handler's context has a legitimate cause**: a
    cancellation frame for its own seqno, the transport closing, or the end of
    that very handler — never the end or cancellation of another call or
    notification. -/
theorem cancel_justified (s : St) (hr : Reachable s) (hp : PeerSeqsDistinct s) (h : Nat)
    (hc : (s.handlers h).ctxCancelled = true) :
    ((s.handlers h).cause = .peerCancel ∧ (s.handlers h).isCall = true ∧
        Evt.delivered (.cancel (s.handlers h).seq) ∈ s.hist) ∨
    ((s.handlers h).cause = .closing ∧ s.rStop = true) ∨
    ((s.handlers h).cause = .ownEnd ∧ (s.handlers h).pc = .exited) := by
  sorry

/-- When the transport closes, the context of every handler still running is
    cancelled (every started, unfinished handler is in the task table when the
    task loop takes its stop arm). -/
theorem close_cancels_all (s : St) (hr : Reachable s) (hp : PeerSeqsDistinct s) (h : Nat)
    (hstop : s.taskLoop = false)
    (hrun : (s.handlers h).pc ≠ .absent ∧ (s.handlers h).pc ≠ .exited) :
    (s.handlers h).ctxCancelled = true := by
  sorry

end FmpRpc.C09
