import FmpRpc.Proofs.TransportInv
import FmpRpc.Props.PeerHyp
import FmpRpc.Proofs.TransportInvBH
/-
  C09 — a handler's context is cancelled only for its own cancellation or on
  close.  Hypothesis on the peer (spelled out, `PeerSeqsDistinct`): the seqnos
  of the calls it sends are non-negative and pairwise distinct — what this
  library's own client guarantees (C01.seq_distinct).  Notifications need no
  hypothesis (each gets its own task key since the fix commit).
-/
namespace FmpRpc.C09
open FmpRpc.T

/-- task keys of distinct handlers are distinct -/
theorem task_keys_distinct (s : St) (hr : Reachable s) (hp : PeerSeqsDistinct s) (h1 h2 : Nat)
    (hl1 : h1 < s.nextHandler) (hl2 : h2 < s.nextHandler) (hne : h1 ≠ h2) :
    (s.handlers h1).task ≠ (s.handlers h2).task := by
  have hp0 : PSD0 s := hp
  exact (PInv_reachable s hr (PSD_of_PSD0 s hp0)).dist h1 h2 hl1 hl2 hne

/-- **Every cancellation of a handler's context has a legitimate cause**: a
    cancellation frame for its own seqno, the transport closing, or the end of
    that very handler — never the end or cancellation of another call or
    notification. -/
theorem cancel_justified (s : St) (hr : Reachable s) (hp : PeerSeqsDistinct s) (h : Nat)
    (hc : (s.handlers h).ctxCancelled = true) :
    ((s.handlers h).cause = .peerCancel ∧ (s.handlers h).isCall = true ∧
        Evt.delivered (.cancel (s.handlers h).seq) ∈ s.hist) ∨
    ((s.handlers h).cause = .closing ∧ s.rStop = true) ∨
    ((s.handlers h).cause = .ownEnd ∧ (s.handlers h).pc = .exited) := by
  have hp0 : PSD0 s := hp
  rcases (PInv_reachable s hr (PSD_of_PSD0 s hp0)).just h hc with ⟨a, b, c⟩ | h2 | h3
  · exact Or.inl ⟨a, b, (mem_delivs _ _).mp c⟩
  · exact Or.inr (Or.inl h2)
  · exact Or.inr (Or.inr h3)

/-- When the transport closes, the context of every handler still running is
    cancelled (every started, unfinished handler is in the task table when the
    task loop takes its stop arm). -/
theorem close_cancels_all (s : St) (hr : Reachable s) (hp : PeerSeqsDistinct s) (h : Nat)
    (hstop : s.taskLoop = false)
    (hrun : (s.handlers h).pc ≠ .absent ∧ (s.handlers h).pc ≠ .exited) :
    (s.handlers h).ctxCancelled = true := by
  have hp0 : PSD0 s := hp
  exact (PInv_reachable s hr (PSD_of_PSD0 s hp0)).stopped hstop h (Or.inl hrun)

end FmpRpc.C09
