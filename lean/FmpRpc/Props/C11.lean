import FmpRpc.Proofs.TransportInv
import FmpRpc.Proofs.TransportInvBL
import FmpRpc.Proofs.TransportInvBS6
import FmpRpc.Proofs.TransportInvBC
import FmpRpc.Proofs.TransportInvBH
/-
  C11 — closing a transport releases every goroutine and table entry.
-/
namespace FmpRpc.C11
open FmpRpc.T

/-- the call is between AddCall and RemoveCall -/
def inTable : CPc → Bool
  | .enc | .hand _ | .sel1 _ | .sel2 | .cEnc | .cHand _ | .cPoll _ | .cRec | .fin _ | .rm _ => true
  | _ => false

/-- **The table of pending calls holds exactly the calls that are still
    outstanding**: every completed, failed or cancelled call has been removed
    by the time the call returns — for all histories, whatever the peer
    sends. -/
theorem pending_exact (s : St) (hr : Reachable s) (q : Int) (c : Nat) :
    s.pending q = some c ↔ ((s.callers c).seq = q ∧ inTable (s.callers c).pc = true) := by
  have h := (CInv_reachable s hr).pend q c
  have e : inTable = inTab := by funext p; cases p <;> rfl
  rw [e]; exact h

/-- in particular: a call that has returned is not in the table -/
theorem returned_call_removed (s : St) (hr : Reachable s) (c : Nat) (o : Out)
    (h : (s.callers c).pc = .ret o) : ∀ q, s.pending q ≠ some c := by
  intro q hq
  have h1 := (pending_exact s hr q c).mp hq
  simp [h, inTable] at h1

/-- **A call whose argument cannot be compressed is removed as well.**
    `dispatch.Call` returns the `compressData` error with `RemoveCall` — and
    nothing else — deferred (`cCompressFail`, after `AddCall`).  At that point
    the call is still in the table; the only step that moves the caller on is
    its deferred `RemoveCall` (`cRm`), which is enabled whatever the rest of the
    endpoint does, returns the compression error and leaves no entry for the
    call: neither under its own seqno nor anywhere else in the table (so the
    `.ret` states reached through this path are covered by
    `returned_call_removed` / `pending_exact` like all others). -/
theorem compress_failure_removes_the_call (s s' : St) (hr : Reachable s) (c : Nat)
    (hs : step s (.cCompressFail c) = some s') :
    (s'.callers c).pc = .rm (.err .toobig) ∧ (s'.callers c).seq = (s.callers c).seq ∧
    s'.pending (s.callers c).seq = some c ∧
    (∀ a s'', step s' a = some s'' → (s''.callers c).pc = (s'.callers c).pc ∨ a = .cRm c) ∧
    ∃ s'', step s' (.cRm c) = some s'' ∧ (s''.callers c).pc = .ret (.err .toobig) ∧
      s''.pending (s.callers c).seq = none ∧ ∀ q, s''.pending q ≠ some c := by
  have hr' : Reachable s' := Reachable.step s s' _ hr hs
  have h0 : (s.callers c).pc = .enc ∧ (s'.callers c).pc = .rm (.err .toobig) ∧
      (s'.callers c).seq = (s.callers c).seq ∧ s'.pending = s.pending := by
    simp only [step] at hs
    split at hs
    · rename_i hpc
      injection hs with hs; subst hs
      simp [hpc, setCaller]
    · simp at hs
  obtain ⟨hpc, hpc', hseq, hpend⟩ := h0
  refine ⟨hpc', hseq, ?_, ?_, ?_⟩
  · rw [hpend]
    exact (pending_exact s hr _ c).mpr ⟨rfl, by simp [hpc, inTable]⟩
  · intro a s'' hs''
    rw [hpc']
    exact rm_only_cRm s' s'' a c _ hpc' hs''
  · obtain ⟨s'', h1, h2, -, h4⟩ := cRm_eff s' c _ hpc'
    refine ⟨s'', h1, h2, ?_, ?_⟩
    · rw [← hseq]; exact h4
    · exact returned_call_removed s'' (Reachable.step s' s'' _ hr' h1) c _ h2

/-- the task table holds only handlers that were registered, under their own
    key, and — until the stop is initiated — have been started and not ended -/
theorem tasks_exact (s : St) (hr : Reachable s) (q : Int) (h : Nat) (ht : s.tasks q = some h) :
    (s.handlers h).task = q ∧ h < s.nextHandler ∧
    (s.rStop = false → (s.handlers h).pc ≠ .exited) := by
  have h1 := (HInv_reachable s hr).tasksOK q h ht
  refine ⟨h1.1, h1.2.1, fun hs he => ?_⟩
  have := h1.2.2 he
  simp [hs] at this

/-- library-internal steps (everything except what the user and the peer
    decide); a read on a closed connection fails, so `rFatal` counts as
    internal once the connection is closed -/
def internalEnabled (s : St) : Prop :=
  (∃ c, (step s (.cBegin c)).isSome ∨ (step s (.cNew c)).isSome ∨ (step s (.cAdd c)).isSome ∨
      (step s (.cEnc c true)).isSome ∨ (step s (.cHandDone c)).isSome ∨ (step s (.cHandCtx c)).isSome ∨
      (step s (.cSel1Err c)).isSome ∨ (step s (.cSel1Ctx c)).isSome ∨ (step s (.cSel1Stop c)).isSome ∨
      (step s (.cSel2Res c)).isSome ∨ (step s (.cSel2Ctx c)).isSome ∨ (step s (.cSel2Stop c)).isSome ∨
      (step s (.cCancelEnc c)).isSome ∨ (step s (.cCancelDone c)).isSome ∨ (step s (.cCancelAsync c)).isSome ∨
      (step s (.cPoll c)).isSome ∨ (step s (.cCancelRec c)).isSome ∨ (step s (.cFin c)).isSome ∨
      (step s (.cRm c)).isSome) ∨
  (∃ n, (step s (.nBegin n)).isSome ∨ (step s (.nEnc n true)).isSome ∨ (step s (.nHandDone n)).isSome ∨
      (step s (.nHandCtx n)).isSome ∨ (step s (.nSelErr n)).isSome ∨ (step s (.nSelStop n)).isSome ∨
      (step s (.nSelCtx n)).isSome ∨ (step s (.nFin n)).isSome) ∨
  (∃ x, (step s (.wRecv x)).isSome ∨ (step s (.aDone x)).isSome) ∨
  (step s .wNotify).isSome ∨ (step s (.wWrite false)).isSome ∨ (step s .wDone).isSome ∨ (step s .wStop).isSome ∨
  (step s .rLookup).isSome ∨ (step s .rDecode).isSome ∨ (step s .rDeliverSlot).isSome ∨
  (step s .rNfEnc).isSome ∨ (step s .rNfHandDone).isSome ∨ (step s .rNfSel).isSome ∨
  (step s .rBegSend).isSome ∨ (step s .rBegStop).isSome ∨ (step s .rSpawn).isSome ∨
  (step s .rCanSend).isSome ∨ (step s .rCanStop).isSome ∨ (step s .rCloseDone).isSome ∨
  (s.connClosed = true ∧ (step s .rFatal).isSome) ∨
  (∃ h, (step s (.hEnc h true)).isSome ∨ (step s (.hHandDone h)).isSome ∨ (step s (.hHandCtx h)).isSome ∨
      (step s (.hSelErr h)).isSome ∨ (step s (.hSelCtx h)).isSome ∨ (step s (.hFin h)).isSome ∨
      (step s (.hEndSend h)).isSome ∨ (step s (.hEndStop h)).isSome) ∨
  (step s .tStop).isSome ∨
  (∃ k, (step s (.kEnter k)).isSome ∨ (step s (.kWake k)).isSome ∨ (step s (.kStep k)).isSome)

/-- nothing inside the library can move any more -/
def Quiescent (s : St) : Prop := ¬ internalEnabled s

/-- **No goroutine is left**: in every quiescent state in which `Close` has
    completed and every handler function has returned, the writer, the task
    loop, the receive loop, every handler goroutine and every asynchronous
    cancel sender have exited — whatever point the close or failure hit. -/
theorem no_leak (s : St) (hr : Reachable s) (hclosed : s.once = .done) (hq : Quiescent s)
    (hh : ∀ h, (s.handlers h).pc ≠ .run) :
    s.w = .exited ∧ s.taskLoop = false ∧ (s.r = .idle ∨ s.r = .exited) ∧
    (∀ h, (s.handlers h).pc = .absent ∨ (s.handlers h).pc = .exited) ∧
    (∀ y, (s.sends y).async = true → (s.sends y).st = .completed) := by
  have hK := KInv_reachable s hr
  have hS := SInv_reachable s hr
  obtain ⟨f1, f2, f3, f4, f5, f6, f7, f8, f9, f10⟩ := hK.done_flags hclosed
  simp only [Quiescent, internalEnabled, not_or, not_exists, not_and] at hq
  obtain ⟨hqc, hqn, hqx, q1, q2, q3, q4, q5, q6, q7, q8, q9, q10, q11, q12, q13, q14, q15, q16, q17, hqh, q18, hqk⟩ := hq
  refine ⟨f10, f9, ?_, fun h => ?_, fun y hy => ?_⟩
  · have hk0 := hqk 0
    rcases r_progress s hK hS hclosed with h | h | h | h | h | h | h | h | h | h | h | h | h | h | h
    all_goals first | exact Or.inl h | exact Or.inr h | (exfalso; simp_all)
  · have hh1 := hqh h
    have hh2 := hh h
    rcases h_progress s hK hS hclosed h with h' | h' | h' | h' | h' | h' | h' | h'
    all_goals first | exact Or.inl h' | exact Or.inr h' | (exfalso; simp_all)
  · have hx := hqx y
    rcases a_progress s hK hS hclosed y hy with h' | h'
    · exact h'
    · exfalso; simp_all

/-- … and every caller and notifier has returned -/
theorem no_api_call_left (s : St) (hr : Reachable s) (hclosed : s.once = .done) (hq : Quiescent s) (c n : Nat) :
    ((s.callers c).pc = .absent ∨ ∃ o, (s.callers c).pc = .ret o) ∧
    ((s.notifiers n).pc = .absent ∨ ∃ o, (s.notifiers n).pc = .ret o) := by
  have hK := KInv_reachable s hr
  simp only [Quiescent, internalEnabled, not_or, not_exists, not_and] at hq
  obtain ⟨hqc, hqn, _⟩ := hq
  have hc := hqc c
  have hn := hqn n
  refine ⟨?_, ?_⟩
  · rcases c_progress s hK hclosed c with h | h | h | h | h | h | h | h | h | h | h | h | h | h | h
    all_goals first | exact Or.inl h | exact Or.inr h | (exfalso; simp_all)
  · rcases n_progress s hK hclosed n with h | h | h | h | h | h | h
    all_goals first | exact Or.inl h | exact Or.inr h | (exfalso; simp_all)

end FmpRpc.C11
