import FmpRpc.Model.Tags
import FmpRpc.Model.Msg
import FmpRpc.Proofs.TagsLemmas
/-
  C19 — RPC tags travel with the call and contexts are never mutated.
-/
namespace FmpRpc.C19
open FmpRpc.Tg

/-- a world in which no object bound in a context is reachable from the user -/
def NoAlias (w : World) : Prop :=
  ∀ c o, w.ctxs.getD c none = some o → o ∉ w.userRefs

def WellFormed (w : World) : Prop :=
  (∀ o ∈ w.userRefs, o < w.heap.length) ∧ (∀ c o, w.ctxs.getD c none = some o → o < w.heap.length)

/-- **No aliasing, ever**: whatever sequence of additions, reads and user
    mutations, the map bound inside a context is never one the user holds
    (the add copies before extending, the read returns a copy). -/
theorem no_alias (ops : List Op) :
    NoAlias (ops.foldl apply World.init) ∧ WellFormed (ops.foldl apply World.init) := by
  exact inv_foldl ops World.init inv_init.1 inv_init.2

/-- **Persistence**: no operation ever changes the tags seen through an
    existing context. -/
theorem add_is_persistent (w : World) (hn : NoAlias w) (hw : WellFormed w) (op : Op) (c : Nat)
    (hc : c < w.ctxs.length) : tagsOf (apply w op) c = tagsOf w c := by
  exact persistent w hn hw op c hc

/-- adding returns a NEW context whose tags are the old ones overridden by
    the added ones -/
theorem add_result (w : World) (hn : NoAlias w) (hw : WellFormed w) (ctx t : Nat)
    (ht : t ∈ w.userRefs) (hc : ctx < w.ctxs.length) :
    let r := addTags w ctx t
    r.2 = w.ctxs.length ∧
    tagsOf r.1 r.2 = some (((tagsOf w ctx).getD []).merge (w.obj t)) := by
  exact add_result' w ctx t (hw.1 t ht)

/-- a map read out is a copy: equal content, fresh identity -/
theorem read_is_copy (w : World) (hw : WellFormed w) (ctx : Nat) (o : Nat)
    (h : (tagsFromContext w ctx).2 = some o) :
    o = w.heap.length ∧ some ((tagsFromContext w ctx).1.obj o) = tagsOf w ctx := by
  exact read_is_copy' w ctx o h

open FmpRpc in
/-- **Tags on the wire**: the tag map is appended as the last element iff it
    is non-empty, for calls, compressed calls and notifications; a call made
    without tags carries none. -/
theorem tags_on_wire (seq ct : Int) (name : Bytes) (arg : Value) (t : Option Tags) :
    layout (.call seq name arg t) = [.int 0, .int seq, .str name, arg] ++ tagTail t ∧
    layout (.callc seq ct name arg t) = [.int 4, .int seq, .int ct, .str name, arg] ++ tagTail t ∧
    layout (.notify name arg t) = [.int 2, .str name, arg] ++ tagTail t ∧
    (tagTail t = [] ↔ (t = none ∨ t = some [])) ∧
    (∀ ts, t = some ts → ts ≠ [] → tagTail t = [tagsValue ts]) := by
  refine ⟨rfl, rfl, rfl, ?_, ?_⟩
  · cases t with
    | none => simp [tagTail]
    | some ts => cases ts <;> simp [tagTail]
  · intro ts hts hne
    subst hts
    cases ts with
    | nil => exact absurd rfl hne
    | cons a l => rfl

end FmpRpc.C19
