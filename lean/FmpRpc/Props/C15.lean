import FmpRpc.Model.Conn
import FmpRpc.Proofs.ConnInv
/-
  C15 — a command runs only on an established connection and is retried
  exactly when due.
-/
namespace FmpRpc.C15
open FmpRpc.Cn

/-- **A published client always belongs to a transport whose OnConnect
    succeeded**, and a waiter is told "connected" only when a client is
    published — so every execution of a command receives such a client. -/
theorem runs_with_published_client (fi : Bool) (s : St) (hr : Reachable fi s) :
    (∀ x, s.client = some x → Evt.onConnectOk x ∈ s.hist ∧ s.xpRegistered x = true) ∧
    (∀ w, (s.waiters w).pc = .ret none → s.client ≠ none) := by
  have h := CInv.reach hr
  exact ⟨h.cli, h.wok⟩

/-- once published, a client is never unpublished -/
theorem client_stays (s s' : St) (a : Act) (hs : step s a = some s') (h : s.client ≠ none) : s'.client ≠ none := by
  cases a <;> simp only [step] at hs
  all_goals (repeat' split at hs)
  all_goals (try cases hs)
  all_goals (simp only [setSeq, setWaiter, log, getReconnectChan] at * <;> grind)

/-- **Retry exactly when due** — the decision `DoCommand` takes after one
    execution: success is returned; an error the handler classifies retriable
    is re-run after the command backoff with one notification (or returned
    unchanged when the policy stops); io.EOF otherwise waits for the connection
    and runs again; every other outcome is returned unchanged. -/
theorem retry_exactly_when_due (out : CmdOut) (sr stop : Bool) :
    (out = .ok → afterExec out sr stop = .returnNil) ∧
    (out ≠ .ok → sr = true → stop = false → afterExec out sr stop = .backoffThenRerun) ∧
    (out ≠ .ok → sr = true → stop = true → afterExec out sr stop = .returnErr out) ∧
    (out = .eof → sr = false → afterExec out sr stop = .waitForConnectionThenRerun) ∧
    (out = .other → sr = false → afterExec out sr stop = .returnErr .other) ∧
    (out = .retriable → sr = false → afterExec out sr stop = .returnErr .retriable) := by
  cases out <;> cases sr <;> cases stop <;> simp [afterExec]

/-- **The wait is interruptible**: a waiter whose context has ended can return
    at once with the context's error, whatever the sequence is doing. -/
theorem wait_interruptible (s : St) (w sid : Nat) (h : (s.waiters w).pc = .waiting sid)
    (hc : (s.waiters w).ctxDone = true) :
    ∃ s', step s (.wCtxRet w) = some s' ∧ (s'.waiters w).pc = .ret (some .ctx) := by
  simp [step, h, hc, setWaiter, log]

/-- a connect failure the handler declares non-retriable (or a fatal one) ends
    the sequence with that very error in the slot the waiters read -/
theorem nonretriable_connect_error_returned (s s' : St) (i : Nat) (e : CErr)
    (hp : (s.seqs i).pc = .attemptEnd (some e)) (hn : (s.seqs i).ctxCancelled = false)
    (hs : step s (.sAttemptEnd i false) = some s') :
    (s'.seqs i).pc = .release ∧ (s'.seqs i).errSlot = some e := by
  simp only [step, hp, hn] at hs
  cases e with
  | dial f => cases f <;> simp at hs <;> cases hs <;> simp [setSeq]
  | _ => simp at hs <;> cases hs <;> simp [setSeq]

end FmpRpc.C15
