import FmpRpc.Proofs.TransportInv
import FmpRpc.Proofs.TransportInvBK
/-
  C10 — no caller or closer blocks for ever when the connection dies or is
  closed.  "Bounded time" is bounded model steps: every wait has an enabled
  step once the stop has been initiated, and `Close` only waits for goroutines
  that themselves always have an enabled step.  (Not expressible in this
  model: `Close` called from the send-notifier callback, i.e. on the writer
  goroutine itself — closers are goroutines of their own here; recorded as a
  known finding.)
-/
namespace FmpRpc.C10
open FmpRpc.T

/-- the stop has fully propagated: `Close` went past closing the encoder -/
def Stopped (s : St) : Prop := s.dStop = true ∧ s.rStop = true ∧ s.encDone = true

/-- A blocked call has an enabled step of its own once the transport stopped,
    and that step makes it return io.EOF, its context's error or the send's
    own result. -/
theorem stopped_call_not_blocked (s : St) (hr : Reachable s) (hst : Stopped s) (c : Nat) :
    (∀ x, (s.callers c).pc = .hand x → (step s (.cHandDone c)).isSome) ∧
    (∀ x, (s.callers c).pc = .sel1 x → (step s (.cSel1Stop c)).isSome) ∧
    ((s.callers c).pc = .sel2 → (step s (.cSel2Stop c)).isSome) ∧
    (∀ y, (s.callers c).pc = .cHand y → (step s (.cCancelDone c)).isSome) := by
  obtain ⟨hd, hr', he⟩ := hst
  refine ⟨fun x h => ?_, fun x h => ?_, fun h => ?_, fun y h => ?_⟩ <;> simp [step, h, hd, he]

theorem stopped_notify_not_blocked (s : St) (hr : Reachable s) (hst : Stopped s) (n : Nat) :
    (∀ x, (s.notifiers n).pc = .hand x → (step s (.nHandDone n)).isSome) ∧
    (∀ x, (s.notifiers n).pc = .sel x → (step s (.nSelStop n)).isSome) := by
  obtain ⟨hd, hr', he⟩ := hst
  refine ⟨fun x h => ?_, fun x h => ?_⟩ <;> simp [step, h, hd, he]

/-- A reply blocked in its hand-off leaves through the closed encoder. -/
theorem stopped_reply_not_blocked (s : St) (hr : Reachable s) (hst : Stopped s) (h : Nat) :
    ∀ x, (s.handlers h).pc = .rHand x → (step s (.hHandDone h)).isSome := by
  obtain ⟨hd, hr', he⟩ := hst
  intro x h
  simp [step, h, he]

/-- What a stopped call returns: io.EOF (or what it already had). -/
theorem stop_returns_eof (s s' : St) (c : Nat) (h : step s (.cSel2Stop c) = some s') :
    (s'.callers c).pc = .fin (.err .eof) := by
  simp only [step] at h
  split at h
  · injection h with h; subst h
    simp [returnCaller, setCaller]
  · cases h

/-- Once the transport has stopped, further calls and notifications fail
    immediately with io.EOF without touching the writer or the tables. -/
theorem after_stop_eof (s s' : St) (c : Nat) (hstop : s.stopCh = true) (h : step s (.cBegin c) = some s') :
    (s'.callers c).pc = .ret (.err .eof) ∧ s'.pending = s.pending ∧ s'.sends = s.sends ∧ s'.w = s.w ∧
    s'.nextSeq = s.nextSeq := by
  simp only [step] at h
  (repeat' split at h) <;>
    first | (cases h; done) | (injection h with h; subst h; simp_all [setCaller, log])

theorem after_stop_eof_notify (s s' : St) (n : Nat) (hstop : s.stopCh = true) (h : step s (.nBegin n) = some s') :
    (s'.notifiers n).pc = .ret (.err .eof) ∧ s'.sends = s.sends ∧ s'.w = s.w := by
  simp only [step] at h
  (repeat' split at h) <;>
    first | (cases h; done) | (injection h with h; subst h; simp_all [setNotifier, log])

/-- steps of the writer goroutine -/
def writerActs (s : St) : List Act :=
  match s.w with
  | .idle => [.wStop]
  | .got _ => [.wNotify]
  | .writing _ => [.wWrite false]
  | .wrote _ _ => [.wDone]
  | .exited => []

/-- **Close terminates**: its first wait is for the task loop, which can take
    its stop arm as soon as `rStop` is set; its second for the writer, which
    after `doneCh` and the connection are closed always has an enabled step
    until it has exited. -/
theorem close_waits_only_for_live_goroutines (s : St) (hr : Reachable s) (k : Nat) :
    ((s.closers k).pc = .waitTask → s.rClosed = true ∨ (step s .tStop).isSome) ∧
    ((s.closers k).pc = .waitWriter → s.encClosed = true ∨ ∃ a ∈ writerActs s, (step s a).isSome) := by
  have hi := KInv_reachable s hr
  refine ⟨fun h => ?_, fun h => ?_⟩
  · have h1 := hi.body k (by simp [h, bodyPc])
    have h2 : s.rStop = true := hi.fR.mpr (by simp [lvl, h1, h, klevel])
    have h3 := hi.rcT
    cases ht : s.taskLoop
    · left; simp [h3, ht]
    · right; simp [step, ht, h2]
  · have h1 := hi.body k (by simp [h, bodyPc])
    have h2 : s.encDone = true := hi.fEnc.mpr (by simp [lvl, h1, h, klevel])
    have h3 : s.connClosed = true := hi.fConn.mpr (by simp [lvl, h1, h, klevel])
    cases hw : s.w
    · right; exact ⟨.wStop, by simp [writerActs, hw], by simp [step, hw, h2]⟩
    · right; exact ⟨.wNotify, by simp [writerActs, hw], by simp only [step, hw]; split <;> simp⟩
    · right; exact ⟨.wWrite false, by simp [writerActs, hw], by simp [step, hw]⟩
    · right; exact ⟨.wDone, by simp [writerActs, hw], by simp [step, hw]⟩
    · left; exact hi.ecW.mpr hw

/-- Every step of `Close` other than the two waits is always enabled. -/
theorem close_steps_enabled (s : St) (k : Nat) (pc : KPc) (h : (s.closers k).pc = pc)
    (hp : pc = .setErr ∨ pc = .stop ∨ pc = .dstop ∨ pc = .rstop ∨ pc = .encClose ∨ pc = .connClose) :
    (step s (.kStep k)).isSome := by
  subst h
  rcases hp with h | h | h | h | h | h <;> simp [step, h]

/-- Repeated / raced Close: only one closer is ever inside the once; the
    others wait for it and return when it is done; a Close after that returns
    at once. -/
theorem close_idempotent (s : St) (hr : Reachable s) :
    (∀ k, (s.closers k).pc = .waitOnce → s.once ≠ .idle) ∧
    (∀ k1 k2, s.once = .running k1 → (s.closers k2).pc ∈
        [KPc.setErr, .stop, .dstop, .rstop, .waitTask, .encClose, .connClose, .waitWriter] → k2 = k1) ∧
    (s.once = .done → ∀ k, (s.closers k).pc = .enter → ∃ s', step s (.kEnter k) = some s' ∧ (s'.closers k).pc = .done) := by
  have hi := KInv_reachable s hr
  refine ⟨fun k h => hi.waitOnce k h, fun k1 k2 h1 h2 => ?_, fun hd k h => ?_⟩
  · have h3 := hi.body k2 (by
      simp only [List.mem_cons, List.mem_nil_iff, or_false] at h2
      rcases h2 with h | h | h | h | h | h | h | h <;> simp [h, bodyPc])
    rw [h1] at h3
    injection h3 with h3; exact h3.symm
  · simp [step, h, hd, setCloser]

end FmpRpc.C10
