import FmpRpc.Proofs.TransportInv
/-
  C10 — no caller or closer blocks for ever when the connection dies or is
  closed.  "Bounded time" is bounded model steps: every wait has an enabled
  step once the stop has been initiated, and `Close` only waits for goroutines
  that themselves always have an enabled step.  (Not expressible in this
  model: `Close` called from the send-notifier callback, i.e. on the writer
  goroutine itself — closers are goroutines of their own here; recorded as a
  known finding.)
-/
namespace FmpRpc.C10
open FmpRpc.T

/-- the stop has fully propagated: `Close` went past closing the encoder -/
def Stopped (s : St) : Prop := s.dStop = true ∧ s.rStop = true ∧ s.encDone = true

/-- A blocked call has an enabled step of its own once the transport stopped,
    and that step makes it return io.EOF, its context's error or the send's
    own result. -/
theorem stopped_call_not_blocked (s : St) (hr : Reachable s) (hst : Stopped s) (c : Nat) :
    (∀ x, (s.callers c).pc = .hand x → (step s (.cHandDone c)).isSome) ∧
    (∀ x, (s.callers c).pc = .sel1 x → (step s (.cSel1Stop c)).isSome) ∧
    ((s.callers c).pc = .sel2 → (step s (.cSel2Stop c)).isSome) ∧
    (∀ y, (s.callers c).pc = .cHand y → (step s (.cCancelDone c)).isSome) := by
  sorry

theorem stopped_notify_not_blocked (s : St) (hr : Reachable s) (hst : Stopped s) (n : Nat) :
    (∀ x, (s.notifiers n).pc = .hand x → (step s (.nHandDone n)).isSome) ∧
    (∀ x, (s.notifiers n).pc = .sel x → (step s (.nSelStop n)).isSome) := by
  sorry

/-- A reply blocked in its hand-off leaves through the closed encoder. -/
theorem stopped_reply_not_blocked (s : St) (hr : Reachable s) (hst : Stopped s) (h : Nat) :
    ∀ x, (s.handlers h).pc = .rHand x → (step s (.hHandDone h)).isSome := by
  sorry

/-- What a stopped call returns: io.EOF (or what it already had). -/
theorem stop_returns_eof (s s' : St) (c : Nat) (h : step s (.cSel2Stop c) = some s') :
    (s'.callers c).pc = .fin (.err .eof) := by
  sorry

/-- Once the transport has stopped, further calls and notifications fail
    immediately with io.EOF without touching the writer or the tables. -/
theorem after_stop_eof (s s' : St) (c : Nat) (hstop : s.stopCh = true) (h : step s (.cBegin c) = some s') :
    (s'.callers c).pc = .ret (.err .eof) ∧ s'.pending = s.pending ∧ s'.sends = s.sends ∧ s'.w = s.w ∧
    s'.nextSeq = s.nextSeq := by
  sorry

theorem after_stop_eof_notify (s s' : St) (n : Nat) (hstop : s.stopCh = true) (h : step s (.nBegin n) = some s') :
    (s'.notifiers n).pc = .ret (.err .eof) ∧ s'.sends = s.sends ∧ s'.w = s.w := by
  sorry

/-- steps of the writer goroutine -/
def writerActs (s : St) : List Act :=
  match s.w with
  | .idle => [.wStop]
  | .got _ => [.wNotify]
  | .writing _ => [.wWrite false]
  | .wrote _ _ => [.wDone]
  | .exited => []

/-- **Close terminates**: its first wait is for the task loop, which can take
    its stop arm as soon as `rStop` is set; its second for the writer, which
    after `doneCh` and the connection are closed always has an enabled step
    until it has exited. -/
theorem close_waits_only_for_live_goroutines (s : St) (hr : Reachable s) (k : Nat) :
    ((s.closers k).pc = .waitTask → s.rClosed = true ∨ (step s .tStop).isSome) ∧
    ((s.closers k).pc = .waitWriter → s.encClosed = true ∨ ∃ a ∈ writerActs s, (step s a).isSome) := by
  sorry

/-- Every step of `Close` other than the two waits is always enabled. -/
theorem close_steps_enabled (s : St) (k : Nat) (pc : KPc) (h : (s.closers k).pc = pc)
    (hp : pc = .setErr ∨ pc = .stop ∨ pc = .dstop ∨ pc = .rstop ∨ pc = .encClose ∨ pc = .connClose) :
    (step s (.kStep k)).isSome := by
  sorry

/-- Repeated / raced Close: only one closer is ever inside the once; the
    others wait for it and return when it is done; a Close after that returns
    at once. -/
theorem close_idempotent (s : St) (hr : Reachable s) :
    (∀ k, (s.closers k).pc = .waitOnce → s.once ≠ .idle) ∧
    (∀ k1 k2, s.once = .running k1 → (s.closers k2).pc ∈
        [KPc.setErr, .stop, .dstop, .rstop, .waitTask, .encClose, .connClose, .waitWriter] → k2 = k1) ∧
    (s.once = .done → ∀ k, (s.closers k).pc = .enter → ∃ s', step s (.kEnter k) = some s' ∧ (s'.closers k).pc = .done) := by
  sorry

end FmpRpc.C10
