import FmpRpc.Model.Transport
/-
  The hypothesis on the peer used by C08 / C09: the seqnos of the calls it
  sends are non-negative and pairwise distinct, and it only cancels such
  seqnos — what this library's own client guarantees (C01.seq_distinct).
-/
namespace FmpRpc.C09
open FmpRpc.T

def callSeqs (h : List Evt) : List Int :=
  h.filterMap fun e => match e with | .delivered (.call q true _) => some q | _ => none

def PeerSeqsDistinct (s : St) : Prop :=
  (callSeqs s.hist).Nodup ∧ (∀ q ∈ callSeqs s.hist, 0 ≤ q) ∧
  (∀ q, Evt.delivered (.cancel q) ∈ s.hist → 0 ≤ q)


end FmpRpc.C09
