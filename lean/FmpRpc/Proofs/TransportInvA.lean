import FmpRpc.Model.Transport
/-
  Helper lemmas and invariants of the transport model used by
  Props/C01, C03, C08, C12, C13, C20  (part A: basics — setters, the
  `cancelHandler` / `cancelAllTasks` frame lemmas, the case-split tactic).
-/
namespace FmpRpc.T

attribute [simp] setCaller setNotifier setSend setHandler setCloser setPending setTask log
  newSend failedSend abandon returnCaller

/-! ### `cancelHandler` / `cancelAllTasks` leave everything but `handlers` / `hist` alone -/

section frame
variable (s : St) (h : Nat) (c : Cause) (n : Nat)

local macro "ch_tac" : tactic => `(tactic| (unfold cancelHandler; dsimp only; split <;> rfl))

@[simp] theorem cancelHandler_nextSeq : (cancelHandler s h c).nextSeq = s.nextSeq := by ch_tac
@[simp] theorem cancelHandler_pending : (cancelHandler s h c).pending = s.pending := by ch_tac
@[simp] theorem cancelHandler_callers : (cancelHandler s h c).callers = s.callers := by ch_tac
@[simp] theorem cancelHandler_notifiers : (cancelHandler s h c).notifiers = s.notifiers := by ch_tac
@[simp] theorem cancelHandler_sends : (cancelHandler s h c).sends = s.sends := by ch_tac
@[simp] theorem cancelHandler_nextSend : (cancelHandler s h c).nextSend = s.nextSend := by ch_tac
@[simp] theorem cancelHandler_hasNotifier : (cancelHandler s h c).hasNotifier = s.hasNotifier := by ch_tac
@[simp] theorem cancelHandler_w : (cancelHandler s h c).w = s.w := by ch_tac
@[simp] theorem cancelHandler_wlog : (cancelHandler s h c).wlog = s.wlog := by ch_tac
@[simp] theorem cancelHandler_nlog : (cancelHandler s h c).nlog = s.nlog := by ch_tac
@[simp] theorem cancelHandler_r : (cancelHandler s h c).r = s.r := by ch_tac
@[simp] theorem cancelHandler_taskLoop : (cancelHandler s h c).taskLoop = s.taskLoop := by ch_tac
@[simp] theorem cancelHandler_tasks : (cancelHandler s h c).tasks = s.tasks := by ch_tac
@[simp] theorem cancelHandler_nextHandler : (cancelHandler s h c).nextHandler = s.nextHandler := by ch_tac
@[simp] theorem cancelHandler_lastNotifyTask : (cancelHandler s h c).lastNotifyTask = s.lastNotifyTask := by ch_tac
@[simp] theorem cancelHandler_closers : (cancelHandler s h c).closers = s.closers := by ch_tac
@[simp] theorem cancelHandler_once : (cancelHandler s h c).once = s.once := by ch_tac
@[simp] theorem cancelHandler_stopErr : (cancelHandler s h c).stopErr = s.stopErr := by ch_tac
@[simp] theorem cancelHandler_stopCh : (cancelHandler s h c).stopCh = s.stopCh := by ch_tac
@[simp] theorem cancelHandler_dStop : (cancelHandler s h c).dStop = s.dStop := by ch_tac
@[simp] theorem cancelHandler_rStop : (cancelHandler s h c).rStop = s.rStop := by ch_tac
@[simp] theorem cancelHandler_rClosed : (cancelHandler s h c).rClosed = s.rClosed := by ch_tac
@[simp] theorem cancelHandler_encDone : (cancelHandler s h c).encDone = s.encDone := by ch_tac
@[simp] theorem cancelHandler_encClosed : (cancelHandler s h c).encClosed = s.encClosed := by ch_tac
@[simp] theorem cancelHandler_connClosed : (cancelHandler s h c).connClosed = s.connClosed := by ch_tac

local macro "chh_tac" : tactic =>
  `(tactic| (unfold cancelHandler; dsimp only; split <;> (try rfl) <;> (simp only [log, setHandler]; split <;> simp_all)))

@[simp, grind =] theorem cancelHandler_h_pc (h' : Nat) : ((cancelHandler s h c).handlers h').pc = (s.handlers h').pc := by chh_tac
@[simp, grind =] theorem cancelHandler_h_seq (h' : Nat) : ((cancelHandler s h c).handlers h').seq = (s.handlers h').seq := by chh_tac
@[simp, grind =] theorem cancelHandler_h_task (h' : Nat) : ((cancelHandler s h c).handlers h').task = (s.handlers h').task := by chh_tac
@[simp, grind =] theorem cancelHandler_h_isCall (h' : Nat) : ((cancelHandler s h c).handlers h').isCall = (s.handlers h').isCall := by chh_tac
@[simp, grind =] theorem cancelHandler_h_arg (h' : Nat) : ((cancelHandler s h c).handlers h').arg = (s.handlers h').arg := by chh_tac
@[simp, grind =] theorem cancelHandler_h_replies (h' : Nat) : ((cancelHandler s h c).handlers h').replies = (s.handlers h').replies := by chh_tac
@[simp, grind =] theorem cancelHandler_h_records (h' : Nat) : ((cancelHandler s h c).handlers h').records = (s.handlers h').records := by chh_tac

theorem cancelHandler_h_ctx (h' : Nat) :
    ((cancelHandler s h c).handlers h').ctxCancelled = (decide (h' = h) || (s.handlers h').ctxCancelled) := by
  unfold cancelHandler; dsimp only; split
  · by_cases hh : h' = h <;> simp_all
  · simp only [log, setHandler]; split <;> simp_all

theorem cancelHandler_hist :
    (cancelHandler s h c).hist = s.hist ∨ (cancelHandler s h c).hist = s.hist ++ [.ctxCancelled h c] := by
  unfold cancelHandler; dsimp only; split
  · exact .inl rfl
  · exact .inr rfl

local macro "ca_tac" : tactic =>
  `(tactic| (induction n with
    | zero => rfl
    | succ n ih => simp only [cancelAllTasks]; split <;> simp [ih]))

@[simp] theorem cancelAllTasks_nextSeq : (cancelAllTasks s n).nextSeq = s.nextSeq := by ca_tac
@[simp] theorem cancelAllTasks_pending : (cancelAllTasks s n).pending = s.pending := by ca_tac
@[simp] theorem cancelAllTasks_callers : (cancelAllTasks s n).callers = s.callers := by ca_tac
@[simp] theorem cancelAllTasks_notifiers : (cancelAllTasks s n).notifiers = s.notifiers := by ca_tac
@[simp] theorem cancelAllTasks_sends : (cancelAllTasks s n).sends = s.sends := by ca_tac
@[simp] theorem cancelAllTasks_nextSend : (cancelAllTasks s n).nextSend = s.nextSend := by ca_tac
@[simp] theorem cancelAllTasks_hasNotifier : (cancelAllTasks s n).hasNotifier = s.hasNotifier := by ca_tac
@[simp] theorem cancelAllTasks_w : (cancelAllTasks s n).w = s.w := by ca_tac
@[simp] theorem cancelAllTasks_wlog : (cancelAllTasks s n).wlog = s.wlog := by ca_tac
@[simp] theorem cancelAllTasks_nlog : (cancelAllTasks s n).nlog = s.nlog := by ca_tac
@[simp] theorem cancelAllTasks_r : (cancelAllTasks s n).r = s.r := by ca_tac
@[simp] theorem cancelAllTasks_taskLoop : (cancelAllTasks s n).taskLoop = s.taskLoop := by ca_tac
@[simp] theorem cancelAllTasks_tasks : (cancelAllTasks s n).tasks = s.tasks := by ca_tac
@[simp] theorem cancelAllTasks_nextHandler : (cancelAllTasks s n).nextHandler = s.nextHandler := by ca_tac
@[simp] theorem cancelAllTasks_lastNotifyTask : (cancelAllTasks s n).lastNotifyTask = s.lastNotifyTask := by ca_tac
@[simp] theorem cancelAllTasks_closers : (cancelAllTasks s n).closers = s.closers := by ca_tac
@[simp] theorem cancelAllTasks_once : (cancelAllTasks s n).once = s.once := by ca_tac
@[simp] theorem cancelAllTasks_stopErr : (cancelAllTasks s n).stopErr = s.stopErr := by ca_tac
@[simp] theorem cancelAllTasks_stopCh : (cancelAllTasks s n).stopCh = s.stopCh := by ca_tac
@[simp] theorem cancelAllTasks_dStop : (cancelAllTasks s n).dStop = s.dStop := by ca_tac
@[simp] theorem cancelAllTasks_rStop : (cancelAllTasks s n).rStop = s.rStop := by ca_tac
@[simp] theorem cancelAllTasks_rClosed : (cancelAllTasks s n).rClosed = s.rClosed := by ca_tac
@[simp] theorem cancelAllTasks_encDone : (cancelAllTasks s n).encDone = s.encDone := by ca_tac
@[simp] theorem cancelAllTasks_encClosed : (cancelAllTasks s n).encClosed = s.encClosed := by ca_tac
@[simp] theorem cancelAllTasks_connClosed : (cancelAllTasks s n).connClosed = s.connClosed := by ca_tac

@[simp, grind =] theorem cancelAllTasks_h_pc (h' : Nat) : ((cancelAllTasks s n).handlers h').pc = (s.handlers h').pc := by ca_tac
@[simp, grind =] theorem cancelAllTasks_h_seq (h' : Nat) : ((cancelAllTasks s n).handlers h').seq = (s.handlers h').seq := by ca_tac
@[simp, grind =] theorem cancelAllTasks_h_task (h' : Nat) : ((cancelAllTasks s n).handlers h').task = (s.handlers h').task := by ca_tac
@[simp, grind =] theorem cancelAllTasks_h_isCall (h' : Nat) : ((cancelAllTasks s n).handlers h').isCall = (s.handlers h').isCall := by ca_tac
@[simp, grind =] theorem cancelAllTasks_h_arg (h' : Nat) : ((cancelAllTasks s n).handlers h').arg = (s.handlers h').arg := by ca_tac
@[simp, grind =] theorem cancelAllTasks_h_replies (h' : Nat) : ((cancelAllTasks s n).handlers h').replies = (s.handlers h').replies := by ca_tac
@[simp, grind =] theorem cancelAllTasks_h_records (h' : Nat) : ((cancelAllTasks s n).handlers h').records = (s.handlers h').records := by ca_tac

end frame

/-- events appended by the cancellation helpers -/
def Evt.isCC : Evt → Bool
  | .ctxCancelled _ _ => true
  | _ => false

theorem cancelHandler_hist' (s : St) (h : Nat) (c : Cause) :
    ∃ l, (cancelHandler s h c).hist = s.hist ++ l ∧ ∀ e ∈ l, Evt.isCC e = true := by
  rcases cancelHandler_hist s h c with h1 | h1
  · exact ⟨[], by simp [h1], by simp⟩
  · exact ⟨[.ctxCancelled h c], h1, by simp [Evt.isCC]⟩

theorem cancelAllTasks_hist' (s : St) (n : Nat) :
    ∃ l, (cancelAllTasks s n).hist = s.hist ++ l ∧ ∀ e ∈ l, Evt.isCC e = true := by
  induction n with
  | zero => exact ⟨[], by simp [cancelAllTasks], by simp⟩
  | succ n ih =>
    obtain ⟨l, h1, h2⟩ := ih
    simp only [cancelAllTasks]; split
    · obtain ⟨l', h1', h2'⟩ := cancelHandler_hist' (cancelAllTasks s n) n .closing
      refine ⟨l ++ l', by rw [h1', h1, List.append_assoc], ?_⟩
      intro e he; rcases List.mem_append.mp he with he | he
      · exact h2 e he
      · exact h2' e he
    · exact ⟨l, h1, h2⟩

/-- ctxCancelled only ever goes from false to true under the helpers -/
theorem cancelHandler_ctx_mono (s : St) (h : Nat) (c : Cause) (h' : Nat)
    (hc : (s.handlers h').ctxCancelled = true) : ((cancelHandler s h c).handlers h').ctxCancelled = true := by
  rw [cancelHandler_h_ctx]; simp [hc]

theorem cancelAllTasks_ctx_mono (s : St) (n : Nat) (h' : Nat)
    (hc : (s.handlers h').ctxCancelled = true) : ((cancelAllTasks s n).handlers h').ctxCancelled = true := by
  induction n with
  | zero => exact hc
  | succ n ih => simp only [cancelAllTasks]; split
                 · exact cancelHandler_ctx_mono _ _ _ _ ih
                 · exact ih

/-- every registered handler below `n` is cancelled by `cancelAllTasks s n` -/
theorem cancelAllTasks_ctx_reg (s : St) (n : Nat) (h' : Nat) (hlt : h' < n)
    (hreg : s.tasks (s.handlers h').task = some h') : ((cancelAllTasks s n).handlers h').ctxCancelled = true := by
  induction n with
  | zero => omega
  | succ n ih =>
    simp only [cancelAllTasks]
    by_cases hn : h' = n
    · subst hn
      rw [if_pos (by simpa using hreg)]
      rw [cancelHandler_h_ctx]; simp
    · have := ih (by omega)
      split
      · exact cancelHandler_ctx_mono _ _ _ _ this
      · exact this

/-! ### the case split over actions -/

/-- `step_cases a hs`: split `hs : step s a = some s'` into one goal per enabled
    branch, with `s'` replaced by the explicit successor state. -/
syntax "step_cases " ident ident : tactic
macro_rules
| `(tactic| step_cases $a $hs) => `(tactic| (
    cases $a:ident
    all_goals (simp only [step] at $hs:ident)
    all_goals (repeat' (split at $hs:ident))
    all_goals (try (simp only [reduceCtorEq] at $hs:ident))
    all_goals (try (injection $hs:ident with $hs:ident))
    all_goals (try subst $hs:ident)
    all_goals (try simp only [setCaller, setNotifier, setSend, setHandler, setCloser, setPending,
      setTask, log, newSend, failedSend, abandon, returnCaller] at *)))

theorem reachable_induct {P : St → Prop} (h0 : ∀ f p, P (initSz f p))
    (hstep : ∀ s s' a, Reachable s → P s → step s a = some s' → P s') : ∀ s, Reachable s → P s := by
  intro s hr
  induction hr with
  | init f p => exact h0 f p
  | step s s' a hr hs ih => exact hstep s s' a hr ih hs

end FmpRpc.T
