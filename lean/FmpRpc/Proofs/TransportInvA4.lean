import FmpRpc.Proofs.TransportInvA3
/-
  Part A4: the write log.
-/
namespace FmpRpc.T

structure WInvC (sends : Nat → Send) (w : WPc) (wlog : List Nat) : Prop where
  wl1 : ∀ x ∈ wlog, (sends x).fits = true ∧ ((sends x).st = .handed ∨ (sends x).st = .completed) ∧
    (sends x).slot ≠ some .ctx ∧ (sends x).slot ≠ some .eof ∧ (sends x).slot ≠ some .toobig
  wl2 : ∀ x ∈ wlog, w ≠ .got x ∧ w ≠ .writing x
  wl3 : ∀ x e, w = .wrote x e → x ∈ wlog
  nd : wlog.Nodup

def WInv (s : St) : Prop := WInvC s.sends s.w s.wlog

theorem WInv_init (f p : Nat → Nat) : WInv (initSz f p) := by
  constructor <;> simp [initSz]

set_option maxHeartbeats 2000000 in
theorem WInv_step (s s' : St) (a : Act) (hS : SInv s) (h : WInv s) (hs : step s a = some s') : WInv s' := by
  have hall := h
  obtain ⟨wl1, wl2, wl3, nd⟩ := h
  obtain ⟨fresh, cHand, cCHand, nHand, hHand, hSel, rHand, wcur1, wcur2, wrote, fitsW⟩ := hS
  clear hSel wcur2
  step_cases a hs
  all_goals (first | exact hall | skip)
  all_goals (clear hall)
  all_goals (constructor)
  all_goals (try simp)
  all_goals (first | done | assumption | grind)

theorem WInv_reach (s : St) (hr : Reachable s) : WInv s := by
  have : SInv s ∧ WInv s := by
    refine reachable_induct (P := fun s => SInv s ∧ WInv s) (fun f p => ⟨SInv_init f p, WInv_init f p⟩) ?_ s hr
    intro s s' a _ ih hs
    exact ⟨SInv_step s s' a ih.1 hs, WInv_step s s' a ih.1 ih.2 hs⟩
  exact this.2

end FmpRpc.T
