import FmpRpc.Model.Reader
/-
  Lemmas: the reader stack at `Read`-call granularity (`Model/Reader`) computes
  the same function of the concatenated stream as the ideal readers of
  `Model/Prog` / `Model/Frame`, for every chunking and every decoder program.
-/
namespace FmpRpc

/-! ### The buffered source -/

theorem srcRead_append (w : Nat) (cs : Chunks) :
    (srcRead w cs).1 ++ (srcRead w cs).2.flatten = cs.flatten := by
  induction cs with
  | nil => simp [srcRead]
  | cons c cs ih =>
    cases c with
    | nil => simpa [srcRead] using ih
    | cons b c => simp [srcRead, ← List.append_assoc, List.take_append_drop]

theorem srcRead_length_le (w : Nat) (cs : Chunks) : (srcRead w cs).1.length ≤ w := by
  induction cs with
  | nil => simp [srcRead]
  | cons c cs ih =>
    cases c with
    | nil => simpa [srcRead] using ih
    | cons b c => simp [srcRead]; omega

theorem srcRead_pos (w : Nat) (cs : Chunks) (hw : 0 < w) (hs : 0 < cs.flatten.length) :
    0 < (srcRead w cs).1.length := by
  induction cs with
  | nil => simp at hs
  | cons c cs ih =>
    cases c with
    | nil => simpa [srcRead] using ih (by simpa using hs)
    | cons b c => simp [srcRead]; omega

theorem srcRead_spec (w : Nat) (cs : Chunks) :
    ∃ k, k ≤ w ∧ k ≤ cs.flatten.length ∧ (0 < w → 0 < cs.flatten.length → 0 < k) ∧
      (srcRead w cs).1 = cs.flatten.take k ∧ (srcRead w cs).2.flatten = cs.flatten.drop k := by
  have h := srcRead_append w cs
  refine ⟨(srcRead w cs).1.length, srcRead_length_le w cs, ?_, srcRead_pos w cs, ?_, ?_⟩
  · rw [← h]; simp
  · rw [← h]; simp
  · rw [← h]; simp


/-! ### `frameReader.Read` and `decReadFull` over it -/

theorem FR.read_zero (w : Nat) (f : FR) (h : f.rem = 0) : f.read w = ([], some .eof, f) := by
  simp [FR.read, h]

theorem FR.read_nil (w : Nat) (f : FR) (h : f.rem ≠ 0) (hs : f.src.flatten = []) :
    (f.read w).1 = [] ∧ (f.read w).2.1 = some .ueof ∧ (f.read w).2.2.rem = f.rem ∧
      (f.read w).2.2.src.flatten = [] := by
  obtain ⟨k, _, hk, _, h1, h2⟩ := srcRead_spec (if w > f.rem then f.rem else w) f.src
  rw [hs] at h1 h2
  rw [List.take_nil] at h1
  rw [List.drop_nil] at h2
  simp only [FR.read, if_neg h, h1, h2]
  simp

theorem FR.read_pos (w : Nat) (f : FR) (hw : 0 < w) (h : f.rem ≠ 0) (hs : f.src.flatten ≠ []) :
    ∃ k, 0 < k ∧ k ≤ w ∧ k ≤ f.rem ∧ k ≤ f.src.flatten.length ∧
      (f.read w).1 = f.src.flatten.take k ∧ (f.read w).2.1 = none ∧
      (f.read w).2.2.rem = f.rem - k ∧ (f.read w).2.2.src.flatten = f.src.flatten.drop k := by
  obtain ⟨k, hk1, hk2, hk3, h1, h2⟩ := srcRead_spec (if w > f.rem then f.rem else w) f.src
  have hl : 0 < f.src.flatten.length := List.length_pos_iff.mpr hs
  have hk0 : 0 < k := hk3 (by split <;> omega) hl
  refine ⟨k, hk0, by split at hk1 <;> omega, by split at hk1 <;> omega, hk2, ?_⟩
  have hlen : (List.take k f.src.flatten).length = k := by
    rw [List.length_take]; omega
  have hne : (List.take k f.src.flatten).isEmpty = false := by
    rw [List.isEmpty_eq_false_iff]; intro h0; rw [h0] at hlen; simp at hlen; omega
  simp only [FR.read, if_neg h, h1, h2, hne, hlen]
  simp

/-- What `readFull` returns, as a predicate on the flattened source `s`:
    the four cases of `runFrame`'s `readx` branch. -/
def ReadFullSpec (n rem : Nat) (s : Bytes) (r : Bytes × Option Err × FR) : Prop :=
  (n ≤ rem → n ≤ s.length →
    r.1 = s.take n ∧ r.2.1 = none ∧ r.2.2.rem = rem - n ∧ r.2.2.src.flatten = s.drop n) ∧
  (n ≤ rem → s.length < n →
    r.2.1 = some .ueof ∧ r.2.2.rem = rem - s.length ∧ r.2.2.src.flatten = []) ∧
  (rem < n → rem ≤ s.length →
    r.2.1 = some .eof ∧ r.2.2.rem = 0 ∧ r.2.2.src.flatten = s.drop rem) ∧
  (rem < n → s.length < rem →
    r.2.1 = some .ueof ∧ r.2.2.rem = rem - s.length ∧ r.2.2.src.flatten = [])

theorem FR.readFull_spec (fuel n : Nat) (f : FR) (hf : n ≤ fuel) :
    ReadFullSpec n f.rem f.src.flatten (f.readFull fuel n) := by
  induction fuel generalizing n f with
  | zero =>
    obtain rfl : n = 0 := by omega
    simp [ReadFullSpec, FR.readFull]
  | succ fuel ih =>
    by_cases hn : n = 0
    · subst hn; simp [ReadFullSpec, FR.readFull]
    by_cases hr : f.rem = 0
    · simp only [FR.readFull, if_neg hn, FR.read_zero n f hr, ReadFullSpec, hr]
      simp; omega
    by_cases hs : f.src.flatten = []
    · obtain ⟨h1, h2, h3, h4⟩ := FR.read_nil n f hr hs
      simp only [FR.readFull, if_neg hn, h2, ReadFullSpec, hs, h3, h4]
      simp; omega
    · obtain ⟨k, hk0, hkn, hkr, hks, h1, h2, h3, h4⟩ := FR.read_pos n f (by omega) hr hs
      have := ih (n - k) (f.read n).2.2 (by omega)
      rw [h3, h4] at this
      simp only [FR.readFull, if_neg hn, h2, h1, List.length_take, Nat.min_eq_left hks]
      revert this
      generalize FR.readFull fuel (n - k) (f.read n).2.2 = r
      generalize f.src.flatten = s at *
      intro ⟨a, b, c, d⟩
      simp only [List.length_drop, List.drop_drop] at a b c d
      refine ⟨?_, ?_, ?_, ?_⟩
      · intro x y
        obtain ⟨a1, a2, a3, a4⟩ := a (by omega) (by omega)
        rw [Nat.add_sub_cancel' hkn] at a4
        refine ⟨?_, a2, by simp only [a3]; omega, a4⟩
        show List.take k s ++ r.1 = _
        rw [a1, ← List.take_add, Nat.add_sub_cancel' hkn]
      · intro x y
        obtain ⟨b1, b2, b3⟩ := b (by omega) (by omega)
        exact ⟨b1, by simp only [b2]; omega, b3⟩
      · intro x y
        obtain ⟨b1, b2, b3⟩ := c (by omega) (by omega)
        rw [Nat.add_sub_cancel' hkr] at b3
        exact ⟨b1, b2, b3⟩
      · intro x y
        obtain ⟨b1, b2, b3⟩ := d (by omega) (by omega)
        exact ⟨b1, by simp only [b2]; omega, b3⟩


/-! ### `runFrameImpl` -/

theorem runFrame_readn1_zero (k : UInt8 → Prog α) (s : Bytes) :
    runFrame (.readn1 k) 0 s = (⟨.error .eof, s⟩, 0) := by
  cases s <;> simp [runFrame]

theorem runFrame_readn1_nil (k : UInt8 → Prog α) (rem : Nat) (h : rem ≠ 0) :
    runFrame (.readn1 k) rem [] = (⟨.error .ueof, []⟩, rem) := by
  simp [runFrame, h]

theorem runFrame_readn1_cons (k : UInt8 → Prog α) (rem : Nat) (h : rem ≠ 0) (b : UInt8) (s : Bytes) :
    runFrame (.readn1 k) rem (b :: s) = runFrame (k b) (rem - 1) s := by
  simp [runFrame, h]

theorem runFrameImpl_eq (p : Prog α) (f : FR) :
    (runFrameImpl p f).1 = (runFrame p f.rem f.src.flatten).1.val ∧
    (runFrameImpl p f).2.rem = (runFrame p f.rem f.src.flatten).2 ∧
    (runFrameImpl p f).2.src.flatten = (runFrame p f.rem f.src.flatten).1.rest := by
  induction p generalizing f with
  | ret a => simp [runFrameImpl, runFrame]
  | fail e => simp [runFrameImpl, runFrame]
  | readn1 k ih =>
    by_cases hr : f.rem = 0
    · simp [runFrameImpl, runFrame_readn1_zero, FR.read_zero 1 f hr, hr]
    by_cases hs : f.src.flatten = []
    · obtain ⟨h1, h2, h3, h4⟩ := FR.read_nil 1 f hr hs
      simp only [runFrameImpl, runFrame_readn1_nil _ _ hr, h1, h2, h3, h4, hs]
      simp
    · obtain ⟨j, hj0, hj1, hjr, hjs, h1, h2, h3, h4⟩ := FR.read_pos 1 f (by omega) hr hs
      obtain rfl : j = 1 := by omega
      cases hs' : f.src.flatten with
      | nil => exact absurd hs' hs
      | cons b t =>
        rw [hs'] at h1 h4
        simp only [List.take_succ_cons, List.take_zero, List.drop_succ_cons, List.drop_zero] at h1 h4
        have := ih b (f.read 1).2.2
        rw [h3, h4] at this
        simp only [runFrameImpl, runFrame_readn1_cons _ _ hr, h1, h2]
        exact this
  | readx n k ih =>
    by_cases hn : n = 0
    · subst hn; simpa [runFrameImpl, runFrame] using ih [] f
    obtain ⟨a, b, c, d⟩ := FR.readFull_spec n n f (Nat.le_refl _)
    simp only [runFrameImpl, runFrame, if_neg hn]
    by_cases x : n ≤ f.rem <;> by_cases y : n ≤ f.src.flatten.length
    · obtain ⟨a1, a2, a3, a4⟩ := a x y
      have := ih (f.src.flatten.take n) (f.readFull n n).2.2
      rw [a3, a4] at this
      simp only [if_pos x, if_pos y, a2, a1]
      exact this
    · obtain ⟨a2, a3, a4⟩ := b x (by omega)
      simp only [if_pos x, if_neg y, a2, a3, a4]
      simp
    · by_cases z : f.rem ≤ f.src.flatten.length
      · obtain ⟨a2, a3, a4⟩ := c (by omega) z
        simp only [if_neg x, if_pos z, a2, a3, a4]
        simp
      · obtain ⟨a2, a3, a4⟩ := d (by omega) (by omega)
        simp only [if_neg x, if_neg z, a2, a3, a4]
        simp
    · by_cases z : f.rem ≤ f.src.flatten.length
      · obtain ⟨a2, a3, a4⟩ := c (by omega) z
        simp only [if_neg x, if_pos z, a2, a3, a4]
        simp
      · obtain ⟨a2, a3, a4⟩ := d (by omega) (by omega)
        simp only [if_neg x, if_neg z, a2, a3, a4]
        simp


/-! ### `runStreamImpl` -/

theorem srcReadFull_spec (fuel n : Nat) (cs : Chunks) (hf : n ≤ fuel) :
    (n ≤ cs.flatten.length →
      (srcReadFull fuel n cs).1 = cs.flatten.take n ∧ (srcReadFull fuel n cs).2.1 = true ∧
      (srcReadFull fuel n cs).2.2.flatten = cs.flatten.drop n) ∧
    (cs.flatten.length < n →
      (srcReadFull fuel n cs).2.1 = false ∧ (srcReadFull fuel n cs).2.2.flatten = []) := by
  induction fuel generalizing n cs with
  | zero =>
    obtain rfl : n = 0 := by omega
    simp [srcReadFull]
  | succ fuel ih =>
    by_cases hn : n = 0
    · subst hn; simp [srcReadFull]
    obtain ⟨k, hkn, hks, hk0, h1, h2⟩ := srcRead_spec n cs
    by_cases hs : cs.flatten.length = 0
    · have hk : k = 0 := by omega
      subst hk
      rw [List.take_zero] at h1
      rw [List.drop_zero] at h2
      have h3 : cs.flatten = [] := List.length_eq_zero_iff.mp hs
      rw [h3] at h2
      simp only [srcReadFull, if_neg hn, h1, h3, List.isEmpty_nil, if_true, h2]
      simp; omega
    · have hk : 0 < k := hk0 (by omega) (by omega)
      have hlen : (List.take k cs.flatten).length = k := by
        rw [List.length_take]; omega
      have hne : (List.take k cs.flatten).isEmpty = false := by
        rw [List.isEmpty_eq_false_iff]; intro h0; rw [h0] at hlen; simp at hlen; omega
      have := ih (n - k) (srcRead n cs).2 (by omega)
      rw [h2] at this
      simp only [srcReadFull, if_neg hn, h1, hne, hlen]
      revert this
      generalize srcReadFull fuel (n - k) (srcRead n cs).2 = r
      generalize cs.flatten = s at *
      intro ⟨a, b⟩
      simp only [List.length_drop, List.drop_drop] at a b
      refine ⟨?_, ?_⟩
      · intro y
        obtain ⟨a1, a2, a3⟩ := a (by omega)
        rw [Nat.add_sub_cancel' hkn] at a3
        refine ⟨?_, a2, a3⟩
        show List.take k s ++ r.1 = _
        rw [a1, ← List.take_add, Nat.add_sub_cancel' hkn]
      · intro y
        exact b (by omega)

theorem runStreamImpl_eq (p : Prog α) (cs : Chunks) :
    (runStreamImpl p cs).1 = (runStream p cs.flatten).val ∧
    (runStreamImpl p cs).2.flatten = (runStream p cs.flatten).rest := by
  induction p generalizing cs with
  | ret a => simp [runStreamImpl, runStream]
  | fail e => simp [runStreamImpl, runStream]
  | readn1 k ih =>
    obtain ⟨j, hj1, hjs, hj0, h1, h2⟩ := srcRead_spec 1 cs
    have hpair : srcRead 1 cs = ((srcRead 1 cs).1, (srcRead 1 cs).2) := rfl
    cases hs : cs.flatten with
    | nil =>
      rw [hs] at h1 h2
      rw [List.take_nil] at h1
      rw [List.drop_nil] at h2
      rw [runStreamImpl, hpair, h1]
      simp [runStream, h2]
    | cons b t =>
      rw [hs] at h1 h2 hjs hj0
      obtain rfl : j = 1 := by simp at hj0; omega
      simp only [List.take_succ_cons, List.take_zero, List.drop_succ_cons, List.drop_zero] at h1 h2
      have := ih b (srcRead 1 cs).2
      rw [h2] at this
      rw [runStreamImpl, hpair, h1]
      simpa [runStream] using this
  | readx n k ih =>
    by_cases hn : n = 0
    · subst hn; simpa [runStreamImpl, runStream] using ih [] cs
    obtain ⟨a, b⟩ := srcReadFull_spec n n cs (Nat.le_refl _)
    simp only [runStreamImpl, runStream, if_neg hn]
    by_cases y : n ≤ cs.flatten.length
    · obtain ⟨a1, a2, a3⟩ := a y
      have := ih (cs.flatten.take n) (srcReadFull n n cs).2.2
      rw [a3] at this
      simp only [if_pos y, a1, a2]
      exact this
    · obtain ⟨a2, a3⟩ := b (by omega)
      simp only [if_neg y, a2, Bool.false_eq_true, if_false, a3]
      simp


/-! ### `NextFrame` and the receive loop -/

theorem srcDiscard_spec (n : Nat) (cs : Chunks) :
    (srcDiscard n cs).1 = min n cs.flatten.length ∧
    (srcDiscard n cs).2.flatten = cs.flatten.drop n := by
  induction cs generalizing n with
  | nil => simp [srcDiscard]
  | cons c cs ih =>
    obtain ⟨h1, h2⟩ := ih (n - c.length)
    by_cases h : c.length ≤ n
    · simp only [srcDiscard, if_pos h, h1, h2, List.flatten_cons, List.length_append,
        List.drop_append]
      refine ⟨by omega, ?_⟩
      rw [List.drop_eq_nil_of_le h, List.nil_append]
    · simp only [srcDiscard, if_neg h, List.flatten_cons, List.length_append, List.drop_append]
      refine ⟨by omega, ?_⟩
      have : n - c.length = 0 := by omega
      rw [this, List.drop_zero]

theorem finishFrameImpl_eq (res : FrameRes) (f : FR) :
    (finishFrameImpl res f).1 = (finishFrame res f.rem f.src.flatten).res ∧
    (finishFrameImpl res f).2.flatten = (finishFrame res f.rem f.src.flatten).rest := by
  obtain ⟨h1, h2⟩ := srcDiscard_spec f.rem f.src
  by_cases h : f.rem ≤ f.src.flatten.length
  · have hd : ((srcDiscard f.rem f.src).1 == f.rem) = true := by
      rw [h1, beq_iff_eq]; omega
    simp only [finishFrameImpl, finishFrame, FR.drain, hd, if_pos h, if_true]
    exact ⟨trivial, h2⟩
  · have hd : ((srcDiscard f.rem f.src).1 == f.rem) = false := by
      rw [h1, beq_eq_false_iff_ne]; omega
    have h3 : (srcDiscard f.rem f.src).2.flatten = [] := by
      rw [h2, List.drop_eq_nil_of_le (by omega)]
    simp only [finishFrameImpl, finishFrame, FR.drain, hd, if_neg h]
    cases res <;> simp [h3, FrameRes.continues]

theorem srcReadByte_spec (cs : Chunks) :
    match srcReadByte cs with
    | none => cs.flatten = []
    | some (b, cs') => cs.flatten = b :: cs'.flatten := by
  induction cs with
  | nil => simp [srcReadByte]
  | cons c cs ih =>
    cases c with
    | nil => simpa [srcReadByte] using ih
    | cons b c => simp [srcReadByte]

theorem FR.readByte_eq (f : FR) :
    runFrame Prog.byte f.rem f.src.flatten =
      match f.readByte with
      | .error e => (⟨.error e, f.src.flatten⟩, f.rem)
      | .ok (b, f1) => (⟨.ok b, f1.src.flatten⟩, f1.rem) := by
  by_cases hr : f.rem = 0
  · simp [FR.readByte, hr, Prog.byte, runFrame_readn1_zero]
  · have := srcReadByte_spec f.src
    simp only [FR.readByte, if_neg hr, Prog.byte]
    split at this
    · rename_i h; simp only [h, this, runFrame_readn1_nil _ _ hr]
    · rename_i b cs' h; simp only [h, this, runFrame_readn1_cons _ _ hr, runFrame]


theorem nextFrameImpl_eq (max : Nat) (ctx : Ctx) (cs : Chunks) :
    (nextFrameImpl max ctx cs).1 = (nextFrame max ctx cs.flatten).res ∧
    (nextFrameImpl max ctx cs).2.flatten = (nextFrame max ctx cs.flatten).rest := by
  obtain ⟨hA, hB⟩ := runStreamImpl_eq (decIntBits 32) cs
  unfold nextFrameImpl nextFrame
  revert hA hB
  generalize runStreamImpl (decIntBits 32) cs = x
  generalize runStream (decIntBits 32) cs.flatten = y
  obtain ⟨v, rest⟩ := x
  obtain ⟨v', rest'⟩ := y
  intro hA hB
  simp only at hA hB
  subst hA hB
  cases v with
  | error e => cases e <;> exact ⟨rfl, rfl⟩
  | ok l =>
    simp only []
    split
    · exact ⟨rfl, rfl⟩
    split
    · exact ⟨rfl, rfl⟩
    have hb := FR.readByte_eq ⟨l.toNat, rest⟩
    simp only [] at hb
    rw [hb]
    cases hrb : FR.readByte ⟨l.toNat, rest⟩ with
    | error e => exact finishFrameImpl_eq _ _
    | ok bf =>
      obtain ⟨nb, f1⟩ := bf
      simp only []
      split
      · exact finishFrameImpl_eq _ _
      obtain ⟨h1, h2, h3⟩ := runFrameImpl_eq (decodeRPC ctx l.toNat (nb.toNat - 0x90)) f1
      revert h1 h2 h3
      generalize runFrameImpl (decodeRPC ctx l.toNat (nb.toNat - 0x90)) f1 = x
      generalize runFrame (decodeRPC ctx l.toNat (nb.toNat - 0x90)) f1.rem f1.src.flatten = y
      obtain ⟨v, f2⟩ := x
      obtain ⟨⟨v', r'⟩, rem'⟩ := y
      intro h1 h2 h3
      simp only at h1 h2 h3
      subst h1 h2 h3
      cases v with
      | error e => exact finishFrameImpl_eq _ _
      | ok fr => exact finishFrameImpl_eq _ _

theorem runLoopImpl_eq (max : Nat) (ctx : Ctx) (fuel : Nat) (cs : Chunks) :
    (runLoopImpl max ctx fuel cs).map (fun st => (st.1, st.2.flatten)) =
      (runLoop max ctx fuel cs.flatten).map (fun st => (st.res, st.rest)) := by
  induction fuel generalizing cs with
  | zero => rfl
  | succ fuel ih =>
    obtain ⟨h1, h2⟩ := nextFrameImpl_eq max ctx cs
    simp only [runLoopImpl, runLoop, h1]
    split
    · rw [List.map_cons, List.map_cons, ih, h2, h1]
    · simp only [List.map_cons, h1, h2, List.map_nil]


/-! ### Byte accounting of the ideal readers -/

/-- Whatever a program does, the ideal frame reader consumes exactly
    `rem - rem'` bytes of a stream that holds at least `rem` bytes. -/
theorem runFrame_consumes (p : Prog α) (rem : Nat) (s : Bytes) (h : rem ≤ s.length) :
    (runFrame p rem s).2 ≤ rem ∧
    (runFrame p rem s).1.rest = s.drop (rem - (runFrame p rem s).2) := by
  induction p generalizing rem s with
  | ret a => simp [runFrame]
  | fail e => simp [runFrame]
  | readn1 k ih =>
    by_cases hr : rem = 0
    · subst hr; simp [runFrame_readn1_zero]
    cases s with
    | nil => simp at h; omega
    | cons b t =>
      rw [runFrame_readn1_cons _ _ hr]
      obtain ⟨h1, h2⟩ := ih b (rem - 1) t (by simp at h; omega)
      refine ⟨by omega, ?_⟩
      rw [h2]
      have : rem - (runFrame (k b) (rem - 1) t).2 = (rem - 1 - (runFrame (k b) (rem - 1) t).2) + 1 := by
        omega
      rw [this, List.drop_succ_cons]
  | readx n k ih =>
    by_cases hn : n = 0
    · subst hn; simpa [runFrame] using ih [] rem s h
    simp only [runFrame, if_neg hn]
    by_cases x : n ≤ rem
    · have y : n ≤ s.length := by omega
      simp only [if_pos x, if_pos y]
      obtain ⟨h1, h2⟩ := ih (s.take n) (rem - n) (s.drop n) (by simp; omega)
      refine ⟨by omega, ?_⟩
      rw [h2, List.drop_drop]
      congr 1; omega
    · simp only [if_neg x, if_pos h]
      simp

/-- Byte accounting without any assumption on the stream: the budget only
    decreases, and it decreases by exactly what was taken from the stream
    (in the truncated branches the whole stream, shorter than the budget, is
    taken). -/
theorem runFrame_budget (p : Prog α) (rem : Nat) (s : Bytes) :
    (runFrame p rem s).2 ≤ rem ∧
    (runFrame p rem s).1.rest.length + rem = s.length + (runFrame p rem s).2 := by
  induction p generalizing rem s with
  | ret a => simp [runFrame]
  | fail e => simp [runFrame]
  | readn1 k ih =>
    by_cases hr : rem = 0
    · subst hr; simp [runFrame_readn1_zero]
    cases s with
    | nil => simp [runFrame_readn1_nil _ _ hr]
    | cons b t =>
      rw [runFrame_readn1_cons _ _ hr]
      obtain ⟨h1, h2⟩ := ih b (rem - 1) t
      simp only [List.length_cons]
      omega
  | readx n k ih =>
    by_cases hn : n = 0
    · subst hn; simpa [runFrame] using ih [] rem s
    simp only [runFrame, if_neg hn]
    by_cases x : n ≤ rem
    · by_cases y : n ≤ s.length
      · simp only [if_pos x, if_pos y]
        obtain ⟨h1, h2⟩ := ih (s.take n) (rem - n) (s.drop n)
        simp only [List.length_drop] at h2
        omega
      · simp only [if_pos x, if_neg y, List.length_nil]
        omega
    · by_cases z : rem ≤ s.length
      · simp only [if_neg x, if_pos z, List.length_drop]
        omega
      · simp only [if_neg x, if_neg z, List.length_nil]
        omega

/-- After any program, draining what is left of the budget ends at the frame
    boundary (stream holding the whole frame). -/
theorem runFrame_then_drain (p : Prog α) (rem : Nat) (s : Bytes) (h : rem ≤ s.length) :
    (runFrame p rem s).2 ≤ (runFrame p rem s).1.rest.length ∧
    (runFrame p rem s).1.rest.drop (runFrame p rem s).2 = s.drop rem := by
  obtain ⟨h1, h2⟩ := runFrame_consumes p rem s h
  rw [h2, List.length_drop, List.drop_drop]
  refine ⟨by omega, ?_⟩
  congr 1; omega

/-- `drain` on a stream that holds the rest of the frame. -/
theorem finishFrame_rest (res : FrameRes) (rem : Nat) (s : Bytes) (h : rem ≤ s.length) :
    (finishFrame res rem s).rest = s.drop rem := by
  simp [finishFrame, h]

/-- `drain` never changes an error already present. -/
theorem finishFrame_fail_res (e : Err) (rem : Nat) (s : Bytes) :
    (finishFrame (.fail e) rem s).res = .fail e := by
  unfold finishFrame; split <;> simp [FrameRes.continues]

/-- `drain` never skips more than the budget. -/
theorem finishFrame_le (res : FrameRes) (rem : Nat) (s : Bytes) :
    s.length - (finishFrame res rem s).rest.length ≤ rem := by
  unfold finishFrame
  split
  · simp only [List.length_drop]; omega
  · split <;> simp only [List.length_nil] <;> omega

/-- The ideal stream reader only consumes. -/
theorem runStream_rest_le (p : Prog α) (s : Bytes) : (runStream p s).rest.length ≤ s.length := by
  induction p generalizing s with
  | ret a => simp [runStream]
  | fail e => simp [runStream]
  | readn1 k ih =>
    cases s with
    | nil => simp [runStream]
    | cons b t => have := ih b t; simp only [runStream, List.length_cons]; omega
  | readx n k ih =>
    simp only [runStream]
    split
    · exact ih _ _
    split
    · have := ih (s.take n) (s.drop n); simp only [List.length_drop] at this; omega
    · simp


/-! ### The length prefix -/

/-- Width of the fixed-size field that follows an integer descriptor. -/
def Desc.intWidthOk : Desc → Bool
  | .uint w => decide (w ≤ 8)
  | .sint w => decide (w ≤ 8)
  | _ => true

set_option maxRecDepth 8000 in
theorem classifyNat_intWidthOk : ∀ n < 256, (classifyNat n).intWidthOk = true := by
  decide

theorem classify_uint_le (b : UInt8) (w : Nat) (h : classify b = .uint w) : w ≤ 8 := by
  have := classifyNat_intWidthOk b.toNat b.toNat_lt
  rw [classify] at h
  rw [h] at this
  simpa [Desc.intWidthOk] using this

theorem classify_sint_le (b : UInt8) (w : Nat) (h : classify b = .sint w) : w ≤ 8 := by
  have := classifyNat_intWidthOk b.toNat b.toNat_lt
  rw [classify] at h
  rw [h] at this
  simpa [Desc.intWidthOk] using this

theorem runStream_ite_rest (c : Prop) [Decidable c] (i : α) (e : Err) (s : Bytes) :
    (runStream (if c then Prog.ret i else Prog.fail e) s).rest = s := by
  split <;> rfl

/-- One fixed-width field followed by a range check: at most `w` bytes. -/
theorem runStream_readx_chk (w : Nat) (c : Bytes → Prop) [∀ bs, Decidable (c bs)]
    (g : Bytes → α) (e : Err) (s : Bytes) :
    s.length - (runStream (.readx w fun bs => if c bs then Prog.ret (g bs) else Prog.fail e) s).rest.length
      ≤ w := by
  simp only [runStream]
  split
  · rw [runStream_ite_rest]; omega
  split
  · rw [runStream_ite_rest, List.length_drop]; omega
  · simp only [List.length_nil]; omega

/-- The length decoder reads at most 9 bytes. -/
theorem decIntBits_consumes_le (bits : Nat) (s : Bytes) :
    s.length - (runStream (decIntBits bits) s).rest.length ≤ 9 ∧
    (runStream (decIntBits bits) s).rest.length ≤ s.length := by
  refine ⟨?_, runStream_rest_le _ _⟩
  cases s with
  | nil => simp
  | cons b t =>
    simp only [decIntBits, runStream, List.length_cons]
    cases hcl : classify b with
    | uint w =>
      have hw := classify_uint_le b w hcl
      have := runStream_readx_chk w
        (fun bs => -(2 ^ (bits - 1) : Int) ≤
            (if beNat bs < 2 ^ 63 then (beNat bs : Int) else (beNat bs : Int) - (2 ^ 64 : Int)) ∧
          (if beNat bs < 2 ^ 63 then (beNat bs : Int) else (beNat bs : Int) - (2 ^ 64 : Int)) <
            (2 ^ (bits - 1) : Int))
        (fun bs => if beNat bs < 2 ^ 63 then (beNat bs : Int) else (beNat bs : Int) - (2 ^ 64 : Int))
        .dec t
      simp only [] at this ⊢
      omega
    | sint w =>
      have hw := classify_sint_le b w hcl
      have := runStream_readx_chk w
        (fun bs => -(2 ^ (bits - 1) : Int) ≤ sintOf w bs ∧ sintOf w bs < (2 ^ (bits - 1) : Int))
        (fun bs => sintOf w bs) .dec t
      simp only [] at this ⊢
      omega
    | posfix n => simp only []; rw [runStream_ite_rest]; omega
    | negfix i => simp only []; rw [runStream_ite_rest]; omega
    | _ => simp only [runStream]; omega


/-! ### What a program can return -/

/-- Every value a program can return satisfies `P`. -/
def Prog.All (P : α → Prop) : Prog α → Prop
  | .ret a => P a
  | .fail _ => True
  | .readn1 k => ∀ b, Prog.All P (k b)
  | .readx _ k => ∀ bs, Prog.All P (k bs)

theorem Prog.All_bind (P : β → Prop) (q : Prog α) (f : α → Prog β)
    (h : ∀ a, Prog.All P (f a)) : Prog.All P (Prog.bind q f) := by
  induction q with
  | ret a => exact h a
  | fail e => trivial
  | readn1 k ih => intro b; exact ih b
  | readx n k ih => intro bs; exact ih bs

theorem Prog.All_runFrame (P : α → Prop) (p : Prog α) (hp : Prog.All P p) (rem : Nat) (s : Bytes)
    (v : α) (h : (runFrame p rem s).1.val = .ok v) : P v := by
  induction p generalizing rem s with
  | ret a => simp only [runFrame, Except.ok.injEq] at h; exact h ▸ hp
  | fail e => simp [runFrame] at h
  | readn1 k ih =>
    by_cases hr : rem = 0
    · subst hr; simp [runFrame_readn1_zero] at h
    cases s with
    | nil => simp [runFrame_readn1_nil _ _ hr] at h
    | cons b t => rw [runFrame_readn1_cons _ _ hr] at h; exact ih b (hp b) _ _ h
  | readx n k ih =>
    simp only [runFrame] at h
    split at h
    · exact ih _ (hp _) _ _ h
    split at h
    · split at h
      · exact ih _ (hp _) _ _ h
      · simp at h
    · split at h <;> simp at h

/-- `decodeRPC` hands back a message or a not-found error; every other error
    is a failure of the program itself. -/
theorem decodeRPC_all (ctx : Ctx) (fuel l : Nat) :
    Prog.All (fun fr => ∀ e, fr ≠ .fail e) (decodeRPC ctx fuel l) := by
  unfold decodeRPC
  repeat' (first
    | apply Prog.All_bind; intro _
    | exact fun _ => FrameRes.noConfusion
    | exact True.intro
    | split
    | dsimp only)

end FmpRpc
