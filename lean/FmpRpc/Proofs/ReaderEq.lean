import FmpRpc.Model.Reader
/-
  Lemmas: the reader stack at `Read`-call granularity (`Model/Reader`) computes
  the same function of the concatenated stream as the ideal readers of
  `Model/Prog` / `Model/Frame`, for every chunking and every decoder program.
-/
namespace FmpRpc

theorem runFrameImpl_eq (p : Prog α) (f : FR) :
    (runFrameImpl p f).1 = (runFrame p f.rem f.src.flatten).1.val ∧
    (runFrameImpl p f).2.rem = (runFrame p f.rem f.src.flatten).2 ∧
    (runFrameImpl p f).2.src.flatten = (runFrame p f.rem f.src.flatten).1.rest := by
  sorry

theorem runStreamImpl_eq (p : Prog α) (cs : Chunks) :
    (runStreamImpl p cs).1 = (runStream p cs.flatten).val ∧
    (runStreamImpl p cs).2.flatten = (runStream p cs.flatten).rest := by
  sorry

theorem nextFrameImpl_eq (max : Nat) (ctx : Ctx) (cs : Chunks) :
    (nextFrameImpl max ctx cs).1 = (nextFrame max ctx cs.flatten).res ∧
    (nextFrameImpl max ctx cs).2.flatten = (nextFrame max ctx cs.flatten).rest := by
  sorry

theorem runLoopImpl_eq (max : Nat) (ctx : Ctx) (fuel : Nat) (cs : Chunks) :
    (runLoopImpl max ctx fuel cs).map (fun st => (st.1, st.2.flatten)) =
      (runLoop max ctx fuel cs.flatten).map (fun st => (st.res, st.rest)) := by
  sorry

/-- Whatever a program does, the ideal frame reader consumes exactly
    `rem - rem'` bytes of a stream that holds at least `rem` bytes. -/
theorem runFrame_consumes (p : Prog α) (rem : Nat) (s : Bytes) (h : rem ≤ s.length) :
    (runFrame p rem s).2 ≤ rem ∧
    (runFrame p rem s).1.rest = s.drop (rem - (runFrame p rem s).2) := by
  sorry

/-- The frame reader never hands out more than the budget, whatever the
    stream holds. -/
theorem runFrame_budget (p : Prog α) (rem : Nat) (s : Bytes) :
    (runFrame p rem s).2 ≤ rem ∧
    s.length - (runFrame p rem s).1.rest.length ≤ rem - (runFrame p rem s).2 ∨
    (runFrame p rem s).1.rest = [] := by
  sorry

/-- The length decoder reads at most 9 bytes. -/
theorem decIntBits_consumes_le (bits : Nat) (s : Bytes) :
    s.length - (runStream (decIntBits bits) s).rest.length ≤ 9 ∧
    (runStream (decIntBits bits) s).rest.length ≤ s.length := by
  sorry

end FmpRpc
