import FmpRpc.Proofs.TransportInvB
/-
  Handlers, the task table and context cancellation (used by C09, C11).
-/
namespace FmpRpc.T
set_option linter.unusedSimpArgs false

/-- frames delivered so far -/
def delivs (l : List Evt) : List Frame :=
  l.filterMap fun e => match e with | .delivered f => some f | _ => none

/-- seqnos of the known calls among delivered frames -/
def cseq (d : List Frame) : List Int :=
  d.filterMap fun f => match f with | .call q true _ => some q | _ => none

theorem delivs_append (l1 l2 : List Evt) : delivs (l1 ++ l2) = delivs l1 ++ delivs l2 := by
  simp [delivs]

theorem delivs_snoc (l : List Evt) (e : Evt) :
    delivs (l ++ [e]) = delivs l ++ (match e with | .delivered f => [f] | _ => []) := by
  rw [delivs_append]; cases e <;> simp [delivs]

theorem delivs_ctx (l : List Evt) (h : ∀ e ∈ l, isCtxEvt e = true) : delivs l = [] := by
  induction l with
  | nil => rfl
  | cons a l ih =>
    have ha := h a (by simp)
    have := ih (fun e he => h e (by simp [he]))
    cases a <;> simp_all [delivs, isCtxEvt]

@[simp] theorem delivs_cancelHandler (s : St) (h : Nat) (c : Cause) :
    delivs (cancelHandler s h c).hist = delivs s.hist := by
  obtain ⟨l, h1, h2⟩ := cancelHandler_hist_ex s h c
  rw [h1, delivs_append, delivs_ctx l h2]; simp

@[simp] theorem delivs_cancelAllTasks (s : St) (n : Nat) :
    delivs (cancelAllTasks s n).hist = delivs s.hist := by
  obtain ⟨l, h1, h2⟩ := cancelAllTasks_hist_ex s n
  rw [h1, delivs_append, delivs_ctx l h2]; simp

theorem cseq_append (d1 d2 : List Frame) : cseq (d1 ++ d2) = cseq d1 ++ cseq d2 := by
  simp [cseq]

@[simp] theorem cseq_single_call (q : Int) (k : Bool) (a : Nat) :
    cseq [Frame.call q k a] = if k then [q] else [] := by
  cases k <;> simp [cseq]
@[simp] theorem cseq_single_resp (q : Int) (p : Nat) (a : Bool) : cseq [Frame.resp q p a] = [] := by simp [cseq]
@[simp] theorem cseq_single_notify (k : Bool) (a : Nat) : cseq [Frame.notify k a] = [] := by simp [cseq]
@[simp] theorem cseq_single_cancel (q : Int) : cseq [Frame.cancel q] = [] := by simp [cseq]

/-- hypothesis on the peer: distinct non-negative call seqnos, non-negative cancel seqnos -/
def PSD (s : St) : Prop :=
  (cseq (delivs s.hist)).Nodup ∧ (∀ q ∈ cseq (delivs s.hist), 0 ≤ q) ∧
  (∀ q, Frame.cancel q ∈ delivs s.hist → 0 ≤ q)

def started (p : HPc) : Bool :=
  match p with
  | .absent | .exited => false
  | _ => true

structure HInv (s : St) : Prop where
  fresh : ∀ h, s.nextHandler ≤ h → (s.handlers h).pc = .absent
  tasksOK : ∀ q h, s.tasks q = some h →
    (s.handlers h).task = q ∧ h < s.nextHandler ∧ ((s.handlers h).pc = .exited → s.rStop = true)
  rBeg : ∀ h, (s.r = .begSel h ∨ s.r = .spawn h) → h < s.nextHandler ∧ (s.handlers h).pc = .absent
  lastN : s.lastNotifyTask ≤ -1
  notif : ∀ h, h < s.nextHandler → (s.handlers h).isCall = false →
    s.lastNotifyTask ≤ (s.handlers h).task ∧ (s.handlers h).task ≤ -2
  call : ∀ h, h < s.nextHandler → (s.handlers h).isCall = true →
    (s.handlers h).task = (s.handlers h).seq ∧ (s.handlers h).task ∈ cseq (delivs s.hist)
  canc : ∀ q, s.r = .canSel q → Frame.cancel q ∈ delivs s.hist

def hview (s : St) :=
  (s.handlers, s.nextHandler, s.tasks, s.r, s.lastNotifyTask, s.taskLoop, s.rStop, delivs s.hist)

theorem HInv_of_view (s s' : St) (h : hview s' = hview s) (hi : HInv s) : HInv s' := by
  simp only [hview, Prod.mk.injEq] at h
  obtain ⟨h1, h2, h3, h4, h5, h6, h7, h8⟩ := h
  obtain ⟨a1, a2, a3, a4, a5, a6, a7⟩ := hi
  constructor <;> simp only [h1, h2, h3, h4, h5, h6, h7, h8] <;> assumption

theorem HInv_init (f p : Nat → Nat) : HInv (initSz f p) := by
  constructor <;> simp [initSz]

set_option maxHeartbeats 4000000 in
theorem HInv_step (s s' : St) (a : Act) (hi : HInv s) (hs : step s a = some s') : HInv s' := by
  step_cases a with hs
  all_goals first
    | (refine HInv_of_view _ _ ?_ hi
       simp_all [hview, setCaller, setNotifier, setSend, setHandler, setCloser, setPending, setTask, log, newSend, failedSend, abandon, returnCaller, delivs_snoc]
       done)
    | skip
  all_goals
    obtain ⟨fresh, tasksOK, rBeg, lastN, notif, call, canc⟩ := hi
    constructor <;>
    simp [setCaller, setNotifier, setSend, setHandler, setCloser, setPending, setTask, log, newSend, failedSend, abandon, returnCaller, delivs_snoc, cseq_append, cancelHandler_handlers, cancelAllTasks_handlers] at * <;>
    grind


theorem HInv_reachable (s : St) (hr : Reachable s) : HInv s := by
  induction hr with
  | init f p => exact HInv_init f p
  | step s s' a _ hs ih => exact HInv_step s s' a ih hs

/-- the delivered frames only grow -/
theorem delivs_mono (s s' : St) (a : Act) (hs : step s a = some s') :
    ∃ l, delivs s'.hist = delivs s.hist ++ l := by
  step_cases a with hs
  all_goals
    simp [setCaller, setNotifier, setSend, setHandler, setCloser, setPending, setTask, log, newSend, failedSend, abandon, returnCaller, delivs_snoc]

theorem PSD_mono (s s' : St) (a : Act) (hs : step s a = some s') (hp : PSD s') : PSD s := by
  obtain ⟨l, hl⟩ := delivs_mono s s' a hs
  obtain ⟨h1, h2, h3⟩ := hp
  rw [hl] at h1 h2 h3
  rw [cseq_append] at h1 h2
  refine ⟨(List.nodup_append.mp h1).1, fun q hq => h2 q (List.mem_append_left _ hq),
    fun q hq => h3 q (List.mem_append_left _ hq)⟩

structure PInv (s : St) : Prop where
  dist : ∀ h1 h2, h1 < s.nextHandler → h2 < s.nextHandler → h1 ≠ h2 →
    (s.handlers h1).task ≠ (s.handlers h2).task
  just : ∀ h, (s.handlers h).ctxCancelled = true →
    ((s.handlers h).cause = .peerCancel ∧ (s.handlers h).isCall = true ∧
        Frame.cancel (s.handlers h).seq ∈ delivs s.hist) ∨
    ((s.handlers h).cause = .closing ∧ s.rStop = true) ∨
    ((s.handlers h).cause = .ownEnd ∧ (s.handlers h).pc = .exited)
  reg : ∀ h, (((s.handlers h).pc ≠ .absent ∧ (s.handlers h).pc ≠ .exited) ∨ s.r = .spawn h) →
    (s.handlers h).ctxCancelled = false → s.tasks (s.handlers h).task = some h
  stopped : s.taskLoop = false →
    ∀ h, (((s.handlers h).pc ≠ .absent ∧ (s.handlers h).pc ≠ .exited) ∨ s.r = .spawn h) →
      (s.handlers h).ctxCancelled = true

theorem PInv_of_view (s s' : St) (h : hview s' = hview s) (hi : PInv s) : PInv s' := by
  simp only [hview, Prod.mk.injEq] at h
  obtain ⟨h1, h2, h3, h4, h5, h6, h7, h8⟩ := h
  obtain ⟨a1, a2, a3, a4⟩ := hi
  constructor <;> simp only [h1, h2, h3, h4, h5, h6, h7, h8] <;> assumption

theorem PInv_init (f p : Nat → Nat) : PInv (initSz f p) := by
  constructor <;> simp [initSz]

set_option maxHeartbeats 4000000 in
theorem PInv_step' (s s' : St) (a : Act) (hH : HInv s) (hi : PInv s) (hp : PSD s')
    (hs : step s a = some s') : PInv s' := by
  step_cases a with hs
  all_goals first
    | (refine PInv_of_view _ _ ?_ hi
       simp_all [hview, setCaller, setNotifier, setSend, setHandler, setCloser, setPending, setTask, log, newSend, failedSend, abandon, returnCaller, delivs_snoc]
       done)
    | skip
  all_goals
    obtain ⟨fresh, tasksOK, rBeg, lastN, notif, call, canc⟩ := hH
    obtain ⟨dist, just, reg, stopped⟩ := hi
    obtain ⟨p1, p2, p3⟩ := hp
    constructor <;>
    simp [setCaller, setNotifier, setSend, setHandler, setCloser, setPending, setTask, log, newSend, failedSend, abandon, returnCaller, delivs_snoc, cseq_append, cancelHandler_handlers, cancelAllTasks_handlers, List.nodup_append] at * <;>
    grind


theorem PInv_reachable (s : St) (hr : Reachable s) : PSD s → PInv s := by
  induction hr with
  | init f p => exact fun _ => PInv_init f p
  | step s s' a h hs ih =>
    intro hp
    exact PInv_step' s s' a (HInv_reachable s h) (ih (PSD_mono s s' a hs hp)) hp hs

/-! ### the hypothesis as stated in `Props/C09` (verbatim copies of its definitions) -/

def callSeqs0 (h : List Evt) : List Int :=
  h.filterMap fun e => match e with | .delivered (.call q true _) => some q | _ => none

def PSD0 (s : St) : Prop :=
  (callSeqs0 s.hist).Nodup ∧ (∀ q ∈ callSeqs0 s.hist, 0 ≤ q) ∧
  (∀ q, Evt.delivered (.cancel q) ∈ s.hist → 0 ≤ q)

theorem callSeqs0_eq (l : List Evt) : callSeqs0 l = cseq (delivs l) := by
  induction l with
  | nil => rfl
  | cons e l ih =>
    have h1 : callSeqs0 (e :: l) = callSeqs0 [e] ++ callSeqs0 l := by
      simp [callSeqs0, List.filterMap_cons]; split <;> simp
    have h2 : delivs (e :: l) = delivs [e] ++ delivs l := by
      simp [delivs, List.filterMap_cons]; split <;> simp
    rw [h1, h2, cseq_append, ih]
    congr 1
    cases e <;> try rfl
    rename_i f
    cases f <;> try rfl
    rename_i q k a
    cases k <;> rfl

theorem mem_delivs (l : List Evt) (f : Frame) : f ∈ delivs l ↔ Evt.delivered f ∈ l := by
  simp only [delivs, List.mem_filterMap]
  constructor
  · rintro ⟨e, he, h⟩
    cases e <;> simp at h
    subst h; exact he
  · intro h; exact ⟨_, h, rfl⟩

theorem PSD_of_PSD0 (s : St) (h : PSD0 s) : PSD s := by
  obtain ⟨h1, h2, h3⟩ := h
  rw [callSeqs0_eq] at h1 h2
  exact ⟨h1, h2, fun q hq => h3 q ((mem_delivs _ _).mp hq)⟩

end FmpRpc.T
