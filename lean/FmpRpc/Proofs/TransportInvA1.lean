import FmpRpc.Proofs.TransportInvA
/-
  Part A1: callers — sequence numbers, pending table, receive-loop references,
  record counters.
-/
namespace FmpRpc.T

/-- before a seqno is allocated -/
@[simp, grind] def CPc.pre : CPc → Bool
  | .absent | .begin | .new => true
  | _ => false

/-- before the call frame can have gone through the hand-off -/
@[simp, grind] def CPc.preSend : CPc → Bool
  | .absent | .begin | .new | .add | .enc | .hand _ => true
  | _ => false

/-- between AddCall and RemoveCall -/
@[simp, grind] def CPc.inTable : CPc → Bool
  | .enc | .hand _ | .sel1 _ | .sel2 | .cEnc | .cHand _ | .cPoll _ | .cRec | .fin _ | .rm _ => true
  | _ => false

/-- inside handleCancel -/
@[simp, grind] def CPc.inCancel : CPc → Bool
  | .cEnc | .cHand _ | .cPoll _ | .cRec => true
  | _ => false

/-- on the way out (deferred calls) or returned -/
@[simp, grind] def CPc.leaving : CPc → Bool
  | .fin _ | .rm _ | .ret _ => true
  | _ => false

@[simp, grind] def CPc.isRet : CPc → Bool
  | .ret _ => true
  | _ => false

@[simp, grind] def CPc.isRm : CPc → Bool
  | .rm _ => true
  | _ => false

/-- the outcome a caller is leaving with -/
@[simp, grind] def CPc.out? : CPc → Option Out
  | .fin o | .rm o | .ret o => some o
  | _ => none

/-- facts about one caller record on its own -/
structure COk (nextSeq : Nat) (cl : Caller) : Prop where
  pre : cl.pc.pre = true →
    cl.seq = -1 ∧ cl.sent = false ∧ cl.records = 0 ∧ cl.crecords = 0 ∧ cl.cancels = 0 ∧
    cl.rslot = none ∧ cl.bufSeq = none ∧ cl.slotSeq = none
  abs : cl.pc = .absent → cl.buf = 0
  rng : cl.seq = -1 ∨ (0 ≤ cl.seq ∧ cl.seq < nextSeq)
  post : cl.pc.pre = false → cl.pc.isRet = false → cl.seq ≠ -1
  tab : cl.pc.inTable = true → cl.seq ≠ -1
  rec0 : cl.pc.isRet = false → cl.pc.isRm = false → cl.records = 0
  rec1 : cl.pc.isRm = true → cl.records = if cl.cfail then 0 else 1
  recr : cl.pc.isRet = true →
    (cl.seq = -1 ∧ cl.records = 0) ∨ (cl.seq ≠ -1 ∧ cl.records = if cl.cfail then 0 else 1)
  snt : cl.pc.preSend = true → cl.sent = false
  cfl : cl.cfail = true → cl.sent = false ∧ cl.records = 0 ∧ cl.pc.out? = some (.err .toobig) ∧
    (cl.pc.isRm = true ∨ cl.pc.isRet = true)
  can0 : cl.pc.inCancel = false → cl.pc.leaving = false → cl.cancels = 0 ∧ cl.crecords = 0
  can1 : cl.pc.inCancel = true → cl.cancels = 1 ∧ cl.crecords = 0
  can2 : cl.pc.leaving = true → cl.cancels ≤ 1 ∧ cl.crecords = cl.cancels
  bseq : ∀ q, cl.bufSeq = some q → q = cl.seq ∧ q ≠ -1
  sseq : ∀ q, cl.slotSeq = some q → q = cl.seq
  slot : ∀ v, cl.rslot = some v → cl.bufSeq = some cl.seq
  okb : ∀ res ae, cl.pc.out? = some (.ok res ae) → cl.bufSeq = some cl.seq

structure CInv (s : St) : Prop where
  loc : ∀ c, COk s.nextSeq (s.callers c)
  inj : ∀ c c', (s.callers c).seq = (s.callers c').seq → (s.callers c).seq ≠ -1 → c = c'
  pend1 : ∀ q c, s.pending q = some c → (s.callers c).seq = q ∧ (s.callers c).pc.inTable = true
  pend2 : ∀ c, (s.callers c).pc.inTable = true → s.pending (s.callers c).seq = some c
  rdec : ∀ c q p ae, s.r = .respDecode c q p ae → (s.callers c).seq = q ∧ q ≠ -1
  rdel : ∀ c q p ae, s.r = .respDeliver c q p ae → (s.callers c).seq = q ∧ q ≠ -1 ∧ (s.callers c).bufSeq = some q

theorem CInv_init (f p : Nat → Nat) : CInv (initSz f p) := by
  constructor <;> simp [initSz]
  constructor <;> simp

theorem COk_mono {n m : Nat} {cl : Caller} (h : COk n cl) (hnm : n ≤ m) : COk m cl := by
  obtain ⟨pre, abs, rng, post, tab, rec0, rec1, recr, snt, cfl, can0, can1, can2, bseq, sseq, slot, okb⟩ := h
  constructor <;> first | assumption | omega

set_option maxHeartbeats 1000000 in
theorem CInv_loc_step (s s' : St) (a : Act) (h : CInv s) (hs : step s a = some s') :
    ∀ c, COk s'.nextSeq (s'.callers c) := by
  obtain ⟨loc, inj, pend1, pend2, rdec, rdel⟩ := h
  intro c0
  have h0 := loc c0
  step_cases a hs
  all_goals (first | exact h0 | skip)
  all_goals (try simp)
  all_goals (first | exact h0 | skip)
  all_goals (split; rotate_left; first | exact h0 | exact COk_mono h0 (by omega))
  all_goals (rename_i heq; subst heq)
  all_goals (clear loc inj pend2 pend1)
  all_goals (obtain ⟨pre, abs, rng, post, tab, rec0, rec1, recr, snt, cfl, can0, can1, can2, bseq, sseq, slot, okb⟩ := h0)
  all_goals (constructor <;> (try simp) <;> (first | done | assumption | omega | grind))


set_option maxHeartbeats 1000000 in
theorem CInv_glob_step (s s' : St) (a : Act) (h : CInv s) (hs : step s a = some s') :
    (∀ c c', (s'.callers c).seq = (s'.callers c').seq → (s'.callers c).seq ≠ -1 → c = c') ∧
    (∀ q c, s'.pending q = some c → (s'.callers c).seq = q ∧ (s'.callers c).pc.inTable = true) ∧
    (∀ c, (s'.callers c).pc.inTable = true → s'.pending (s'.callers c).seq = some c) ∧
    (∀ c q p ae, s'.r = .respDecode c q p ae → (s'.callers c).seq = q ∧ q ≠ -1) ∧
    (∀ c q p ae, s'.r = .respDeliver c q p ae → (s'.callers c).seq = q ∧ q ≠ -1 ∧ (s'.callers c).bufSeq = some q) := by
  obtain ⟨loc, inj, pend1, pend2, rdec, rdel⟩ := h
  have hpre : ∀ c, (s.callers c).pc.pre = true → (s.callers c).seq = -1 := fun c h => ((loc c).pre h).1
  have hpost := fun c => (loc c).post
  have hrng := fun c => (loc c).rng
  have htab := fun c => (loc c).tab
  have hall := And.intro inj (And.intro pend1 (And.intro pend2 (And.intro rdec rdel)))
  step_cases a hs
  all_goals (first | exact hall | skip)
  all_goals (clear hall loc)
  all_goals (refine ⟨?_, ?_, ?_, ?_, ?_⟩)
  all_goals (try simp)
  all_goals (first | done | assumption | grind)


theorem CInv_step (s s' : St) (a : Act) (h : CInv s) (hs : step s a = some s') : CInv s' := by
  have h1 := CInv_loc_step s s' a h hs
  obtain ⟨h2, h3, h4, h5, h6⟩ := CInv_glob_step s s' a h hs
  exact ⟨h1, h2, h3, h4, h5, h6⟩

theorem CInv_reach (s : St) (hr : Reachable s) : CInv s :=
  reachable_induct CInv_init (fun s s' a _ ih hs => CInv_step s s' a ih hs) s hr

end FmpRpc.T
