import FmpRpc.Proofs.TransportInvB
/-
  Callers, their seqnos and the table of pending calls (used by C11).
-/
namespace FmpRpc.T
set_option linter.unusedSimpArgs false

/-- the call is between AddCall and RemoveCall (copy of `C11.inTable`) -/
def inTab : CPc → Bool
  | .enc | .hand _ | .sel1 _ | .sel2 | .cEnc | .cHand _ | .cPoll _ | .cRec | .fin _ | .rm _ => true
  | _ => false

/-- the caller owns a seqno -/
def hasSeq : CPc → Bool
  | .add | .enc | .hand _ | .sel1 _ | .sel2 | .cEnc | .cHand _ | .cPoll _ | .cRec | .fin _ | .rm _ => true
  | _ => false

theorem inTab_hasSeq (p : CPc) (h : inTab p = true) : hasSeq p = true := by
  cases p <;> simp_all [inTab, hasSeq]

structure CInv (s : St) : Prop where
  seqLt : ∀ c, hasSeq (s.callers c).pc = true → (s.callers c).seq < s.nextSeq
  distinct : ∀ c1 c2, hasSeq (s.callers c1).pc = true → hasSeq (s.callers c2).pc = true → c1 ≠ c2 →
    (s.callers c1).seq ≠ (s.callers c2).seq
  pend : ∀ q c, s.pending q = some c ↔ ((s.callers c).seq = q ∧ inTab (s.callers c).pc = true)

def cview (s : St) := (s.callers, s.pending, s.nextSeq)

theorem CInv_of_view (s s' : St) (h : cview s' = cview s) (hi : CInv s) : CInv s' := by
  simp only [cview, Prod.mk.injEq] at h
  obtain ⟨h1, h2, h3⟩ := h
  obtain ⟨a1, a2, a3⟩ := hi
  constructor <;> simp only [h1, h2, h3] <;> assumption

theorem CInv_init (f p : Nat → Nat) : CInv (initSz f p) := by
  constructor <;> simp [initSz, hasSeq, inTab]

set_option maxHeartbeats 4000000 in
theorem CInv_step (s s' : St) (a : Act) (hi : CInv s) (hs : step s a = some s') : CInv s' := by
  step_cases a with hs
  all_goals first
    | (refine CInv_of_view _ _ ?_ hi
       simp_all [cview, setCaller, setNotifier, setSend, setHandler, setCloser, setPending, setTask, log, newSend, failedSend, abandon, returnCaller]
       done)
    | skip
  all_goals
    obtain ⟨seqLt, distinct, pend⟩ := hi
    constructor <;>
    simp [setCaller, setNotifier, setSend, setHandler, setCloser, setPending, setTask, log, newSend, failedSend, abandon, returnCaller] at * <;>
    first | grind [hasSeq, inTab] | grind [hasSeq, inTab, → inTab_hasSeq]

theorem CInv_reachable (s : St) (hr : Reachable s) : CInv s := by
  induction hr with
  | init f p => exact CInv_init f p
  | step s s' a _ hs ih => exact CInv_step s s' a ih hs

/-! ### a caller at its deferred `RemoveCall` -/

set_option maxHeartbeats 1000000 in
/-- a caller whose only remaining deferred call is `RemoveCall` is moved on by
    that step alone: every other action leaves its program counter where it is -/
theorem rm_only_cRm (s s' : St) (a : Act) (c : Nat) (o : Out) (hpc : (s.callers c).pc = .rm o)
    (hs : step s a = some s') : (s'.callers c).pc = .rm o ∨ a = .cRm c := by
  step_cases a with hs
  all_goals
    simp [setCaller, setNotifier, setSend, setHandler, setCloser, setPending, setTask, log, newSend, failedSend, abandon, returnCaller] at * <;>
    grind

/-- `RemoveCall` is always enabled there; it returns the outcome and clears the
    table entry of the call's seqno -/
theorem cRm_eff (s : St) (c : Nat) (o : Out) (hpc : (s.callers c).pc = .rm o) :
    ∃ s', step s (.cRm c) = some s' ∧ (s'.callers c).pc = .ret o ∧
      (s'.callers c).seq = (s.callers c).seq ∧ s'.pending (s.callers c).seq = none := by
  simp only [step, hpc]
  refine ⟨_, rfl, ?_, ?_, ?_⟩ <;> simp [setCaller, setPending, log] <;> split <;> simp

end FmpRpc.T
