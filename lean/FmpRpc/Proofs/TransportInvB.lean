import FmpRpc.Model.Transport
/-
  Invariants of the transport model used by Props C07, C09, C10, C11.
-/
namespace FmpRpc.T

/-! ### simp lemmas for the setters -/
section setters
variable (s : St)

@[simp] theorem setCaller_callers (c : Nat) (v : Caller) (i : Nat) :
    (setCaller s c v).callers i = if i = c then v else s.callers i := rfl
@[simp] theorem setNotifier_notifiers (c : Nat) (v : Notifier) (i : Nat) :
    (setNotifier s c v).notifiers i = if i = c then v else s.notifiers i := rfl
@[simp] theorem setSend_sends (c : Nat) (v : Send) (i : Nat) :
    (setSend s c v).sends i = if i = c then v else s.sends i := rfl
@[simp] theorem setHandler_handlers (c : Nat) (v : Handler) (i : Nat) :
    (setHandler s c v).handlers i = if i = c then v else s.handlers i := rfl
@[simp] theorem setCloser_closers (c : Nat) (v : Closer) (i : Nat) :
    (setCloser s c v).closers i = if i = c then v else s.closers i := rfl
@[simp] theorem setPending_pending (c : Int) (v : Option Nat) (i : Int) :
    (setPending s c v).pending i = if i = c then v else s.pending i := rfl
@[simp] theorem setTask_tasks (c : Int) (v : Option Nat) (i : Int) :
    (setTask s c v).tasks i = if i = c then v else s.tasks i := rfl
end setters

/-! ### cancelHandler / cancelAllTasks: only `handlers` and `hist` change -/

theorem cancelHandler_frame (s : St) (h : Nat) (c : Cause) :
    cancelHandler s h c =
      { s with handlers := (cancelHandler s h c).handlers, hist := (cancelHandler s h c).hist } := by
  simp only [cancelHandler]; split <;> rfl

theorem cancelAllTasks_frame (s : St) (n : Nat) :
    cancelAllTasks s n =
      { s with handlers := (cancelAllTasks s n).handlers, hist := (cancelAllTasks s n).hist } := by
  induction n with
  | zero => rfl
  | succ n ih =>
    simp only [cancelAllTasks]
    split
    · rw [cancelHandler_frame]; rw [ih]
    · exact ih

@[simp] theorem cancelHandler_nextSeq (s : St) (h : Nat) (c : Cause) : (cancelHandler s h c).nextSeq = s.nextSeq := by
  rw [cancelHandler_frame]
@[simp] theorem cancelAllTasks_nextSeq (s : St) (n : Nat) : (cancelAllTasks s n).nextSeq = s.nextSeq := by
  rw [cancelAllTasks_frame]
@[simp] theorem cancelHandler_pending (s : St) (h : Nat) (c : Cause) : (cancelHandler s h c).pending = s.pending := by
  rw [cancelHandler_frame]
@[simp] theorem cancelAllTasks_pending (s : St) (n : Nat) : (cancelAllTasks s n).pending = s.pending := by
  rw [cancelAllTasks_frame]
@[simp] theorem cancelHandler_callers (s : St) (h : Nat) (c : Cause) : (cancelHandler s h c).callers = s.callers := by
  rw [cancelHandler_frame]
@[simp] theorem cancelAllTasks_callers (s : St) (n : Nat) : (cancelAllTasks s n).callers = s.callers := by
  rw [cancelAllTasks_frame]
@[simp] theorem cancelHandler_notifiers (s : St) (h : Nat) (c : Cause) : (cancelHandler s h c).notifiers = s.notifiers := by
  rw [cancelHandler_frame]
@[simp] theorem cancelAllTasks_notifiers (s : St) (n : Nat) : (cancelAllTasks s n).notifiers = s.notifiers := by
  rw [cancelAllTasks_frame]
@[simp] theorem cancelHandler_sends (s : St) (h : Nat) (c : Cause) : (cancelHandler s h c).sends = s.sends := by
  rw [cancelHandler_frame]
@[simp] theorem cancelAllTasks_sends (s : St) (n : Nat) : (cancelAllTasks s n).sends = s.sends := by
  rw [cancelAllTasks_frame]
@[simp] theorem cancelHandler_nextSend (s : St) (h : Nat) (c : Cause) : (cancelHandler s h c).nextSend = s.nextSend := by
  rw [cancelHandler_frame]
@[simp] theorem cancelAllTasks_nextSend (s : St) (n : Nat) : (cancelAllTasks s n).nextSend = s.nextSend := by
  rw [cancelAllTasks_frame]
@[simp] theorem cancelHandler_hasNotifier (s : St) (h : Nat) (c : Cause) : (cancelHandler s h c).hasNotifier = s.hasNotifier := by
  rw [cancelHandler_frame]
@[simp] theorem cancelAllTasks_hasNotifier (s : St) (n : Nat) : (cancelAllTasks s n).hasNotifier = s.hasNotifier := by
  rw [cancelAllTasks_frame]
@[simp] theorem cancelHandler_w (s : St) (h : Nat) (c : Cause) : (cancelHandler s h c).w = s.w := by
  rw [cancelHandler_frame]
@[simp] theorem cancelAllTasks_w (s : St) (n : Nat) : (cancelAllTasks s n).w = s.w := by
  rw [cancelAllTasks_frame]
@[simp] theorem cancelHandler_wlog (s : St) (h : Nat) (c : Cause) : (cancelHandler s h c).wlog = s.wlog := by
  rw [cancelHandler_frame]
@[simp] theorem cancelAllTasks_wlog (s : St) (n : Nat) : (cancelAllTasks s n).wlog = s.wlog := by
  rw [cancelAllTasks_frame]
@[simp] theorem cancelHandler_nlog (s : St) (h : Nat) (c : Cause) : (cancelHandler s h c).nlog = s.nlog := by
  rw [cancelHandler_frame]
@[simp] theorem cancelAllTasks_nlog (s : St) (n : Nat) : (cancelAllTasks s n).nlog = s.nlog := by
  rw [cancelAllTasks_frame]
@[simp] theorem cancelHandler_r (s : St) (h : Nat) (c : Cause) : (cancelHandler s h c).r = s.r := by
  rw [cancelHandler_frame]
@[simp] theorem cancelAllTasks_r (s : St) (n : Nat) : (cancelAllTasks s n).r = s.r := by
  rw [cancelAllTasks_frame]
@[simp] theorem cancelHandler_taskLoop (s : St) (h : Nat) (c : Cause) : (cancelHandler s h c).taskLoop = s.taskLoop := by
  rw [cancelHandler_frame]
@[simp] theorem cancelAllTasks_taskLoop (s : St) (n : Nat) : (cancelAllTasks s n).taskLoop = s.taskLoop := by
  rw [cancelAllTasks_frame]
@[simp] theorem cancelHandler_tasks (s : St) (h : Nat) (c : Cause) : (cancelHandler s h c).tasks = s.tasks := by
  rw [cancelHandler_frame]
@[simp] theorem cancelAllTasks_tasks (s : St) (n : Nat) : (cancelAllTasks s n).tasks = s.tasks := by
  rw [cancelAllTasks_frame]
@[simp] theorem cancelHandler_nextHandler (s : St) (h : Nat) (c : Cause) : (cancelHandler s h c).nextHandler = s.nextHandler := by
  rw [cancelHandler_frame]
@[simp] theorem cancelAllTasks_nextHandler (s : St) (n : Nat) : (cancelAllTasks s n).nextHandler = s.nextHandler := by
  rw [cancelAllTasks_frame]
@[simp] theorem cancelHandler_lastNotifyTask (s : St) (h : Nat) (c : Cause) : (cancelHandler s h c).lastNotifyTask = s.lastNotifyTask := by
  rw [cancelHandler_frame]
@[simp] theorem cancelAllTasks_lastNotifyTask (s : St) (n : Nat) : (cancelAllTasks s n).lastNotifyTask = s.lastNotifyTask := by
  rw [cancelAllTasks_frame]
@[simp] theorem cancelHandler_closers (s : St) (h : Nat) (c : Cause) : (cancelHandler s h c).closers = s.closers := by
  rw [cancelHandler_frame]
@[simp] theorem cancelAllTasks_closers (s : St) (n : Nat) : (cancelAllTasks s n).closers = s.closers := by
  rw [cancelAllTasks_frame]
@[simp] theorem cancelHandler_once (s : St) (h : Nat) (c : Cause) : (cancelHandler s h c).once = s.once := by
  rw [cancelHandler_frame]
@[simp] theorem cancelAllTasks_once (s : St) (n : Nat) : (cancelAllTasks s n).once = s.once := by
  rw [cancelAllTasks_frame]
@[simp] theorem cancelHandler_stopErr (s : St) (h : Nat) (c : Cause) : (cancelHandler s h c).stopErr = s.stopErr := by
  rw [cancelHandler_frame]
@[simp] theorem cancelAllTasks_stopErr (s : St) (n : Nat) : (cancelAllTasks s n).stopErr = s.stopErr := by
  rw [cancelAllTasks_frame]
@[simp] theorem cancelHandler_stopCh (s : St) (h : Nat) (c : Cause) : (cancelHandler s h c).stopCh = s.stopCh := by
  rw [cancelHandler_frame]
@[simp] theorem cancelAllTasks_stopCh (s : St) (n : Nat) : (cancelAllTasks s n).stopCh = s.stopCh := by
  rw [cancelAllTasks_frame]
@[simp] theorem cancelHandler_dStop (s : St) (h : Nat) (c : Cause) : (cancelHandler s h c).dStop = s.dStop := by
  rw [cancelHandler_frame]
@[simp] theorem cancelAllTasks_dStop (s : St) (n : Nat) : (cancelAllTasks s n).dStop = s.dStop := by
  rw [cancelAllTasks_frame]
@[simp] theorem cancelHandler_rStop (s : St) (h : Nat) (c : Cause) : (cancelHandler s h c).rStop = s.rStop := by
  rw [cancelHandler_frame]
@[simp] theorem cancelAllTasks_rStop (s : St) (n : Nat) : (cancelAllTasks s n).rStop = s.rStop := by
  rw [cancelAllTasks_frame]
@[simp] theorem cancelHandler_rClosed (s : St) (h : Nat) (c : Cause) : (cancelHandler s h c).rClosed = s.rClosed := by
  rw [cancelHandler_frame]
@[simp] theorem cancelAllTasks_rClosed (s : St) (n : Nat) : (cancelAllTasks s n).rClosed = s.rClosed := by
  rw [cancelAllTasks_frame]
@[simp] theorem cancelHandler_encDone (s : St) (h : Nat) (c : Cause) : (cancelHandler s h c).encDone = s.encDone := by
  rw [cancelHandler_frame]
@[simp] theorem cancelAllTasks_encDone (s : St) (n : Nat) : (cancelAllTasks s n).encDone = s.encDone := by
  rw [cancelAllTasks_frame]
@[simp] theorem cancelHandler_encClosed (s : St) (h : Nat) (c : Cause) : (cancelHandler s h c).encClosed = s.encClosed := by
  rw [cancelHandler_frame]
@[simp] theorem cancelAllTasks_encClosed (s : St) (n : Nat) : (cancelAllTasks s n).encClosed = s.encClosed := by
  rw [cancelAllTasks_frame]
@[simp] theorem cancelHandler_connClosed (s : St) (h : Nat) (c : Cause) : (cancelHandler s h c).connClosed = s.connClosed := by
  rw [cancelHandler_frame]
@[simp] theorem cancelAllTasks_connClosed (s : St) (n : Nat) : (cancelAllTasks s n).connClosed = s.connClosed := by
  rw [cancelAllTasks_frame]

/-- frame-lemma generator: prove the action case split once per use -/
syntax "step_cases " ident " with " ident : tactic
macro_rules
  | `(tactic| step_cases $a with $hs) =>
    `(tactic| (cases $a:ident <;> simp only [step] at $hs:ident <;> (repeat' split at $hs:ident) <;>
        first | (cases $hs:ident; done) | (injection $hs:ident with $hs:ident; subst $hs:ident)))

/-! ### handlers / hist after cancelHandler, cancelAllTasks -/

theorem cancelHandler_handlers (s : St) (h : Nat) (c : Cause) (i : Nat) :
    (cancelHandler s h c).handlers i =
      if i = h ∧ (s.handlers h).ctxCancelled = false then
        { s.handlers h with ctxCancelled := true, cause := c }
      else s.handlers i := by
  simp only [cancelHandler]
  split <;> simp_all [setHandler, log]

theorem cancelHandler_hist (s : St) (h : Nat) (c : Cause) :
    (cancelHandler s h c).hist =
      if (s.handlers h).ctxCancelled = true then s.hist else s.hist ++ [.ctxCancelled h c] := by
  simp only [cancelHandler]
  split <;> simp_all [setHandler, log]

theorem cancelAllTasks_handlers (s : St) (n : Nat) (i : Nat) :
    (cancelAllTasks s n).handlers i =
      if i < n ∧ s.tasks (s.handlers i).task = some i ∧ (s.handlers i).ctxCancelled = false then
        { s.handlers i with ctxCancelled := true, cause := .closing }
      else s.handlers i := by
  induction n generalizing i with
  | zero => simp [cancelAllTasks]
  | succ n ih =>
    simp only [cancelAllTasks]
    have hn := ih n
    simp only [Nat.lt_irrefl, false_and, if_false] at hn
    split
    · rename_i h1
      rw [cancelHandler_handlers, hn, ih i]
      simp only [cancelAllTasks_tasks, hn] at h1
      grind
    · rename_i h1
      rw [ih i]
      simp only [cancelAllTasks_tasks, hn] at h1
      grind

def isCtxEvt : Evt → Bool
  | .ctxCancelled _ _ => true
  | _ => false

theorem cancelHandler_hist_ex (s : St) (h : Nat) (c : Cause) :
    ∃ l, (cancelHandler s h c).hist = s.hist ++ l ∧ ∀ e ∈ l, isCtxEvt e = true := by
  rw [cancelHandler_hist]
  split
  · exact ⟨[], by simp⟩
  · exact ⟨[.ctxCancelled h c], by simp [isCtxEvt]⟩

theorem cancelAllTasks_hist_ex (s : St) (n : Nat) :
    ∃ l, (cancelAllTasks s n).hist = s.hist ++ l ∧ ∀ e ∈ l, isCtxEvt e = true := by
  induction n with
  | zero => exact ⟨[], by simp [cancelAllTasks]⟩
  | succ n ih =>
    simp only [cancelAllTasks]
    split
    · obtain ⟨l1, h1, h1'⟩ := ih
      obtain ⟨l2, h2, h2'⟩ := cancelHandler_hist_ex (cancelAllTasks s n) n .closing
      refine ⟨l1 ++ l2, by rw [h2, h1, List.append_assoc], ?_⟩
      intro e he
      rcases List.mem_append.mp he with h | h
      · exact h1' e h
      · exact h2' e h
    · exact ih

theorem stopCh_mono (s s' : St) (a : Act) (hs : step s a = some s') (h : s.stopCh = true) :
    s'.stopCh = true := by
  step_cases a with hs
  all_goals simp_all [setCaller, setNotifier, setSend, setHandler, setCloser, setPending, setTask, log, newSend, failedSend, abandon, returnCaller]

end FmpRpc.T
