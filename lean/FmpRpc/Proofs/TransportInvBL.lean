import FmpRpc.Proofs.TransportInvBK
import FmpRpc.Proofs.TransportInvBS
/-
  Progress after a completed close: every goroutine that has not finished has
  an enabled internal step (used by C11.no_leak / no_api_call_left).
-/
namespace FmpRpc.T
set_option linter.unusedSimpArgs false

theorem r_progress (s : St) (hK : KInv s) (hS : SInv s) (hd : s.once = .done) :
    s.r = .idle ∨ s.r = .exited ∨
    (step s .rLookup).isSome ∨ (step s .rDecode).isSome ∨ (step s .rDeliverSlot).isSome ∨
    (step s .rNfEnc).isSome ∨ (step s .rNfHandDone).isSome ∨ (step s .rNfSel).isSome ∨
    (step s .rBegStop).isSome ∨ (step s .rSpawn).isSome ∨ (step s .rCanStop).isSome ∨
    (step s .rCloseDone).isSome ∨ (s.connClosed = true ∧ (step s .rFatal).isSome) ∨
    (step s (.kEnter 0)).isSome ∨ (step s (.kWake 0)).isSome := by
  obtain ⟨f1, f2, f3, f4, f5, f6, f7, f8, f9, f10⟩ := hK.done_flags hd
  cases hr : s.r with
  | idle => simp
  | exited => simp
  | reading => simp [step, hr, f7]
  | respLookup q p ae =>
    right; right; left
    simp only [step, hr]; split <;> (try split) <;> simp
  | respDecode c q p ae => simp [step, hr]
  | respDeliver c q p ae =>
    right; right; right; right; left
    simp only [step, hr]; split <;> simp
  | nfEnc q => simp [step, hr]
  | nfHand x => simp [step, hr, f6]
  | nfSel x =>
    obtain ⟨_, h | ⟨_, h⟩⟩ := hS.rSel x hr
    · have := hS.handedW x h
      simp [f10] at this
    · obtain ⟨e, he⟩ := Option.ne_none_iff_exists'.mp h
      simp [step, hr, he]
  | begSel h => simp [step, hr, f4]
  | spawn h => simp [step, hr]
  | canSel q => simp [step, hr, f4]
  | closing =>
    have h0 := hK.rcl hr
    cases hp : (s.closers 0).pc with
    | absent => exact absurd hp h0
    | enter => simp [step, hp, hd]
    | waitOnce => simp [step, hp, hd]
    | done => simp [step, hr, hp]
    | _ =>
      have := hK.body 0 (by simp [hp, bodyPc])
      simp [hd] at this

theorem h_progress (s : St) (hK : KInv s) (hS : SInv s) (hd : s.once = .done) (h : Nat) :
    (s.handlers h).pc = .absent ∨ (s.handlers h).pc = .exited ∨ (s.handlers h).pc = .run ∨
    (step s (.hEnc h true)).isSome ∨ (step s (.hHandDone h)).isSome ∨ (step s (.hSelErr h)).isSome ∨
    (step s (.hFin h)).isSome ∨ (step s (.hEndStop h)).isSome := by
  obtain ⟨f1, f2, f3, f4, f5, f6, f7, f8, f9, f10⟩ := hK.done_flags hd
  cases hp : (s.handlers h).pc with
  | absent => simp
  | exited => simp
  | run => simp
  | rEnc res ae => simp [step, hp, newSend]
  | rHand x => simp [step, hp, f6]
  | rSel x =>
    obtain ⟨_, _, _, _, h1 | ⟨_, h1⟩⟩ := hS.hSel h x hp
    · have := hS.handedW x h1
      simp [f10] at this
    · obtain ⟨e, he⟩ := Option.ne_none_iff_exists'.mp h1
      simp [step, hp, he]
  | rFin => simp [step, hp]
  | endSel => simp [step, hp, f4]

theorem a_progress (s : St) (hK : KInv s) (hS : SInv s) (hd : s.once = .done) (y : Nat)
    (ha : (s.sends y).async = true) :
    (s.sends y).st = .completed ∨ (step s (.aDone y)).isSome := by
  obtain ⟨f1, f2, f3, f4, f5, f6, f7, f8, f9, f10⟩ := hK.done_flags hd
  cases hst : (s.sends y).st with
  | absent => exact absurd hst (hS.asyncSt y ha)
  | waiting => simp [step, hst, ha, f6]
  | handed =>
    have := hS.handedW y hst
    simp [f10] at this
  | completed => simp

theorem c_progress (s : St) (hK : KInv s) (hd : s.once = .done) (c : Nat) :
    (s.callers c).pc = .absent ∨ (∃ o, (s.callers c).pc = .ret o) ∨
    (step s (.cBegin c)).isSome ∨ (step s (.cNew c)).isSome ∨ (step s (.cAdd c)).isSome ∨
    (step s (.cEnc c true)).isSome ∨ (step s (.cHandDone c)).isSome ∨ (step s (.cSel1Stop c)).isSome ∨
    (step s (.cSel2Stop c)).isSome ∨ (step s (.cCancelEnc c)).isSome ∨ (step s (.cCancelDone c)).isSome ∨
    (step s (.cPoll c)).isSome ∨ (step s (.cCancelRec c)).isSome ∨ (step s (.cFin c)).isSome ∨
    (step s (.cRm c)).isSome := by
  obtain ⟨f1, f2, f3, f4, f5, f6, f7, f8, f9, f10⟩ := hK.done_flags hd
  cases hp : (s.callers c).pc with
  | absent => simp
  | ret o => simp
  | begin =>
    right; right; left
    simp only [step, hp]; simp; split <;> simp
  | new => simp [step, hp]
  | add => simp [step, hp]
  | enc => simp [step, hp, newSend]
  | hand x => simp [step, hp, f6]
  | sel1 x => simp [step, hp, f3]
  | sel2 => simp [step, hp, f3]
  | cEnc => simp [step, hp, newSend]
  | cHand y => simp [step, hp, f6]
  | cPoll y => simp [step, hp]
  | cRec => simp [step, hp]
  | fin o => simp [step, hp]
  | rm o => simp [step, hp]

theorem n_progress (s : St) (hK : KInv s) (hd : s.once = .done) (n : Nat) :
    (s.notifiers n).pc = .absent ∨ (∃ o, (s.notifiers n).pc = .ret o) ∨
    (step s (.nBegin n)).isSome ∨ (step s (.nEnc n true)).isSome ∨ (step s (.nHandDone n)).isSome ∨
    (step s (.nSelStop n)).isSome ∨ (step s (.nFin n)).isSome := by
  obtain ⟨f1, f2, f3, f4, f5, f6, f7, f8, f9, f10⟩ := hK.done_flags hd
  cases hp : (s.notifiers n).pc with
  | absent => simp
  | ret o => simp
  | begin =>
    right; right; left
    simp only [step, hp]; simp; split <;> simp
  | enc => simp [step, hp, newSend]
  | hand x => simp [step, hp, f6]
  | sel x => simp [step, hp, f3]
  | fin o => simp [step, hp]

end FmpRpc.T
