import FmpRpc.Proofs.TransportInvBS
/- preservation of the send invariant, part 2 (split for checking time) -/
namespace FmpRpc.T
set_option linter.unusedSimpArgs false

set_option maxHeartbeats 8000000 in
theorem SInv_step_cCHand (s s' : St) (a : Act) (hi : SInv s) (hs : step s a = some s') :
    ∀ c y, (s'.callers c).pc = .cHand y →
    (s'.sends y).st = .waiting ∧ (s'.sends y).kind = .cancel ∧ (s'.sends y).who = c ∧ (s'.sends y).async = false := by
  step_cases a with hs
  all_goals first
    | (refine (SInv_of_view _ _ ?_ hi).cCHand
       simp_all [sview, setCaller, setNotifier, setSend, setHandler, setCloser, setPending, setTask, log, newSend, failedSend, abandon, returnCaller]
       done)
    | skip
  all_goals
    simp [setCaller, setNotifier, setSend, setHandler, setCloser, setPending, setTask, log, newSend, failedSend, abandon, returnCaller, cancelHandler_handlers, cancelAllTasks_handlers] at * <;>
    first
      | exact hi.cCHand
      | (obtain ⟨fresh, cHand, cSel1, cCHand, cCPoll, nHand, nSel, hHand, hSel, rHand, rSel, handedW, wHanded, asyncSt⟩ := hi
         grind)

set_option maxHeartbeats 8000000 in
theorem SInv_step_cCPoll (s s' : St) (a : Act) (hi : SInv s) (hs : step s a = some s') :
    ∀ c y, (s'.callers c).pc = .cPoll y → (s'.sends y).st ≠ .absent ∧ (s'.sends y).kind = .cancel := by
  step_cases a with hs
  all_goals first
    | (refine (SInv_of_view _ _ ?_ hi).cCPoll
       simp_all [sview, setCaller, setNotifier, setSend, setHandler, setCloser, setPending, setTask, log, newSend, failedSend, abandon, returnCaller]
       done)
    | skip
  all_goals
    simp [setCaller, setNotifier, setSend, setHandler, setCloser, setPending, setTask, log, newSend, failedSend, abandon, returnCaller, cancelHandler_handlers, cancelAllTasks_handlers] at * <;>
    first
      | exact hi.cCPoll
      | (obtain ⟨fresh, cHand, cSel1, cCHand, cCPoll, nHand, nSel, hHand, hSel, rHand, rSel, handedW, wHanded, asyncSt⟩ := hi
         grind)

set_option maxHeartbeats 8000000 in
theorem SInv_step_nHand (s s' : St) (a : Act) (hi : SInv s) (hs : step s a = some s') :
    ∀ n x, (s'.notifiers n).pc = .hand x →
    (s'.sends x).st = .waiting ∧ (s'.sends x).kind = .notify ∧ (s'.sends x).who = n ∧ (s'.sends x).async = false := by
  step_cases a with hs
  all_goals first
    | (refine (SInv_of_view _ _ ?_ hi).nHand
       simp_all [sview, setCaller, setNotifier, setSend, setHandler, setCloser, setPending, setTask, log, newSend, failedSend, abandon, returnCaller]
       done)
    | skip
  all_goals
    simp [setCaller, setNotifier, setSend, setHandler, setCloser, setPending, setTask, log, newSend, failedSend, abandon, returnCaller, cancelHandler_handlers, cancelAllTasks_handlers] at * <;>
    first
      | exact hi.nHand
      | (obtain ⟨fresh, cHand, cSel1, cCHand, cCPoll, nHand, nSel, hHand, hSel, rHand, rSel, handedW, wHanded, asyncSt⟩ := hi
         grind)

end FmpRpc.T
