import FmpRpc.Proofs.TransportInvB
/-
  Closers, the once and the stop flags (used by C07, C10, C11).
-/
namespace FmpRpc.T

/-! ### closers, the once and the stop flags -/

/-- how far the closer inside the once has got -/
def klevel : KPc → Nat
  | .setErr => 0 | .stop => 1 | .dstop => 2 | .rstop => 3 | .waitTask => 4
  | .encClose => 5 | .connClose => 6 | .waitWriter => 7
  | _ => 0

def bodyPc : KPc → Bool
  | .setErr | .stop | .dstop | .rstop | .waitTask | .encClose | .connClose | .waitWriter => true
  | _ => false

/-- progress of the close: 0 before, 8 after -/
def lvl (s : St) : Nat :=
  match s.once with
  | .idle => 0
  | .running k => klevel (s.closers k).pc
  | .done => 8

def stopCnt (h : List Evt) : Nat :=
  (h.filter fun e => match e with | .stopClosed => true | _ => false).length

structure KInv (s : St) : Prop where
  c0 : (s.closers 0).pc ≠ .absent → s.r = .closing ∨ s.r = .exited
  rcl : s.r = .closing → (s.closers 0).pc ≠ .absent
  body : ∀ k, bodyPc (s.closers k).pc = true → s.once = .running k
  running : ∀ k, s.once = .running k → bodyPc (s.closers k).pc = true
  waitOnce : ∀ k, (s.closers k).pc = .waitOnce → s.once ≠ .idle
  fErr : s.stopErr.isSome = true ↔ 1 ≤ lvl s
  fStop : s.stopCh = true ↔ 2 ≤ lvl s
  fD : s.dStop = true ↔ 3 ≤ lvl s
  fR : s.rStop = true ↔ 4 ≤ lvl s
  fRC : 5 ≤ lvl s → s.rClosed = true
  fEnc : s.encDone = true ↔ 6 ≤ lvl s
  fConn : s.connClosed = true ↔ 7 ≤ lvl s
  fEC : 8 ≤ lvl s → s.encClosed = true
  rcT : s.rClosed = !s.taskLoop
  tR : s.taskLoop = false → s.rStop = true
  ecW : s.encClosed = true ↔ s.w = .exited
  wE : s.w = .exited → s.encDone = true
  cnt : stopCnt s.hist = if s.stopCh then 1 else 0

theorem stopCnt_append (l1 l2 : List Evt) : stopCnt (l1 ++ l2) = stopCnt l1 + stopCnt l2 := by
  simp [stopCnt]

theorem stopCnt_ctx (l : List Evt) (h : ∀ e ∈ l, isCtxEvt e = true) : stopCnt l = 0 := by
  induction l with
  | nil => rfl
  | cons a l ih =>
    have ha := h a (by simp)
    have := ih (fun e he => h e (by simp [he]))
    cases a <;> simp_all [stopCnt, isCtxEvt]

@[simp] theorem stopCnt_cancelHandler (s : St) (h : Nat) (c : Cause) :
    stopCnt (cancelHandler s h c).hist = stopCnt s.hist := by
  obtain ⟨l, h1, h2⟩ := cancelHandler_hist_ex s h c
  rw [h1, stopCnt_append, stopCnt_ctx l h2]; rfl

@[simp] theorem stopCnt_cancelAllTasks (s : St) (n : Nat) :
    stopCnt (cancelAllTasks s n).hist = stopCnt s.hist := by
  obtain ⟨l, h1, h2⟩ := cancelAllTasks_hist_ex s n
  rw [h1, stopCnt_append, stopCnt_ctx l h2]; rfl

theorem KInv_init (f p : Nat → Nat) : KInv (initSz f p) := by
  constructor <;> simp [initSz, lvl, stopCnt, bodyPc]

set_option linter.unusedSimpArgs false

theorem stopCnt_snoc (l : List Evt) (e : Evt) :
    stopCnt (l ++ [e]) = stopCnt l + (match e with | .stopClosed => 1 | _ => 0) := by
  rw [stopCnt_append]; cases e <;> simp [stopCnt]

def kview (s : St) :=
  (s.closers, (s.r = .closing), (s.r = .exited), s.once, s.stopErr, s.stopCh, s.dStop, s.rStop,
   s.rClosed, s.encDone, s.connClosed, s.encClosed, s.taskLoop, (s.w = .exited), stopCnt s.hist)

theorem KInv_of_view (s s' : St) (h : kview s' = kview s) (hi : KInv s) : KInv s' := by
  simp only [kview, Prod.mk.injEq, eq_iff_iff] at h
  obtain ⟨h1, h2, h3, h4, h5, h6, h7, h8, h9, h10, h11, h12, h13, h14, h15⟩ := h
  obtain ⟨c0, rcl, body, running, waitOnce, fErr, fStop, fD, fR, fRC, fEnc, fConn, fEC, rcT, tR, ecW, wE, cnt⟩ := hi
  have hl : lvl s' = lvl s := by simp [lvl, *]
  constructor <;> simp only [h1, h2, h3, h4, h5, h6, h7, h8, h9, h10, h11, h12, h13, h14, h15, hl] <;> assumption

set_option maxHeartbeats 4000000 in
theorem KInv_step (s s' : St) (a : Act) (hi : KInv s) (hs : step s a = some s') : KInv s' := by
  step_cases a with hs
  all_goals first
    | (refine KInv_of_view _ _ ?_ hi
       simp_all [kview, setCaller, setNotifier, setSend, setHandler, setCloser, setPending, setTask, log, newSend, failedSend, abandon, returnCaller, stopCnt_snoc]
       done)
    | skip
  all_goals
    obtain ⟨c0, rcl, body, running, waitOnce, fErr, fStop, fD, fR, fRC, fEnc, fConn, fEC, rcT, tR, ecW, wE, cnt⟩ := hi
    constructor <;>
    simp [setCaller, setNotifier, setSend, setHandler, setCloser, setPending, setTask, log, newSend, failedSend, abandon, returnCaller, stopCnt_snoc, lvl] <;> 
    first | grind [lvl, klevel, bodyPc] | (cases ho : s.once <;> simp_all [lvl] <;> grind [klevel, bodyPc])

theorem KInv_reachable (s : St) (hr : Reachable s) : KInv s := by
  induction hr with
  | init f p => exact KInv_init f p
  | step s s' a _ hs ih => exact KInv_step s s' a ih hs

/-- `stopErr` is written only by the closer inside the once, before `stopCh` is closed -/
theorem stopErr_stable (s s' : St) (a : Act) (hi : KInv s) (hs : step s a = some s') (h : s.stopCh = true) :
    s'.stopErr = s.stopErr := by
  step_cases a with hs
  all_goals first
    | (simp [setCaller, setNotifier, setSend, setHandler, setCloser, setPending, setTask, log, newSend, failedSend, abandon, returnCaller]; done)
    | skip
  all_goals
    rename_i k _ heq
    exfalso
    have h1 := hi.body k (by simp [heq, bodyPc])
    have h2 := hi.fStop.mp h
    simp [lvl, h1, heq, klevel] at h2

/-- once the close has completed every flag is set -/
theorem KInv.done_flags {s : St} (hi : KInv s) (hd : s.once = .done) :
    s.stopErr.isSome = true ∧ s.stopCh = true ∧ s.dStop = true ∧ s.rStop = true ∧ s.rClosed = true ∧
    s.encDone = true ∧ s.connClosed = true ∧ s.encClosed = true ∧ s.taskLoop = false ∧ s.w = .exited := by
  obtain ⟨c0, rcl, body, running, waitOnce, fErr, fStop, fD, fR, fRC, fEnc, fConn, fEC, rcT, tR, ecW, wE, cnt⟩ := hi
  have hl : lvl s = 8 := by simp [lvl, hd]
  simp_all

end FmpRpc.T
