import FmpRpc.Model.Timer
/-
  Helper lemmas for C16 (timer model).
-/
namespace FmpRpc.Tm

theorem getD_set_true_of_true (l : List Bool) (i j : Nat) (h : l.getD j false = true) :
    (l.set i true).getD j false = true := by
  simp only [List.getD_eq_getElem?_getD, List.getElem?_set] at *
  split
  · split
    · rfl
    · rename_i h1 h2
      subst h1
      have : l[i]? = none := by simp; omega
      simp [this] at h
  · exact h

theorem getD_set_ne (l : List Bool) (i j : Nat) (b : Bool) (h : i ≠ j) :
    (l.set i b).getD j false = l.getD j false := by
  simp [List.getD_eq_getElem?_getD, h]

theorem getD_set_self (l : List Bool) (i : Nat) (h : i < l.length) :
    (l.set i true).getD i false = true := by
  simp [List.getD_eq_getElem?_getD, h]

@[simp] theorem fire_now (s : St) (o : Option Nat) : (fire s o).now = s.now := by
  cases o <;> rfl
@[simp] theorem fire_current (s : St) (o : Option Nat) : (fire s o).current = s.current := by
  cases o <;> rfl
@[simp] theorem fire_deadlines (s : St) (o : Option Nat) : (fire s o).deadlines = s.deadlines := by
  cases o <;> rfl
@[simp] theorem fire_started (s : St) (o : Option Nat) : (fire s o).started = s.started := by
  cases o <;> rfl
@[simp] theorem fire_fired_length (s : St) (o : Option Nat) :
    (fire s o).fired.length = s.fired.length := by
  cases o <;> simp [fire]

theorem fire_isFired_mono (s : St) (o : Option Nat) (j : Nat) (h : s.isFired j = true) :
    (fire s o).isFired j = true := by
  cases o with
  | none => exact h
  | some o => exact getD_set_true_of_true _ _ _ h

theorem fire_isFired_self (s : St) (o : Nat) (h : o < s.fired.length) :
    (fire s (some o)).isFired o = true := getD_set_self _ _ h

theorem fire_isFired_ne (s : St) (o j : Nat) (h : o ≠ j) :
    (fire s (some o)).isFired j = s.isFired j := getD_set_ne _ _ _ _ h

/-- folding `fire` over a list of deadlines -/
def fireAll (s : St) (due : List (Nat × Nat)) : St :=
  due.foldl (fun acc d => fire acc (some d.2)) s

@[simp] theorem fireAll_nil (s : St) : fireAll s [] = s := rfl
@[simp] theorem fireAll_cons (s : St) (d : Nat × Nat) (l : List (Nat × Nat)) :
    fireAll s (d :: l) = fireAll (fire s (some d.2)) l := rfl

@[simp] theorem fireAll_now (s : St) (l : List (Nat × Nat)) : (fireAll s l).now = s.now := by
  induction l generalizing s with
  | nil => rfl
  | cons d l ih => simp [ih]
@[simp] theorem fireAll_current (s : St) (l : List (Nat × Nat)) :
    (fireAll s l).current = s.current := by
  induction l generalizing s with
  | nil => rfl
  | cons d l ih => simp [ih]
@[simp] theorem fireAll_deadlines (s : St) (l : List (Nat × Nat)) :
    (fireAll s l).deadlines = s.deadlines := by
  induction l generalizing s with
  | nil => rfl
  | cons d l ih => simp [ih]
@[simp] theorem fireAll_fired_length (s : St) (l : List (Nat × Nat)) :
    (fireAll s l).fired.length = s.fired.length := by
  induction l generalizing s with
  | nil => rfl
  | cons d l ih => simp [ih]

theorem fireAll_isFired_mono (s : St) (l : List (Nat × Nat)) (j : Nat) (h : s.isFired j = true) :
    (fireAll s l).isFired j = true := by
  induction l generalizing s with
  | nil => exact h
  | cons d l ih => exact ih _ (fire_isFired_mono _ _ _ h)

theorem fireAll_isFired_not_mem (s : St) (l : List (Nat × Nat)) (j : Nat)
    (h : ∀ d ∈ l, d.2 ≠ j) : (fireAll s l).isFired j = s.isFired j := by
  induction l generalizing s with
  | nil => rfl
  | cons d l ih =>
    rw [fireAll_cons, ih _ (fun d hd => h d (List.mem_cons_of_mem _ hd))]
    exact fire_isFired_ne _ _ _ (h d List.mem_cons_self)

theorem tick_eq (s : St) :
    tick s = fireAll { s with now := s.now + 1,
                              deadlines := s.deadlines.filter (fun d => ¬ d.1 ≤ s.now + 1) }
      (s.deadlines.filter (fun d => d.1 ≤ s.now + 1)) := rfl

theorem fireDue_eq (s : St) :
    fireDue s = fireAll { s with deadlines := s.deadlines.filter (fun d => ¬ d.1 ≤ s.now) }
      (s.deadlines.filter (fun d => d.1 ≤ s.now)) := rfl

theorem isFired_append_false (s : St) (j : Nat) (h : s.isFired j = true) (c : Option Nat) :
    St.isFired { s with fired := s.fired ++ [false], current := c } j = true := by
  simp only [St.isFired, List.getD_eq_getElem?_getD] at *
  by_cases hj : j < s.fired.length
  · rw [List.getElem?_append_left hj]; exact h
  · have : s.fired[j]? = none := by simp; omega
    simp [this] at h


/-- mirror of `C16.Inv` (definitionally the same proposition) -/
def InvT (s : St) : Prop :=
  (∀ o, s.current = some o → o < s.fired.length) ∧
  (∀ d ∈ s.deadlines, d.2 < s.fired.length)

theorem invT_fireAll (s : St) (l : List (Nat × Nat)) (h : InvT s) : InvT (fireAll s l) := by
  unfold InvT at *
  simpa using h

theorem invT_fireDue (s : St) (h : InvT s) : InvT (fireDue s) := by
  rw [fireDue_eq]
  apply invT_fireAll
  refine ⟨h.1, ?_⟩
  intro d hd
  exact h.2 d (List.mem_filter.mp hd).1

theorem invT_tick (s : St) (h : InvT s) : InvT (tick s) := by
  rw [tick_eq]
  apply invT_fireAll
  refine ⟨h.1, ?_⟩
  intro d hd
  exact h.2 d (List.mem_filter.mp hd).1

theorem invT_fireNow (s : St) (h : InvT s) : InvT (fireNow s) := by
  unfold fireNow InvT
  simp only [fire_current, fire_deadlines, fire_fired_length]
  exact ⟨by simp, h.2⟩

theorem start_fired_length (s : St) (d : Nat) : (start s d).fired.length = s.fired.length + 1 := by
  simp [start]
theorem start_current (s : St) (d : Nat) : (start s d).current = some s.fired.length := by
  simp [start]
theorem start_deadlines (s : St) (d : Nat) :
    (start s d).deadlines = s.deadlines ++ [(s.now + d, s.fired.length)] := by
  simp [start]

theorem invT_start (s : St) (d : Nat) (h : InvT s) : InvT (start s d) := by
  unfold InvT
  rw [start_fired_length, start_current, start_deadlines]
  refine ⟨by intro o ho; cases ho; omega, ?_⟩
  intro x hx
  rcases List.mem_append.mp hx with hx | hx
  · have := h.2 x hx; omega
  · simp at hx; subst hx; simp

theorem invT_apply (s : St) (op : Op) (h : InvT s) : InvT (apply s op) := by
  cases op with
  | start d => exact invT_fireDue _ (invT_start _ _ h)
  | fireNow => exact invT_fireNow _ h
  | tick => exact invT_tick _ h

theorem start_isFired_mono (s : St) (d j : Nat) (h : s.isFired j = true) :
    (start s d).isFired j = true := by
  unfold start
  exact fire_isFired_mono _ _ _ (isFired_append_false s j h _)

theorem fireDue_isFired_mono (s : St) (j : Nat) (h : s.isFired j = true) :
    (fireDue s).isFired j = true := by
  rw [fireDue_eq]; exact fireAll_isFired_mono _ _ _ h

theorem tick_isFired_mono (s : St) (j : Nat) (h : s.isFired j = true) :
    (tick s).isFired j = true := by
  rw [tick_eq]; exact fireAll_isFired_mono _ _ _ h

theorem fireNow_isFired_mono (s : St) (j : Nat) (h : s.isFired j = true) :
    (fireNow s).isFired j = true := by
  unfold fireNow; exact fire_isFired_mono _ _ _ h

theorem apply_isFired_mono (s : St) (op : Op) (j : Nat) (h : s.isFired j = true) :
    (apply s op).isFired j = true := by
  cases op with
  | start d => exact fireDue_isFired_mono _ _ (start_isFired_mono _ _ _ h)
  | fireNow => exact fireNow_isFired_mono _ _ h
  | tick => exact tick_isFired_mono _ _ h

theorem start_fires_old' (s : St) (d o : Nat) (h : s.current = some o) (hi : o < s.fired.length) :
    (start s d).isFired o = true := by
  unfold start
  simp only [h]
  show St.isFired (fire _ (some o)) o = true
  apply fire_isFired_self
  simp; omega

theorem fireDue_current (s : St) : (fireDue s).current = s.current := by
  rw [fireDue_eq]; simp

theorem fireNow_fires (s : St) (o : Nat) (h : s.current = some o) (hi : o < s.fired.length) :
    (fireNow s).isFired o = true := by
  unfold fireNow
  rw [h]
  exact fire_isFired_self _ _ hi

theorem fireNow_current (s : St) : (fireNow s).current = none := by
  unfold fireNow; simp

theorem tick_not_fired (s : St) (o : Nat) (hnf : s.isFired o = false)
    (h : ∀ d ∈ s.deadlines, d.2 = o → ¬ d.1 ≤ s.now + 1) : (tick s).isFired o = false := by
  rw [tick_eq, fireAll_isFired_not_mem]
  · exact hnf
  · intro d hd hdo
    have := List.mem_filter.mp hd
    exact h d this.1 hdo (by simpa using this.2)

end FmpRpc.Tm
