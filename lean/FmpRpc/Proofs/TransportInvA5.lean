import FmpRpc.Proofs.TransportInvA2
/-
  Part A5: handlers — invocation count, replies, records.
-/
namespace FmpRpc.T

def invokedCount (h : List Evt) (hd : Nat) : Nat :=
  (h.filter fun e => match e with | .invoked h' _ _ => h' == hd | _ => false).length

theorem filter_cc (p : Evt → Bool) (hp : ∀ e, Evt.isCC e = true → p e = false)
    (l : List Evt) (hl : ∀ e ∈ l, Evt.isCC e = true) : l.filter p = [] := by
  induction l with
  | nil => rfl
  | cons e l ih =>
    rw [List.filter_cons, hp e (hl e (by simp))]
    exact ih (fun e he => hl e (by simp [he]))

@[simp] theorem invokedCount_append (h l : List Evt) (hd : Nat) :
    invokedCount (h ++ l) hd = invokedCount h hd + invokedCount l hd := by
  simp [invokedCount]
@[simp] theorem invokedCount_nil (hd : Nat) : invokedCount [] hd = 0 := rfl
@[simp] theorem invokedCount_single (e : Evt) (hd : Nat) :
    invokedCount [e] hd = match e with | .invoked h' _ _ => if h' = hd then 1 else 0 | _ => 0 := by
  cases e <;> simp [invokedCount, List.filter_cons]
  split <;> rfl

theorem invokedCount_cc (l : List Evt) (hl : ∀ e ∈ l, Evt.isCC e = true) (hd : Nat) : invokedCount l hd = 0 := by
  unfold invokedCount
  rw [filter_cc _ _ l hl]; rfl
  intro e he; cases e <;> simp_all [Evt.isCC]

@[simp] theorem invokedCount_cancelHandler (s h c hd) :
    invokedCount (cancelHandler s h c).hist hd = invokedCount s.hist hd := by
  obtain ⟨l, h1, h2⟩ := cancelHandler_hist' s h c
  rw [h1, invokedCount_append, invokedCount_cc l h2, Nat.add_zero]
@[simp] theorem invokedCount_cancelAllTasks (s n hd) :
    invokedCount (cancelAllTasks s n).hist hd = invokedCount s.hist hd := by
  obtain ⟨l, h1, h2⟩ := cancelAllTasks_hist' s n
  rw [h1, invokedCount_append, invokedCount_cc l h2, Nat.add_zero]

@[simp] theorem invoked_mem_cancelHandler (h' : Nat) (q : Int) (a : Nat) (s h c) :
    Evt.invoked h' q a ∈ (cancelHandler s h c).hist ↔ Evt.invoked h' q a ∈ s.hist :=
  mem_cancelHandler_hist _ rfl s h c
@[simp] theorem invoked_mem_cancelAllTasks (h' : Nat) (q : Int) (a : Nat) (s n) :
    Evt.invoked h' q a ∈ (cancelAllTasks s n).hist ↔ Evt.invoked h' q a ∈ s.hist :=
  mem_cancelAllTasks_hist _ rfl s n

/-- before the reply frame is handed over -/
@[simp, grind] def HPc.preReply : HPc → Bool
  | .absent | .run | .rEnc _ _ | .rHand _ => true
  | _ => false
/-- before the request's record is finished -/
@[simp, grind] def HPc.preFin : HPc → Bool
  | .absent | .run | .rEnc _ _ | .rHand _ | .rSel _ | .rFin => true
  | _ => false
/-- inside `Reply` -/
@[simp, grind] def HPc.inReply : HPc → Bool
  | .rEnc _ _ | .rHand _ | .rSel _ | .rFin => true
  | _ => false

/-- facts about one handler record on its own -/
def HOk (hd : Handler) : Prop :=
  (hd.pc.preReply = true → hd.replies = 0) ∧ hd.replies ≤ 1 ∧
  (hd.pc.preFin = true → hd.records = 0) ∧
  (hd.pc.inReply = true → hd.isCall = true) ∧
  (hd.pc.preFin = false → hd.records = if hd.isCall then 1 else 0)

structure HAC (handlers : Nat → Handler) (nextHandler : Nat) (r : RPc) : Prop where
  loc : ∀ h, HOk (handlers h)
  fresh : ∀ h, nextHandler ≤ h → (handlers h).pc = .absent
  rref : ∀ h, (r = .begSel h ∨ r = .spawn h) → (handlers h).pc = .absent ∧ h < nextHandler

def HAInv (s : St) : Prop := HAC s.handlers s.nextHandler s.r

theorem HAInv_init (f p : Nat → Nat) : HAInv (initSz f p) := by
  constructor <;> simp [initSz, HOk]

set_option maxHeartbeats 2000000 in
theorem HAInv_step (s s' : St) (a : Act) (h : HAInv s) (hs : step s a = some s') : HAInv s' := by
  have hall := h
  obtain ⟨loc, fresh, rref⟩ := h
  simp only [HOk] at loc
  step_cases a hs
  all_goals (first | exact hall | skip)
  all_goals (clear hall)
  all_goals (constructor)
  all_goals (try simp [HOk])
  all_goals (first | done | assumption | grind)

theorem HAInv_reach (s : St) (hr : Reachable s) : HAInv s :=
  reachable_induct HAInv_init (fun s s' a _ ih hs => HAInv_step s s' a ih hs) s hr

structure HBC (handlers : Nat → Handler) (hist : List Evt) : Prop where
  cnt : ∀ h, invokedCount hist h = if (handlers h).pc = .absent then 0 else 1
  inv : ∀ h q a, Evt.invoked h q a ∈ hist →
    (handlers h).pc ≠ .absent ∧ q = (handlers h).seq ∧ a = (handlers h).arg

def HBInv (s : St) : Prop := HBC s.handlers s.hist

theorem HBInv_init (f p : Nat → Nat) : HBInv (initSz f p) := by
  constructor <;> simp [initSz]

set_option maxHeartbeats 2000000 in
theorem HBInv_step (s s' : St) (a : Act) (hA : HAInv s) (h : HBInv s) (hs : step s a = some s') : HBInv s' := by
  have hall := h
  obtain ⟨cnt, inv⟩ := h
  obtain ⟨-, fresh, rref⟩ := hA
  step_cases a hs
  all_goals (first | exact hall | skip)
  all_goals (clear hall)
  all_goals (constructor)
  all_goals (try simp)
  all_goals (first | done | assumption | grind)

theorem HBInv_reach (s : St) (hr : Reachable s) : HBInv s := by
  have : HAInv s ∧ HBInv s := by
    refine reachable_induct (P := fun s => HAInv s ∧ HBInv s) (fun f p => ⟨HAInv_init f p, HBInv_init f p⟩) ?_ s hr
    intro s s' a _ ih hs
    exact ⟨HAInv_step s s' a ih.1 hs, HBInv_step s s' a ih.1 ih.2 hs⟩
  exact this.2


/-! ### notifiers -/

@[simp, grind] def NPc.isRet : NPc → Bool
  | .ret _ => true
  | _ => false

structure NC (notifiers : Nat → Notifier) : Prop where
  rec0 : ∀ n, (notifiers n).pc.isRet = false → (notifiers n).records = 0
  rec1 : ∀ n, (notifiers n).records ≤ 1

def NInv (s : St) : Prop := NC s.notifiers

theorem NInv_init (f p : Nat → Nat) : NInv (initSz f p) := by
  constructor <;> simp [initSz]

theorem NInv_step (s s' : St) (a : Act) (h : NInv s) (hs : step s a = some s') : NInv s' := by
  have hall := h
  obtain ⟨rec0, rec1⟩ := h
  step_cases a hs
  all_goals (first | exact hall | skip)
  all_goals (clear hall)
  all_goals (constructor)
  all_goals (try simp)
  all_goals (first | done | assumption | grind)

theorem NInv_reach (s : St) (hr : Reachable s) : NInv s :=
  reachable_induct NInv_init (fun s s' a _ ih hs => NInv_step s s' a ih hs) s hr

end FmpRpc.T
