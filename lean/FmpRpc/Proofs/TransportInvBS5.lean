import FmpRpc.Proofs.TransportInvBS
/- preservation of the send invariant, part 5 (split for checking time) -/
namespace FmpRpc.T
set_option linter.unusedSimpArgs false

set_option maxHeartbeats 8000000 in
theorem SInv_step_wHanded (s s' : St) (a : Act) (hi : SInv s) (hs : step s a = some s') :
    ∀ x, (s'.w = .got x ∨ s'.w = .writing x ∨ ∃ e, s'.w = .wrote x e) → (s'.sends x).st = .handed := by
  step_cases a with hs
  all_goals first
    | (refine (SInv_of_view _ _ ?_ hi).wHanded
       simp_all [sview, setCaller, setNotifier, setSend, setHandler, setCloser, setPending, setTask, log, newSend, failedSend, abandon, returnCaller]
       done)
    | skip
  all_goals
    simp [setCaller, setNotifier, setSend, setHandler, setCloser, setPending, setTask, log, newSend, failedSend, abandon, returnCaller, cancelHandler_handlers, cancelAllTasks_handlers] at * <;>
    first
      | exact hi.wHanded
      | (obtain ⟨fresh, cHand, cSel1, cCHand, cCPoll, nHand, nSel, hHand, hSel, rHand, rSel, handedW, wHanded, asyncSt⟩ := hi
         grind)

set_option maxHeartbeats 8000000 in
theorem SInv_step_asyncSt (s s' : St) (a : Act) (hi : SInv s) (hs : step s a = some s') :
    ∀ x, (s'.sends x).async = true → (s'.sends x).st ≠ .absent := by
  step_cases a with hs
  all_goals first
    | (refine (SInv_of_view _ _ ?_ hi).asyncSt
       simp_all [sview, setCaller, setNotifier, setSend, setHandler, setCloser, setPending, setTask, log, newSend, failedSend, abandon, returnCaller]
       done)
    | skip
  all_goals
    simp [setCaller, setNotifier, setSend, setHandler, setCloser, setPending, setTask, log, newSend, failedSend, abandon, returnCaller, cancelHandler_handlers, cancelAllTasks_handlers] at * <;>
    first
      | exact hi.asyncSt
      | (obtain ⟨fresh, cHand, cSel1, cCHand, cCPoll, nHand, nSel, hHand, hSel, rHand, rSel, handedW, wHanded, asyncSt⟩ := hi
         grind)

end FmpRpc.T
