import FmpRpc.Proofs.TransportInvA2
/-
  Part A9: writes into a caller's result buffer (C12).
-/
namespace FmpRpc.T

set_option maxHeartbeats 1000000 in
/-- only `rDecode` changes a caller's buffer (in a reachable state: an absent
    caller's buffer is still untouched, so `callStart` does not change it) -/
theorem buf_step (s s' : St) (a : Act) (c : Nat) (hC : CInv s) (hs : step s a = some s')
    (hb : (s'.callers c).buf ≠ (s.callers c).buf) :
    a = .rDecode ∧ ∃ q p ae, s.r = .respDecode c q p ae := by
  have habs := fun c => (hC.loc c).abs
  clear hC
  step_cases a hs
  all_goals (try simp at hb)
  all_goals first
    | done
    | (refine ⟨by first | rfl | trivial, ?_⟩
       rename_i c1 q p ae heq
       by_cases hc : c = c1
       · subst hc; exact ⟨q, p, ae, heq⟩
       · simp [hc] at hb)
    | (exfalso; grind)

set_option maxHeartbeats 1000000 in
/-- a returned caller stays returned, and the receive loop cannot obtain a new
    reference to it -/
theorem ret_stable (s s' : St) (a : Act) (c : Nat) (o : Out) (hC : CInv s) (hs : step s a = some s')
    (hpc : (s.callers c).pc = .ret o) (hnr : ∀ q p ae, s.r ≠ .respDecode c q p ae) :
    (s'.callers c).pc = .ret o ∧ ∀ q p ae, s'.r ≠ .respDecode c q p ae := by
  have hp1 := hC.pend1
  clear hC
  step_cases a hs
  all_goals (try simp)
  all_goals (first | done | grind)

end FmpRpc.T
