import FmpRpc.Proofs.TransportInvA1
/-
  Part A2: the ghost history — projections, their behaviour under the
  cancellation helpers, and the history invariants (issued seqnos, hand-off
  order vs write order, `resWritten`).
-/
namespace FmpRpc.T

/-! ### projections of the history -/

theorem filterMap_cc {α} (f : Evt → Option α) (hf : ∀ e, Evt.isCC e = true → f e = none)
    (l : List Evt) (hl : ∀ e ∈ l, Evt.isCC e = true) : l.filterMap f = [] := by
  induction l with
  | nil => rfl
  | cons e l ih =>
    rw [List.filterMap_cons, hf e (hl e (by simp))]
    exact ih (fun e he => hl e (by simp [he]))

theorem filterMap_cancelHandler {α} (f : Evt → Option α) (hf : ∀ e, Evt.isCC e = true → f e = none)
    (s : St) (h : Nat) (c : Cause) : (cancelHandler s h c).hist.filterMap f = s.hist.filterMap f := by
  obtain ⟨l, h1, h2⟩ := cancelHandler_hist' s h c
  rw [h1, List.filterMap_append, filterMap_cc f hf l h2, List.append_nil]

theorem filterMap_cancelAllTasks {α} (f : Evt → Option α) (hf : ∀ e, Evt.isCC e = true → f e = none)
    (s : St) (n : Nat) : (cancelAllTasks s n).hist.filterMap f = s.hist.filterMap f := by
  obtain ⟨l, h1, h2⟩ := cancelAllTasks_hist' s n
  rw [h1, List.filterMap_append, filterMap_cc f hf l h2, List.append_nil]

theorem mem_cancelHandler_hist (e : Evt) (he : Evt.isCC e = false) (s : St) (h : Nat) (c : Cause) :
    e ∈ (cancelHandler s h c).hist ↔ e ∈ s.hist := by
  obtain ⟨l, h1, h2⟩ := cancelHandler_hist' s h c
  rw [h1, List.mem_append]
  constructor
  · rintro (h | h)
    · exact h
    · have := h2 e h; simp [he] at this
  · exact .inl

theorem mem_cancelAllTasks_hist (e : Evt) (he : Evt.isCC e = false) (s : St) (n : Nat) :
    e ∈ (cancelAllTasks s n).hist ↔ e ∈ s.hist := by
  obtain ⟨l, h1, h2⟩ := cancelAllTasks_hist' s n
  rw [h1, List.mem_append]
  constructor
  · rintro (h | h)
    · exact h
    · have := h2 e h; simp [he] at this
  · exact .inl

def issuedSeqs (h : List Evt) : List Int :=
  h.filterMap fun e => match e with | .issued _ q => some q | _ => none
def handoffs (h : List Evt) : List Nat :=
  h.filterMap fun e => match e with | .handoff x => some x | _ => none
def writesOf (h : List Evt) : List Nat :=
  h.filterMap fun e => match e with | .write x => some x | _ => none

@[simp] theorem issuedSeqs_append (h l : List Evt) : issuedSeqs (h ++ l) = issuedSeqs h ++ issuedSeqs l := by
  simp [issuedSeqs]
@[simp] theorem handoffs_append (h l : List Evt) : handoffs (h ++ l) = handoffs h ++ handoffs l := by
  simp [handoffs]
@[simp] theorem writesOf_append (h l : List Evt) : writesOf (h ++ l) = writesOf h ++ writesOf l := by
  simp [writesOf]
@[simp] theorem issuedSeqs_single (e : Evt) :
    issuedSeqs [e] = match e with | .issued _ q => [q] | _ => [] := by
  cases e <;> simp [issuedSeqs]
@[simp] theorem handoffs_single (e : Evt) :
    handoffs [e] = match e with | .handoff x => [x] | _ => [] := by
  cases e <;> simp [handoffs]
@[simp] theorem writesOf_single (e : Evt) :
    writesOf [e] = match e with | .write x => [x] | _ => [] := by
  cases e <;> simp [writesOf]
@[simp] theorem issuedSeqs_nil : issuedSeqs [] = [] := rfl
@[simp] theorem handoffs_nil : handoffs [] = [] := rfl
@[simp] theorem writesOf_nil : writesOf [] = [] := rfl

@[simp] theorem issuedSeqs_cancelHandler (s h c) : issuedSeqs (cancelHandler s h c).hist = issuedSeqs s.hist :=
  filterMap_cancelHandler _ (by intro e he; cases e <;> simp_all [Evt.isCC]) s h c
@[simp] theorem handoffs_cancelHandler (s h c) : handoffs (cancelHandler s h c).hist = handoffs s.hist :=
  filterMap_cancelHandler _ (by intro e he; cases e <;> simp_all [Evt.isCC]) s h c
@[simp] theorem writesOf_cancelHandler (s h c) : writesOf (cancelHandler s h c).hist = writesOf s.hist :=
  filterMap_cancelHandler _ (by intro e he; cases e <;> simp_all [Evt.isCC]) s h c
@[simp] theorem issuedSeqs_cancelAllTasks (s n) : issuedSeqs (cancelAllTasks s n).hist = issuedSeqs s.hist :=
  filterMap_cancelAllTasks _ (by intro e he; cases e <;> simp_all [Evt.isCC]) s n
@[simp] theorem handoffs_cancelAllTasks (s n) : handoffs (cancelAllTasks s n).hist = handoffs s.hist :=
  filterMap_cancelAllTasks _ (by intro e he; cases e <;> simp_all [Evt.isCC]) s n
@[simp] theorem writesOf_cancelAllTasks (s n) : writesOf (cancelAllTasks s n).hist = writesOf s.hist :=
  filterMap_cancelAllTasks _ (by intro e he; cases e <;> simp_all [Evt.isCC]) s n

@[simp] theorem resWritten_mem_cancelHandler (c' : Nat) (s h c) :
    Evt.resWritten c' ∈ (cancelHandler s h c).hist ↔ Evt.resWritten c' ∈ s.hist :=
  mem_cancelHandler_hist _ rfl s h c
@[simp] theorem resWritten_mem_cancelAllTasks (c' : Nat) (s n) :
    Evt.resWritten c' ∈ (cancelAllTasks s n).hist ↔ Evt.resWritten c' ∈ s.hist :=
  mem_cancelAllTasks_hist _ rfl s n

/-- the send the writer has received but not yet passed to `Write` -/
@[simp, grind] def wPend : WPc → List Nat
  | .got x | .writing x => [x]
  | _ => []

structure HInv (s : St) : Prop where
  iss_lt : ∀ q ∈ issuedSeqs s.hist, q < (s.nextSeq : Int)
  iss_nd : (issuedSeqs s.hist).Nodup
  ho : handoffs s.hist = writesOf s.hist ++ wPend s.w
  wl : s.wlog = writesOf s.hist
  rw : ∀ c q, (s.callers c).bufSeq = some q → Evt.resWritten c ∈ s.hist

theorem HInv_init (f p : Nat → Nat) : HInv (initSz f p) := by
  constructor <;> simp [initSz]

set_option maxHeartbeats 1000000 in
theorem HInv_step (s s' : St) (a : Act) (h : HInv s) (hs : step s a = some s') : HInv s' := by
  have hall := h
  obtain ⟨iss_lt, iss_nd, ho, wl, rw⟩ := h
  step_cases a hs
  all_goals (first | exact hall | skip)
  all_goals (clear hall)
  all_goals (constructor)
  all_goals (try simp)
  all_goals (first | done | assumption | grind)

theorem HInv_reach (s : St) (hr : Reachable s) : HInv s :=
  reachable_induct HInv_init (fun s s' a _ ih hs => HInv_step s s' a ih hs) s hr

end FmpRpc.T
