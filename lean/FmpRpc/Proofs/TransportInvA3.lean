import FmpRpc.Proofs.TransportInvA2
/-
  Part A3: send records vs their owners' program counters and the writer.
-/
namespace FmpRpc.T

/-- the send the writer currently holds -/
@[simp, grind] def wCur : WPc → Option Nat
  | .got x | .writing x | .wrote x _ => some x
  | _ => none

structure SInv (s : St) : Prop where
  fresh : ∀ x, s.nextSend ≤ x → (s.sends x).st = .absent
  cHand : ∀ c x, (s.callers c).pc = .hand x →
    x < s.nextSend ∧ (s.sends x).st = .waiting ∧ (s.sends x).kind = .call ∧ (s.sends x).who = c ∧
    (s.sends x).async = false ∧ (s.sends x).seq = (s.callers c).seq
  cCHand : ∀ c y, (s.callers c).pc = .cHand y →
    y < s.nextSend ∧ (s.sends y).st = .waiting ∧ (s.sends y).kind = .cancel ∧ (s.sends y).who = c ∧
    (s.sends y).async = false ∧ (s.sends y).seq = (s.callers c).seq
  nHand : ∀ n x, (s.notifiers n).pc = .hand x →
    x < s.nextSend ∧ (s.sends x).st = .waiting ∧ (s.sends x).kind = .notify ∧ (s.sends x).who = n ∧
    (s.sends x).async = false
  hHand : ∀ h x, (s.handlers h).pc = .rHand x →
    x < s.nextSend ∧ (s.sends x).st = .waiting ∧ (s.sends x).kind = .reply ∧ (s.sends x).who = h ∧
    (s.sends x).async = false ∧ (s.sends x).seq = (s.handlers h).seq ∧ s.r ≠ .nfHand x
  hSel : ∀ h x, (s.handlers h).pc = .rSel x →
    x < s.nextSend ∧ (s.sends x).kind = .reply ∧ (s.sends x).who = h ∧ (s.sends x).seq = (s.handlers h).seq
  rHand : ∀ x, s.r = .nfHand x →
    x < s.nextSend ∧ (s.sends x).st = .waiting ∧ (s.sends x).kind = .reply ∧ (s.sends x).async = false
  wcur1 : ∀ x, wCur s.w = some x → (s.sends x).st = .handed
  wcur2 : ∀ x, (s.sends x).st = .handed → wCur s.w = some x
  wrote : ∀ x e, s.w = .wrote x e → e = .nil ∨ e = .wr
  fitsW : ∀ x, (s.sends x).st = .waiting ∨ (s.sends x).st = .handed →
    (s.sends x).fits = true ∧ (s.sends x).slot = none

theorem SInv_init (f p : Nat → Nat) : SInv (initSz f p) := by
  constructor <;> simp [initSz]

set_option maxHeartbeats 2000000 in
theorem SInv_step (s s' : St) (a : Act) (h : SInv s) (hs : step s a = some s') : SInv s' := by
  have hall := h
  obtain ⟨fresh, cHand, cCHand, nHand, hHand, hSel, rHand, wcur1, wcur2, wrote, fitsW⟩ := h
  step_cases a hs
  all_goals (first | exact hall | skip)
  all_goals (clear hall)
  all_goals (constructor)
  all_goals (try simp)
  all_goals (first | done | assumption | grind)

theorem SInv_reach (s : St) (hr : Reachable s) : SInv s :=
  reachable_induct SInv_init (fun s s' a _ ih hs => SInv_step s s' a ih hs) s hr

end FmpRpc.T
