import FmpRpc.Proofs.TransportInvB
/-
  Send records: who owns which send, and in which state (used by C11).
-/
namespace FmpRpc.T
set_option linter.unusedSimpArgs false

structure SInv (s : St) : Prop where
  fresh : ∀ x, s.nextSend ≤ x → (s.sends x).st = .absent ∧ (s.sends x).async = false
  cHand : ∀ c x, (s.callers c).pc = .hand x →
    (s.sends x).st = .waiting ∧ (s.sends x).kind = .call ∧ (s.sends x).who = c ∧ (s.sends x).async = false
  cSel1 : ∀ c x, (s.callers c).pc = .sel1 x → (s.sends x).st ≠ .absent ∧ (s.sends x).kind = .call
  cCHand : ∀ c y, (s.callers c).pc = .cHand y →
    (s.sends y).st = .waiting ∧ (s.sends y).kind = .cancel ∧ (s.sends y).who = c ∧ (s.sends y).async = false
  cCPoll : ∀ c y, (s.callers c).pc = .cPoll y → (s.sends y).st ≠ .absent ∧ (s.sends y).kind = .cancel
  nHand : ∀ n x, (s.notifiers n).pc = .hand x →
    (s.sends x).st = .waiting ∧ (s.sends x).kind = .notify ∧ (s.sends x).who = n ∧ (s.sends x).async = false
  nSel : ∀ n x, (s.notifiers n).pc = .sel x → (s.sends x).st ≠ .absent ∧ (s.sends x).kind = .notify
  hHand : ∀ h x, (s.handlers h).pc = .rHand x →
    (s.sends x).st = .waiting ∧ (s.sends x).kind = .reply ∧ (s.sends x).who = h ∧ (s.sends x).async = false ∧
    s.r ≠ .nfHand x ∧ s.r ≠ .nfSel x
  hSel : ∀ h x, (s.handlers h).pc = .rSel x →
    (s.sends x).kind = .reply ∧ (s.sends x).who = h ∧ s.r ≠ .nfHand x ∧ s.r ≠ .nfSel x ∧
    ((s.sends x).st = .handed ∨ ((s.sends x).st = .completed ∧ (s.sends x).slot ≠ none))
  rHand : ∀ x, s.r = .nfHand x →
    (s.sends x).st = .waiting ∧ (s.sends x).kind = .reply ∧ (s.sends x).async = false
  rSel : ∀ x, s.r = .nfSel x → (s.sends x).kind = .reply ∧
    ((s.sends x).st = .handed ∨ ((s.sends x).st = .completed ∧ (s.sends x).slot ≠ none))
  handedW : ∀ x, (s.sends x).st = .handed → (s.w = .got x ∨ s.w = .writing x ∨ ∃ e, s.w = .wrote x e)
  wHanded : ∀ x, (s.w = .got x ∨ s.w = .writing x ∨ ∃ e, s.w = .wrote x e) → (s.sends x).st = .handed
  asyncSt : ∀ x, (s.sends x).async = true → (s.sends x).st ≠ .absent

def sview (s : St) :=
  (s.callers, s.notifiers, s.handlers, s.sends, s.nextSend, s.r, s.w)

theorem SInv_of_view (s s' : St) (h : sview s' = sview s) (hi : SInv s) : SInv s' := by
  simp only [sview, Prod.mk.injEq] at h
  obtain ⟨h1, h2, h3, h4, h5, h6, h7⟩ := h
  obtain ⟨a1, a2, a3, a4, a5, a6, a7, a8, a9, a10, a11, a12, a13, a14⟩ := hi
  constructor <;> simp only [h1, h2, h3, h4, h5, h6, h7] <;> assumption

theorem SInv_init (f p : Nat → Nat) : SInv (initSz f p) := by
  constructor <;> simp [initSz]

end FmpRpc.T
