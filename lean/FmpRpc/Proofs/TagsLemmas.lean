import FmpRpc.Model.Tags
/-
  Helper lemmas for C19 (tags / contexts heap model).
-/
namespace FmpRpc.Tg

theorem getD_append_lt {α} (l : List α) (x d : α) (i : Nat) (h : i < l.length) :
    (l ++ [x]).getD i d = l.getD i d := by
  simp [List.getD_eq_getElem?_getD, List.getElem?_append_left h]

theorem getD_append_length {α} (l : List α) (x d : α) :
    (l ++ [x]).getD l.length d = x := by
  simp [List.getD_eq_getElem?_getD]

theorem getD_set_ne' {α} (l : List α) (x d : α) (i j : Nat) (h : i ≠ j) :
    (l.set i x).getD j d = l.getD j d := by
  simp [List.getD_eq_getElem?_getD, h]

theorem set_append_length {α} (l : List α) (x y : α) :
    (l ++ [x]).set l.length y = l ++ [y] := by
  induction l with
  | nil => rfl
  | cons a l ih => simp [ih]

/-- a bound option-valued `getD` gives an in-range index -/
theorem getD_some_lt {α} (l : List (Option α)) (c : Nat) (o : α)
    (h : l.getD c none = some o) : c < l.length := by
  by_cases hc : c < l.length
  · exact hc
  · have : l[c]? = none := by simp; omega
    simp [List.getD_eq_getElem?_getD, this] at h

/-- closed form of `addTags` -/
theorem addTags_eq (w : World) (ctx t : Nat) :
    addTags w ctx t =
      ({ heap := w.heap ++ [((tagsOf w ctx).getD []).merge
                    ((w.heap ++ [(tagsOf w ctx).getD []]).getD t [])],
         ctxs := w.ctxs ++ [some w.heap.length],
         userRefs := w.userRefs }, w.ctxs.length) := by
  unfold addTags copyTags tagsOf
  cases h : w.ctxs.getD ctx none with
  | none =>
    simp only [World.alloc, World.obj, Option.map_none, Option.getD_none,
      getD_append_length, set_append_length]
  | some o =>
    simp only [World.alloc, World.obj, Option.map_some, Option.getD_some,
      getD_append_length, set_append_length]

theorem addTags_eq' (w : World) (ctx t : Nat) (ht : t < w.heap.length) :
    addTags w ctx t =
      ({ heap := w.heap ++ [((tagsOf w ctx).getD []).merge (w.obj t)],
         ctxs := w.ctxs ++ [some w.heap.length],
         userRefs := w.userRefs }, w.ctxs.length) := by
  rw [addTags_eq, getD_append_lt _ _ _ _ ht]; rfl

/-- closed form of `tagsFromContext` -/
theorem tagsFromContext_none (w : World) (ctx : Nat) (h : w.ctxs.getD ctx none = none) :
    tagsFromContext w ctx = (w, none) := by
  unfold tagsFromContext; rw [h]

theorem tagsFromContext_some (w : World) (ctx o : Nat) (h : w.ctxs.getD ctx none = some o) :
    tagsFromContext w ctx =
      ({ heap := w.heap ++ [w.obj o], ctxs := w.ctxs, userRefs := w.heap.length :: w.userRefs },
        some w.heap.length) := by
  unfold tagsFromContext; rw [h]; rfl

/-- mirrors of `C19.NoAlias` / `C19.WellFormed` -/
def NoAliasT (w : World) : Prop :=
  ∀ c o, w.ctxs.getD c none = some o → o ∉ w.userRefs

def WellFormedT (w : World) : Prop :=
  (∀ o ∈ w.userRefs, o < w.heap.length) ∧ (∀ c o, w.ctxs.getD c none = some o → o < w.heap.length)

/-- allocation of a fresh object handed to the user -/
theorem inv_allocUser (w : World) (m : TagMap) (hn : NoAliasT w) (hw : WellFormedT w) :
    NoAliasT { heap := w.heap ++ [m], ctxs := w.ctxs, userRefs := w.heap.length :: w.userRefs } ∧
    WellFormedT { heap := w.heap ++ [m], ctxs := w.ctxs, userRefs := w.heap.length :: w.userRefs } := by
  refine ⟨?_, ?_, ?_⟩
  · intro c o hc hmem
    rcases List.mem_cons.mp hmem with h | h
    · have := hw.2 c o hc; omega
    · exact hn c o hc h
  · intro o ho
    simp only [List.length_append, List.length_singleton]
    rcases List.mem_cons.mp ho with h | h
    · omega
    · have := hw.1 o h; omega
  · intro c o hc
    have := hw.2 c o hc
    simp only [List.length_append, List.length_singleton]; omega

theorem ctxs_getD_append (l : List (Option Nat)) (x : Option Nat) (c o : Nat)
    (h : (l ++ [x]).getD c none = some o) : l.getD c none = some o ∨ (c = l.length ∧ x = some o) := by
  by_cases hc : c < l.length
  · left; rwa [getD_append_lt _ _ _ _ hc] at h
  · by_cases hc' : c = l.length
    · subst hc'; rw [getD_append_length] at h; exact Or.inr ⟨rfl, h⟩
    · have : (l ++ [x])[c]? = none := by simp; omega
      simp [List.getD_eq_getElem?_getD, this] at h

theorem inv_step (w : World) (op : Op) (hn : NoAliasT w) (hw : WellFormedT w) :
    NoAliasT (apply w op) ∧ WellFormedT (apply w op) := by
  cases op with
  | userNew m => exact inv_allocUser w m hn hw
  | userSet o k v =>
    simp only [apply]; unfold userSet
    split
    · refine ⟨hn, ?_, ?_⟩
      · intro o ho; simpa using hw.1 o ho
      · intro c o hc; simpa using hw.2 c o hc
    · exact ⟨hn, hw⟩
  | add ctx t =>
    simp only [apply]
    split
    · rw [addTags_eq]
      refine ⟨?_, ?_, ?_⟩
      · intro c o hc hmem
        rcases ctxs_getD_append _ _ _ _ hc with h | ⟨_, h⟩
        · exact hn c o h hmem
        · cases h
          have := hw.1 _ hmem
          omega
      · intro o ho
        have := hw.1 o ho
        simp only [List.length_append, List.length_singleton]; omega
      · intro c o hc
        simp only [List.length_append, List.length_singleton]
        rcases ctxs_getD_append _ _ _ _ hc with h | ⟨_, h⟩
        · have := hw.2 c o h; omega
        · cases h; omega
    · exact ⟨hn, hw⟩
  | read ctx =>
    simp only [apply]
    cases h : w.ctxs.getD ctx none with
    | none => rw [tagsFromContext_none _ _ h]; exact ⟨hn, hw⟩
    | some o => rw [tagsFromContext_some _ _ _ h]; exact inv_allocUser w _ hn hw

theorem inv_init : NoAliasT World.init ∧ WellFormedT World.init := by
  refine ⟨?_, ?_, ?_⟩
  · intro c o h hm; cases hm
  · intro o ho; cases ho
  · intro c o h
    have hc := getD_some_lt _ _ _ h
    simp [World.init] at hc
    subst hc
    simp [World.init] at h

theorem inv_foldl (ops : List Op) (w : World) (hn : NoAliasT w) (hw : WellFormedT w) :
    NoAliasT (ops.foldl apply w) ∧ WellFormedT (ops.foldl apply w) := by
  induction ops generalizing w with
  | nil => exact ⟨hn, hw⟩
  | cons op ops ih =>
    have := inv_step w op hn hw
    exact ih _ this.1 this.2

/-- tags through a context only depend on `ctxs` at `c` and the bound object -/
theorem tagsOf_congr (w w' : World) (c : Nat)
    (hc : w'.ctxs.getD c none = w.ctxs.getD c none)
    (ho : ∀ o, w.ctxs.getD c none = some o → w'.obj o = w.obj o) :
    tagsOf w' c = tagsOf w c := by
  unfold tagsOf
  rw [hc]
  cases h : w.ctxs.getD c none with
  | none => rfl
  | some o => simp [ho o h]

theorem persistent (w : World) (hn : NoAliasT w) (hw : WellFormedT w) (op : Op) (c : Nat)
    (hc : c < w.ctxs.length) : tagsOf (apply w op) c = tagsOf w c := by
  cases op with
  | userNew m =>
    apply tagsOf_congr
    · rfl
    · intro o ho
      exact getD_append_lt _ _ _ _ (hw.2 c o ho)
  | userSet o k v =>
    simp only [apply]; unfold userSet
    split
    · rename_i hmem
      apply tagsOf_congr
      · rfl
      · intro o' ho'
        apply getD_set_ne'
        intro heq
        subst heq
        exact hn c _ ho' hmem
    · rfl
  | add ctx t =>
    simp only [apply]
    split
    · rw [addTags_eq]
      apply tagsOf_congr
      · exact getD_append_lt _ _ _ _ hc
      · intro o ho
        exact getD_append_lt _ _ _ _ (hw.2 c o ho)
    · rfl
  | read ctx =>
    simp only [apply]
    cases h : w.ctxs.getD ctx none with
    | none => rw [tagsFromContext_none _ _ h]
    | some o' =>
      rw [tagsFromContext_some _ _ _ h]
      apply tagsOf_congr
      · rfl
      · intro o ho
        exact getD_append_lt _ _ _ _ (hw.2 c o ho)

theorem add_result' (w : World) (ctx t : Nat) (ht : t < w.heap.length) :
    (addTags w ctx t).2 = w.ctxs.length ∧
    tagsOf (addTags w ctx t).1 (addTags w ctx t).2 =
      some (((tagsOf w ctx).getD []).merge (w.obj t)) := by
  rw [addTags_eq' w ctx t ht]
  refine ⟨rfl, ?_⟩
  simp only [tagsOf, World.obj, getD_append_length, Option.map_some]

theorem read_is_copy' (w : World) (ctx o : Nat) (h : (tagsFromContext w ctx).2 = some o) :
    o = w.heap.length ∧ some ((tagsFromContext w ctx).1.obj o) = tagsOf w ctx := by
  cases hc : w.ctxs.getD ctx none with
  | none => rw [tagsFromContext_none _ _ hc] at h; cases h
  | some o' =>
    rw [tagsFromContext_some _ _ _ hc] at h ⊢
    cases h
    refine ⟨rfl, ?_⟩
    simp only [tagsOf, hc, World.obj, getD_append_length, Option.map_some]

end FmpRpc.Tg
