import FmpRpc.Model.Transport
/-
  Invariants of the transport model, proved for every reachable state
  (induction over `Reachable`, one case per action).  Helper file: add,
  strengthen and re-state freely; the property theorems in `Props/` are the
  fixed interface.
-/
namespace FmpRpc.T

end FmpRpc.T
