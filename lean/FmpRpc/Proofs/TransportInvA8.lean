import FmpRpc.Proofs.TransportInvA5
/-
  Part A8: the task table — under the hypothesis on the peer's seqnos, a
  running handler whose context is not cancelled is registered.
-/
namespace FmpRpc.T

def callSeqs (h : List Evt) : List Int :=
  h.filterMap fun e => match e with | .delivered (.call q true _) => some q | _ => none

@[simp] theorem callSeqs_append (h l : List Evt) : callSeqs (h ++ l) = callSeqs h ++ callSeqs l := by
  simp [callSeqs]
@[simp] theorem callSeqs_nil : callSeqs [] = [] := rfl
@[simp] theorem callSeqs_single (e : Evt) :
    callSeqs [e] = match e with | .delivered (.call q true _) => [q] | _ => [] := by
  cases e <;> try rfl
  rename_i f
  cases f <;> try rfl
  rename_i q known arg
  cases known <;> rfl
@[simp] theorem callSeqs_cancelHandler (s h c) : callSeqs (cancelHandler s h c).hist = callSeqs s.hist :=
  filterMap_cancelHandler _ (by intro e he; cases e <;> simp_all [Evt.isCC]) s h c
@[simp] theorem callSeqs_cancelAllTasks (s n) : callSeqs (cancelAllTasks s n).hist = callSeqs s.hist :=
  filterMap_cancelAllTasks _ (by intro e he; cases e <;> simp_all [Evt.isCC]) s n

/-- the part of `C09.PeerSeqsDistinct` used here -/
def PeerOK (h : List Evt) : Prop := (callSeqs h).Nodup ∧ ∀ q ∈ callSeqs h, 0 ≤ q

theorem cancelAllTasks_ctx_false (s : St) (n h' : Nat)
    (h : ((cancelAllTasks s n).handlers h').ctxCancelled = false) : (s.handlers h').ctxCancelled = false := by
  cases hc : (s.handlers h').ctxCancelled
  · rfl
  · rw [cancelAllTasks_ctx_mono s n h' hc] at h; exact h

structure TInv (s : St) : Prop where
  t0 : s.lastNotifyTask ≤ -1
  t1 : ∀ h, h < s.nextHandler → (s.handlers h).isCall = true → (s.handlers h).task ∈ callSeqs s.hist
  t2 : ∀ h, h < s.nextHandler → (s.handlers h).isCall = false →
    s.lastNotifyTask ≤ (s.handlers h).task ∧ (s.handlers h).task < -1
  t3 : ∀ h1 h2, h1 < s.nextHandler → h2 < s.nextHandler → (s.handlers h1).task = (s.handlers h2).task → h1 = h2
  t4 : ∀ h, (s.handlers h).pc = .run → (s.handlers h).ctxCancelled = false → s.tasks (s.handlers h).task = some h
  t5 : ∀ h, s.r = .spawn h → (s.handlers h).ctxCancelled = false → s.tasks (s.handlers h).task = some h

theorem TInv_init (f p : Nat → Nat) : TInv (initSz f p) := by constructor <;> simp [initSz]

set_option maxHeartbeats 2000000 in
theorem TInv_step (s s' : St) (a : Act) (hA : HAInv s) (hp' : PeerOK s'.hist) (h : TInv s)
    (hs : step s a = some s') : TInv s' := by
  obtain ⟨t0, t1, t2, t3, t4, t5⟩ := h
  obtain ⟨-, fresh, rref⟩ := hA
  unfold PeerOK at hp'
  step_cases a hs
  all_goals (try simp at hp')
  all_goals (constructor)
  all_goals (try simp)
  all_goals (first | done | assumption | grind [cancelHandler_h_ctx, → cancelAllTasks_ctx_false])


/-- the history only grows -/
theorem step_hist (s s' : St) (a : Act) (hs : step s a = some s') : ∃ l, s'.hist = s.hist ++ l := by
  step_cases a hs
  all_goals first
    | exact ⟨[], (List.append_nil _).symm⟩
    | exact ⟨_, rfl⟩
    | (obtain ⟨l, hl, -⟩ := cancelHandler_hist' s _ _
       first
        | exact ⟨l, hl⟩
        | (rw [hl]; exact ⟨_, List.append_assoc _ _ _⟩))
    | (obtain ⟨l, hl, -⟩ := cancelAllTasks_hist' s s.nextHandler
       rw [hl]; exact ⟨_, List.append_assoc _ _ _⟩)

theorem PeerOK_prefix (h l : List Evt) (hp : PeerOK (h ++ l)) : PeerOK h := by
  unfold PeerOK at *
  rw [callSeqs_append] at hp
  exact ⟨(List.nodup_append.mp hp.1).1, fun q hq => hp.2 q (List.mem_append.mpr (.inl hq))⟩

theorem TInv_reach (s : St) (hr : Reachable s) : PeerOK s.hist → TInv s := by
  have : HAInv s ∧ (PeerOK s.hist → TInv s) := by
    refine reachable_induct (P := fun s => HAInv s ∧ (PeerOK s.hist → TInv s)) (fun f p => ⟨HAInv_init f p, fun _ => TInv_init f p⟩) ?_ s hr
    intro s s' a _ ih hs
    refine ⟨HAInv_step s s' a ih.1 hs, fun hp' => ?_⟩
    obtain ⟨l, hl⟩ := step_hist s s' a hs
    have hp : PeerOK s.hist := PeerOK_prefix s.hist l (hl ▸ hp')
    exact TInv_step s s' a ih.1 hp' (ih.2 hp) hs
  exact this.2

end FmpRpc.T
