import FmpRpc.Proofs.TransportInvBS
/- preservation of the send invariant, part 3 (split for checking time) -/
namespace FmpRpc.T
set_option linter.unusedSimpArgs false

set_option maxHeartbeats 8000000 in
theorem SInv_step_nSel (s s' : St) (a : Act) (hi : SInv s) (hs : step s a = some s') :
    ∀ n x, (s'.notifiers n).pc = .sel x → (s'.sends x).st ≠ .absent ∧ (s'.sends x).kind = .notify := by
  step_cases a with hs
  all_goals first
    | (refine (SInv_of_view _ _ ?_ hi).nSel
       simp_all [sview, setCaller, setNotifier, setSend, setHandler, setCloser, setPending, setTask, log, newSend, failedSend, abandon, returnCaller]
       done)
    | skip
  all_goals
    simp [setCaller, setNotifier, setSend, setHandler, setCloser, setPending, setTask, log, newSend, failedSend, abandon, returnCaller, cancelHandler_handlers, cancelAllTasks_handlers] at * <;>
    first
      | exact hi.nSel
      | (obtain ⟨fresh, cHand, cSel1, cCHand, cCPoll, nHand, nSel, hHand, hSel, rHand, rSel, handedW, wHanded, asyncSt⟩ := hi
         grind)

set_option maxHeartbeats 8000000 in
theorem SInv_step_hHand (s s' : St) (a : Act) (hi : SInv s) (hs : step s a = some s') :
    ∀ h x, (s'.handlers h).pc = .rHand x →
    (s'.sends x).st = .waiting ∧ (s'.sends x).kind = .reply ∧ (s'.sends x).who = h ∧ (s'.sends x).async = false ∧
    s'.r ≠ .nfHand x ∧ s'.r ≠ .nfSel x := by
  step_cases a with hs
  all_goals first
    | (refine (SInv_of_view _ _ ?_ hi).hHand
       simp_all [sview, setCaller, setNotifier, setSend, setHandler, setCloser, setPending, setTask, log, newSend, failedSend, abandon, returnCaller]
       done)
    | skip
  all_goals
    simp [setCaller, setNotifier, setSend, setHandler, setCloser, setPending, setTask, log, newSend, failedSend, abandon, returnCaller, cancelHandler_handlers, cancelAllTasks_handlers] at * <;>
    first
      | exact hi.hHand
      | (obtain ⟨fresh, cHand, cSel1, cCHand, cCPoll, nHand, nSel, hHand, hSel, rHand, rSel, handedW, wHanded, asyncSt⟩ := hi
         grind)

set_option maxHeartbeats 8000000 in
theorem SInv_step_hSel (s s' : St) (a : Act) (hi : SInv s) (hs : step s a = some s') :
    ∀ h x, (s'.handlers h).pc = .rSel x →
    (s'.sends x).kind = .reply ∧ (s'.sends x).who = h ∧ s'.r ≠ .nfHand x ∧ s'.r ≠ .nfSel x ∧
    ((s'.sends x).st = .handed ∨ ((s'.sends x).st = .completed ∧ (s'.sends x).slot ≠ none)) := by
  step_cases a with hs
  all_goals first
    | (refine (SInv_of_view _ _ ?_ hi).hSel
       simp_all [sview, setCaller, setNotifier, setSend, setHandler, setCloser, setPending, setTask, log, newSend, failedSend, abandon, returnCaller]
       done)
    | skip
  all_goals
    simp [setCaller, setNotifier, setSend, setHandler, setCloser, setPending, setTask, log, newSend, failedSend, abandon, returnCaller, cancelHandler_handlers, cancelAllTasks_handlers] at * <;>
    first
      | exact hi.hSel
      | (obtain ⟨fresh, cHand, cSel1, cCHand, cCPoll, nHand, nSel, hHand, hSel, rHand, rSel, handedW, wHanded, asyncSt⟩ := hi
         grind)

end FmpRpc.T
