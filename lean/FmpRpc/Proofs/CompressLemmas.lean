import FmpRpc.Model.Compress
import FmpRpc.Proofs.MsgpackRT
/-
  Lemmas for C06: the compressed slot of a call / reply decodes to the value
  the sender compressed; frames produced by `wire` are accepted by `nextFrame`.
-/
namespace FmpRpc.Z
set_option linter.unusedSimpArgs false
open FmpRpc Prog

theorem get_none (k : Cacher) (ct : Int) (h : hasCompressor ct = false) : k.get ct = none := by
  have := k.agrees ct
  rw [h] at this
  cases hg : k.get ct with
  | none => rfl
  | some c => rw [hg] at this; simp at this

theorem get_some (k : Cacher) (ct : Int) (h : hasCompressor ct = true) : ∃ c, k.get ct = some c := by
  have := k.agrees ct
  rw [h] at this
  cases hg : k.get ct with
  | none => rw [hg] at this; simp at this
  | some c => exact ⟨c, rfl⟩

theorem decBin_hdr (s hd : Bytes) (l : Nat) (h : BinHdr l hd) (hl : s.length = l) (r : Bytes) :
    runStream decBin (hd ++ s ++ r) = ⟨.ok s, r⟩ := by
  cases h with
  | b8 h =>
    simp only [decBin, List.cons_append, List.nil_append, runStream_readn1_cons, List.append_assoc, classify_c4]
    rw [runStream_readx _ _ _ _ (beBytes_length _ _), beNat_beBytes _ _ (by simpa using h), runStream_readx _ _ _ _ hl]; simp
  | b16 h =>
    simp only [decBin, List.cons_append, List.nil_append, runStream_readn1_cons, List.append_assoc, classify_c5]
    rw [runStream_readx _ _ _ _ (beBytes_length _ _), beNat_beBytes _ _ (by simpa using h), runStream_readx _ _ _ _ hl]; simp
  | b32 h =>
    simp only [decBin, List.cons_append, List.nil_append, runStream_readn1_cons, List.append_assoc, classify_c6]
    rw [runStream_readx _ _ _ _ (beBytes_length _ _), beNat_beBytes _ _ (by simpa using h), runStream_readx _ _ _ _ hl]; simp

/-- `decBin` accepts every legal bin encoding -/
theorem decBin_legal (s hd : Bytes) (h : BinHdr s.length hd) (r : Bytes) :
    runStream decBin (hd ++ s ++ r) = ⟨.ok s, r⟩ := decBin_hdr s hd _ h rfl r

/-- the decompressed payload decodes to the value that was encoded -/
theorem decodePlain_enc (v : Value) (hw : v.wf = true) (hr : v.rt = true) :
    decodePlain (enc v) = ret v := by
  have hl := enc_legal v hw hr
  have h := decValue_legal v (enc v) hl ((enc v).length + 1)
    (Nat.le_trans (legal_depth_le v _ hl) (Nat.le_succ _)) []
  rw [List.append_nil] at h
  simp [decodePlain, h]

/-- the argument / result slot: whatever `compressData` put there decodes to `v` -/
theorem decodeSlot (k : Cacher) (methods : List (Bytes × List Bytes)) (pending : List (Int × Int × Bool))
    (fuel : Nat) (ct : Int) (ek : Option Value) (v : Value)
    (hw : v.wf = true) (hr : v.rt = true)
    (hwc : (compressData k ct v).wf = true)
    (hf : (enc (compressData k ct v)).length ≤ fuel) (rest : Bytes) :
    runStream (decodeMaybeCompressed (ctxOf k methods pending) fuel ct ek)
      (enc (compressData k ct v) ++ rest) = ⟨.ok v, rest⟩ := by
  cases hc : hasCompressor ct with
  | false =>
    rw [decodeMaybeCompressed_none _ _ _ _ hc]
    have hg := get_none k ct hc
    simp only [compressData, hg] at hf ⊢
    exact decValue_of_legal v _ (enc_legal v hw hr) fuel hf rest
  | true =>
    obtain ⟨c, hg⟩ := get_some k ct hc
    simp only [compressData, hg] at hwc hf ⊢
    unfold decodeMaybeCompressed
    rw [if_pos hc]
    simp only [enc]
    rw [runStream_bind _ _ _ _ _
      (decBin_hdr _ _ _ (binHdr_legal _ (by simpa [Value.wf] using hwc)) rfl rest)]
    have hne : (c.compress (enc v)).isEmpty = false := by
      have := c.nonempty (enc v)
      cases h : c.compress (enc v) with
      | nil => exact absurd h this
      | cons _ _ => rfl
    simp only [hne, ctxOf, decompressOf, hg, c.law, decodePlain_enc v hw hr]
    simp

theorem decErrStr_nil (r : Bytes) : runStream decErrStr (0xc0 :: r) = ⟨.ok [], r⟩ := by
  simp [decErrStr]

/-- the error slot written by `replyMsg` -/
theorem decErrStr_slot (err : Bytes) (herr : err.length < 4294967296) (r : Bytes) :
    runStream decErrStr (enc (if err.isEmpty then Value.nil else .str err) ++ r) = ⟨.ok err, r⟩ := by
  cases err with
  | nil => simp [enc, decErrStr_nil]
  | cons b t =>
    simp only [List.isEmpty_cons, Bool.false_eq_true, if_false, enc]
    exact decErrStr_hdr _ _ _ (strHdr_legal _ herr) rfl r

theorem decodeRPC_callc_gen (ctx : Ctx) (fuel l : Nat) (seq ct : Int) (name : Bytes) (arg : Value)
    (b0 b1 b2 b3 b4 rest : Bytes)
    (e0 : LegalEnc (.int 4) b0) (e1 : LegalEnc (.int seq) b1) (e2 : LegalEnc (.int ct) b2)
    (e3 : LegalEnc (.str name) b3)
    (h4 : runStream (decodeMaybeCompressed ctx fuel ct (some .nil)) (b4 ++ rest) = ⟨.ok arg, rest⟩)
    (hfind : findMethod ctx name = .ok ())
    (hseq : -9223372036854775808 ≤ seq ∧ seq < 9223372036854775808)
    (hct : -9223372036854775808 ≤ ct ∧ ct < 9223372036854775808)
    (hl5 : l = 5) :
    runStream (decodeRPC ctx fuel l) (b0 ++ (b1 ++ (b2 ++ (b3 ++ (b4 ++ rest))))) =
      ⟨.ok (.ok (.callc seq ct name arg none)), rest⟩ := by
  subst hl5
  unfold decodeRPC
  rw [runStream_bind _ _ _ _ _ (decInt_of_legal 4 b0 e0 (by omega) _)]
  simp only [Gen.methodCall, Gen.methodResponse, Gen.methodNotify, Gen.methodCancel,
    Gen.methodCallCompressed, Int.reduceEq, if_true, if_false]
  rw [if_neg (by omega), runStream_bind _ _ _ _ _ (decInt_of_legal seq b1 e1 hseq _),
    runStream_bind _ _ _ _ _ (decInt_of_legal ct b2 e2 hct _),
    runStream_bind _ _ _ _ _ (decStr_of_legal name b3 e3 _)]
  simp only [hfind]
  rw [runStream_bind _ _ _ _ _ h4]
  simp [loadContext]

theorem decodeRPC_resp_gen (ctx : Ctx) (fuel l : Nat) (seq ct : Int) (e : Bytes) (res : Value)
    (b0 b1 b2 b3 rest : Bytes)
    (e0 : LegalEnc (.int 1) b0) (e1 : LegalEnc (.int seq) b1)
    (h2 : runStream decErrStr (b2 ++ (b3 ++ rest)) = ⟨.ok e, b3 ++ rest⟩)
    (h3 : runStream (decodeMaybeCompressed ctx fuel ct none) (b3 ++ rest) = ⟨.ok res, rest⟩)
    (hlook : lookupCall ctx.pending seq = some (ct, true))
    (hseq : -9223372036854775808 ≤ seq ∧ seq < 9223372036854775808)
    (hl4 : 4 ≤ l) :
    runStream (decodeRPC ctx fuel l) (b0 ++ (b1 ++ (b2 ++ (b3 ++ rest)))) =
      ⟨.ok (.ok (.resp seq (.str e) res)), rest⟩ := by
  unfold decodeRPC
  rw [runStream_bind _ _ _ _ _ (decInt_of_legal 1 b0 e0 (by omega) _)]
  simp only [Gen.methodCall, Gen.methodResponse, Gen.methodNotify, Gen.methodCancel,
    Gen.methodCallCompressed, Int.reduceEq, if_true, if_false]
  rw [if_neg (by omega), runStream_bind _ _ _ _ _ (decInt_of_legal seq b1 e1 hseq _)]
  simp only [hlook]
  rw [runStream_bind _ _ _ _ _ h2]
  simp only [Bool.not_true]
  rw [if_neg (by simp), runStream_bind _ _ _ _ _ h3]
  simp

/-- what `wire` produces: length prefix, fixarray header, the elements -/
theorem wire_inv (max : Nat) (m : Msg) (bs : Bytes) (hn : (layout m).length < 16)
    (h : wire max m = some bs) :
    1 + (encList (layout m)).length ≤ max ∧
    bs = encInt ((1 + (encList (layout m)).length : Nat) : Int) ++
      UInt8.ofNat (0x90 + (layout m).length) :: encList (layout m) := by
  simp only [wire, encodeFrameBytes, body, enc, arrHdr, hn, if_true, List.cons_append,
    List.nil_append, List.length_cons] at h
  split at h
  · simp at h
  · simp only [Option.some.injEq] at h
    refine ⟨by omega, ?_⟩
    rw [← h, Nat.add_comm]

/-- a frame written by `wire` is read back by `nextFrame` as whatever `decodeRPC`
    makes of its elements -/
theorem nextFrame_wire (max : Nat) (ctx : Ctx) (m : Msg) (bs r : Bytes) (fr : FrameRes)
    (hn1 : 1 ≤ (layout m).length) (hn : (layout m).length ≤ 15)
    (hwire : wire max m = some bs) (hsmall : bs.length < 2147483648)
    (hdec : runStream (decodeRPC ctx (1 + (encList (layout m)).length) (layout m).length)
      (encList (layout m) ++ r) = ⟨.ok fr, r⟩) :
    nextFrame max ctx (bs ++ r) = ⟨fr, r⟩ := by
  obtain ⟨hmax, rfl⟩ := wire_inv max m bs (by omega) hwire
  simp only [List.length_append, List.length_cons] at hsmall
  exact nextFrame_legal max ctx _ (encList (layout m)) [] r _ fr hn1 hn
    (encInt_legal _ (by omega)) hmax (by omega) (by simp) (by simpa using hdec)

/-- the encoded elements are part of the frame -/
theorem wire_len (max : Nat) (m : Msg) (bs : Bytes) (hn : (layout m).length < 16)
    (h : wire max m = some bs) : (encList (layout m)).length < bs.length := by
  obtain ⟨_, rfl⟩ := wire_inv max m bs hn h
  simp; omega

theorem compressData_wf (k : Cacher) (ct : Int) (v : Value) (hw : v.wf = true)
    (hlen : (enc (compressData k ct v)).length < 4294967296) : (compressData k ct v).wf = true := by
  unfold compressData at hlen ⊢
  cases hg : k.get ct with
  | none => simpa [hg] using hw
  | some c =>
    simp only [hg, enc, List.length_append] at hlen
    simp only [Value.wf, decide_eq_true_eq]
    omega

end FmpRpc.Z
