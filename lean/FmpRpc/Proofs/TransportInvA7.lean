import FmpRpc.Proofs.TransportInvA6
/-
  Part A7: a cancellation follows its call on the wire.
-/
namespace FmpRpc.T

/-- call and cancel sends carry their caller's seqno; a cancel send exists only
    once its caller has entered `handleCancel` -/
structure O1C (sends : Nat → Send) (nextSend : Nat) (callers : Nat → Caller) : Prop where
  o1 : ∀ y, y < nextSend → ((sends y).kind = .call ∨ (sends y).kind = .cancel) →
    (sends y).seq = (callers (sends y).who).seq ∧ (callers (sends y).who).seq ≠ -1
  o2 : ∀ y, y < nextSend → (sends y).kind = .cancel → (callers (sends y).who).cancels ≠ 0

def O1 (s : St) : Prop := O1C s.sends s.nextSend s.callers

theorem O1_init (f p : Nat → Nat) : O1 (initSz f p) := by constructor <;> simp [initSz]

set_option maxHeartbeats 1000000 in
theorem O1_step (s s' : St) (a : Act) (hC : CInv s) (h : O1 s) (hs : step s a = some s') : O1 s' := by
  have hall := h
  obtain ⟨o1, o2⟩ := h
  have hpre : ∀ c, (s.callers c).pc.pre = true → (s.callers c).seq = -1 ∧ (s.callers c).cancels = 0 :=
    fun c h => ⟨((hC.loc c).pre h).1, ((hC.loc c).pre h).2.2.2.2.1⟩
  have htab := fun c => (hC.loc c).tab
  have hcan1 := fun c => (hC.loc c).can1
  have hcan0 := fun c => (hC.loc c).can0
  clear hC
  step_cases a hs
  all_goals (first | exact hall | skip)
  all_goals (clear hall)
  all_goals (constructor)
  all_goals (try simp)
  all_goals (first | done | assumption | grind)


/-! ### frames for the callers' `sent` / `seq` -/

@[simp] def Act.isS : Act → Bool
  | .callStart _ | .cNew _ | .wRecv _ => true
  | _ => false

set_option maxHeartbeats 1000000 in
theorem step_sframe (s s' : St) (a : Act) (hs : step s a = some s') (ha : a.isS = false) :
    ∀ c, (s'.callers c).sent = (s.callers c).sent ∧ (s'.callers c).seq = (s.callers c).seq := by
  step_cases a hs
  all_goals (first | (simp at ha; done) | skip)
  all_goals (intro c0)
  all_goals (try simp)
  all_goals (first | done | grind)

theorem callStart_eff (s s' : St) (c : Nat) (hs : step s (.callStart c) = some s') :
    (∀ c', c' ≠ c → s'.callers c' = s.callers c') ∧ (s'.callers c).sent = false := by
  simp only [step] at hs
  split at hs
  · injection hs with hs; subst hs
    refine ⟨?_, by simp⟩
    intro c' hc'; simp [hc']
  · simp at hs

theorem cNew_eff (s s' : St) (c : Nat) (hs : step s (.cNew c) = some s') :
    (s.callers c).pc = .new ∧ (∀ c', c' ≠ c → s'.callers c' = s.callers c') ∧
    (s'.callers c).sent = (s.callers c).sent := by
  simp only [step] at hs
  split at hs
  · rename_i hpc
    injection hs with hs; subst hs
    refine ⟨hpc, ?_, by simp⟩
    intro c' hc'; simp [hc']
  · simp at hs

theorem wRecv_ceff (s s' : St) (x : Nat) (hs : step s (.wRecv x) = some s') :
    ∀ c, (s'.callers c).seq = (s.callers c).seq ∧
      ((s.callers c).sent = true → (s'.callers c).sent = true) ∧
      ((s'.callers c).sent = true → (s.callers c).sent = true ∨
        ((s.callers c).pc = .hand x ∧ (s.sends x).kind = .call ∧ (s.sends x).who = c)) := by
  intro c
  simp only [step] at hs
  split at hs
  · repeat' (split at hs)
    all_goals (first | (simp at hs; done) | skip)
    all_goals (injection hs with hs; subst hs)
    all_goals (simp only [setCaller, setSend, setNotifier, setHandler, log] at *)
    all_goals (try simp)
    all_goals (first | done | grind)
  · simp at hs

/-- the writer holds (or has written) send `x` -/
def wHas (s : St) (x : Nat) : Prop := x ∈ s.wlog ∨ s.w = .got x ∨ s.w = .writing x

/-- a caller whose call frame went through the hand-off has its call send with the writer -/
def O3 (s : St) : Prop := ∀ c, (s.callers c).sent = true →
  ∃ x, x < s.nextSend ∧ (s.sends x).kind = .call ∧ (s.sends x).who = c ∧
    (s.sends x).seq = (s.callers c).seq ∧ wHas s x

theorem O3_init (f p : Nat → Nat) : O3 (initSz f p) := by intro c; simp [initSz]

theorem O3_transfer (s s' : St) (hle : s.nextSend ≤ s'.nextSend)
    (hfr : ∀ x, x < s.nextSend → Send.static (s'.sends x) (s.sends x))
    (hc : ∀ c, (s'.callers c).sent = true →
      ((s.callers c).sent = true ∧ (s'.callers c).seq = (s.callers c).seq) ∨
      (∃ x, x < s'.nextSend ∧ (s'.sends x).kind = .call ∧ (s'.sends x).who = c ∧
        (s'.sends x).seq = (s'.callers c).seq ∧ wHas s' x))
    (hw : ∀ x, wHas s x → wHas s' x) (h : O3 s) : O3 s' := by
  intro c hsent
  rcases hc c hsent with ⟨h1, h2⟩ | h1
  · obtain ⟨x, hx, hk, hwho, hseq, hh⟩ := h c h1
    obtain ⟨f1, f2, f3, -, -⟩ := hfr x hx
    exact ⟨x, by omega, by rw [f1, hk], by rw [f3, hwho], by rw [f2, hseq, h2], hw x hh⟩
  · exact h1

theorem O3_step (s s' : St) (a : Act) (hC : CInv s) (hS : SInv s) (h : O3 s)
    (hs : step s a = some s') : O3 s' := by
  obtain ⟨hle, hfr⟩ := step_frame s s' a hs
  by_cases haW : a.isW = true
  · cases a <;> simp at haW
    case wRecv x =>
      obtain ⟨w0, -, w1, e2, -⟩ := wRecv_eff s s' x hs
      have hce := wRecv_ceff s s' x hs
      refine O3_transfer s s' hle hfr ?_ ?_ h
      · intro c hsent
        rcases (hce c).2.2 hsent with h1 | ⟨hpc, hk, hwho⟩
        · exact .inl ⟨h1, (hce c).1⟩
        · right
          have hh := hS.cHand c x hpc
          obtain ⟨f1, f2, f3, -, -⟩ := hfr x hh.1
          exact ⟨x, by omega, by rw [f1, hk], by rw [f3, hwho], by rw [f2, (hce c).1, hh.2.2.2.2.2],
            .inr (.inl w1)⟩
      · intro x' hx'
        rcases hx' with h1 | h1 | h1
        · exact .inl (by rw [e2]; exact h1)
        · rw [w0] at h1; simp at h1
        · rw [w0] at h1; simp at h1
    case wNotify =>
      obtain ⟨x, w0, w1, e2, e3, e4, e5, -⟩ := wNotify_eff s s' hs
      refine O3_transfer s s' hle hfr ?_ ?_ h
      · intro c hsent; rw [e5] at hsent ⊢; exact .inl ⟨hsent, rfl⟩
      · intro x' hx'
        rcases hx' with h1 | h1 | h1
        · exact .inl (by rw [e2]; exact h1)
        · rw [w0] at h1; injection h1 with h1; subst h1; exact .inr (.inr w1)
        · rw [w0] at h1; simp at h1
    case wWrite ok =>
      obtain ⟨x, e, w0, w1, e2, e3, e4, e5, -⟩ := wWrite_eff s s' ok hs
      refine O3_transfer s s' hle hfr ?_ ?_ h
      · intro c hsent; rw [e5] at hsent ⊢; exact .inl ⟨hsent, rfl⟩
      · intro x' hx'
        rcases hx' with h1 | h1 | h1
        · exact .inl (by rw [e2]; simp [h1])
        · rw [w0] at h1; simp at h1
        · rw [w0] at h1; injection h1 with h1; subst h1; exact .inl (by rw [e2]; simp)
    case wDone =>
      obtain ⟨x, e, w0, w1, e2, -⟩ := wDone_eff s s' hs
      have hsf := step_sframe s s' .wDone hs rfl
      refine O3_transfer s s' hle hfr ?_ ?_ h
      · intro c hsent; rw [(hsf c).1] at hsent; exact .inl ⟨hsent, (hsf c).2⟩
      · intro x' hx'
        rcases hx' with h1 | h1 | h1
        · exact .inl (by rw [e2]; exact h1)
        · rw [w0] at h1; simp at h1
        · rw [w0] at h1; simp at h1
    case wStop =>
      obtain ⟨w0, w1, e2, -, -⟩ := wStop_eff s s' hs
      have hsf := step_sframe s s' .wStop hs rfl
      refine O3_transfer s s' hle hfr ?_ ?_ h
      · intro c hsent; rw [(hsf c).1] at hsent; exact .inl ⟨hsent, (hsf c).2⟩
      · intro x' hx'
        rcases hx' with h1 | h1 | h1
        · exact .inl (by rw [e2]; exact h1)
        · rw [w0] at h1; simp at h1
        · rw [w0] at h1; simp at h1
  · obtain ⟨e1, e2, -⟩ := step_wframe s s' a hs (by simpa using haW)
    have hw : ∀ x, wHas s x → wHas s' x := by
      intro x hx; unfold wHas at *; rw [e1, e2]; exact hx
    by_cases haS : a.isS = true
    · cases a <;> simp at haS
      case callStart c =>
        obtain ⟨h1, h2⟩ := callStart_eff s s' c hs
        refine O3_transfer s s' hle hfr ?_ hw h
        intro c' hsent
        by_cases hcc : c' = c
        · subst hcc; rw [h2] at hsent; simp at hsent
        · rw [h1 c' hcc] at hsent ⊢; exact .inl ⟨hsent, rfl⟩
      case cNew c =>
        obtain ⟨hpc, h1, h2⟩ := cNew_eff s s' c hs
        refine O3_transfer s s' hle hfr ?_ hw h
        intro c' hsent
        by_cases hcc : c' = c
        · subst hcc; rw [h2] at hsent
          have := ((hC.loc c').pre (by simp [hpc])).2.1
          rw [this] at hsent; simp at hsent
        · rw [h1 c' hcc] at hsent ⊢; exact .inl ⟨hsent, rfl⟩
      case wRecv x => simp at haW
    · have hsf := step_sframe s s' a hs (by simpa using haS)
      refine O3_transfer s s' hle hfr ?_ hw h
      intro c hsent; rw [(hsf c).1] at hsent; exact .inl ⟨hsent, (hsf c).2⟩


/-- a written cancellation of a call whose frame went through the hand-off is
    preceded in the write log by that call's frame -/
def O4 (s : St) : Prop := ∀ (j y : Nat), s.wlog[j]? = some y → (s.sends y).kind = .cancel →
  (s.callers (s.sends y).who).sent = true →
  ∃ x i, (s.sends x).kind = .call ∧ (s.sends x).who = (s.sends y).who ∧
    (s.sends x).seq = (s.sends y).seq ∧ s.wlog[i]? = some x ∧ i < j

theorem O4_init (f p : Nat → Nat) : O4 (initSz f p) := by intro j y; simp [initSz]

theorem O4_transfer (s s' : St)
    (hfr : ∀ x, x < s.nextSend → Send.static (s'.sends x) (s.sends x))
    (hb : ∀ x ∈ s.wlog, x < s.nextSend)
    (hc : ∀ y ∈ s.wlog, (s.sends y).kind = .cancel → (s'.callers (s.sends y).who).sent = true →
      (s.callers (s.sends y).who).sent = true)
    (hwl : s'.wlog = s.wlog) (h : O4 s) : O4 s' := by
  intro j y hj hk hsent
  rw [hwl] at hj
  have hy : y ∈ s.wlog := List.mem_of_getElem? hj
  obtain ⟨f1, f2, f3, -, -⟩ := hfr y (hb y hy)
  rw [f1] at hk
  rw [f3] at hsent
  obtain ⟨x, i, hxk, hxw, hxs, hi, hij⟩ := h j y hj hk (hc y hy hk hsent)
  have hx : x ∈ s.wlog := List.mem_of_getElem? hi
  obtain ⟨g1, g2, g3, -, -⟩ := hfr x (hb x hx)
  exact ⟨x, i, by rw [g1, hxk], by rw [g3, f3, hxw], by rw [g2, f2, hxs], by rw [hwl]; exact hi, hij⟩

theorem O4_step (s s' : St) (a : Act) (hC : CInv s) (hS : SInv s) (hW : WInv s) (hO1 : O1 s) (hO3 : O3 s)
    (h : O4 s) (hs : step s a = some s') : O4 s' := by
  obtain ⟨hle, hfr⟩ := step_frame s s' a hs
  have hb : ∀ x ∈ s.wlog, x < s.nextSend := fun x hx => wlog_lt s hS hW x (by simp [hx])
  by_cases haW : a.isW = true
  · cases a <;> simp at haW
    case wRecv x =>
      obtain ⟨w0, -, w1, e2, -⟩ := wRecv_eff s s' x hs
      have hce := wRecv_ceff s s' x hs
      refine O4_transfer s s' hfr hb ?_ e2 h
      intro y hy hk hsent
      rcases (hce _).2.2 hsent with h1 | ⟨hpc, -, -⟩
      · exact h1
      · exfalso
        have h2 := hO1.o2 y (hb y hy) hk
        have h0 := ((hC.loc (s.sends y).who).can0 (by simp [hpc]) (by simp [hpc])).1
        exact h2 h0
    case wNotify =>
      obtain ⟨x, w0, w1, e2, e3, e4, e5, -⟩ := wNotify_eff s s' hs
      refine O4_transfer s s' hfr hb ?_ e2 h
      intro y hy hk hsent; rw [e5] at hsent; exact hsent
    case wWrite ok =>
      obtain ⟨x, e, w0, w1, e2, e3, e4, e5, -⟩ := wWrite_eff s s' ok hs
      intro j y hj hk hsent
      rw [e2] at hj
      rw [e3] at hk
      rw [e3, e5] at hsent
      by_cases hjl : j < s.wlog.length
      · rw [List.getElem?_append_left hjl] at hj
        obtain ⟨x', i, h1, h2, h3, h4, h5⟩ := h j y hj hk hsent
        refine ⟨x', i, by rw [e3]; exact h1, by rw [e3]; exact h2, by rw [e3]; exact h3, ?_, h5⟩
        rw [e2, List.getElem?_append_left (by omega)]; exact h4
      · rw [List.getElem?_append_right (by omega)] at hj
        have hj0 : j - s.wlog.length = 0 := by
          by_cases h0 : j - s.wlog.length = 0
          · exact h0
          · rw [List.getElem?_cons] at hj; simp [h0] at hj
        rw [hj0] at hj; simp at hj; subst hj
        obtain ⟨x', hx', hxk, hxw, hxs, hh⟩ := hO3 _ hsent
        have hyl : x < s.nextSend := by
          have := hS.wcur1 x (by simp [w0])
          have hf := hS.fresh x
          by_cases hlt : x < s.nextSend
          · exact hlt
          · have := hf (by omega); simp_all
        have hseq := (hO1.o1 x hyl (.inr hk)).1
        have hmem : x' ∈ s.wlog := by
          rcases hh with h1 | h1 | h1
          · exact h1
          · rw [w0] at h1; simp at h1
          · rw [w0] at h1; injection h1 with h1; subst h1; rw [hk] at hxk; simp at hxk
        obtain ⟨i, hi, hget⟩ := List.mem_iff_getElem.mp hmem
        refine ⟨x', i, by rw [e3]; exact hxk, by rw [e3]; exact hxw, by rw [e3, hxs, hseq], ?_, by omega⟩
        rw [e2, List.getElem?_append_left hi, List.getElem?_eq_getElem hi, hget]
    case wDone =>
      obtain ⟨x, e, w0, w1, e2, -⟩ := wDone_eff s s' hs
      have hsf := step_sframe s s' .wDone hs rfl
      refine O4_transfer s s' hfr hb ?_ e2 h
      intro y hy hk hsent; rw [(hsf _).1] at hsent; exact hsent
    case wStop =>
      obtain ⟨w0, w1, e2, -, -⟩ := wStop_eff s s' hs
      have hsf := step_sframe s s' .wStop hs rfl
      refine O4_transfer s s' hfr hb ?_ e2 h
      intro y hy hk hsent; rw [(hsf _).1] at hsent; exact hsent
  · obtain ⟨e1, e2, -⟩ := step_wframe s s' a hs (by simpa using haW)
    by_cases haS : a.isS = true
    · cases a <;> simp at haS
      case callStart c =>
        obtain ⟨h1, h2⟩ := callStart_eff s s' c hs
        refine O4_transfer s s' hfr hb ?_ e2 h
        intro y hy hk hsent
        by_cases hcc : (s.sends y).who = c
        · rw [hcc, h2] at hsent; simp at hsent
        · rw [h1 _ hcc] at hsent; exact hsent
      case cNew c =>
        obtain ⟨hpc, h1, h2⟩ := cNew_eff s s' c hs
        refine O4_transfer s s' hfr hb ?_ e2 h
        intro y hy hk hsent
        by_cases hcc : (s.sends y).who = c
        · rw [hcc, h2] at hsent; rw [hcc]; exact hsent
        · rw [h1 _ hcc] at hsent; exact hsent
      case wRecv x => simp at haW
    · have hsf := step_sframe s s' a hs (by simpa using haS)
      refine O4_transfer s s' hfr hb ?_ e2 h
      intro y hy hk hsent; rw [(hsf _).1] at hsent; exact hsent

structure OAll (s : St) : Prop where
  ci : CInv s
  si : SInv s
  wi : WInv s
  o1 : O1 s
  o3 : O3 s
  o4 : O4 s

theorem OAll_reach (s : St) (hr : Reachable s) : OAll s := by
  refine reachable_induct (P := OAll) (fun f p => ⟨CInv_init f p, SInv_init f p, WInv_init f p, O1_init f p, O3_init f p, O4_init f p⟩) ?_ s hr
  intro s s' a _ ih hs
  exact ⟨CInv_step s s' a ih.ci hs, SInv_step s s' a ih.si hs, WInv_step s s' a ih.si ih.wi hs,
    O1_step s s' a ih.ci ih.o1 hs, O3_step s s' a ih.ci ih.si ih.o3 hs,
    O4_step s s' a ih.ci ih.si ih.wi ih.o1 ih.o3 ih.o4 hs⟩

end FmpRpc.T
