import FmpRpc.Proofs.TransportInvBS
/- preservation of the send invariant, part 1 (split for checking time) -/
namespace FmpRpc.T
set_option linter.unusedSimpArgs false

set_option maxHeartbeats 8000000 in
theorem SInv_step_fresh (s s' : St) (a : Act) (hi : SInv s) (hs : step s a = some s') :
    ∀ x, s'.nextSend ≤ x → (s'.sends x).st = .absent ∧ (s'.sends x).async = false := by
  step_cases a with hs
  all_goals first
    | (refine (SInv_of_view _ _ ?_ hi).fresh
       simp_all [sview, setCaller, setNotifier, setSend, setHandler, setCloser, setPending, setTask, log, newSend, failedSend, abandon, returnCaller]
       done)
    | skip
  all_goals
    simp [setCaller, setNotifier, setSend, setHandler, setCloser, setPending, setTask, log, newSend, failedSend, abandon, returnCaller, cancelHandler_handlers, cancelAllTasks_handlers] at * <;>
    first
      | exact hi.fresh
      | (obtain ⟨fresh, cHand, cSel1, cCHand, cCPoll, nHand, nSel, hHand, hSel, rHand, rSel, handedW, wHanded, asyncSt⟩ := hi
         grind)

set_option maxHeartbeats 8000000 in
theorem SInv_step_cHand (s s' : St) (a : Act) (hi : SInv s) (hs : step s a = some s') :
    ∀ c x, (s'.callers c).pc = .hand x →
    (s'.sends x).st = .waiting ∧ (s'.sends x).kind = .call ∧ (s'.sends x).who = c ∧ (s'.sends x).async = false := by
  step_cases a with hs
  all_goals first
    | (refine (SInv_of_view _ _ ?_ hi).cHand
       simp_all [sview, setCaller, setNotifier, setSend, setHandler, setCloser, setPending, setTask, log, newSend, failedSend, abandon, returnCaller]
       done)
    | skip
  all_goals
    simp [setCaller, setNotifier, setSend, setHandler, setCloser, setPending, setTask, log, newSend, failedSend, abandon, returnCaller, cancelHandler_handlers, cancelAllTasks_handlers] at * <;>
    first
      | exact hi.cHand
      | (obtain ⟨fresh, cHand, cSel1, cCHand, cCPoll, nHand, nSel, hHand, hSel, rHand, rSel, handedW, wHanded, asyncSt⟩ := hi
         grind)

set_option maxHeartbeats 8000000 in
theorem SInv_step_cSel1 (s s' : St) (a : Act) (hi : SInv s) (hs : step s a = some s') :
    ∀ c x, (s'.callers c).pc = .sel1 x → (s'.sends x).st ≠ .absent ∧ (s'.sends x).kind = .call := by
  step_cases a with hs
  all_goals first
    | (refine (SInv_of_view _ _ ?_ hi).cSel1
       simp_all [sview, setCaller, setNotifier, setSend, setHandler, setCloser, setPending, setTask, log, newSend, failedSend, abandon, returnCaller]
       done)
    | skip
  all_goals
    simp [setCaller, setNotifier, setSend, setHandler, setCloser, setPending, setTask, log, newSend, failedSend, abandon, returnCaller, cancelHandler_handlers, cancelAllTasks_handlers] at * <;>
    first
      | exact hi.cSel1
      | (obtain ⟨fresh, cHand, cSel1, cCHand, cCPoll, nHand, nSel, hHand, hSel, rHand, rSel, handedW, wHanded, asyncSt⟩ := hi
         grind)

end FmpRpc.T
