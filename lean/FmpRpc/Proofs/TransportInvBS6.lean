import FmpRpc.Proofs.TransportInvBS1
import FmpRpc.Proofs.TransportInvBS2
import FmpRpc.Proofs.TransportInvBS3
import FmpRpc.Proofs.TransportInvBS4
import FmpRpc.Proofs.TransportInvBS5
/- the send invariant holds in every reachable state -/
namespace FmpRpc.T

theorem SInv_step (s s' : St) (a : Act) (hi : SInv s) (hs : step s a = some s') : SInv s' :=
  ⟨SInv_step_fresh s s' a hi hs,
   SInv_step_cHand s s' a hi hs,
   SInv_step_cSel1 s s' a hi hs,
   SInv_step_cCHand s s' a hi hs,
   SInv_step_cCPoll s s' a hi hs,
   SInv_step_nHand s s' a hi hs,
   SInv_step_nSel s s' a hi hs,
   SInv_step_hHand s s' a hi hs,
   SInv_step_hSel s s' a hi hs,
   SInv_step_rHand s s' a hi hs,
   SInv_step_rSel s s' a hi hs,
   SInv_step_handedW s s' a hi hs,
   SInv_step_wHanded s s' a hi hs,
   SInv_step_asyncSt s s' a hi hs⟩

theorem SInv_reachable (s : St) (hr : Reachable s) : SInv s := by
  induction hr with
  | init f p => exact SInv_init f p
  | step s s' a _ hs ih => exact SInv_step s s' a ih hs

end FmpRpc.T
