import FmpRpc.Model.Conn
/-
  Invariants of the connection model `Model/Conn`, proved for every reachable
  state (induction over `Reachable`, one case per action).
-/
namespace FmpRpc.Cn

structure CInv (fi : Bool) (s : St) : Prop where
  fresh : ∀ i, s.nextSeq ≤ i → (s.seqs i).pc = .absent
  chan : ∀ i, s.reconnectChan = some i ↔ ((s.seqs i).pc ≠ .absent ∧ (s.seqs i).pc ≠ .done)
  dialA : ∀ i, (s.seqs i).pc = .dial → s.dialing = 1
  dialB : s.dialing ≠ 0 → ∃ i, (s.seqs i).pc = .dial
  rb : s.reconnectedBefore = true ↔ (fi = true ∨ 0 < s.nextSeq)
  first : ∀ i, (s.seqs i).pc ≠ .absent → ((s.seqs i).first = true ↔ (i = 0 ∧ fi = false))
  ann0 : ∀ i, (s.seqs i).pc = .absent → (s.seqs i).announcements = 0
  ann1 : ∀ i, (s.seqs i).pc = .announce → (s.seqs i).announcements = 0 ∧ (s.seqs i).dials = 0
  ann2 : ∀ i, (s.seqs i).pc ≠ .absent → (s.seqs i).pc ≠ .announce → (s.seqs i).announcements = 1
  notes : ∀ i, (s.seqs i).errNotes ≤ (s.seqs i).fails ∧ (s.seqs i).fails ≤ (s.seqs i).errNotes + 1
  notesB : ∀ i e, (s.seqs i).pc = .backoff e → (s.seqs i).fails = (s.seqs i).errNotes + 1
  notesE : ∀ i, (s.seqs i).pc ≠ .release → (s.seqs i).pc ≠ .done → (∀ e, (s.seqs i).pc ≠ .backoff e) →
      (s.seqs i).fails = (s.seqs i).errNotes
  closed : ∀ i, (s.seqs i).closed = true ↔ (s.seqs i).pc = .done
  fin0 : ∀ i, (s.seqs i).published = none → (s.seqs i).finalizes = 0
  fin1 : ∀ i x, (s.seqs i).published = some x →
      (s.seqs i).finalizes = 1 ∧ s.xpRegistered x = true ∧ Evt.onConnectOk x ∈ s.hist ∧ s.client ≠ none ∧
      ((s.seqs i).pc = .attemptEnd none ∨ (s.seqs i).pc = .release ∨ (s.seqs i).pc = .done)
  finN : ∀ i, (s.seqs i).pc ≠ .attemptEnd none → (s.seqs i).pc ≠ .release → (s.seqs i).pc ≠ .done →
      (s.seqs i).published = none
  finC : ∀ i, (s.seqs i).published ≠ none → s.client ≠ none
  finA : ∀ i, (s.seqs i).pc = .attemptEnd none → (s.seqs i).published ≠ none
  finR : ∀ i, ((s.seqs i).pc = .release ∨ (s.seqs i).pc = .done) → (s.seqs i).errSlot = none →
      (s.seqs i).published ≠ none
  xreg : ∀ i x, (s.seqs i).pc = .registered x → s.xpRegistered x = true
  xcon : ∀ i x, (s.seqs i).pc = .connected x → s.xpRegistered x = true ∧ Evt.onConnectOk x ∈ s.hist
  cli : ∀ x, s.client = some x → Evt.onConnectOk x ∈ s.hist ∧ s.xpRegistered x = true
  wrel : ∀ w i, (s.waiters w).relBy = some i →
      (s.seqs i).closed = true ∧ (s.waiters w).pc = .ret (s.seqs i).errSlot
  wok : ∀ w, (s.waiters w).pc = .ret none → s.client ≠ none
  dac : ∀ i, (s.seqs i).dialsAfterCancel ≤ 1
  dac0 : ∀ i, (s.seqs i).dialsAfterCancel ≠ 0 →
      (s.seqs i).ctxCancelled = true ∧ (s.seqs i).pc ≠ .absent ∧ (s.seqs i).pc ≠ .announce ∧
      (s.seqs i).pc ≠ .delay ∧ (s.seqs i).pc ≠ .retryStart ∧ (∀ e, (s.seqs i).pc ≠ .backoff e) ∧
      (∀ e, (s.seqs i).pc ≠ .sleep e)

theorem CInv.init (fi : Bool) : CInv fi (init fi) := by
  constructor <;> simp [Cn.init]


set_option maxHeartbeats 1000000
syntax "inv_tac" : tactic
macro_rules
  | `(tactic| inv_tac) => `(tactic|
    (rename_i h hs
     obtain ⟨fresh, chan, dialA, dialB, rb, first, ann0, ann1, ann2, notes, notesB, notesE, closed, fin0, fin1,
       finN, finC, finA, finR, xreg, xcon, cli, wrel, wok, dac, dac0⟩ := h
     simp only [step] at hs
     repeat' split at hs
     all_goals (try cases hs)
     all_goals
       (constructor <;> intros <;>
         simp only [setSeq, setWaiter, log, getReconnectChan, isConnected, List.mem_append] at * <;> grind)))

theorem CInv.pres_wNew {fi s s'} {w f} (h : CInv fi s) (hs : step s (.wNew w f) = some s') : CInv fi s' := by
  inv_tac

theorem CInv.pres_wCtx {fi s s'} {w} (h : CInv fi s) (hs : step s (.wCtx w) = some s') : CInv fi s' := by
  inv_tac

theorem CInv.pres_wStart {fi s s'} {w} (h : CInv fi s) (hs : step s (.wStart w) = some s') : CInv fi s' := by
  obtain ⟨fresh, chan, dialA, dialB, rb, first, ann0, ann1, ann2, notes, notesB, notesE, closed, fin0, fin1,
    finN, finC, finA, finR, xreg, xcon, cli, wrel, wok, dac, dac0⟩ := h
  simp only [step] at hs
  split at hs
  · split at hs
    · cases hs
      constructor <;> intros <;>
        simp only [setSeq, setWaiter, log, isConnected, List.mem_append] at * <;> grind
    · cases hc : s.reconnectChan <;> simp only [getReconnectChan, hc] at hs <;> cases hs <;>
        constructor <;> intros <;>
        simp only [setSeq, setWaiter, log, isConnected, List.mem_append] at * <;> grind
  · cases hs

theorem CInv.pres_wCtxRet {fi s s'} {w} (h : CInv fi s) (hs : step s (.wCtxRet w) = some s') : CInv fi s' := by
  inv_tac

theorem CInv.pres_wRelease {fi s s'} {w} (h : CInv fi s) (hs : step s (.wRelease w) = some s') : CInv fi s' := by
  inv_tac

theorem CInv.pres_sAnnounce {fi s s'} {i d} (h : CInv fi s) (hs : step s (.sAnnounce i d) = some s') : CInv fi s' := by
  inv_tac

theorem CInv.pres_sDelayDone {fi s s'} {i} (h : CInv fi s) (hs : step s (.sDelayDone i) = some s') : CInv fi s' := by
  inv_tac

theorem CInv.pres_sRetryStart {fi s s'} {i} (h : CInv fi s) (hs : step s (.sRetryStart i) = some s') : CInv fi s' := by
  inv_tac

theorem CInv.pres_sDialEnd {fi s s'} {i ok fatal} (h : CInv fi s) (hs : step s (.sDialEnd i ok fatal) = some s') : CInv fi s' := by
  inv_tac

theorem CInv.pres_sRegister {fi s s'} {i} (h : CInv fi s) (hs : step s (.sRegister i) = some s') : CInv fi s' := by
  inv_tac

theorem CInv.pres_sOnConnect {fi s s'} {i ok} (h : CInv fi s) (hs : step s (.sOnConnect i ok) = some s') : CInv fi s' := by
  inv_tac

theorem CInv.pres_sPublish {fi s s'} {i} (h : CInv fi s) (hs : step s (.sPublish i) = some s') : CInv fi s' := by
  inv_tac

theorem CInv.pres_sAttemptEnd {fi s s'} {i r} (h : CInv fi s) (hs : step s (.sAttemptEnd i r) = some s') : CInv fi s' := by
  inv_tac

theorem CInv.pres_sBackoff {fi s s'} {i stop} (h : CInv fi s) (hs : step s (.sBackoff i stop) = some s') : CInv fi s' := by
  inv_tac

theorem CInv.pres_sSleepDone {fi s s'} {i} (h : CInv fi s) (hs : step s (.sSleepDone i) = some s') : CInv fi s' := by
  inv_tac

theorem CInv.pres_sSleepCtx {fi s s'} {i} (h : CInv fi s) (hs : step s (.sSleepCtx i) = some s') : CInv fi s' := by
  inv_tac

theorem CInv.pres_sRelease {fi s s'} {i} (h : CInv fi s) (hs : step s (.sRelease i) = some s') : CInv fi s' := by
  inv_tac

theorem CInv.pres_shutdown {fi s s'} (h : CInv fi s) (hs : step s .shutdown = some s') : CInv fi s' := by
  inv_tac

theorem CInv.pres_disconnect {fi s s'} (h : CInv fi s) (hs : step s .disconnect = some s') : CInv fi s' := by
  inv_tac

theorem CInv.pres {fi s a s'} (h : CInv fi s) (hs : step s a = some s') : CInv fi s' := by
  cases a
  · exact h.pres_wNew hs
  · exact h.pres_wCtx hs
  · exact h.pres_wStart hs
  · exact h.pres_wCtxRet hs
  · exact h.pres_wRelease hs
  · exact h.pres_sAnnounce hs
  · exact h.pres_sDelayDone hs
  · exact h.pres_sRetryStart hs
  · exact h.pres_sDialEnd hs
  · exact h.pres_sRegister hs
  · exact h.pres_sOnConnect hs
  · exact h.pres_sPublish hs
  · exact h.pres_sAttemptEnd hs
  · exact h.pres_sBackoff hs
  · exact h.pres_sSleepDone hs
  · exact h.pres_sSleepCtx hs
  · exact h.pres_sRelease hs
  · exact h.pres_shutdown hs
  · exact h.pres_disconnect hs

theorem CInv.reach {fi s} (hr : Reachable fi s) : CInv fi s := by
  induction hr with
  | init => exact CInv.init fi
  | step s s' a _ hs ih => exact ih.pres hs

end FmpRpc.Cn
