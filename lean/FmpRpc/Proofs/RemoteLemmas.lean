import FmpRpc.Model.Remote
/-
  Helper lemmas for C18 (remote rotation, split/join, FMP URIs).
-/
namespace FmpRpc.R

/-! ### prune / getAddress / getN -/

theorem groupsNonEmpty_cons {g : List Str} {gs : List (List Str)} :
    GroupsNonEmpty (g :: gs) ↔ g ≠ [] ∧ GroupsNonEmpty gs := by
  simp [GroupsNonEmpty]

theorem groupsNonEmpty_nil : GroupsNonEmpty [] := by
  intro g hg; cases hg

theorem prune_of_nonEmpty (gs : List (List Str)) (h : GroupsNonEmpty gs) : prune gs = gs := by
  cases gs with
  | nil => rfl
  | cons g gs =>
    have hg := (groupsNonEmpty_cons.mp h).1
    cases g with
    | nil => exact absurd rfl hg
    | cons a g => rfl

/-- the iteration list after taking the head address of `(a :: g) :: gs` -/
def rest (g : List Str) (gs : List (List Str)) : List (List Str) :=
  if g.isEmpty then gs else g :: gs

theorem prune_cons_rest (g : List Str) (gs : List (List Str)) (h : GroupsNonEmpty gs) :
    prune (g :: gs) = rest g gs := by
  cases g with
  | nil => simp [prune, rest, prune_of_nonEmpty gs h]
  | cons a g => rfl

theorem rest_nonEmpty (g : List Str) (gs : List (List Str)) (h : GroupsNonEmpty gs) :
    GroupsNonEmpty (rest g gs) := by
  cases g with
  | nil => exact h
  | cons a g => exact groupsNonEmpty_cons.mpr ⟨by simp, h⟩

theorem rest_flatten (g : List Str) (gs : List (List Str)) :
    (rest g gs).flatten = g ++ gs.flatten := by
  cases g with
  | nil => rfl
  | cons a g => rfl

/-- shape of a non-empty list of non-empty groups -/
theorem nonEmpty_shape (it : List (List Str)) (h : GroupsNonEmpty it) (hne : it ≠ []) :
    ∃ a g gs, it = (a :: g) :: gs ∧ GroupsNonEmpty gs := by
  cases it with
  | nil => exact absurd rfl hne
  | cons g gs =>
    have := groupsNonEmpty_cons.mp h
    cases g with
    | nil => exact absurd rfl this.1
    | cons a g => exact ⟨a, g, gs, rfl, this.2⟩

/-- the effective iteration list of a call -/
def effIt (r : Remote) (sh : List (List Str)) : List (List Str) :=
  if r.toIterate.isEmpty then sh else r.toIterate

theorem getAddress_of_eff (r : Remote) (sh : List (List Str)) (a : Str) (g : List Str)
    (gs : List (List Str)) (h : effIt r sh = (a :: g) :: gs) :
    getAddress r sh = some (a, { r with toIterate := prune (g :: gs) }) := by
  unfold getAddress
  unfold effIt at h
  simp only [h]

theorem peek_of_eff (r : Remote) (sh : List (List Str)) (a : Str) (g : List Str)
    (gs : List (List Str)) (h : effIt r sh = (a :: g) :: gs) :
    peek r sh = some (a, { r with toIterate := (a :: g) :: gs }) := by
  unfold peek
  unfold effIt at h
  simp only [h]

theorem effIt_nonEmpty (r : Remote) (sh : List (List Str))
    (hi : GroupsNonEmpty r.toIterate) (hs : GroupsNonEmpty sh) (hne : sh ≠ []) :
    GroupsNonEmpty (effIt r sh) ∧ effIt r sh ≠ [] := by
  unfold effIt
  split
  · exact ⟨hs, hne⟩
  · rename_i h
    exact ⟨hi, by simpa using h⟩

theorem effIt_of_toIterate (r : Remote) (sh : List (List Str)) (a : Str) (g : List Str)
    (gs : List (List Str)) (h : r.toIterate = (a :: g) :: gs) : effIt r sh = (a :: g) :: gs := by
  simp [effIt, h]

theorem peek_some_inv (r : Remote) (sh : List (List Str)) (a : Str) (r' : Remote)
    (hp : peek r sh = some (a, r')) :
    ∃ g gs, effIt r sh = (a :: g) :: gs ∧ r' = { r with toIterate := (a :: g) :: gs } := by
  have : ∀ it, it = effIt r sh → ∃ g gs, effIt r sh = (a :: g) :: gs ∧
      r' = { r with toIterate := (a :: g) :: gs } := by
    intro it hit
    match it, hit with
    | [], hit =>
      rw [peek] at hp
      simp only [← effIt.eq_1, ← hit] at hp
      cases hp
    | [] :: _, hit =>
      rw [peek] at hp
      simp only [← effIt.eq_1, ← hit] at hp
      cases hp
    | (b :: g) :: gs, hit =>
      rw [peek_of_eff r sh b g gs hit.symm] at hp
      cases hp
      exact ⟨g, gs, hit.symm, rfl⟩
  exact this _ rfl

theorem getN_cycle (n : Nat) (it : List (List Str)) (r : Remote) (shs : List (List (List Str)))
    (hn : it.flatten.length = n) (hs : GroupsNonEmpty it) (hr : r.toIterate = it) :
    ∃ r', getN n r shs = some (it.flatten, r') ∧ r'.toIterate = [] ∧
      r'.addresses = r.addresses := by
  induction n generalizing it r with
  | zero =>
    have : it = [] := by
      cases it with
      | nil => rfl
      | cons g gs =>
        obtain ⟨a, g', gs', h, _⟩ := nonEmpty_shape _ hs (by simp)
        rw [h] at hn; simp at hn
    subst this
    exact ⟨r, rfl, hr, rfl⟩
  | succ k ih =>
    have hne : it ≠ [] := by intro h; subst h; simp at hn
    obtain ⟨a, g, gs, hit, hgs⟩ := nonEmpty_shape _ hs hne
    subst hit
    have hga := getAddress_of_eff r (shs.headD []) a g gs (effIt_of_toIterate _ _ _ _ _ hr)
    rw [prune_cons_rest g gs hgs] at hga
    have hlen : (rest g gs).flatten.length = k := by
      rw [rest_flatten]; simp at hn ⊢; omega
    obtain ⟨r', h1, h2, h3⟩ := ih (rest g gs) { r with toIterate := rest g gs } hlen
      (rest_nonEmpty g gs hgs) rfl
    refine ⟨r', ?_, h2, h3⟩
    have hnot : r.toIterate.isEmpty = false := by rw [hr]; rfl
    rw [getN]
    simp only [hga, hnot, Bool.false_eq_true, if_false, h1, rest_flatten]
    simp

/-! ### shuffles -/

theorem isShuffle_perm (addresses sh : List (List Str)) (h : IsShuffle addresses sh) :
    sh.flatten.Perm addresses.flatten ∧ sh.map List.length = addresses.map List.length := by
  induction addresses generalizing sh with
  | nil =>
    cases sh with
    | nil => exact ⟨List.Perm.refl _, rfl⟩
    | cons s ss => exact absurd h (by simp [IsShuffle])
  | cons g gs ih =>
    cases sh with
    | nil => exact absurd h (by simp [IsShuffle])
    | cons s ss =>
      simp only [IsShuffle] at h
      obtain ⟨hp, hl⟩ := ih ss h.2
      refine ⟨?_, ?_⟩
      · simp only [List.flatten_cons]
        exact List.Perm.append h.1 hp
      · simp only [List.map_cons, hl, h.1.length_eq]

/-! ### clean -/

theorem clean_mem (n : Norm) (groups : List (List Str)) (g : List Str) (hg : g ∈ clean n groups) :
    g ≠ [] ∧ ∀ a ∈ g, a ≠ [] ∧ n.norm a = a := by
  unfold clean at hg
  rw [List.mem_filter, List.mem_map] at hg
  obtain ⟨⟨g0, _, hg0⟩, hne⟩ := hg
  refine ⟨by intro h; subst h; simp at hne, ?_⟩
  intro a ha
  rw [← hg0, List.mem_filter, List.mem_map] at ha
  obtain ⟨⟨a0, _, ha0⟩, hane⟩ := ha
  refine ⟨by intro h; subst h; simp at hane, ?_⟩
  rw [← ha0, n.idem]

theorem filter_eq_self_of_all {α} (p : α → Bool) (l : List α) (h : ∀ a ∈ l, p a = true) :
    l.filter p = l := List.filter_eq_self.mpr h

theorem map_eq_self_of_all {α} (f : α → α) (l : List α) (h : ∀ a ∈ l, f a = a) :
    l.map f = l := by
  induction l with
  | nil => rfl
  | cons a l ih =>
    simp only [List.map_cons, h a List.mem_cons_self,
      ih (fun b hb => h b (List.mem_cons_of_mem _ hb))]

theorem clean_id (n : Norm) (groups : List (List Str)) (hg : GroupsNonEmpty groups)
    (hnorm : ∀ g ∈ groups, ∀ a ∈ g, a ≠ [] ∧ n.norm a = a) : clean n groups = groups := by
  unfold clean
  have h1 : (groups.map fun g => (g.map n.norm).filter (fun a => !a.isEmpty)) = groups := by
    apply map_eq_self_of_all
    intro g hgm
    have : g.map n.norm = g := map_eq_self_of_all _ _ (fun a ha => (hnorm g hgm a ha).2)
    rw [this]
    apply filter_eq_self_of_all
    intro a ha
    have := (hnorm g hgm a ha).1
    cases a with
    | nil => exact absurd rfl this
    | cons c cs => rfl
  rw [h1]
  apply filter_eq_self_of_all
  intro g hgm
  have := hg g hgm
  cases g with
  | nil => exact absurd rfl this
  | cons c cs => rfl

/-! ### splitOn / join -/

theorem splitOn_of_not_mem (sep : Char) (p : Str) (h : sep ∉ p) : splitOn sep p = [p] := by
  induction p with
  | nil => rfl
  | cons c cs ih =>
    have hc : c ≠ sep := by intro e; subst e; simp at h
    have hcs : sep ∉ cs := by intro e; exact h (List.mem_cons_of_mem _ e)
    simp [splitOn, hc, ih hcs]

theorem splitOn_append_sep (sep : Char) (p rest : Str) (h : sep ∉ p) :
    splitOn sep (p ++ sep :: rest) = p :: splitOn sep rest := by
  induction p with
  | nil => simp [splitOn]
  | cons c cs ih =>
    have hc : c ≠ sep := by intro e; subst e; simp at h
    have hcs : sep ∉ cs := by intro e; exact h (List.mem_cons_of_mem _ e)
    simp [splitOn, hc, ih hcs]

theorem join_cons_cons (sep : Char) (p q : Str) (ps : List Str) :
    join sep (p :: q :: ps) = p ++ sep :: join sep (q :: ps) := rfl

theorem splitOn_join' (sep : Char) (parts : List Str) (hne : parts ≠ [])
    (hs : ∀ p ∈ parts, sep ∉ p) : splitOn sep (join sep parts) = parts := by
  induction parts with
  | nil => exact absurd rfl hne
  | cons p ps ih =>
    cases ps with
    | nil => exact splitOn_of_not_mem sep p (hs p List.mem_cons_self)
    | cons q qs =>
      rw [join_cons_cons, splitOn_append_sep sep p _ (hs p List.mem_cons_self),
        ih (by simp) (fun x hx => hs x (List.mem_cons_of_mem _ hx))]

theorem mem_join (sep c : Char) (parts : List Str) (h : c ∈ join sep parts) :
    c = sep ∨ ∃ p ∈ parts, c ∈ p := by
  induction parts with
  | nil => cases h
  | cons p ps ih =>
    cases ps with
    | nil => exact Or.inr ⟨p, List.mem_cons_self, h⟩
    | cons q qs =>
      rw [join_cons_cons, List.mem_append, List.mem_cons] at h
      rcases h with h | h | h
      · exact Or.inr ⟨p, List.mem_cons_self, h⟩
      · exact Or.inl h
      · rcases ih h with h | ⟨x, hx, hc⟩
        · exact Or.inl h
        · exact Or.inr ⟨x, List.mem_cons_of_mem _ hx, hc⟩

theorem parse_roundtrip (n : Norm) (r : Remote) (sh : List (List Str))
    (hg : GroupsNonEmpty r.addresses) (hne : r.addresses ≠ [])
    (hnorm : ∀ g ∈ r.addresses, ∀ a ∈ g, a ≠ [] ∧ n.norm a = a ∧ ',' ∉ a ∧ ';' ∉ a) :
    parse n (toStr r) sh = some ⟨r.addresses, sh⟩ := by
  unfold parse toStr
  rw [splitOn_join' ';' _ (by simpa using hne)]
  · rw [List.map_map]
    have : r.addresses.map (splitOn ',' ∘ join ',') = r.addresses := by
      apply map_eq_self_of_all
      intro g hgm
      exact splitOn_join' ',' g (hg g hgm) (fun a ha => (hnorm g hgm a ha).2.2.1)
    rw [this]
    unfold new
    rw [clean_id n _ hg (fun g hgm a ha => ⟨(hnorm g hgm a ha).1, (hnorm g hgm a ha).2.1⟩)]
    cases hr : r.addresses with
    | nil => exact absurd hr hne
    | cons g gs => rfl
  · intro p hp hmem
    rw [List.mem_map] at hp
    obtain ⟨g, hgm, rfl⟩ := hp
    rcases mem_join _ _ _ hmem with h | ⟨a, ha, hc⟩
    · exact absurd h (by decide)
    · exact (hnorm g hgm a ha).2.2.2 hc

/-! ### FMP URIs -/

theorem parseFMPURI_some_inv (up : Str → Option (Str × Str)) (s : Str) (f : FMPURI)
    (h : parseFMPURI up s = some f) :
    up s = some (f.scheme, f.hostPort) ∧ (f.scheme = schemeStandard ∨ f.scheme = schemeTLS) ∧
    f.host ≠ [] ∧ ∃ port, splitHostPort f.hostPort = some (f.host, port) := by
  unfold parseFMPURI at h
  split at h
  · cases h
  · rename_i scheme hostPort hup
    split at h
    · rename_i hsch
      split at h
      · cases h
      · rename_i host port hsp
        split at h
        · cases h
        · rename_i hhost
          cases h
          refine ⟨hup, hsch, ?_, port, hsp⟩
          intro he
          apply hhost
          simp only at he
          rw [he]; rfl
    · cases h

theorem parseFMPURI_of (up : Str → Option (Str × Str)) (s scheme hp host port : Str)
    (hup : up s = some (scheme, hp)) (hsch : scheme = schemeStandard ∨ scheme = schemeTLS)
    (hsp : splitHostPort hp = some (host, port)) (hh : host ≠ []) :
    parseFMPURI up s = some ⟨scheme, hp, host⟩ := by
  unfold parseFMPURI
  simp only [hup, hsch, if_true, hsp]
  cases host with
  | nil => exact absurd rfl hh
  | cons c cs => rfl

end FmpRpc.R
