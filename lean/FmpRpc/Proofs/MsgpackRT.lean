import FmpRpc.Model.Legal
import FmpRpc.Model.Frame
/-
  Lemmas: the reader accepts every legal encoding (`LegalEnc`), the writer
  produces legal encodings, typed readers accept every legal width.
-/
namespace FmpRpc
set_option linter.unusedSimpArgs false
open Prog
theorem classify_ofNat (n : Nat) (h : n < 256) : classify (UInt8.ofNat n) = classifyNat n := by
  simp [classify, UInt8.toNat_ofNat', Nat.mod_eq_of_lt h]

theorem classifyNat_posfix (n : Nat) (h : n < 128) : classifyNat n = .posfix n := by
  simp [classifyNat, h]
theorem classifyNat_negfix (n : Nat) (h : 224 ≤ n) : classifyNat n = .negfix ((n : Int) - 256) := by
  unfold classifyNat
  repeat rw [if_neg (by omega)]
theorem sintOf_enc (w : Nat) (i : Int) (hw : w = 1 ∨ w = 2 ∨ w = 4 ∨ w = 8)
    (h : -((256 ^ w / 2 : Nat) : Int) ≤ i ∧ i < ((256 ^ w / 2 : Nat) : Int)) :
    sintOf w (beBytes w (i % ((256 ^ w : Nat) : Int)).toNat) = i := by
  unfold sintOf
  rcases hw with rfl | rfl | rfl | rfl <;>
  · rw [beNat_beBytes _ _ (by simp at h ⊢; omega)]
    simp at h ⊢
    split <;> omega
@[simp] theorem runStream_ret (a : α) (s : Bytes) : runStream (.ret a) s = ⟨.ok a, s⟩ := by
  simp [runStream]
@[simp] theorem runStream_readn1_cons (k : UInt8 → Prog α) (b : UInt8) (s : Bytes) :
    runStream (.readn1 k) (b :: s) = runStream (k b) s := by
  simp [runStream]

theorem runStream_readx (n : Nat) (k : Bytes → Prog α) (bs r : Bytes) (h : bs.length = n) :
    runStream (.readx n k) (bs ++ r) = runStream (k bs) r := by
  subst h
  rw [runStream]
  split
  · next h0 =>
    have : bs = [] := List.eq_nil_of_length_eq_zero h0
    subst this; simp
  · simp

theorem uintTag_cases {w : Nat} {t : UInt8} (h : uintTag w = some t) :
    (w = 1 ∧ t = 0xcc) ∨ (w = 2 ∧ t = 0xcd) ∨ (w = 4 ∧ t = 0xce) ∨ (w = 8 ∧ t = 0xcf) := by
  unfold uintTag at h
  split at h <;> simp_all
theorem sintTag_cases {w : Nat} {t : UInt8} (h : sintTag w = some t) :
    (w = 1 ∧ t = 0xd0) ∨ (w = 2 ∧ t = 0xd1) ∨ (w = 4 ∧ t = 0xd2) ∨ (w = 8 ∧ t = 0xd3) := by
  unfold sintTag at h
  split at h <;> simp_all

theorem classify_uint {w : Nat} {t : UInt8} (h : uintTag w = some t) : classify t = .uint w := by
  rcases uintTag_cases h with ⟨rfl, rfl⟩ | ⟨rfl, rfl⟩ | ⟨rfl, rfl⟩ | ⟨rfl, rfl⟩ <;> decide
theorem classify_sint {w : Nat} {t : UInt8} (h : sintTag w = some t) : classify t = .sint w := by
  rcases sintTag_cases h with ⟨rfl, rfl⟩ | ⟨rfl, rfl⟩ | ⟨rfl, rfl⟩ | ⟨rfl, rfl⟩ <;> decide

theorem decIntBits_legal (bits : Nat) (i : Int) (bs : Bytes) (h : IntEnc i bs)
    (hlo : -(2 ^ (bits - 1) : Int) ≤ i) (hhi : i < (2 ^ (bits - 1) : Int))
    (h63 : i < 9223372036854775808) (r : Bytes) :
    runStream (decIntBits bits) (bs ++ r) = ⟨.ok i, r⟩ := by
  cases h with
  | posfix n h =>
    simp only [decIntBits, List.cons_append, List.nil_append, runStream_readn1_cons]
    rw [classify_ofNat n (by omega), classifyNat_posfix n h]
    simp [hlo, hhi]
  | negfix i h =>
    simp only [decIntBits, List.cons_append, List.nil_append, runStream_readn1_cons]
    rw [classify_ofNat _ (by omega), classifyNat_negfix _ (by omega)]
    have : ((i + 256).toNat : Int) - 256 = i := by omega
    rw [this]
    simp [hlo, hhi]
  | uint w t ht n h =>
    simp only [decIntBits, List.cons_append, runStream_readn1_cons]
    rw [classify_uint ht]
    simp only
    rw [runStream_readx _ _ _ _ (beBytes_length _ _), beNat_beBytes _ _ h]
    have : n < 2 ^ 63 := by omega
    simp [this, hlo, hhi]
  | sint w t ht i h =>
    simp only [decIntBits, List.cons_append, runStream_readn1_cons]
    rw [classify_sint ht]
    simp only
    rw [runStream_readx _ _ _ _ (beBytes_length _ _), sintOf_enc _ _ _ h]
    · simp [hlo, hhi]
    · rcases sintTag_cases ht with ⟨rfl, rfl⟩ | ⟨rfl, rfl⟩ | ⟨rfl, rfl⟩ | ⟨rfl, rfl⟩ <;> simp

theorem decInt_legal (i : Int) (bs : Bytes) (h : IntEnc i bs)
    (hr : -9223372036854775808 ≤ i ∧ i < 9223372036854775808) (r : Bytes) :
    runStream decInt (bs ++ r) = ⟨.ok i, r⟩ := by
  exact decIntBits_legal 64 i bs h (by simp; omega) (by simp; omega) hr.2 r

theorem decInt32_legal (i : Int) (bs : Bytes) (h : IntEnc i bs)
    (hr : -2147483648 ≤ i ∧ i < 2147483648) (r : Bytes) :
    runStream (decIntBits 32) (bs ++ r) = ⟨.ok i, r⟩ := by
  exact decIntBits_legal 32 i bs h (by simp; omega) (by simp; omega) (by omega) r

theorem classifyNat_fixmap (l : Nat) (h : l < 16) : classifyNat (0x80 + l) = .fixmap l := by
  have h1 : ¬ (128 + l < 128) := by omega
  have h2 : 128 + l < 144 := by omega
  simp [classifyNat, h2]

theorem classifyNat_fixarr (l : Nat) (h : l < 16) : classifyNat (0x90 + l) = .fixarr l := by
  have h1 : ¬ (144 + l < 128) := by omega
  have h2 : ¬ (144 + l < 144) := by omega
  have h3 : 144 + l < 160 := by omega
  simp [classifyNat, h1, h3]

theorem classifyNat_fixstr (l : Nat) (h : l < 32) : classifyNat (0xa0 + l) = .fixstr l := by
  have h1 : ¬ (160 + l < 128) := by omega
  have h2 : ¬ (160 + l < 144) := by omega
  have h3 : ¬ (160 + l < 160) := by omega
  have h4 : 160 + l < 192 := by omega
  simp [classifyNat, h1, h2, h4]


theorem runStream_bind (p : Prog α) (f : α → Prog β) (s : Bytes) (a : α) (rest : Bytes)
    (h : runStream p s = ⟨.ok a, rest⟩) : runStream (Prog.bind p f) s = runStream (f a) rest := by
  induction p generalizing s with
  | ret x => simp [runStream] at h; simp [h]
  | fail e => simp [runStream] at h
  | readn1 k ih =>
    cases s with
    | nil => simp [runStream] at h
    | cons b s => simp at h ⊢; exact ih b s h
  | readx n k ih =>
    simp only [bind_readx]
    rw [runStream] at h ⊢
    split
    · next h0 => rw [if_pos h0] at h; exact ih _ _ h
    · next h0 =>
      rw [if_neg h0] at h
      split
      · next h1 => rw [if_pos h1] at h; exact ih _ _ h
      · next h1 => rw [if_neg h1] at h; simp at h


theorem IntEnc.length_pos {i : Int} {bs : Bytes} (h : IntEnc i bs) : 1 ≤ bs.length := by
  cases h <;> simp
theorem StrHdr.length_pos {l : Nat} {bs : Bytes} (h : StrHdr l bs) : 1 ≤ bs.length := by
  cases h <;> simp
theorem BinHdr.length_pos {l : Nat} {bs : Bytes} (h : BinHdr l bs) : 1 ≤ bs.length := by
  cases h <;> simp
theorem ArrHdr.length_pos {l : Nat} {bs : Bytes} (h : ArrHdr l bs) : 1 ≤ bs.length := by
  cases h <;> simp
theorem MapHdr.length_pos {l : Nat} {bs : Bytes} (h : MapHdr l bs) : 1 ≤ bs.length := by
  cases h <;> simp

mutual
theorem legal_depth_le : ∀ (v : Value) (bs : Bytes), LegalEnc v bs → v.depth ≤ bs.length
  | _, _, .nil => by simp [Value.depth]
  | _, _, .fls => by simp [Value.depth]
  | _, _, .tru => by simp [Value.depth]
  | _, _, .int i bs h => by have := h.length_pos; simpa [Value.depth]
  | _, _, .f32 b h => by simp [Value.depth]
  | _, _, .f64 b h => by simp [Value.depth]
  | _, _, .str s hd h => by have := h.length_pos; simp [Value.depth]; omega
  | _, _, .bin s hd h => by have := h.length_pos; simp [Value.depth]; omega
  | _, _, .arr vs hd body h hb => by
      have := h.length_pos; have := legalList_depth_le vs body hb
      simp [Value.depth]; omega
  | _, _, .map kvs hd body h hb => by
      have := h.length_pos; have := legalPairs_depth_le kvs body hb
      simp [Value.depth]; omega
theorem legalList_depth_le : ∀ (vs : List Value) (bs : Bytes), LegalEncList vs bs → depthList vs ≤ bs.length
  | _, _, .nil => by simp [depthList]
  | _, _, .cons v vs b bs h t => by
      have := legal_depth_le v b h; have := legalList_depth_le vs bs t
      simp [depthList]; omega
theorem legalPairs_depth_le : ∀ (kvs : List (Value × Value)) (bs : Bytes), LegalEncPairs kvs bs → depthPairs kvs ≤ bs.length
  | _, _, .nil => by simp [depthPairs]
  | _, _, .cons k v r bk bv bs hk _ hv t => by
      have := legal_depth_le k bk hk; have := legal_depth_le v bv hv
      have := legalPairs_depth_le r bs t
      simp [depthPairs]; omega
end

@[simp] theorem classify_c0 : classify 0xc0 = .nil := by decide
@[simp] theorem classify_c2 : classify 0xc2 = .fls := by decide
@[simp] theorem classify_c3 : classify 0xc3 = .tru := by decide
@[simp] theorem classify_c4 : classify 0xc4 = .binN 1 := by decide
@[simp] theorem classify_c5 : classify 0xc5 = .binN 2 := by decide
@[simp] theorem classify_c6 : classify 0xc6 = .binN 4 := by decide
@[simp] theorem classify_ca : classify 0xca = .f32 := by decide
@[simp] theorem classify_cb : classify 0xcb = .f64 := by decide
@[simp] theorem classify_cc : classify 0xcc = .uint 1 := by decide
@[simp] theorem classify_cd : classify 0xcd = .uint 2 := by decide
@[simp] theorem classify_ce : classify 0xce = .uint 4 := by decide
@[simp] theorem classify_cf : classify 0xcf = .uint 8 := by decide
@[simp] theorem classify_d9 : classify 0xd9 = .strN 1 := by decide
@[simp] theorem classify_da : classify 0xda = .strN 2 := by decide
@[simp] theorem classify_db : classify 0xdb = .strN 4 := by decide
@[simp] theorem classify_dc : classify 0xdc = .arrN 2 := by decide
@[simp] theorem classify_dd : classify 0xdd = .arrN 4 := by decide
@[simp] theorem classify_de : classify 0xde = .mapN 2 := by decide
@[simp] theorem classify_df : classify 0xdf = .mapN 4 := by decide

theorem classify_fixstr (l : Nat) (h : l < 32) : classify (UInt8.ofNat (0xa0 + l)) = .fixstr l := by
  rw [classify_ofNat _ (by omega), classifyNat_fixstr l h]
theorem classify_fixarr (l : Nat) (h : l < 16) : classify (UInt8.ofNat (0x90 + l)) = .fixarr l := by
  rw [classify_ofNat _ (by omega), classifyNat_fixarr l h]
theorem classify_fixmap (l : Nat) (h : l < 16) : classify (UInt8.ofNat (0x80 + l)) = .fixmap l := by
  rw [classify_ofNat _ (by omega), classifyNat_fixmap l h]

theorem Value.depth_pos (v : Value) : 1 ≤ v.depth := by
  cases v <;> simp [Value.depth]

theorem decValue_int (i : Int) (bs : Bytes) (h : IntEnc i bs) (f : Nat) (r : Bytes) :
    runStream (decValue (f + 1)) (bs ++ r) = ⟨.ok (.int i), r⟩ := by
  cases h with
  | posfix n h =>
    simp only [decValue, List.cons_append, List.nil_append, runStream_readn1_cons]
    rw [classify_ofNat n (by omega), classifyNat_posfix n h]
    simp
  | negfix i h =>
    simp only [decValue, List.cons_append, List.nil_append, runStream_readn1_cons]
    rw [classify_ofNat _ (by omega), classifyNat_negfix _ (by omega)]
    have : ((i + 256).toNat : Int) - 256 = i := by omega
    rw [this]
    simp
  | uint w t ht n h =>
    simp only [decValue, List.cons_append, runStream_readn1_cons]
    rw [classify_uint ht]
    simp only
    rw [runStream_readx _ _ _ _ (beBytes_length _ _), beNat_beBytes _ _ h]
    simp
  | sint w t ht i h =>
    simp only [decValue, List.cons_append, runStream_readn1_cons]
    rw [classify_sint ht]
    simp only
    rw [runStream_readx _ _ _ _ (beBytes_length _ _), sintOf_enc _ _ _ h]
    · simp
    · rcases sintTag_cases ht with ⟨rfl, rfl⟩ | ⟨rfl, rfl⟩ | ⟨rfl, rfl⟩ | ⟨rfl, rfl⟩ <;> simp

theorem decValue_str (s hd : Bytes) (l : Nat) (h : StrHdr l hd) (hl : s.length = l) (f : Nat) (r : Bytes) :
    runStream (decValue (f + 1)) (hd ++ s ++ r) = ⟨.ok (.str s), r⟩ := by
  cases h with
  | fix h =>
    simp only [decValue, List.cons_append, List.nil_append, runStream_readn1_cons, List.append_assoc]
    rw [classify_fixstr l h]
    simp only
    rw [runStream_readx _ _ _ _ hl]; simp
  | s8 h =>
    simp only [decValue, List.cons_append, List.nil_append, runStream_readn1_cons, List.append_assoc, classify_d9]
    rw [runStream_readx _ _ _ _ (beBytes_length _ _), beNat_beBytes _ _ (by simpa using h), runStream_readx _ _ _ _ hl]; simp
  | s16 h =>
    simp only [decValue, List.cons_append, List.nil_append, runStream_readn1_cons, List.append_assoc, classify_da]
    rw [runStream_readx _ _ _ _ (beBytes_length _ _), beNat_beBytes _ _ (by simpa using h), runStream_readx _ _ _ _ hl]; simp
  | s32 h =>
    simp only [decValue, List.cons_append, List.nil_append, runStream_readn1_cons, List.append_assoc, classify_db]
    rw [runStream_readx _ _ _ _ (beBytes_length _ _), beNat_beBytes _ _ (by simpa using h), runStream_readx _ _ _ _ hl]; simp

theorem decValue_bin (s hd : Bytes) (l : Nat) (h : BinHdr l hd) (hl : s.length = l) (f : Nat) (r : Bytes) :
    runStream (decValue (f + 1)) (hd ++ s ++ r) = ⟨.ok (.bin s), r⟩ := by
  cases h with
  | b8 h =>
    simp only [decValue, List.cons_append, List.nil_append, runStream_readn1_cons, List.append_assoc, classify_c4]
    rw [runStream_readx _ _ _ _ (beBytes_length _ _), beNat_beBytes _ _ (by simpa using h), runStream_readx _ _ _ _ hl]; simp
  | b16 h =>
    simp only [decValue, List.cons_append, List.nil_append, runStream_readn1_cons, List.append_assoc, classify_c5]
    rw [runStream_readx _ _ _ _ (beBytes_length _ _), beNat_beBytes _ _ (by simpa using h), runStream_readx _ _ _ _ hl]; simp
  | b32 h =>
    simp only [decValue, List.cons_append, List.nil_append, runStream_readn1_cons, List.append_assoc, classify_c6]
    rw [runStream_readx _ _ _ _ (beBytes_length _ _), beNat_beBytes _ _ (by simpa using h), runStream_readx _ _ _ _ hl]; simp

theorem decValue_arr_hdr (l : Nat) (hd : Bytes) (h : ArrHdr l hd) (f : Nat) (rest : Bytes) :
    runStream (decValue (f + 1)) (hd ++ rest) =
      runStream (Prog.bind (repeatN (decValue f) l) fun vs => ret (.arr vs)) rest := by
  cases h with
  | fix h =>
    simp only [decValue, List.cons_append, List.nil_append, runStream_readn1_cons]
    rw [classify_fixarr l h]
  | a16 h =>
    simp only [decValue, List.cons_append, List.nil_append, runStream_readn1_cons, classify_dc]
    rw [runStream_readx _ _ _ _ (beBytes_length _ _), beNat_beBytes _ _ (by simpa using h)]
  | a32 h =>
    simp only [decValue, List.cons_append, List.nil_append, runStream_readn1_cons, classify_dd]
    rw [runStream_readx _ _ _ _ (beBytes_length _ _), beNat_beBytes _ _ (by simpa using h)]

theorem decValue_map_hdr (l : Nat) (hd : Bytes) (h : MapHdr l hd) (f : Nat) (rest : Bytes) :
    runStream (decValue (f + 1)) (hd ++ rest) =
      runStream (Prog.bind (repeatN (pairOf (decValue f)) l) fun kvs => ret (.map kvs)) rest := by
  cases h with
  | fix h =>
    simp only [decValue, List.cons_append, List.nil_append, runStream_readn1_cons]
    rw [classify_fixmap l h]
  | m16 h =>
    simp only [decValue, List.cons_append, List.nil_append, runStream_readn1_cons, classify_de]
    rw [runStream_readx _ _ _ _ (beBytes_length _ _), beNat_beBytes _ _ (by simpa using h)]
  | m32 h =>
    simp only [decValue, List.cons_append, List.nil_append, runStream_readn1_cons, classify_df]
    rw [runStream_readx _ _ _ _ (beBytes_length _ _), beNat_beBytes _ _ (by simpa using h)]

theorem pairOf_ok (p : Prog Value) (s s1 s2 : Bytes) (k v : Value)
    (hk : runStream p s = ⟨.ok k, s1⟩) (hh : k.hashable = true)
    (hv : runStream p s1 = ⟨.ok v, s2⟩) : runStream (pairOf p) s = ⟨.ok (k, v), s2⟩ := by
  unfold pairOf
  rw [runStream_bind _ _ _ _ _ hk]
  simp only [hh, if_true]
  rw [runStream_bind _ _ _ _ _ hv]; simp

theorem exists_succ_of_pos {n : Nat} (h : 1 ≤ n) : ∃ f, n = f + 1 := ⟨n - 1, by omega⟩

mutual
theorem decValue_legal : ∀ (v : Value) (bs : Bytes), LegalEnc v bs → ∀ (fuel : Nat),
    v.depth ≤ fuel → ∀ (r : Bytes), runStream (decValue fuel) (bs ++ r) = ⟨.ok v, r⟩
  | _, _, .nil, fuel, hf, r => by
      obtain ⟨f, rfl⟩ := exists_succ_of_pos (Nat.le_trans (Value.depth_pos _) hf)
      simp [decValue]
  | _, _, .fls, fuel, hf, r => by
      obtain ⟨f, rfl⟩ := exists_succ_of_pos (Nat.le_trans (Value.depth_pos _) hf)
      simp [decValue]
  | _, _, .tru, fuel, hf, r => by
      obtain ⟨f, rfl⟩ := exists_succ_of_pos (Nat.le_trans (Value.depth_pos _) hf)
      simp [decValue]
  | _, _, .int i bs h, fuel, hf, r => by
      obtain ⟨f, rfl⟩ := exists_succ_of_pos (Nat.le_trans (Value.depth_pos _) hf)
      exact decValue_int i bs h f r
  | _, _, .f32 b h, fuel, hf, r => by
      obtain ⟨f, rfl⟩ := exists_succ_of_pos (Nat.le_trans (Value.depth_pos _) hf)
      simp only [decValue, List.cons_append, runStream_readn1_cons, classify_ca]
      rw [runStream_readx _ _ _ _ (beBytes_length _ _), beNat_beBytes _ _ (by simpa using h)]; simp
  | _, _, .f64 b h, fuel, hf, r => by
      obtain ⟨f, rfl⟩ := exists_succ_of_pos (Nat.le_trans (Value.depth_pos _) hf)
      simp only [decValue, List.cons_append, runStream_readn1_cons, classify_cb]
      rw [runStream_readx _ _ _ _ (beBytes_length _ _), beNat_beBytes _ _ (by simpa using h)]; simp
  | _, _, .str s hd h, fuel, hf, r => by
      obtain ⟨f, rfl⟩ := exists_succ_of_pos (Nat.le_trans (Value.depth_pos _) hf)
      exact decValue_str s hd _ h rfl f r
  | _, _, .bin s hd h, fuel, hf, r => by
      obtain ⟨f, rfl⟩ := exists_succ_of_pos (Nat.le_trans (Value.depth_pos _) hf)
      exact decValue_bin s hd _ h rfl f r
  | _, _, .arr vs hd body h hb, fuel, hf, r => by
      obtain ⟨f, rfl⟩ := exists_succ_of_pos (Nat.le_trans (Value.depth_pos _) hf)
      have hf' : depthList vs ≤ f := by simp [Value.depth] at hf; omega
      rw [List.append_assoc, decValue_arr_hdr _ _ h,
        runStream_bind _ _ _ _ _ (decList_legal vs body hb f hf' r)]
      simp
  | _, _, .map kvs hd body h hb, fuel, hf, r => by
      obtain ⟨f, rfl⟩ := exists_succ_of_pos (Nat.le_trans (Value.depth_pos _) hf)
      have hf' : depthPairs kvs ≤ f := by simp [Value.depth] at hf; omega
      rw [List.append_assoc, decValue_map_hdr _ _ h,
        runStream_bind _ _ _ _ _ (decPairs_legal kvs body hb f hf' r)]
      simp
theorem decList_legal : ∀ (vs : List Value) (bs : Bytes), LegalEncList vs bs → ∀ (fuel : Nat),
    depthList vs ≤ fuel → ∀ (r : Bytes),
    runStream (repeatN (decValue fuel) vs.length) (bs ++ r) = ⟨.ok vs, r⟩
  | _, _, .nil, fuel, hf, r => by simp [repeatN]
  | _, _, .cons v vs b bs h t, fuel, hf, r => by
      have h1 : v.depth ≤ fuel := by simp [depthList] at hf; omega
      have h2 : depthList vs ≤ fuel := by simp [depthList] at hf; omega
      simp only [List.length_cons, repeatN, List.append_assoc]
      rw [runStream_bind _ _ _ _ _ (decValue_legal v b h fuel h1 (bs ++ r)),
        runStream_bind _ _ _ _ _ (decList_legal vs bs t fuel h2 r)]
      simp
theorem decPairs_legal : ∀ (kvs : List (Value × Value)) (bs : Bytes), LegalEncPairs kvs bs →
    ∀ (fuel : Nat), depthPairs kvs ≤ fuel → ∀ (r : Bytes),
    runStream (repeatN (pairOf (decValue fuel)) kvs.length) (bs ++ r) = ⟨.ok kvs, r⟩
  | _, _, .nil, fuel, hf, r => by simp [repeatN]
  | _, _, .cons k v rr bk bv bs hk hkey hv t, fuel, hf, r => by
      have h1 : k.depth ≤ fuel := by simp [depthPairs] at hf; omega
      have h2 : v.depth ≤ fuel := by simp [depthPairs] at hf; omega
      have h3 : depthPairs rr ≤ fuel := by simp [depthPairs] at hf; omega
      simp only [List.length_cons, repeatN, List.append_assoc]
      rw [runStream_bind _ _ _ _ _ (pairOf_ok _ _ _ _ _ _
          (decValue_legal k bk hk fuel h1 (bv ++ (bs ++ r))) hkey
          (decValue_legal v bv hv fuel h2 (bs ++ r))),
        runStream_bind _ _ _ _ _ (decPairs_legal rr bs t fuel h3 r)]
      simp
end


theorem encUint_legal (n : Nat) (h : n < 18446744073709551616) : IntEnc (n : Int) (encUint n) := by
  unfold encUint
  split
  · exact .posfix n ‹_›
  split
  · exact .uint 1 0xcc rfl n (by simpa)
  split
  · exact .uint 2 0xcd rfl n (by simpa)
  split
  · exact .uint 4 0xce rfl n (by simpa)
  · exact .uint 8 0xcf rfl n (by simpa)

theorem encInt_legal (i : Int) (h : -9223372036854775808 ≤ i ∧ i < 18446744073709551616) :
    IntEnc i (encInt i) := by
  unfold encInt
  split
  · next h0 =>
    obtain ⟨n, rfl⟩ := Int.eq_ofNat_of_zero_le h0
    simp only [Int.toNat_natCast]
    exact encUint_legal n (by omega)
  split
  · exact .negfix i (by omega)
  split
  · have e : (i + 256) = i % ((256 ^ 1 : Nat) : Int) := by simp; omega
    rw [e]; exact .sint 1 0xd0 rfl i (by simp; omega)
  split
  · have e : (i + 65536) = i % ((256 ^ 2 : Nat) : Int) := by simp; omega
    rw [e]; exact .sint 2 0xd1 rfl i (by simp; omega)
  split
  · have e : (i + 4294967296) = i % ((256 ^ 4 : Nat) : Int) := by simp; omega
    rw [e]; exact .sint 4 0xd2 rfl i (by simp; omega)
  · have e : (i + 18446744073709551616) = i % ((256 ^ 8 : Nat) : Int) := by simp; omega
    rw [e]; exact .sint 8 0xd3 rfl i (by simp; omega)

theorem strHdr_legal (l : Nat) (h : l < 4294967296) : StrHdr l (strHdr l) := by
  unfold strHdr
  split
  · exact .fix l ‹_›
  split
  · exact .s8 l ‹_›
  split
  · exact .s16 l ‹_›
  · exact .s32 l h
theorem binHdr_legal (l : Nat) (h : l < 4294967296) : BinHdr l (binHdr l) := by
  unfold binHdr
  split
  · exact .b8 l ‹_›
  split
  · exact .b16 l ‹_›
  · exact .b32 l h
theorem arrHdr_legal (l : Nat) (h : l < 4294967296) : ArrHdr l (arrHdr l) := by
  unfold arrHdr
  split
  · exact .fix l ‹_›
  split
  · exact .a16 l ‹_›
  · exact .a32 l h
theorem mapHdr_legal (l : Nat) (h : l < 4294967296) : MapHdr l (mapHdr l) := by
  unfold mapHdr
  split
  · exact .fix l ‹_›
  split
  · exact .m16 l ‹_›
  · exact .m32 l h

mutual
theorem enc_legal : ∀ (v : Value), v.wf = true → v.rt = true → LegalEnc v (enc v)
  | .nil, _, _ => by simp only [enc]; exact .nil
  | .bool false, _, _ => by simp only [enc]; exact .fls
  | .bool true, _, _ => by simp only [enc]; exact .tru
  | .int i, hw, _ => by
      simp only [enc]; exact .int i _ (encInt_legal i (by simpa [Value.wf] using hw))
  | .f32 b, hw, _ => by simp only [enc]; exact .f32 b (by simpa [Value.wf] using hw)
  | .f64 b, hw, _ => by simp only [enc]; exact .f64 b (by simpa [Value.wf] using hw)
  | .str s, hw, _ => by
      simp only [enc]; exact .str s _ (strHdr_legal _ (by simpa [Value.wf] using hw))
  | .bin s, hw, _ => by
      simp only [enc]; exact .bin s _ (binHdr_legal _ (by simpa [Value.wf] using hw))
  | .arr vs, hw, hr => by
      simp only [Value.wf, Bool.and_eq_true, decide_eq_true_eq] at hw
      simp only [Value.rt] at hr
      simp only [enc]
      exact .arr vs _ _ (arrHdr_legal _ hw.1) (encList_legal vs hw.2 hr)
  | .map kvs, hw, hr => by
      simp only [Value.wf, Bool.and_eq_true, decide_eq_true_eq] at hw
      simp only [Value.rt] at hr
      simp only [enc]
      exact .map kvs _ _ (mapHdr_legal _ hw.1) (encPairs_legal kvs hw.2 hr)
  | .ext t d, _, hr => by simp [Value.rt] at hr
theorem encList_legal : ∀ (vs : List Value), wfList vs = true → rtList vs = true →
    LegalEncList vs (encList vs)
  | [], _, _ => by simp only [encList]; exact .nil
  | v :: vs, hw, hr => by
      simp only [wfList, Bool.and_eq_true] at hw
      simp only [rtList, Bool.and_eq_true] at hr
      simp only [encList]
      exact .cons v vs _ _ (enc_legal v hw.1 hr.1) (encList_legal vs hw.2 hr.2)
theorem encPairs_legal : ∀ (kvs : List (Value × Value)), wfPairs kvs = true → rtPairs kvs = true →
    LegalEncPairs kvs (encPairs kvs)
  | [], _, _ => by simp only [encPairs]; exact .nil
  | (k, v) :: r, hw, hr => by
      simp only [wfPairs, Bool.and_eq_true] at hw
      simp only [rtPairs, Bool.and_eq_true] at hr
      simp only [encPairs]
      exact .cons k v r _ _ _ (enc_legal k hw.1.1 hr.1.1.2) hr.1.1.1 (enc_legal v hw.1.2 hr.1.2)
        (encPairs_legal r hw.2 hr.2)
end


theorem runStream_rest_le (p : Prog α) (s : Bytes) : (runStream p s).rest.length ≤ s.length := by
  induction p generalizing s with
  | ret x => simp [runStream]
  | fail e => simp [runStream]
  | readn1 k ih =>
    cases s with
    | nil => simp [runStream]
    | cons b s => simp only [runStream, List.length_cons]; have := ih b s; omega
  | readx n k ih =>
    rw [runStream]
    split
    · exact ih _ _
    split
    · have := ih (s.take n) (s.drop n); simp at this ⊢; omega
    · simp

theorem runFrame_of_runStream (p : Prog α) (s : Bytes) (a : α) (rest : Bytes) (rem : Nat)
    (h : runStream p s = ⟨.ok a, rest⟩) (hb : s.length - rest.length ≤ rem) :
    runFrame p rem s = (⟨.ok a, rest⟩, rem - (s.length - rest.length)) := by
  induction p generalizing s rem with
  | ret x => simp [runStream] at h; simp [runFrame, h]
  | fail e => simp [runStream] at h
  | readn1 k ih =>
    cases s with
    | nil => simp [runStream] at h
    | cons b s =>
      simp only [runStream] at h
      have hl := runStream_rest_le (k b) s
      rw [h] at hl
      simp only [List.length_cons] at hb hl ⊢
      rw [runFrame, if_neg (by omega)]
      rw [ih b s (rem - 1) h (by omega)]
      congr 1; omega
  | readx n k ih =>
    rw [runStream] at h
    rw [runFrame]
    split
    · next h0 => rw [if_pos h0] at h; exact ih _ _ _ h hb
    · next h0 =>
      rw [if_neg h0] at h
      by_cases h1 : n ≤ s.length
      · rw [if_pos h1] at h
        have hl := runStream_rest_le (k (s.take n)) (s.drop n)
        rw [h] at hl
        simp only [List.length_drop] at hl
        rw [if_pos (by omega), if_pos h1, ih _ _ (rem - n) h (by simp; omega)]
        congr 1; simp; omega
      · rw [if_neg h1] at h; simp at h

theorem decStr_hdr (s hd : Bytes) (l : Nat) (h : StrHdr l hd) (hl : s.length = l) (r : Bytes) :
    runStream decStr (hd ++ s ++ r) = ⟨.ok s, r⟩ := by
  cases h with
  | fix h =>
    simp only [decStr, List.cons_append, List.nil_append, runStream_readn1_cons, List.append_assoc]
    rw [classify_fixstr l h]
    simp only
    rw [runStream_readx _ _ _ _ hl]; simp
  | s8 h =>
    simp only [decStr, List.cons_append, List.nil_append, runStream_readn1_cons, List.append_assoc, classify_d9]
    rw [runStream_readx _ _ _ _ (beBytes_length _ _), beNat_beBytes _ _ (by simpa using h), runStream_readx _ _ _ _ hl]; simp
  | s16 h =>
    simp only [decStr, List.cons_append, List.nil_append, runStream_readn1_cons, List.append_assoc, classify_da]
    rw [runStream_readx _ _ _ _ (beBytes_length _ _), beNat_beBytes _ _ (by simpa using h), runStream_readx _ _ _ _ hl]; simp
  | s32 h =>
    simp only [decStr, List.cons_append, List.nil_append, runStream_readn1_cons, List.append_assoc, classify_db]
    rw [runStream_readx _ _ _ _ (beBytes_length _ _), beNat_beBytes _ _ (by simpa using h), runStream_readx _ _ _ _ hl]; simp

theorem decStrStrict_hdr (s hd : Bytes) (l : Nat) (h : StrHdr l hd) (hl : s.length = l) (r : Bytes) :
    runStream decStrStrict (hd ++ s ++ r) = ⟨.ok s, r⟩ := by
  cases h with
  | fix h =>
    simp only [decStrStrict, List.cons_append, List.nil_append, runStream_readn1_cons, List.append_assoc]
    rw [classify_fixstr l h]
    simp only
    rw [runStream_readx _ _ _ _ hl]; simp
  | s8 h =>
    simp only [decStrStrict, List.cons_append, List.nil_append, runStream_readn1_cons, List.append_assoc, classify_d9]
    rw [runStream_readx _ _ _ _ (beBytes_length _ _), beNat_beBytes _ _ (by simpa using h), runStream_readx _ _ _ _ hl]; simp
  | s16 h =>
    simp only [decStrStrict, List.cons_append, List.nil_append, runStream_readn1_cons, List.append_assoc, classify_da]
    rw [runStream_readx _ _ _ _ (beBytes_length _ _), beNat_beBytes _ _ (by simpa using h), runStream_readx _ _ _ _ hl]; simp
  | s32 h =>
    simp only [decStrStrict, List.cons_append, List.nil_append, runStream_readn1_cons, List.append_assoc, classify_db]
    rw [runStream_readx _ _ _ _ (beBytes_length _ _), beNat_beBytes _ _ (by simpa using h), runStream_readx _ _ _ _ hl]; simp

theorem decErrStr_hdr (s hd : Bytes) (l : Nat) (h : StrHdr l hd) (hl : s.length = l) (r : Bytes) :
    runStream decErrStr (hd ++ s ++ r) = ⟨.ok s, r⟩ := by
  cases h with
  | fix h =>
    simp only [decErrStr, List.cons_append, List.nil_append, runStream_readn1_cons, List.append_assoc]
    rw [classify_fixstr l h]
    simp only
    rw [runStream_readx _ _ _ _ hl]; simp
  | s8 h =>
    simp only [decErrStr, List.cons_append, List.nil_append, runStream_readn1_cons, List.append_assoc, classify_d9]
    rw [runStream_readx _ _ _ _ (beBytes_length _ _), beNat_beBytes _ _ (by simpa using h), runStream_readx _ _ _ _ hl]; simp
  | s16 h =>
    simp only [decErrStr, List.cons_append, List.nil_append, runStream_readn1_cons, List.append_assoc, classify_da]
    rw [runStream_readx _ _ _ _ (beBytes_length _ _), beNat_beBytes _ _ (by simpa using h), runStream_readx _ _ _ _ hl]; simp
  | s32 h =>
    simp only [decErrStr, List.cons_append, List.nil_append, runStream_readn1_cons, List.append_assoc, classify_db]
    rw [runStream_readx _ _ _ _ (beBytes_length _ _), beNat_beBytes _ _ (by simpa using h), runStream_readx _ _ _ _ hl]; simp

theorem decStr_legal (s hd : Bytes) (h : StrHdr s.length hd) (r : Bytes) :
    runStream decStr (hd ++ s ++ r) = ⟨.ok s, r⟩ := decStr_hdr s hd _ h rfl r

/-! ### Frame level: typed readers on `LegalEnc`, `decodeRPC` on legal element
    lists, `nextFrame` on a legal frame (used by `C02.frame_accepts_any_legal`). -/


theorem legalList_length_le : ∀ (vs : List Value) (bs : Bytes), LegalEncList vs bs → vs.length ≤ bs.length
  | _, _, .nil => by simp
  | _, _, .cons v vs b bs h t => by
      have := legal_depth_le v b h; have := Value.depth_pos v
      have := legalList_length_le vs bs t
      simp; omega

theorem legalList_append_inv (xs ys : List Value) (b : Bytes) (h : LegalEncList (xs ++ ys) b) :
    ∃ b1 b2, b = b1 ++ b2 ∧ LegalEncList xs b1 ∧ LegalEncList ys b2 := by
  induction xs generalizing b with
  | nil => exact ⟨[], b, rfl, .nil, h⟩
  | cons x xs ih =>
    cases h with
    | cons v vs bx bs hx t =>
      obtain ⟨b1, b2, rfl, h1, h2⟩ := ih bs t
      exact ⟨bx ++ b1, b2, by simp, .cons _ _ _ _ hx h1, h2⟩

theorem decInt_of_legal (i : Int) (b : Bytes) (h : LegalEnc (.int i) b)
    (hr : -9223372036854775808 ≤ i ∧ i < 9223372036854775808) (r : Bytes) :
    runStream decInt (b ++ r) = ⟨.ok i, r⟩ := by
  cases h with
  | int i bs h => exact decInt_legal i b h hr r

theorem decStr_of_legal (s b : Bytes) (h : LegalEnc (.str s) b) (r : Bytes) :
    runStream decStr (b ++ r) = ⟨.ok s, r⟩ := by
  cases h with
  | str s hd h => exact decStr_hdr s hd _ h rfl r

theorem decStrStrict_of_legal (s b : Bytes) (h : LegalEnc (.str s) b) (r : Bytes) :
    runStream decStrStrict (b ++ r) = ⟨.ok s, r⟩ := by
  cases h with
  | str s hd h => exact decStrStrict_hdr s hd _ h rfl r

theorem decErrStr_of_legal (s b : Bytes) (h : LegalEnc (.str s) b) (r : Bytes) :
    runStream decErrStr (b ++ r) = ⟨.ok s, r⟩ := by
  cases h with
  | str s hd h => exact decErrStr_hdr s hd _ h rfl r

theorem decValue_of_legal (v : Value) (b : Bytes) (h : LegalEnc v b) (fuel : Nat)
    (hf : b.length ≤ fuel) (r : Bytes) :
    runStream (decValue fuel) (b ++ r) = ⟨.ok v, r⟩ :=
  decValue_legal v b h fuel (Nat.le_trans (legal_depth_le v b h) hf) r

/-- one entry of the tag map -/
def tagEntry (fuel : Nat) : Prog (Bytes × Value) :=
  Prog.bind decStrStrict fun k => Prog.bind (decValue fuel) fun v => ret (k, v)

theorem tagEntry_ok (fuel : Nat) (s s1 s2 : Bytes) (k : Bytes) (v : Value)
    (hk : runStream decStrStrict s = ⟨.ok k, s1⟩)
    (hv : runStream (decValue fuel) s1 = ⟨.ok v, s2⟩) :
    runStream (tagEntry fuel) s = ⟨.ok (k, v), s2⟩ := by
  unfold tagEntry
  rw [runStream_bind _ _ _ _ _ hk, runStream_bind _ _ _ _ _ hv]; simp

theorem decTags_map_hdr (l : Nat) (hd : Bytes) (h : MapHdr l hd) (fuel : Nat) (rest : Bytes) :
    runStream (decTags fuel) (hd ++ rest) = runStream (repeatN (tagEntry fuel) l) rest := by
  cases h with
  | fix h =>
    simp only [decTags, List.cons_append, List.nil_append, runStream_readn1_cons]
    rw [classify_fixmap l h]; rfl
  | m16 h =>
    simp only [decTags, List.cons_append, List.nil_append, runStream_readn1_cons, classify_de]
    rw [runStream_readx _ _ _ _ (beBytes_length _ _), beNat_beBytes _ _ (by simpa using h)]; rfl
  | m32 h =>
    simp only [decTags, List.cons_append, List.nil_append, runStream_readn1_cons, classify_df]
    rw [runStream_readx _ _ _ _ (beBytes_length _ _), beNat_beBytes _ _ (by simpa using h)]; rfl

theorem tagEntries_legal (t : Tags) (b : Bytes)
    (h : LegalEncPairs (t.map fun (k, v) => (Value.str k, v)) b) (fuel : Nat)
    (hf : b.length ≤ fuel) (r : Bytes) :
    runStream (repeatN (tagEntry fuel) t.length) (b ++ r) = ⟨.ok t, r⟩ := by
  induction t generalizing b with
  | nil => cases h; simp [repeatN]
  | cons kv t ih =>
    obtain ⟨k, v⟩ := kv
    simp only [List.map_cons] at h
    cases h with
    | cons _ _ _ bk bv bs hk hkey hv ht =>
      simp only [List.length_append] at hf
      simp only [List.length_cons, repeatN, List.append_assoc]
      rw [runStream_bind _ _ _ _ _ (tagEntry_ok fuel _ _ _ k v (decStrStrict_of_legal k bk hk _)
          (decValue_of_legal v bv hv fuel (by omega) _)),
        runStream_bind _ _ _ _ _ (ih bs ht (by omega) )]
      simp

theorem decTags_of_legal (t : Tags) (b : Bytes) (h : LegalEnc (tagsValue t) b) (fuel : Nat)
    (hf : b.length ≤ fuel) (r : Bytes) :
    runStream (decTags fuel) (b ++ r) = ⟨.ok t, r⟩ := by
  unfold tagsValue at h
  cases h with
  | map kvs hd body h hb =>
    simp only [List.length_map] at h
    simp only [List.length_append] at hf
    rw [List.append_assoc, decTags_map_hdr _ _ h, tagEntries_legal t body hb fuel (by omega) r]

/-- the optional trailing tag map as an independent encoder sends it -/
def tagElems : Option Tags → List Value
  | none => []
  | some t => [tagsValue t]

theorem loadContext_legal (fuel extra : Nat) (tags : Option Tags) (b rest : Bytes)
    (hl : LegalEncList (tagElems tags) b) (hf : b.length ≤ fuel)
    (h0 : tags = none → extra = 0) (h1 : tags ≠ none → extra ≠ 0) :
    runStream (loadContext fuel extra) (b ++ rest) = ⟨.ok tags, rest⟩ := by
  cases tags with
  | none =>
    cases hl
    simp [loadContext, h0 rfl]
  | some t =>
    simp only [tagElems] at hl
    cases hl with
    | cons _ _ bt _ ht hn =>
      cases hn
      simp only [List.append_nil] at hf ⊢
      unfold loadContext
      rw [if_neg (h1 (by simp)), runStream_bind _ _ _ _ _ (decTags_of_legal t bt ht fuel hf rest)]
      simp

theorem decodeRPC_call (ctx : Ctx) (fuel l : Nat) (seq : Int) (name : Bytes) (arg : Value)
    (tags : Option Tags) (b rest : Bytes)
    (hl : LegalEncList (.int 0 :: .int seq :: .str name :: arg :: tagElems tags) b)
    (hf : b.length ≤ fuel) (hfind : findMethod ctx name = .ok ())
    (hseq : -9223372036854775808 ≤ seq ∧ seq < 9223372036854775808)
    (hl4 : 4 ≤ l) (h0 : tags = none → l = 4) (h1 : tags ≠ none → 5 ≤ l) :
    runStream (decodeRPC ctx fuel l) (b ++ rest) = ⟨.ok (.ok (.call seq name arg tags)), rest⟩ := by
  cases hl with
  | cons _ _ b0 _ e0 hl =>
  cases hl with
  | cons _ _ b1 _ e1 hl =>
  cases hl with
  | cons _ _ b2 _ e2 hl =>
  cases hl with
  | cons _ _ b3 bt e3 hl =>
  simp only [List.length_append] at hf
  simp only [List.append_assoc]
  unfold decodeRPC
  rw [runStream_bind _ _ _ _ _ (decInt_of_legal 0 b0 e0 (by omega) _)]
  simp only [Gen.methodCall, if_true]
  rw [if_neg (by omega), runStream_bind _ _ _ _ _ (decInt_of_legal seq b1 e1 hseq _),
    runStream_bind _ _ _ _ _ (decStr_of_legal name b2 e2 _)]
  simp only [hfind]
  rw [runStream_bind _ _ _ _ _ (decValue_of_legal arg b3 e3 fuel (by omega) _),
    runStream_bind _ _ _ _ _ (loadContext_legal fuel (l - 1 - 3) tags bt rest hl (by omega)
      (fun h => by have := h0 h; omega) (fun h => by have := h1 h; omega))]
  simp

theorem decodeMaybeCompressed_none (ctx : Ctx) (fuel : Nat) (ct : Int) (ek : Option Value)
    (hc : hasCompressor ct = false) : decodeMaybeCompressed ctx fuel ct ek = decValue fuel := by
  simp [decodeMaybeCompressed, hc]

theorem decodeRPC_callc (ctx : Ctx) (fuel l : Nat) (seq ct : Int) (name : Bytes) (arg : Value)
    (tags : Option Tags) (b rest : Bytes)
    (hl : LegalEncList (.int 4 :: .int seq :: .int ct :: .str name :: arg :: tagElems tags) b)
    (hf : b.length ≤ fuel) (hfind : findMethod ctx name = .ok ())
    (hc : hasCompressor ct = false)
    (hseq : -9223372036854775808 ≤ seq ∧ seq < 9223372036854775808)
    (hct : -9223372036854775808 ≤ ct ∧ ct < 9223372036854775808)
    (hl5 : 5 ≤ l) (h0 : tags = none → l = 5) (h1 : tags ≠ none → 6 ≤ l) :
    runStream (decodeRPC ctx fuel l) (b ++ rest) =
      ⟨.ok (.ok (.callc seq ct name arg tags)), rest⟩ := by
  cases hl with
  | cons _ _ b0 _ e0 hl =>
  cases hl with
  | cons _ _ b1 _ e1 hl =>
  cases hl with
  | cons _ _ b2 _ e2 hl =>
  cases hl with
  | cons _ _ b3 _ e3 hl =>
  cases hl with
  | cons _ _ b4 bt e4 hl =>
  simp only [List.length_append] at hf
  simp only [List.append_assoc]
  unfold decodeRPC
  rw [runStream_bind _ _ _ _ _ (decInt_of_legal 4 b0 e0 (by omega) _)]
  simp only [Gen.methodCall, Gen.methodResponse, Gen.methodNotify, Gen.methodCancel,
    Gen.methodCallCompressed, Int.reduceEq, if_true, if_false]
  rw [if_neg (by omega), runStream_bind _ _ _ _ _ (decInt_of_legal seq b1 e1 hseq _),
    runStream_bind _ _ _ _ _ (decInt_of_legal ct b2 e2 hct _),
    runStream_bind _ _ _ _ _ (decStr_of_legal name b3 e3 _)]
  simp only [hfind, decodeMaybeCompressed_none _ _ _ _ hc]
  rw [runStream_bind _ _ _ _ _ (decValue_of_legal arg b4 e4 fuel (by omega) _),
    runStream_bind _ _ _ _ _ (loadContext_legal fuel (l - 1 - 4) tags bt rest hl (by omega)
      (fun h => by have := h0 h; omega) (fun h => by have := h1 h; omega))]
  simp

theorem decodeRPC_resp (ctx : Ctx) (fuel l : Nat) (seq ct : Int) (e : Bytes) (res : Value)
    (b rest : Bytes)
    (hl : LegalEncList [.int 1, .int seq, .str e, res] b)
    (hf : b.length ≤ fuel) (hlook : lookupCall ctx.pending seq = some (ct, true))
    (hc : hasCompressor ct = false)
    (hseq : -9223372036854775808 ≤ seq ∧ seq < 9223372036854775808)
    (hl4 : 4 ≤ l) :
    runStream (decodeRPC ctx fuel l) (b ++ rest) =
      ⟨.ok (.ok (.resp seq (.str e) res)), rest⟩ := by
  cases hl with
  | cons _ _ b0 _ e0 hl =>
  cases hl with
  | cons _ _ b1 _ e1 hl =>
  cases hl with
  | cons _ _ b2 _ e2 hl =>
  cases hl with
  | cons _ _ b3 bt e3 hl =>
  cases hl
  simp only [List.length_append] at hf
  simp only [List.append_assoc, List.nil_append]
  unfold decodeRPC
  rw [runStream_bind _ _ _ _ _ (decInt_of_legal 1 b0 e0 (by omega) _)]
  simp only [Gen.methodCall, Gen.methodResponse, Gen.methodNotify, Gen.methodCancel,
    Gen.methodCallCompressed, Int.reduceEq, if_true, if_false]
  rw [if_neg (by omega), runStream_bind _ _ _ _ _ (decInt_of_legal seq b1 e1 hseq _)]
  simp only [hlook]
  rw [runStream_bind _ _ _ _ _ (decErrStr_of_legal e b2 e2 _)]
  simp only [Bool.not_true, decodeMaybeCompressed_none _ _ _ _ hc]
  rw [if_neg (by simp), runStream_bind _ _ _ _ _ (decValue_of_legal res b3 e3 fuel (by omega) _)]
  simp

theorem decodeRPC_notify (ctx : Ctx) (fuel l : Nat) (name : Bytes) (arg : Value)
    (tags : Option Tags) (b rest : Bytes)
    (hl : LegalEncList (.int 2 :: .str name :: arg :: tagElems tags) b)
    (hf : b.length ≤ fuel) (hfind : findMethod ctx name = .ok ())
    (hl3 : 3 ≤ l) (h0 : tags = none → l = 3) (h1 : tags ≠ none → 4 ≤ l) :
    runStream (decodeRPC ctx fuel l) (b ++ rest) = ⟨.ok (.ok (.notify name arg tags)), rest⟩ := by
  cases hl with
  | cons _ _ b0 _ e0 hl =>
  cases hl with
  | cons _ _ b2 _ e2 hl =>
  cases hl with
  | cons _ _ b3 bt e3 hl =>
  simp only [List.length_append] at hf
  simp only [List.append_assoc]
  unfold decodeRPC
  rw [runStream_bind _ _ _ _ _ (decInt_of_legal 2 b0 e0 (by omega) _)]
  simp only [Gen.methodCall, Gen.methodResponse, Gen.methodNotify, Gen.methodCancel,
    Gen.methodCallCompressed, Int.reduceEq, if_true, if_false]
  rw [if_neg (by omega), runStream_bind _ _ _ _ _ (decStr_of_legal name b2 e2 _)]
  simp only [hfind]
  rw [runStream_bind _ _ _ _ _ (decValue_of_legal arg b3 e3 fuel (by omega) _),
    runStream_bind _ _ _ _ _ (loadContext_legal fuel (l - 1 - 2) tags bt rest hl (by omega)
      (fun h => by have := h0 h; omega) (fun h => by have := h1 h; omega))]
  simp

theorem decodeRPC_cancel (ctx : Ctx) (fuel l : Nat) (seq : Int) (name : Bytes) (b rest : Bytes)
    (hl : LegalEncList [.int 3, .int seq, .str name] b)
    (hseq : -9223372036854775808 ≤ seq ∧ seq < 9223372036854775808)
    (hl3 : 3 ≤ l) :
    runStream (decodeRPC ctx fuel l) (b ++ rest) = ⟨.ok (.ok (.cancel seq name)), rest⟩ := by
  cases hl with
  | cons _ _ b0 _ e0 hl =>
  cases hl with
  | cons _ _ b1 _ e1 hl =>
  cases hl with
  | cons _ _ b2 _ e2 hl =>
  cases hl
  simp only [List.append_assoc, List.nil_append]
  unfold decodeRPC
  rw [runStream_bind _ _ _ _ _ (decInt_of_legal 3 b0 e0 (by omega) _)]
  simp only [Gen.methodCall, Gen.methodResponse, Gen.methodNotify, Gen.methodCancel,
    Gen.methodCallCompressed, Int.reduceEq, if_true, if_false]
  rw [if_neg (by omega), runStream_bind _ _ _ _ _ (decInt_of_legal seq b1 e1 hseq _),
    runStream_bind _ _ _ _ _ (decStr_of_legal name b2 e2 _)]
  simp

theorem nextFrame_legal (max : Nat) (ctx : Ctx) (pre body ex r : Bytes) (n : Nat) (fr : FrameRes)
    (hn1 : 1 ≤ n) (hn : n ≤ 15)
    (hpre : IntEnc ((1 + body.length : Nat) : Int) pre)
    (hmax : 1 + body.length ≤ max) (hsmall : 1 + body.length < 2147483648)
    (hex : ex.length ≤ body.length)
    (hdec : runStream (decodeRPC ctx (1 + body.length) n) (body ++ r) = ⟨.ok fr, ex ++ r⟩) :
    nextFrame max ctx (pre ++ UInt8.ofNat (0x90 + n) :: body ++ r) = ⟨fr, r⟩ := by
  unfold nextFrame
  rw [List.append_assoc, decInt32_legal _ pre hpre (by omega) _]
  simp only []
  have hlow : lenTooLow ((1 + body.length : Nat) : Int) = false := by
    simp [lenTooLow, Gen.pktLenLow, Cmp.eval]; omega
  have hhigh : lenTooHigh ((1 + body.length : Nat) : Int) max = false := by
    simp [lenTooHigh, Gen.pktLenHigh, Cmp.eval]; omega
  have hbyte : runFrame byte (1 + body.length) (UInt8.ofNat (144 + n) :: body ++ r) =
      (⟨.ok (UInt8.ofNat (144 + n)), body ++ r⟩, body.length) := by
    simp [byte, runFrame]
  have hnb : (UInt8.ofNat (144 + n)).toNat = 144 + n := by
    simp [UInt8.toNat_ofNat']; omega
  have hrf := runFrame_of_runStream _ _ _ _ body.length hdec (by simp)
  have hrem : body.length - ((body ++ r).length - (ex ++ r).length) = ex.length := by
    simp; omega
  rw [hrem] at hrf
  rw [hlow, hhigh]
  simp only [Bool.false_eq_true, if_false, Int.toNat_natCast, hbyte, hnb]
  rw [if_neg (by simp; omega)]
  simp only [Nat.add_sub_cancel_left, hrf]
  simp [finishFrame]

end FmpRpc
