import FmpRpc.Model.Legal
import FmpRpc.Model.Frame
/-
  Lemmas: the reader accepts every legal encoding (`LegalEnc`), the writer
  produces legal encodings, typed readers accept every legal width.
-/
namespace FmpRpc

theorem decValue_legal (v : Value) (bs : Bytes) (h : LegalEnc v bs) (fuel : Nat)
    (hf : v.depth ≤ fuel) (r : Bytes) :
    runStream (decValue fuel) (bs ++ r) = ⟨.ok v, r⟩ := by
  sorry

theorem enc_legal (v : Value) (hw : v.wf = true) (hr : v.rt = true) : LegalEnc v (enc v) := by
  sorry

theorem legal_depth_le (v : Value) (bs : Bytes) (h : LegalEnc v bs) : v.depth ≤ bs.length := by
  sorry

theorem decInt_legal (i : Int) (bs : Bytes) (h : IntEnc i bs)
    (hr : -9223372036854775808 ≤ i ∧ i < 9223372036854775808) (r : Bytes) :
    runStream decInt (bs ++ r) = ⟨.ok i, r⟩ := by
  sorry

theorem decInt32_legal (i : Int) (bs : Bytes) (h : IntEnc i bs)
    (hr : -2147483648 ≤ i ∧ i < 2147483648) (r : Bytes) :
    runStream (decIntBits 32) (bs ++ r) = ⟨.ok i, r⟩ := by
  sorry

theorem decStr_legal (s hd : Bytes) (h : StrHdr s.length hd) (r : Bytes) :
    runStream decStr (hd ++ s ++ r) = ⟨.ok s, r⟩ := by
  sorry

/-- A program that succeeds on the unbounded stream succeeds identically
    under any budget that covers what it consumed. -/
theorem runFrame_of_runStream (p : Prog α) (s : Bytes) (a : α) (rest : Bytes) (rem : Nat)
    (h : runStream p s = ⟨.ok a, rest⟩) (hb : s.length - rest.length ≤ rem) :
    runFrame p rem s = (⟨.ok a, rest⟩, rem - (s.length - rest.length)) := by
  sorry

end FmpRpc
