import FmpRpc.Proofs.TransportInvA4
/-
  Part A6: frame lemmas for single steps, the notifier log, and the order of
  a cancellation after its call on the wire.
-/
namespace FmpRpc.T

/-- the fields of a send record that are fixed at creation -/
def Send.static (a b : Send) : Prop :=
  a.kind = b.kind ∧ a.seq = b.seq ∧ a.who = b.who ∧ a.notif = b.notif ∧ a.fits = b.fits

set_option maxHeartbeats 1000000 in
/-- a step never changes the static part of an existing send record -/
theorem step_frame (s s' : St) (a : Act) (hs : step s a = some s') :
    s.nextSend ≤ s'.nextSend ∧ ∀ x, x < s.nextSend → Send.static (s'.sends x) (s.sends x) := by
  step_cases a hs
  all_goals (simp [Send.static])
  all_goals (first | done | grind)

@[simp] def Act.isW : Act → Bool
  | .wRecv _ | .wNotify | .wWrite _ | .wDone | .wStop => true
  | _ => false

set_option maxHeartbeats 1000000 in
/-- only the writer's own actions touch its pc and its logs -/
theorem step_wframe (s s' : St) (a : Act) (hs : step s a = some s') (ha : a.isW = false) :
    s'.w = s.w ∧ s'.wlog = s.wlog ∧ s'.nlog = s.nlog := by
  step_cases a hs
  all_goals (first | (simp at ha; done) | simp)


/-! ### the notifier log -/

/-- the send being written right now -/
@[simp] def wWriting : WPc → List Nat
  | .writing x => [x]
  | _ => []

structure NL0C (sends : Nat → Send) (nextSend : Nat) : Prop where
  nl0 : ∀ x, nextSend ≤ x → (sends x).notif = false
  nl3 : ∀ x, (sends x).notif = true → (sends x).kind = .call ∨ (sends x).kind = .notify

def NL0 (s : St) : Prop := NL0C s.sends s.nextSend

theorem NL0_init (f p : Nat → Nat) : NL0 (initSz f p) := by constructor <;> simp [initSz]

set_option maxHeartbeats 1000000 in
theorem NL0_step (s s' : St) (a : Act) (h : NL0 s) (hs : step s a = some s') : NL0 s' := by
  have hall := h
  obtain ⟨nl0, nl3⟩ := h
  step_cases a hs
  all_goals (first | exact hall | skip)
  all_goals (clear hall)
  all_goals (constructor)
  all_goals (try simp)
  all_goals (first | done | assumption | grind)

theorem NL0_reach (s : St) (hr : Reachable s) : NL0 s :=
  reachable_induct NL0_init (fun s s' a _ ih hs => NL0_step s s' a ih hs) s hr

structure NL1 (s : St) : Prop where
  nl1 : s.nlog.map Prod.fst = (s.wlog ++ wWriting s.w).filter (fun x => (s.sends x).notif)
  nl2 : ∀ e ∈ s.nlog, e.1 < s.nextSend ∧ e.2 = (s.sends e.1).seq

theorem NL1_init (f p : Nat → Nat) : NL1 (initSz f p) := by constructor <;> simp [initSz]

theorem wlog_lt (s : St) (hS : SInv s) (hW : WInv s) : ∀ x ∈ s.wlog ++ wWriting s.w, x < s.nextSend := by
  intro x hx
  have hne : (s.sends x).st ≠ .absent := by
    rcases List.mem_append.mp hx with hx | hx
    · have := (hW.wl1 x hx).2.1
      rcases this with h | h <;> simp [h]
    · cases hw : s.w <;> simp [hw] at hx
      subst hx
      have := hS.wcur1 x (by simp [hw])
      simp [this]
  have := hS.fresh x
  by_cases hlt : x < s.nextSend
  · exact hlt
  · exact absurd (this (by omega)) hne

theorem filter_notif_congr (f g : Nat → Send) (l : List Nat) (h : ∀ x ∈ l, (f x).notif = (g x).notif) :
    l.filter (fun x => (f x).notif) = l.filter (fun x => (g x).notif) :=
  List.filter_congr (by intro x hx; exact h x hx)

/-- effect of the writer's actions on its own pc and logs -/
theorem wRecv_eff (s s' : St) (x : Nat) (hs : step s (.wRecv x) = some s') :
    s.w = .idle ∧ (s.sends x).st = .waiting ∧ s'.w = .got x ∧ s'.wlog = s.wlog ∧ s'.nlog = s.nlog := by
  simp only [step] at hs
  split at hs
  · rename_i hg
    refine ⟨hg.1, hg.2, ?_⟩
    repeat' (split at hs)
    all_goals (first | (simp at hs; done) | (injection hs with hs; subst hs; simp))
  · simp at hs

theorem wNotify_eff (s s' : St) (hs : step s .wNotify = some s') :
    ∃ x, s.w = .got x ∧ s'.w = .writing x ∧ s'.wlog = s.wlog ∧ s'.sends = s.sends ∧
      s'.nextSend = s.nextSend ∧ s'.callers = s.callers ∧
      s'.nlog = (if (s.sends x).notif then s.nlog ++ [(x, (s.sends x).seq)] else s.nlog) := by
  simp only [step] at hs
  split at hs
  · rename_i x hw
    refine ⟨x, hw, ?_⟩
    split at hs <;> (injection hs with hs; subst hs; simp_all)
  · simp at hs

theorem wWrite_eff (s s' : St) (ok : Bool) (hs : step s (.wWrite ok) = some s') :
    ∃ x e, s.w = .writing x ∧ s'.w = .wrote x e ∧ s'.wlog = s.wlog ++ [x] ∧ s'.sends = s.sends ∧
      s'.nextSend = s.nextSend ∧ s'.callers = s.callers ∧ s'.nlog = s.nlog := by
  simp only [step] at hs
  split at hs
  · rename_i x hw
    split at hs
    · simp at hs
    · injection hs with hs; subst hs
      exact ⟨x, _, hw, rfl, rfl, rfl, rfl, rfl, rfl⟩
  · simp at hs

theorem wDone_eff (s s' : St) (hs : step s .wDone = some s') :
    ∃ x e, s.w = .wrote x e ∧ s'.w = .idle ∧ s'.wlog = s.wlog ∧ s'.nlog = s.nlog := by
  simp only [step] at hs
  split at hs
  · rename_i x e hw
    injection hs with hs; subst hs
    exact ⟨x, e, hw, rfl, rfl, rfl⟩
  · simp at hs

theorem wStop_eff (s s' : St) (hs : step s .wStop = some s') :
    s.w = .idle ∧ s'.w = .exited ∧ s'.wlog = s.wlog ∧ s'.nlog = s.nlog ∧ s'.sends = s.sends := by
  simp only [step] at hs
  split at hs
  · rename_i hg
    injection hs with hs; subst hs
    exact ⟨hg.1, rfl, rfl, rfl, rfl⟩
  · simp at hs

theorem NL1_step (s s' : St) (a : Act) (hS : SInv s) (hW : WInv s) (h : NL1 s)
    (hs : step s a = some s') : NL1 s' := by
  obtain ⟨hle, hfr⟩ := step_frame s s' a hs
  have hb := wlog_lt s hS hW
  obtain ⟨nl1, nl2⟩ := h
  have hcongr : ∀ l : List Nat, (∀ x ∈ l, x < s.nextSend) →
      l.filter (fun x => (s'.sends x).notif) = l.filter (fun x => (s.sends x).notif) := by
    intro l hl
    exact filter_notif_congr _ _ l (fun x hx => (hfr x (hl x hx)).2.2.2.1)
  have hnl2 : ∀ e ∈ s.nlog, e.1 < s'.nextSend ∧ e.2 = (s'.sends e.1).seq := by
    intro e he
    have := nl2 e he
    exact ⟨by omega, by rw [(hfr e.1 this.1).2.1]; exact this.2⟩
  by_cases ha : a.isW = true
  · cases a <;> simp at ha
    case wRecv x =>
      obtain ⟨w0, -, w1, e2, e3⟩ := wRecv_eff s s' x hs
      rw [w0] at hb nl1
      simp only [wWriting] at hb nl1
      constructor
      · rw [w1, e2, e3]; simp only [wWriting]; rw [hcongr _ hb]; exact nl1
      · rw [e3]; exact hnl2
    case wNotify =>
      obtain ⟨x, w0, w1, e2, e3, e4, -, e5⟩ := wNotify_eff s s' hs
      rw [w0] at hb nl1
      have hx : x < s.nextSend := by
        have := hS.wcur1 x (by simp [w0])
        have hf := hS.fresh x
        by_cases hlt : x < s.nextSend
        · exact hlt
        · have := hf (by omega); simp_all
      constructor
      · rw [w1, e2, e3, e5]
        by_cases hn : (s.sends x).notif = true
        · simp [hn, List.filter_append] at nl1 ⊢; exact nl1
        · simp [hn, List.filter_append] at nl1 ⊢; exact nl1
      · rw [e5, e3, e4]
        split
        · intro e he
          rcases List.mem_append.mp he with he | he
          · exact nl2 e he
          · simp at he; subst he; exact ⟨hx, rfl⟩
        · exact nl2
    case wWrite ok =>
      obtain ⟨x, e, w0, w1, e2, e3, -, -, e5⟩ := wWrite_eff s s' ok hs
      rw [w0] at hb nl1
      constructor
      · rw [w1, e2, e3, e5]; simpa using nl1
      · rw [e5]; exact hnl2
    case wDone =>
      obtain ⟨x, e, w0, w1, e2, e3⟩ := wDone_eff s s' hs
      rw [w0] at hb nl1
      simp only [wWriting] at hb nl1
      constructor
      · rw [w1, e2, e3]; simp only [wWriting]; rw [hcongr _ hb]; exact nl1
      · rw [e3]; exact hnl2
    case wStop =>
      obtain ⟨w0, w1, e2, e3, e4⟩ := wStop_eff s s' hs
      rw [w0] at hb nl1
      constructor
      · rw [w1, e2, e3, e4]; exact nl1
      · rw [e3]; exact hnl2
  · obtain ⟨e1, e2, e3⟩ := step_wframe s s' a hs (by simpa using ha)
    constructor
    · rw [e1, e2, e3, hcongr _ hb]; exact nl1
    · rw [e3]; exact hnl2


theorem NL1_reach (s : St) (hr : Reachable s) : NL1 s := by
  have : (SInv s ∧ WInv s) ∧ NL1 s := by
    refine reachable_induct (P := fun s => (SInv s ∧ WInv s) ∧ NL1 s) (fun f p => ⟨⟨SInv_init f p, WInv_init f p⟩, NL1_init f p⟩) ?_ s hr
    intro s s' a _ ih hs
    exact ⟨⟨SInv_step s s' a ih.1.1 hs, WInv_step s s' a ih.1.1 ih.1.2 hs⟩,
      NL1_step s s' a ih.1.1 ih.1.2 ih.2 hs⟩
  exact this.2

end FmpRpc.T
