import FmpRpc.Proofs.TransportInvA3
import FmpRpc.Proofs.TransportInvA8
/-
  Size of the CALL record (C20): the ghost `Caller.recSize` is what
  `RecordAndFinish(ctx, size)` stored — the value `EncodeAndWrite` returned
  (`encSize`) plus the content lengths of the replies that were looked up for
  the call BEFORE the record was finished (`inc`).  `St.fsize` / `St.psize`
  are parameters of a run: no step modifies them.
-/
namespace FmpRpc.T

/-! ### `fsize` / `psize` are read-only -/

section frame
variable (s : St) (h : Nat) (c : Cause) (n : Nat)

@[simp] theorem cancelHandler_fsize : (cancelHandler s h c).fsize = s.fsize := by
  unfold cancelHandler; dsimp only; split <;> rfl
@[simp] theorem cancelHandler_psize : (cancelHandler s h c).psize = s.psize := by
  unfold cancelHandler; dsimp only; split <;> rfl
@[simp] theorem cancelAllTasks_fsize : (cancelAllTasks s n).fsize = s.fsize := by
  induction n with
  | zero => rfl
  | succ n ih => simp only [cancelAllTasks]; split <;> simp [ih]
@[simp] theorem cancelAllTasks_psize : (cancelAllTasks s n).psize = s.psize := by
  induction n with
  | zero => rfl
  | succ n ih => simp only [cancelAllTasks]; split <;> simp [ih]

end frame

/-- no step touches the size tables -/
theorem step_sizes (s s' : St) (a : Act) (hs : step s a = some s') :
    s'.fsize = s.fsize ∧ s'.psize = s.psize := by
  step_cases a hs
  all_goals (first | exact ⟨rfl, rfl⟩ | simp)

/-- `rLookup` is the one receive-loop step that touches a caller before the
    result is decoded: it leaves every field of every caller alone except the
    two ghost size fields `recSize` / `inc`, and nothing else of the state but `r` -/
theorem rLookup_frame (s s' : St) (hs : step s .rLookup = some s') :
    (∀ c, { s'.callers c with recSize := (s.callers c).recSize, inc := (s.callers c).inc } = s.callers c) ∧
    { s' with callers := s.callers, r := s.r } = s := by
  simp only [step] at hs
  repeat' (split at hs)
  all_goals (try (simp only [reduceCtorEq] at hs))
  all_goals (injection hs with hs; subst hs)
  · refine ⟨fun c => ?_, rfl⟩
    simp only [setCaller]; split
    · rename_i h; subst h; rfl
    · rfl
  · exact ⟨fun _ => rfl, rfl⟩
  · exact ⟨fun _ => rfl, rfl⟩

/-- before AddCall: the receive loop cannot find the call -/
@[simp, grind] def CPc.preTab : CPc → Bool
  | .absent | .begin | .new | .add => true
  | _ => false

/-- before `EncodeAndWrite` has returned a size -/
@[simp, grind] def CPc.preEnc : CPc → Bool
  | .absent | .begin | .new | .add | .enc => true
  | _ => false

/-- the size facts about one caller record on its own -/
structure ZOk (fsize psize : Nat → Nat) (cl : Caller) : Prop where
  size : cl.recSize = (if cl.records = 1 then cl.encSize else 0) + (cl.inc.map psize).sum
  fresh : cl.pc.preTab = true → cl.inc = []
  enc0 : cl.pc.preEnc = true → cl.encSize = 0
  cfl : cl.cfail = true → cl.encSize = 0
  hand : ∀ x, cl.pc = .hand x → cl.encSize = fsize x

/-- the size part: the record's Size, and what `encSize` is -/
structure ZInv (s : St) : Prop where
  loc : ∀ c, ZOk s.fsize s.psize (s.callers c)
  sel1 : ∀ c x, (s.callers c).pc = .sel1 x →
    x < s.nextSend ∧ (s.callers c).encSize = if (s.sends x).fits then s.fsize x else 0

theorem ZInv_init (f p : Nat → Nat) : ZInv (initSz f p) := by
  constructor <;> simp [initSz]
  constructor <;> simp

theorem sum_map_snoc (f : Nat → Nat) (l : List Nat) (p : Nat) :
    ((l ++ [p]).map f).sum = (l.map f).sum + f p := by
  simp [List.map_append, List.sum_append]

set_option maxHeartbeats 1000000 in
theorem ZInv_loc_step (s s' : St) (a : Act) (hC : CInv s) (h : ZInv s) (hs : step s a = some s') :
    ∀ c, ZOk s'.fsize s'.psize (s'.callers c) := by
  intro c0
  have h0 := h.loc c0
  have k0 := hC.loc c0
  have htab : ∀ q, s.pending q = some c0 → (s.callers c0).pc.inTable = true := fun q hq => (hC.pend1 q c0 hq).2
  clear h hC
  step_cases a hs
  all_goals (first | exact h0 | skip)
  all_goals (try simp)
  all_goals (first | exact h0 | skip)
  all_goals (split; rotate_left; exact h0)
  all_goals (rename_i heq; subst heq)
  all_goals (obtain ⟨size, fresh, enc0, cfl, hand⟩ := h0)
  all_goals (obtain ⟨pre, -, -, -, -, rec0, rec1, -, -, kcfl, -, -, -, -, -, -, -⟩ := k0)
  all_goals (constructor <;> (try simp) <;> (first | done | assumption | omega | grind [sum_map_snoc] |
    (have := htab _ ‹_›; cases hpc : (s.callers c0).pc <;> simp_all)))

set_option maxHeartbeats 2000000 in
theorem ZInv_sel1_step (s s' : St) (a : Act) (hS : SInv s) (h : ZInv s) (hs : step s a = some s') :
    ∀ c x, (s'.callers c).pc = .sel1 x →
      x < s'.nextSend ∧ (s'.callers c).encSize = if (s'.sends x).fits then s'.fsize x else 0 := by
  have sel1 := h.sel1
  have hand := fun c => (h.loc c).hand
  have hcHand : ∀ c x, (s.callers c).pc = .hand x → x < s.nextSend ∧ (s.sends x).fits = true :=
    fun c x hx => ⟨(hS.cHand c x hx).1, (hS.fitsW x (.inl (hS.cHand c x hx).2.1)).1⟩
  clear h hS
  step_cases a hs
  all_goals (first | exact sel1 | skip)
  all_goals (try simp)
  all_goals (first | done | assumption | grind)

theorem ZInv_step (s s' : St) (a : Act) (hC : CInv s) (hS : SInv s) (h : ZInv s) (hs : step s a = some s') :
    ZInv s' :=
  ⟨ZInv_loc_step s s' a hC h hs, ZInv_sel1_step s s' a hS h hs⟩

theorem ZInv_reach (s : St) (hr : Reachable s) : ZInv s :=
  reachable_induct ZInv_init
    (fun s s' a hr ih hs => ZInv_step s s' a (CInv_reach s hr) (SInv_reach s hr) ih hs) s hr

/-! ### which replies were counted: only delivered responses carrying the call's own seqno -/

/-- the receive loop is at a lookup only for a response it has been delivered -/
theorem lookup_frame (s s' : St) (a : Act) (hs : step s a = some s') (q : Int) (p : Nat) (ae : Bool)
    (h : s'.r = .respLookup q p ae) :
    s.r = .respLookup q p ae ∨ Evt.delivered (.resp q p ae) ∈ s'.hist := by
  step_cases a hs
  all_goals (try simp at h ⊢)
  all_goals (first | done | exact .inl h | grind)

set_option maxHeartbeats 1000000 in
/-- a payload enters `inc` only through the lookup of a response found in the
    pending table; the caller's seqno does not change while `inc` is non-empty -/
theorem inc_frame (s s' : St) (a : Act) (hZ : ZInv s) (hs : step s a = some s') (c : Nat) (p : Nat)
    (h : p ∈ (s'.callers c).inc) :
    (s'.callers c).seq = (s.callers c).seq ∧
    (p ∈ (s.callers c).inc ∨ ∃ q ae, s.r = .respLookup q p ae ∧ s.pending q = some c) := by
  have fresh := (hZ.loc c).fresh
  clear hZ
  step_cases a hs
  all_goals (try simp [-Bool.exists_bool] at h ⊢)
  all_goals (first | done | exact .inl h | exact ⟨rfl, .inl h⟩ | grind)

structure ZHInv (s : St) : Prop where
  look : ∀ q p ae, s.r = .respLookup q p ae → Evt.delivered (.resp q p ae) ∈ s.hist
  incd : ∀ c p, p ∈ (s.callers c).inc → ∃ ae, Evt.delivered (.resp (s.callers c).seq p ae) ∈ s.hist

theorem ZHInv_init (f p : Nat → Nat) : ZHInv (initSz f p) := by
  constructor <;> simp [initSz]

theorem ZHInv_step (s s' : St) (a : Act) (hC : CInv s) (hZ : ZInv s) (h : ZHInv s) (hs : step s a = some s') :
    ZHInv s' := by
  obtain ⟨l, hl⟩ := step_hist s s' a hs
  have mono : ∀ e, e ∈ s.hist → e ∈ s'.hist := fun e he => by rw [hl]; exact List.mem_append.mpr (.inl he)
  refine ⟨fun q p ae hr' => ?_, fun c p hp => ?_⟩
  · rcases lookup_frame s s' a hs q p ae hr' with hr | hd
    · exact mono _ (h.look q p ae hr)
    · exact hd
  · obtain ⟨hseq, hin | ⟨q, ae, hr, hpend⟩⟩ := inc_frame s s' a hZ hs c p hp
    · obtain ⟨ae, hd⟩ := h.incd c p hin
      exact ⟨ae, by rw [hseq]; exact mono _ hd⟩
    · refine ⟨ae, ?_⟩
      rw [hseq, (hC.pend1 q c hpend).1]
      exact mono _ (h.look q p ae hr)

theorem ZHInv_reach (s : St) (hr : Reachable s) : ZHInv s :=
  reachable_induct ZHInv_init
    (fun s s' a hr ih hs => ZHInv_step s s' a (CInv_reach s hr) (ZInv_reach s hr) ih hs) s hr

/-! ### the stored size is final once the record is finished -/

set_option maxHeartbeats 1000000 in
/-- after `Finish` (records = 1) no step changes the stored size, the list of
    counted replies or the size `EncodeAndWrite` returned: a reply looked up
    later increments a record whose copy has already been stored -/
theorem finished_frame (s s' : St) (a : Act) (hC : CInv s) (hs : step s a = some s') (c : Nat)
    (h1 : (s.callers c).records = 1) :
    (s'.callers c).recSize = (s.callers c).recSize ∧ (s'.callers c).inc = (s.callers c).inc ∧
    (s'.callers c).encSize = (s.callers c).encSize ∧ (s'.callers c).records = 1 := by
  have k0 := hC.loc c
  obtain ⟨pre, -, -, -, -, rec0, -, -, -, -, -, -, -, -, -, -, -⟩ := k0
  clear hC
  step_cases a hs
  all_goals (try simp)
  all_goals (first | done | exact ⟨rfl, rfl, rfl, h1⟩ | grind)

end FmpRpc.T
