import FmpRpc.Proofs.TransportInvBS
/- preservation of the send invariant, part 4 (split for checking time) -/
namespace FmpRpc.T
set_option linter.unusedSimpArgs false

set_option maxHeartbeats 8000000 in
theorem SInv_step_rHand (s s' : St) (a : Act) (hi : SInv s) (hs : step s a = some s') :
    ∀ x, s'.r = .nfHand x →
    (s'.sends x).st = .waiting ∧ (s'.sends x).kind = .reply ∧ (s'.sends x).async = false := by
  step_cases a with hs
  all_goals first
    | (refine (SInv_of_view _ _ ?_ hi).rHand
       simp_all [sview, setCaller, setNotifier, setSend, setHandler, setCloser, setPending, setTask, log, newSend, failedSend, abandon, returnCaller]
       done)
    | skip
  all_goals
    simp [setCaller, setNotifier, setSend, setHandler, setCloser, setPending, setTask, log, newSend, failedSend, abandon, returnCaller, cancelHandler_handlers, cancelAllTasks_handlers] at * <;>
    first
      | exact hi.rHand
      | (obtain ⟨fresh, cHand, cSel1, cCHand, cCPoll, nHand, nSel, hHand, hSel, rHand, rSel, handedW, wHanded, asyncSt⟩ := hi
         grind)

set_option maxHeartbeats 8000000 in
theorem SInv_step_rSel (s s' : St) (a : Act) (hi : SInv s) (hs : step s a = some s') :
    ∀ x, s'.r = .nfSel x → (s'.sends x).kind = .reply ∧
    ((s'.sends x).st = .handed ∨ ((s'.sends x).st = .completed ∧ (s'.sends x).slot ≠ none)) := by
  step_cases a with hs
  all_goals first
    | (refine (SInv_of_view _ _ ?_ hi).rSel
       simp_all [sview, setCaller, setNotifier, setSend, setHandler, setCloser, setPending, setTask, log, newSend, failedSend, abandon, returnCaller]
       done)
    | skip
  all_goals
    simp [setCaller, setNotifier, setSend, setHandler, setCloser, setPending, setTask, log, newSend, failedSend, abandon, returnCaller, cancelHandler_handlers, cancelAllTasks_handlers] at * <;>
    first
      | exact hi.rSel
      | (obtain ⟨fresh, cHand, cSel1, cCHand, cCPoll, nHand, nSel, hHand, hSel, rHand, rSel, handedW, wHanded, asyncSt⟩ := hi
         grind)

set_option maxHeartbeats 8000000 in
theorem SInv_step_handedW (s s' : St) (a : Act) (hi : SInv s) (hs : step s a = some s') :
    ∀ x, (s'.sends x).st = .handed → (s'.w = .got x ∨ s'.w = .writing x ∨ ∃ e, s'.w = .wrote x e) := by
  step_cases a with hs
  all_goals first
    | (refine (SInv_of_view _ _ ?_ hi).handedW
       simp_all [sview, setCaller, setNotifier, setSend, setHandler, setCloser, setPending, setTask, log, newSend, failedSend, abandon, returnCaller]
       done)
    | skip
  all_goals
    simp [setCaller, setNotifier, setSend, setHandler, setCloser, setPending, setTask, log, newSend, failedSend, abandon, returnCaller, cancelHandler_handlers, cancelAllTasks_handlers] at * <;>
    first
      | exact hi.handedW
      | (obtain ⟨fresh, cHand, cSel1, cCHand, cCPoll, nHand, nSel, hHand, hSel, rHand, rSel, handedW, wHanded, asyncSt⟩ := hi
         grind)

end FmpRpc.T
