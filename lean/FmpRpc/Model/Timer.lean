/-
  L4 (timer part): `CancellableTimer` / `fireOnce` of reconnect_backoff.go with
  a discrete clock.  Fire-once objects have identity; `current` is the object
  the timer holds (`none` = zero value: fire and wait are no-ops);
  `time.AfterFunc(d, f.fire)` is a pending deadline.
-/
namespace FmpRpc.Tm

structure St where
  now : Nat := 0
  fired : List Bool := []            -- fire-once objects by id
  current : Option Nat := none
  deadlines : List (Nat × Nat) := [] -- (time, object) scheduled by AfterFunc
  started : List (Nat × Nat × Nat) := []  -- ghost: (object, start time, delay)
deriving Repr

def St.isFired (s : St) (o : Nat) : Bool := s.fired.getD o false

def fire (s : St) (o : Option Nat) : St :=
  match o with
  | none => s
  | some o => { s with fired := s.fired.set o true }

/-- the random delay: `r % w` for an arbitrary 63-bit `r` (the sign bit is
    cleared before the conversion), zero for a zero window -/
def randomDelay (r w : Nat) : Nat := if w = 0 then 0 else (r % 2 ^ 63) % w

/-- `StartConstant(d)` / `StartRandom(w)` with the chosen delay `d`: new object,
    swap, fire the old one, schedule the new one -/
def start (s : St) (d : Nat) : St :=
  let o := s.fired.length
  let old := s.current
  let s1 := { s with fired := s.fired ++ [false], current := some o }
  let s2 := fire s1 old
  { s2 with deadlines := s2.deadlines ++ [(s.now + d, o)], started := s2.started ++ [(o, s.now, d)] }

/-- `FireNow()`: swap in the zero value, fire what was there -/
def fireNow (s : St) : St := fire { s with current := none } s.current

/-- the clock advances by one tick; due deadlines fire -/
def tick (s : St) : St :=
  let t := s.now + 1
  let due := s.deadlines.filter (fun d => d.1 ≤ t)
  let s1 := { s with now := t, deadlines := s.deadlines.filter (fun d => ¬ d.1 ≤ t) }
  due.foldl (fun acc d => fire acc (some d.2)) s1

/-- deadlines with delay 0 fire without a tick (AfterFunc(0)) -/
def fireDue (s : St) : St :=
  let due := s.deadlines.filter (fun d => d.1 ≤ s.now)
  let s1 := { s with deadlines := s.deadlines.filter (fun d => ¬ d.1 ≤ s.now) }
  due.foldl (fun acc d => fire acc (some d.2)) s1

/-- a waiter in `Wait()`: the fire-once it is blocked on (`none`: zero value,
    does not block) and whether it has returned -/
inductive WPc where
  | get                         -- about to read the current object
  | blocked (f : Option Nat)    -- in f.wait()
  | recheck (f : Option Nat)    -- woke up: about to re-read the current object
  | returned
deriving Repr, DecidableEq

/-- one step of a waiter; `none` when it is blocked -/
def waitStep (s : St) : WPc → Option WPc
  | .get => if s.current = none then some .returned else some (.blocked s.current)
  | .blocked none => some (.recheck none)
  | .blocked (some o) => if s.isFired o then some (.recheck (some o)) else none
  | .recheck f => if s.current = f then some .returned else some (.blocked s.current)
  | .returned => none

inductive Op where
  | start (d : Nat) | fireNow | tick
deriving Repr

def apply (s : St) : Op → St
  | .start d => fireDue (start s d)
  | .fireNow => fireNow s
  | .tick => tick s

end FmpRpc.Tm
