import FmpRpc.Model.Bytes
/-
  Decoder programs as a free monad over the two operations go-codec's
  `ioDecReader` offers to the msgpack driver: `readn1` (one byte) and
  `readx n` (exactly n bytes, io.ReadFull semantics).  Every decoder of the
  model (`Msgpack`, `Msg`, `Frame`) is a `Prog`; theorems that hold for every
  `Prog` (chunk independence, per-frame budget, resynchronisation) therefore
  hold for whatever the field decoders do.
-/
namespace FmpRpc

/-- Error classes (the canonical enum of the line protocol). -/
inductive Err where
  | eof            -- io.EOF
  | ueof           -- io.ErrUnexpectedEOF
  | dec            -- msgpack level decoding error (go-codec)
  | pkt            -- PacketizerError
  | invalidType    -- "invalid RPC type"
  | wrongLen       -- "wrong message length"
  | callNotFound
  | methodNotFound
  | protNotFound
  | decompress     -- decompressor returned an error
  | other          -- an error of the length decoder that is neither EOF nor a packetizer error
  | unsupported    -- outside the modelled fragment (comparison skipped)
deriving DecidableEq, Repr, Inhabited

def Err.name : Err → String
  | .eof => "eof" | .ueof => "ueof" | .dec => "dec" | .pkt => "pkt"
  | .invalidType => "invalidtype" | .wrongLen => "wronglen"
  | .callNotFound => "callnotfound" | .methodNotFound => "methodnotfound"
  | .protNotFound => "protnotfound" | .decompress => "decompress"
  | .other => "other"
  | .unsupported => "unsupported"

inductive Prog (α : Type) where
  | ret : α → Prog α
  | fail : Err → Prog α
  | readn1 : (UInt8 → Prog α) → Prog α
  | readx : Nat → (Bytes → Prog α) → Prog α

namespace Prog

def bind : Prog α → (α → Prog β) → Prog β
  | ret a, f => f a
  | fail e, _ => fail e
  | readn1 k, f => readn1 fun b => bind (k b) f
  | readx n k, f => readx n fun bs => bind (k bs) f

instance : Monad Prog where
  pure := ret
  bind := bind

@[simp] theorem pure_eq (a : α) : (pure a : Prog α) = ret a := rfl
@[simp] theorem bind_eq (p : Prog α) (f : α → Prog β) : (p >>= f) = bind p f := rfl
@[simp] theorem bind_ret (a : α) (f : α → Prog β) : bind (ret a) f = f a := rfl
@[simp] theorem bind_fail (e : Err) (f : α → Prog β) : bind (fail e : Prog α) f = fail e := rfl
@[simp] theorem bind_readn1 (k : UInt8 → Prog α) (f : α → Prog β) :
    bind (readn1 k) f = readn1 fun b => bind (k b) f := rfl
@[simp] theorem bind_readx (n : Nat) (k : Bytes → Prog α) (f : α → Prog β) :
    bind (readx n k) f = readx n fun bs => bind (k bs) f := rfl

def byte : Prog UInt8 := readn1 ret
def bytes (n : Nat) : Prog Bytes := readx n ret

end Prog

/-- Result of running a program on a stream: the value or error, and what is
    left of the stream. -/
structure Res (α : Type) where
  val : Except Err α
  rest : Bytes

/-- **Ideal reader** on an unbounded stream (`lengthDecoder` over the
    connection): `readn1` / `readx` take the next bytes of the stream; a short
    stream gives `eof` — go-codec's `decReadFull` deliberately does not turn a
    partial read into `ErrUnexpectedEOF`. -/
def runStream : Prog α → Bytes → Res α
  | .ret a, s => ⟨.ok a, s⟩
  | .fail e, s => ⟨.error e, s⟩
  | .readn1 _, [] => ⟨.error .eof, []⟩
  | .readn1 k, b :: s => runStream (k b) s
  | .readx n k, s =>
    if n = 0 then runStream (k []) s
    else if n ≤ s.length then runStream (k (s.take n)) (s.drop n)
    else ⟨.error .eof, []⟩

/-- **Ideal frame reader**: a stream and a budget `rem` (the declared frame
    length not yet consumed).  Reads never go past the budget; an exhausted
    budget reads as `eof`, an exhausted stream as `ueof` (the frame is
    truncated).  Returns the remaining budget as well. -/
def runFrame : Prog α → Nat → Bytes → Res α × Nat
  | .ret a, rem, s => (⟨.ok a, s⟩, rem)
  | .fail e, rem, s => (⟨.error e, s⟩, rem)
  | .readn1 k, rem, s =>
    if rem = 0 then (⟨.error .eof, s⟩, 0)
    else match s with
      | [] => (⟨.error .ueof, []⟩, rem)
      | b :: s => runFrame (k b) (rem - 1) s
  | .readx n k, rem, s =>
    if n = 0 then runFrame (k []) rem s
    else if n ≤ rem then
      if n ≤ s.length then runFrame (k (s.take n)) (rem - n) (s.drop n)
      else (⟨.error .ueof, []⟩, rem - s.length)
    else
      -- budget smaller than the request: everything up to the budget is
      -- consumed, then the frame reader reports EOF
      if rem ≤ s.length then (⟨.error .eof, s.drop rem⟩, 0)
      else (⟨.error .ueof, []⟩, rem - s.length)

end FmpRpc
