import FmpRpc.Model.Frame
/-
  Line-protocol syntax shared with the Go harness: values, messages, frame
  results.  Executable only (no theorems depend on it).
-/
namespace FmpRpc

/-! ### Printing -/

def hx (b : Bytes) : String := if b.isEmpty then "-" else toHex b

/-- insertion sort by key text; later duplicates replace earlier ones -/
def insertEntry (e : String × String) : List (String × String) → List (String × String)
  | [] => [e]
  | x :: xs =>
    if e.1 = x.1 then e :: xs
    else if e.1 < x.1 then e :: x :: xs
    else x :: insertEntry e xs

/-- IEEE-754: the binary64 bit pattern with the same value as the binary32 pattern `b` (go-codec decodes a msgpack
    float32 into an `interface{}` as `float64(float32)`; NaNs are printed as one canonical NaN on both sides) -/
def f32to64 (b : Nat) : Nat :=
  let sign := (b / 2 ^ 31) % 2
  let e := (b / 2 ^ 23) % 256
  let m := b % 2 ^ 23
  if e = 255 then
    if m = 0 then sign * 2 ^ 63 + 2047 * 2 ^ 52   -- infinity
    else
      -- NaN: the conversion keeps sign and payload and sets the quiet bit (CVTSS2SD)
      let frac := m * 2 ^ 29
      sign * 2 ^ 63 + 2047 * 2 ^ 52 + (if (frac / 2 ^ 51) % 2 = 1 then frac else frac + 2 ^ 51)
  else if e = 0 then
    if m = 0 then sign * 2 ^ 63
    else
      -- subnormal: value = m * 2^-149; normalise
      let k := Nat.log2 m                      -- position of the leading one (0..22)
      let e64 := k + 1023 - 149
      let frac := (m - 2 ^ k) * 2 ^ (52 - k)
      sign * 2 ^ 63 + e64 * 2 ^ 52 + frac
  else sign * 2 ^ 63 + (e + 1023 - 127) * 2 ^ 52 + m * 2 ^ 29

def isNaN64 (b : Nat) : Bool := (b / 2 ^ 52) % 2048 == 2047 && b % 2 ^ 52 != 0

partial def vtext : Value → String
  | .nil => "n"
  | .bool true => "t"
  | .bool false => "f"
  | .int i => s!"i{i}"
  | .f32 b => "D" ++ toHex (beBytes 8 (f32to64 b))
  | .f64 b => "D" ++ toHex (beBytes 8 b)
  | .str s => "s" ++ toHex s
  | .bin s => "b" ++ toHex s
  | .arr vs => vs.foldl (fun acc v => acc ++ " " ++ vtext v) s!"a{vs.length}"
  | .map kvs =>
    let ents := kvs.foldl (fun acc (k, v) => insertEntry (vtext k, vtext v) acc) []
    -- a map that repeats a key is outside the compared fragment: go-codec decodes the second value INTO the first
    -- one (same key, same Go value), which fails when their kinds differ; no Go encoder produces such a map
    let hd := if ents.length < kvs.length then "unsupported-duplicate-keys m" else "m"
    ents.foldl (fun acc (k, v) => acc ++ " " ++ k ++ " " ++ v) s!"{hd}{ents.length}"
  | .ext t d => s!"x{t}:" ++ toHex d

def tagsText : Option Tags → String
  | none => "-"
  | some t => vtext (tagsValue t)

def Msg.text : Msg → String
  | .call seq name arg tags => s!"C {seq} {hx name} {vtext arg} {tagsText tags}"
  | .callc seq ct name arg tags => s!"Z {seq} {ct} {hx name} {vtext arg} {tagsText tags}"
  | .resp seq e r => s!"R {seq} {vtext e} {vtext r}"
  | .notify name arg tags => s!"N {hx name} {vtext arg} {tagsText tags}"
  | .cancel seq name => s!"X {seq} {hx name}"

def FrameRes.text : FrameRes → String
  | .ok m => "ok " ++ m.text
  | .notFound e k seq name => s!"{e.name} {k} {seq} {hx name}"
  | .fail e => e.name

/-! ### Parsing -/

def parseInt? (s : String) : Option Int :=
  if s.startsWith "-" then (String.ofList s.toList.tail).toNat?.map fun n => -(n : Int)
  else s.toNat?.map fun n => (n : Int)

def unhx (s : String) : Option Bytes := if s = "-" then some [] else ofHex s

/-- Parse one value from a token list. -/
partial def parseValue : List String → Option (Value × List String)
  | [] => none
  | tok :: rest =>
    let cs := tok.toList
    let c := cs.headD ' '
    let body := String.ofList cs.tail
    if tok = "n" then some (.nil, rest)
    else if tok = "t" then some (.bool true, rest)
    else if tok = "f" then some (.bool false, rest)
    else if c = 'i' then (parseInt? body).map fun i => (.int i, rest)
    else if c = 'F' then (ofHex body).map fun b => (.f32 (beNat b), rest)
    else if c = 'D' then (ofHex body).map fun b => (.f64 (beNat b), rest)
    else if c = 's' then (ofHex body).map fun b => (.str b, rest)
    else if c = 'b' then (ofHex body).map fun b => (.bin b, rest)
    else if c = 'a' then do
      let n ← body.toNat?
      let rec go (n : Nat) (acc : List Value) (ts : List String) : Option (List Value × List String) :=
        match n with
        | 0 => some (acc.reverse, ts)
        | n + 1 => do
          let (v, ts') ← parseValue ts
          go n (v :: acc) ts'
      let (vs, ts) ← go n [] rest
      pure (.arr vs, ts)
    else if c = 'm' then do
      let n ← body.toNat?
      let rec goP (n : Nat) (acc : List (Value × Value)) (ts : List String) :
          Option (List (Value × Value) × List String) :=
        match n with
        | 0 => some (acc.reverse, ts)
        | n + 1 => do
          let (k, ts1) ← parseValue ts
          let (v, ts2) ← parseValue ts1
          goP n ((k, v) :: acc) ts2
      let (kvs, ts) ← goP n [] rest
      pure (.map kvs, ts)
    else if c = 'x' then
      match body.splitOn ":" with
      | [t, d] => do
        let tag ← t.toNat?
        let data ← ofHex d
        pure (.ext tag data, rest)
      | _ => none
    else none

def parseTags (ts : List String) : Option (Option Tags × List String) :=
  match ts with
  | "-" :: rest => some (none, rest)
  | _ => do
    let (v, rest) ← parseValue ts
    match v with
    | .map kvs =>
      let t ← kvs.mapM fun (k, v) => match k with
        | .str s => some (s, v)
        | _ => none
      pure (some t, rest)
    | _ => none

/-- `C seq name arg tags` etc., the same syntax `Msg.text` prints. -/
def parseMsg (ts : List String) : Option Msg :=
  match ts with
  | "C" :: seq :: name :: rest => do
    let seq ← parseInt? seq
    let name ← unhx name
    let (arg, r1) ← parseValue rest
    let (tags, _) ← parseTags r1
    pure (.call seq name arg tags)
  | "Z" :: seq :: ct :: name :: rest => do
    let seq ← parseInt? seq
    let ct ← parseInt? ct
    let name ← unhx name
    let (arg, r1) ← parseValue rest
    let (tags, _) ← parseTags r1
    pure (.callc seq ct name arg tags)
  | "R" :: seq :: rest => do
    let seq ← parseInt? seq
    let (e, r1) ← parseValue rest
    let (r, _) ← parseValue r1
    pure (.resp seq e r)
  | "N" :: name :: rest => do
    let name ← unhx name
    let (arg, r1) ← parseValue rest
    let (tags, _) ← parseTags r1
    pure (.notify name arg tags)
  | ["X", seq, name] => do
    let seq ← parseInt? seq
    let name ← unhx name
    pure (.cancel seq name)
  | _ => none

end FmpRpc
