/-
  Bytes: byte strings as `List UInt8`, big-endian fixed-width integers.
  Core-only (no Mathlib) so the drivers can be built as `lean_exe`.
-/
namespace FmpRpc

abbrev Bytes := List UInt8

/-- Big-endian encoding of `n` in exactly `k` bytes (most significant first).
    Truncates silently when `n ≥ 256^k`; callers guard the range. -/
def beBytes : Nat → Nat → Bytes
  | 0, _ => []
  | k + 1, n => UInt8.ofNat (n / 256 ^ k % 256) :: beBytes k (n % 256 ^ k)

/-- Big-endian value of a byte string. -/
def beNat : Bytes → Nat
  | [] => 0
  | b :: bs => b.toNat * 256 ^ bs.length + beNat bs

@[simp] theorem beBytes_length (k n : Nat) : (beBytes k n).length = k := by
  induction k generalizing n with
  | zero => rfl
  | succ k ih => simp [beBytes, ih]

theorem beNat_lt (bs : Bytes) : beNat bs < 256 ^ bs.length := by
  induction bs with
  | nil => simp [beNat]
  | cons b bs ih =>
    simp only [beNat, List.length_cons, Nat.pow_succ]
    have hb : b.toNat < 256 := b.toNat_lt
    have h1 : (b.toNat + 1) * 256 ^ bs.length ≤ 256 * 256 ^ bs.length :=
      Nat.mul_le_mul_right _ (Nat.succ_le_of_lt hb)
    rw [Nat.succ_mul] at h1
    rw [Nat.mul_comm (256 ^ bs.length) 256]
    omega

theorem beNat_beBytes (k n : Nat) (h : n < 256 ^ k) : beNat (beBytes k n) = n := by
  induction k generalizing n with
  | zero => simp [Nat.pow_zero] at h; simp [beBytes, beNat, h]
  | succ k ih =>
    have hp : 0 < 256 ^ k := Nat.pow_pos (by decide)
    have hq : n / 256 ^ k < 256 := by
      rw [Nat.div_lt_iff_lt_mul hp]; simpa [Nat.pow_succ, Nat.mul_comm] using h
    simp only [beBytes, beNat, beBytes_length]
    rw [ih _ (Nat.mod_lt _ hp)]
    have : (UInt8.ofNat (n / 256 ^ k % 256)).toNat = n / 256 ^ k := by
      simp [UInt8.toNat_ofNat, Nat.mod_eq_of_lt hq]
    rw [this]
    exact Nat.div_add_mod' n (256 ^ k)

theorem beBytes_beNat (bs : Bytes) : beBytes bs.length (beNat bs) = bs := by
  induction bs with
  | nil => rfl
  | cons b bs ih =>
    have hp : 0 < 256 ^ bs.length := Nat.pow_pos (by decide)
    have hlt := beNat_lt bs
    simp only [List.length_cons, beBytes, beNat]
    have h1 : (b.toNat * 256 ^ bs.length + beNat bs) / 256 ^ bs.length = b.toNat := by
      rw [Nat.mul_comm, Nat.mul_add_div hp, Nat.div_eq_of_lt hlt]; simp
    have h2 : (b.toNat * 256 ^ bs.length + beNat bs) % 256 ^ bs.length = beNat bs := by
      rw [Nat.mul_comm, Nat.mul_add_mod, Nat.mod_eq_of_lt hlt]
    rw [h1, h2, ih]
    have : UInt8.ofNat (b.toNat % 256) = b := by
      rw [Nat.mod_eq_of_lt b.toNat_lt]; simp
    rw [this]

/-- Hex rendering used by the line protocol. -/
def hexDigit (n : Nat) : Char :=
  if n < 10 then Char.ofNat (48 + n) else Char.ofNat (87 + n)

def toHex (bs : Bytes) : String :=
  String.ofList (bs.flatMap fun b => [hexDigit (b.toNat / 16), hexDigit (b.toNat % 16)])

def hexVal (c : Char) : Option Nat :=
  if '0' ≤ c ∧ c ≤ '9' then some (c.toNat - 48)
  else if 'a' ≤ c ∧ c ≤ 'f' then some (c.toNat - 87)
  else if 'A' ≤ c ∧ c ≤ 'F' then some (c.toNat - 55)
  else none

def ofHexChars : List Char → Option Bytes
  | [] => some []
  | [_] => none
  | a :: b :: r => do
    let x ← hexVal a
    let y ← hexVal b
    let t ← ofHexChars r
    pure (UInt8.ofNat (x * 16 + y) :: t)

def ofHex (s : String) : Option Bytes := ofHexChars s.toList

end FmpRpc
