import FmpRpc.Model.Text
/-
  Observable histories of one reconnecting `Connection` (connection.go) and
  the monitors for C14, C15 and the connection-level part of C16.  Times are
  virtual milliseconds.
-/
namespace FmpRpc.CM

inductive Ev where
  | cfg (dontConnectNow forceInitial : Bool) (delay window : Nat) (stop : Nat)
  | ondisc (status : Nat) (t : Nat)
  | dialb (n : Nat) (t : Nat)
  | diale (n : Nat) (out : String) (xp : Int) (t : Nat)
  | reg (xp : Nat) (prot : String)
  | onconnect (xp : Nat) (out : String) (regs : Nat)
  | onconnerr (d : Nat)
  | oncmderr (d : Nat)
  | finalize (xp : Int) (t : Nat)
  | xclose (xp : Nat)
  | tclose
  | cmdb (k : Nat) (firenow : Bool) (t : Nat)
  | exec (k i : Nat) (xp : Int) (out : String) (t : Nat)
  | cmde (k : Nat) (res : String) (t : Nat)
  | frb (k : Nat) (t : Nat)
  | fre (k : Nat) (res : String) (t : Nat)
  | disc (xp : Nat) (t : Nat)
  | shutb (t : Nat) | shute (t : Nat)
  | ff (t : Nat)
  | cx (k : Nat) (t : Nat)
  | cmdto (k : Nat)
  | settled (t : Nat)
  | slowdial
  | stuck (g site : String)
  | other (s : String)
deriving Repr, Inhabited

def n (s : String) : Nat := s.toNat?.getD 0
def z (s : String) : Int := (parseInt? s).getD (-1)

def parseEv (toks : List String) : Ev :=
  match toks with
  | ["cfg", a, b, c, d, e] =>
    let v (s : String) := ((s.splitOn "=").getD 1 "")
    .cfg (v a = "true") (v b = "true") (n (v c)) (n (v d)) (n (v e))
  | ["ondisc", s, t] => .ondisc (n s) (n t)
  | ["dialb", k, t] => .dialb (n k) (n t)
  | ["diale", k, o, x, t] => .diale (n k) o (z x) (n t)
  | ["reg", x, p] => .reg (n x) p
  | ["onconnect", x, o, r] => .onconnect (n x) o (n r)
  | ["onconnerr", d] => .onconnerr (n d)
  | ["oncmderr", d] => .oncmderr (n d)
  | ["finalize", x, t] => .finalize (z x) (n t)
  | ["xclose", x] => .xclose (n x)
  | ["tclose"] => .tclose
  | ["cmdb", k, f, t] => .cmdb (n k) (f = "1") (n t)
  | ["exec", k, i, x, o, t] => .exec (n k) (n i) (z x) o (n t)
  | ["cmde", k, r, t] => .cmde (n k) r (n t)
  | ["frb", k, t] => .frb (n k) (n t)
  | ["fre", k, r, t] => .fre (n k) r (n t)
  | ["disc", x, t] => .disc (n x) (n t)
  | ["shutb", t] => .shutb (n t)
  | ["shute", t] => .shute (n t)
  | ["ff", t] => .ff (n t)
  | ["cx", k, t] => .cx (n k) (n t)
  | ["cmdto", k] => .cmdto (n k)
  | ["settled", t] => .settled (n t)
  | ["stuck", g, s] => .stuck g s
  | ["slowdial"] => .slowdial
  | _ => .other (" ".intercalate toks)

def parseHist (s : String) : List Ev :=
  (s.splitOn " ; ").map fun e => parseEv ((e.splitOn " ").filter (· ≠ ""))

abbrev H := List Ev
def idxd (h : H) : List (Nat × Ev) := (List.range h.length).zip h

structure Cfg where
  dcn : Bool := false
  fib : Bool := false
  delay : Nat := 0
  window : Nat := 0
  stop : Nat := 0

def cfgOf (h : H) : Cfg :=
  match h.findSome? (fun e => match e with | .cfg a b c d e => some (Cfg.mk a b c d e) | _ => none) with
  | some c => c
  | none => {}

/-! ### C14 -/

/-- at most one dial in progress -/
def overlapping : Bool → H → List String
  | _, [] => []
  | inDial, e :: rest =>
    match e with
    | .dialb _ _ => (if inDial then ["C14:overlapping-dials"] else []) ++ overlapping true rest
    | .diale _ _ _ _ => overlapping false rest
    | _ => overlapping inDial rest

/-- does an event end a reconnect sequence?  A successful attempt ends with
    `finalize`; a fatal dial error ends it; so does a failed attempt that is not
    retried (backoff policy stop) and any attempt that ends after Shutdown was
    called. -/
structure SeqSt where
  announced : Bool := false     -- the current sequence has reported its start
  active : Bool := false        -- a sequence is (possibly) in progress
  fails : Nat := 0
  shut : Bool := false          -- Shutdown called during this sequence
  dialsAfterShut : Nat := 0
  seqCount : Nat := 0
  lastFailRetried : Bool := false  -- a failed attempt awaits its OnConnectError
  errNotes : Nat := 0
  lastFailT : Nat := 0
  shutMaybe : Bool := false
  shutPending : Bool := false      -- Shutdown was called since the last sequence end (it cancels a sequence that
                                   -- exists but has not announced itself yet)

def seqCheck (c : Cfg) : SeqSt → H → List String
  | _, [] => []
  | st, e :: rest =>
    match e with
    | .ondisc status _ =>
      let expectFirst := st.seqCount = 0 ∧ ¬ c.fib
      -- a sequence that Shutdown cancelled ends without a further event of its own
      let v1 := if st.active ∧ st.announced ∧ ¬ st.shut ∧ ¬ st.shutMaybe ∧ ¬ st.shutPending then
                  ["C14:sequence-announced-twice"] else []
      let v2 := if (status = 2) ≠ expectFirst then ["C14:wrong-disconnect-status"] else
                if status ≠ 2 ∧ status ≠ 3 then ["C14:wrong-disconnect-status"] else []
      -- a Shutdown before the announcement may or may not have hit this sequence (it cancels a sequence
      -- that already exists): both continuations are accepted
      v1 ++ v2 ++ seqCheck c { announced := true, active := true, seqCount := st.seqCount + 1,
                               shutMaybe := st.shutPending } rest
    | .dialb _ t =>
      let v1 := if ¬ st.announced then ["C14:dial-without-announcement"] else []
      let v2 := if st.lastFailRetried ∧ st.errNotes ≠ 1 then
                  [if st.errNotes = 0 then "C14:retry-without-error-notification" else "C14:duplicate-error-notification"]
                else []
      let v3 := if st.lastFailRetried ∧ t < st.lastFailT + 1000 then ["C14:retry-before-backoff-elapsed"] else []
      let das := if st.shut then st.dialsAfterShut + 1 else st.dialsAfterShut
      let v4 := if das > 1 then ["C14:more-than-one-dial-after-shutdown"] else []
      v1 ++ v2 ++ v3 ++ v4 ++ seqCheck c { st with lastFailRetried := false, errNotes := 0, dialsAfterShut := das } rest
    | .diale _ out _ t =>
      if out = "fatal" then seqCheck c { seqCount := st.seqCount } rest
      else if out = "err" then
        let fails := st.fails + 1
        if st.shut ∨ (c.stop > 0 ∧ fails > c.stop) then seqCheck c { seqCount := st.seqCount } rest
        else seqCheck c { st with fails := fails, lastFailRetried := true, errNotes := 0, lastFailT := t } rest
      else seqCheck c st rest
    | .onconnect _ out _ =>
      if out = "err" then
        let fails := st.fails + 1
        if st.shut ∨ (c.stop > 0 ∧ fails > c.stop) then seqCheck c { seqCount := st.seqCount } rest
        else seqCheck c { st with fails := fails, lastFailRetried := true, errNotes := 0 } rest
      else if st.shut then seqCheck c { seqCount := st.seqCount } rest
      else seqCheck c st rest
    | .onconnerr _ => seqCheck c { st with errNotes := st.errNotes + 1 } rest
    | .finalize _ _ => seqCheck c { seqCount := st.seqCount } rest
    | .shutb _ => seqCheck c { st with shut := st.active, shutPending := true } rest
    | _ => seqCheck c st rest

/-- finalize exactly once per successful attempt, after registration of all
    protocols and a successful OnConnect -/
def finalizeCheck (h : H) : List String :=
  let ih := idxd h
  (ih.filterMap fun (i, e) => match e with
    | .finalize x _ =>
      if x < 0 then some "C14:finalize-without-staged-transport" else
      let okc := ih.any fun (j, e') => match e' with
        | .onconnect x' "ok" regs => decide (j < i) && (x' : Int) == x && regs == 2
        | _ => false
      let dup := (ih.filter fun (j, e') => match e' with | .finalize x' _ => x' == x && j != i | _ => false).length
      if ¬ okc then some "C14:finalize-without-successful-onconnect"
      else if dup > 0 then some "C14:finalized-twice" else none
    | .onconnect _ _ regs => if regs ≠ 2 then some "C14:protocols-not-registered-before-onconnect" else none
    | _ => none) ++
  -- every successful OnConnect is followed by a finalize of that transport (unless shut down)
  (ih.filterMap fun (i, e) => match e with
    | .onconnect x "ok" _ =>
      if ih.any (fun (j, e') => match e' with | .finalize x' _ => decide (j > i) && x' == (x : Int) | _ => false)
      then none else some "C14:successful-connect-never-finalized"
    | _ => none)

/-- waiters are released only after the transport was finalized, and nothing
    runs on a transport before its finalize -/
def releaseCheck (h : H) : List String :=
  let ih := idxd h
  ih.filterMap fun (i, e) => match e with
    | .exec _ _ x _ _ =>
      if x < 0 then none else
      if ih.any (fun (j, e') => match e' with | .finalize x' _ => decide (j < i) && x' == x | _ => false)
      then none else some "C14:waiter-released-before-finalize"
    | _ => none

def stuckCheck (h : H) : List String :=
  h.filterMap fun e => match e with
    | .stuck g s => some ("C14:stuck:" ++ g ++ ":" ++ s)
    | .other m => some ("HARNESS:" ++ m)
    | _ => none

def c14 (h : H) : List String :=
  overlapping false h ++ seqCheck (cfgOf h) {} h ++ finalizeCheck h ++ releaseCheck h ++ stuckCheck h

/-! ### C15 -/

def execsOf (h : H) (k : Nat) : List (Nat × Nat × Int × String × Nat) :=
  (idxd h).filterMap fun (i, e) => match e with
    | .exec k' j x o t => if k' = k then some (i, j, x, o, t) else none
    | _ => none

def cmds (h : H) : List Nat :=
  h.filterMap fun e => match e with | .cmdb k _ _ => some k | _ => none

def cmdEnd (h : H) (k : Nat) : Option (Nat × String × Nat) :=
  (idxd h).findSome? fun (i, e) => match e with
    | .cmde k' r t => if k' = k then some (i, r, t) else none
    | _ => none

def c15 (h : H) : List String :=
  let ih := idxd h
  -- only with a client whose connect callback has succeeded
  (ih.filterMap fun (i, e) => match e with
    | .exec _ _ x _ _ =>
      if x < 0 then some "C15:command-ran-without-client" else
      if ih.any (fun (j, e') => match e' with
          | .onconnect x' "ok" _ => decide (j < i) && (x' : Int) == x | _ => false)
      then none else some "C15:command-ran-before-successful-onconnect"
    | _ => none) ++
  ((cmds h).flatMap fun k =>
    let xs := execsOf h k
    let en := cmdEnd h k
    let cancelled := h.any fun e => match e with | .cx k' _ => k' == k | _ => false
    let shut := h.any fun e => match e with | .shutb _ => true | _ => false
    -- consecutive executions
    let rec pairs : List (Nat × Nat × Int × String × Nat) → List String
      | [] => []
      | [(_, _, _, o, _)] =>
        -- the last execution decides the result, unless the command was cut short
        match en with
        | some (_, r, _) =>
          if o = "ok" ∨ o = "other" then (if r = o then [] else
            if (r = "canceled" ∨ r = "deadline") then [] else ["C15:result-changed"])
          else if r = "canceled" ∨ r = "deadline" ∨ r = "dialfatal" ∨ r = "dialerr" ∨ r = "onconnecterr" ∨ r = "other:context_canceled" then []
          else if shut then [] else ["C15:due-retry-did-not-happen"]
        | none => []
      | (_, _, _, o1, t1) :: (i2, j2, x2, o2, t2) :: rest =>
        (if o1 = "ok" ∨ o1 = "other" then ["C15:retried-although-not-due"] else
         if o1 = "retry" then
           let notes := (ih.filter fun (j, e') => match e' with | .oncmderr _ => true | _ => false).length
           (if t2 < t1 + 1000 then ["C15:retry-before-command-backoff-elapsed"] else []) ++
           (if notes = 0 then ["C15:retry-without-notification"] else [])
         else []) ++ pairs ((i2, j2, x2, o2, t2) :: rest)
    pairs xs ++
    -- with a slow dial (the dial / OnConnect in progress completes only when nothing else can run), a waiting
    -- command whose context ends returns BEFORE that attempt does: the wait does not depend on the attempt
    (if h.any (fun e => match e with | .slowdial => true | _ => false) ∧ xs.isEmpty then
       match (idxd h).findSome? (fun (i, e) => match e with | .cx k' _ => if k' = k then some i else none | _ => none),
             (idxd h).findSome? (fun (i, e) => match e with | .cmdb k' _ _ => if k' = k then some i else none | _ => none) with
       | some ic, some ib =>
         -- was an attempt in progress (dial begun, not ended) when the context ended, the command already waiting?
         let lastB := ((idxd h).filter fun (i, e) => decide (i < ic) && match e with | .dialb _ _ => true | _ => false).getLast?
         match lastB with
         | some (jb, _) =>
           let ended := (idxd h).find? fun (i, e) => decide (i > jb) && match e with | .diale _ _ _ _ => true | _ => false
           match ended, en with
           | some (je, _), some (ie, _, _) =>
             if ib < ic ∧ ic < je ∧ ie > je then ["C15:cancelled-wait-blocked-behind-the-connect-attempt"] else []
           | some (je, _), none => if ib < ic ∧ ic < je then ["C15:cancelled-wait-blocked-behind-the-connect-attempt"] else []
           | _, _ => []
         | none => []
       | _, _ => []
     else []) ++
    -- a command fails with a context error only when ITS OWN context ended (or the connection was shut down):
    -- the fate of the command that happened to start the connect attempt is not shared with the other waiters
    (match en with
     | some (ie, r, _) =>
       let ownTimeout := h.any fun e => match e with | .cmdto k' => k' == k | _ => false
       let stopped := ih.any fun (j, e) => decide (j < ie) && match e with | .shutb _ => true | .settled _ => true | _ => false
       if (r = "canceled" ∨ r = "deadline" ∨ r = "other:context_canceled") ∧ !cancelled ∧ !ownTimeout ∧ !stopped
       then ["C15:context-error-although-the-command's-own-context-is-live"] else []
     | none => []) ++
    -- a cancelled command returns
    (match en with
     | none => ["C15:command-never-returned"]
     | some (_, _, te) =>
       match h.findSome? (fun e => match e with | .cx k' t => if k' = k then some t else none | _ => none) with
       | some tc =>
         -- promptly: in the same virtual instant, unless it is executing / returned already
         if cancelled ∧ te > tc ∧ xs.isEmpty then ["C15:cancelled-wait-returned-late"] else []
       | none => []))

/-! ### C16 (connection level) -/

def c16 (h : H) : List String :=
  let c := cfgOf h
  let ih := idxd h
  -- for every announced sequence: its first dial (if any comes before the next announcement)
  ih.flatMap fun (i0, e0) => match e0 with
    | .ondisc status t0 =>
      if status = 2 ∧ c.delay > 0 then
        match ih.find? (fun (j, e) => decide (j > i0) && match e with
            | .dialb _ _ => true | .ondisc _ _ => true | _ => false) with
        | some (j1, .dialb _ t1) =>
          -- a first-connect delay: no dial before it has elapsed unless a fire-now command or a
          -- fast-forward happened after the announcement
          -- fire-now requests in force while the delay is pending: fast-forwards and marked commands after the
          -- announcement (the timer is armed in the same scheduling step as the announcement), and marked
          -- commands issued before it that are still waiting
          let ended (k : Nat) (before : Nat) : Bool := ih.any fun (j, e) => match e with
            | .cmde k' _ _ => k' == k && decide (j < before) | _ => false
          let after := ih.filter fun (j, e) => decide (i0 < j) && decide (j < j1) && match e with
            | .ff _ => true
            | .cmdb _ true _ => true
            | _ => false
          let before := ih.filter fun (j, e) => decide (j < i0) && match e with
            | .cmdb k true _ => !ended k i0
            | _ => false
          let lastAfter := after.foldl (fun acc (_, e) => match e with
            | .ff t => max acc t | .cmdb _ _ t => max acc t | _ => acc) 0
          (if t1 < t0 + c.delay ∧ after.isEmpty ∧ before.isEmpty then ["C16:dial-before-delay-elapsed"] else []) ++
          (if ¬ after.isEmpty ∧ t1 > lastAfter ∧ lastAfter < t0 + c.delay then ["C16:fire-now-ignored"] else []) ++
          (if after.isEmpty ∧ ¬ before.isEmpty ∧ t1 > t0 then
             ["C16:fire-now-lost:marked-command-issued-before-the-timer-was-armed"] else [])
        | _ => []
      else if status = 3 ∧ c.window > 0 then
        match ih.find? (fun (j, e) => decide (j > i0) && match e with
            | .dialb _ _ => true | .ondisc _ _ => true | _ => false) with
        | some (_, .dialb _ t1) =>
          -- the random delay lies in [0, window): the dial is not held back beyond the window
          -- (plus the harness's scheduling quantum)
          if t1 > t0 + c.window + 500 then ["C16:dial-held-back-beyond-window"] else []
        | _ => []
      else []
    | _ => []

/-- a MARKED command that is sent round DoCommand's loop by io.EOF while a connect delay is pending (the delay was
    announced at an earlier virtual instant, so its timer is armed) fast-forwards it: the sequence's first dial does
    not come later than that execution -/
def c16retry (h : H) : List String :=
  let c := cfgOf h
  let ih := idxd h
  ih.flatMap fun (i0, e0) => match e0 with
    | .ondisc status t0 =>
      if (status = 2 ∧ c.delay > 0) ∨ (status = 3 ∧ c.window > 0) then
        match ih.find? (fun (j, e) => decide (j > i0) && match e with
            | .dialb _ _ => true | .ondisc _ _ => true | _ => false) with
        | some (j1, .dialb _ t1) =>
          let marked (k : Nat) : Bool := ih.any fun (_, e) => match e with | .cmdb k' true _ => k' == k | _ => false
          if ih.any (fun (j, e) => decide (i0 < j) && decide (j < j1) && match e with
              | .exec k _ _ "eof" te => marked k && decide (t0 < te) && decide (te < t1)
              | _ => false)
          then ["C16:fire-now-ignored:marked-command-retrying-after-eof"] else []
        | _ => []
      else []
    | _ => []

def all (h : H) : List String := (c14 h ++ c15 h ++ c16 h ++ c16retry h).eraseDups

end FmpRpc.CM
