/-
  The built-in connection transports (`connTransport`, `ConnectionTransportTLS`
  in connection.go) as a state machine over the operations a `Connection`
  issues on them: Dial (succeeding / failing), Finalize, Close.  Transport k is
  the one created by the k-th successful dial, over network connection k;
  closing a transport closes its network connection too (`closeWithErr`).

  Differences between the two, as in the code: the plain one closes its latest
  connection BEFORE dialing (so also when the dial then fails, after which it
  holds none) and forgets its transports in Close; the TLS one touches nothing
  when a dial fails and keeps its (closed) transports after Close.
-/
namespace FmpRpc.CT

structure S where
  tls : Bool := false
  conn : Option Nat := none       -- the latest network connection it holds
  cur : Option Nat := none        -- finalized transport
  staged : Option Nat := none     -- staged transport
  xpOpen : Nat → Bool := fun _ => false
  connOpen : Nat → Bool := fun _ => false
  next : Nat := 0                 -- successful dials so far

inductive Op where
  | dial | dialfail | finalize | close
deriving DecidableEq, Repr

def closeConn (s : S) (o : Option Nat) : S :=
  { s with connOpen := fun j => if o = some j then false else s.connOpen j }

/-- `Transporter.Close`: the transport and its network connection -/
def closeXp (s : S) (o : Option Nat) : S :=
  { s with xpOpen := fun j => if o = some j then false else s.xpOpen j,
           connOpen := fun j => if o = some j then false else s.connOpen j }

def step (s : S) : Op → S
  | .dialfail => if s.tls then s else { closeConn s s.conn with conn := none }
  | .dial =>
    let s1 := closeConn s s.conn
    let k := s1.next
    let s2 : S := { s1 with next := k + 1, conn := some k,
                            xpOpen := fun j => if j = k then true else s1.xpOpen j,
                            connOpen := fun j => if j = k then true else s1.connOpen j }
    let s3 := closeXp s2 s2.staged
    { s3 with staged := some k }
  | .finalize =>
    let s1 := closeXp s s.cur
    { s1 with cur := s1.staged, staged := none }
  | .close =>
    let s1 := closeConn s s.conn
    let s2 := closeXp s1 s1.cur
    let s3 := closeXp s2 s2.staged
    if s.tls then s3 else { s3 with cur := none, staged := none }

def run (s : S) : List Op → S
  | [] => s
  | o :: os => run (step s o) os

/-- executable trace for the differential run: the open transports / connections after every operation -/
def bits (f : Nat → Bool) (n : Nat) : String :=
  String.ofList ((List.range n).map fun k => if f k then '1' else '0')

def trace (s : S) : List Op → List String
  | [] => []
  | o :: os =>
    let s' := step s o
    s!"x={bits s'.xpOpen s'.next} c={bits s'.connOpen s'.next}" :: trace s' os

def parseOp : String → Option Op
  | "dial" => some .dial | "dialfail" => some .dialfail | "finalize" => some .finalize | "close" => some .close
  | _ => none

end FmpRpc.CT
