import FmpRpc.Model.Prog
/-
  L0: the msgpack data model, go-codec's *writer* as this repository
  configures it (`WriteExt`, `RawToString`: smallest width, non-negative
  integers in the uint family, strings as str incl. str8, `[]byte` as bin),
  and go-codec's *reader* (`DecodeNaked` and the typed readers for the
  targets the framing layer decodes into), which accepts every legal width.
-/
namespace FmpRpc

inductive Value where
  | nil
  | bool (b : Bool)
  | int (i : Int)
  | f32 (bits : Nat)
  | f64 (bits : Nat)
  | str (s : Bytes)
  | bin (s : Bytes)
  | arr (vs : List Value)
  | map (kvs : List (Value × Value))
  | ext (tag : Nat) (data : Bytes)
deriving Repr, Inhabited

/-! ### Writer -/

def encUint (n : Nat) : Bytes :=
  if n < 128 then [UInt8.ofNat n]
  else if n < 256 then 0xcc :: beBytes 1 n
  else if n < 65536 then 0xcd :: beBytes 2 n
  else if n < 4294967296 then 0xce :: beBytes 4 n
  else 0xcf :: beBytes 8 n

def encInt (i : Int) : Bytes :=
  if 0 ≤ i then encUint i.toNat
  else if -32 ≤ i then [UInt8.ofNat (i + 256).toNat]
  else if -128 ≤ i then 0xd0 :: beBytes 1 (i + 256).toNat
  else if -32768 ≤ i then 0xd1 :: beBytes 2 (i + 65536).toNat
  else if -2147483648 ≤ i then 0xd2 :: beBytes 4 (i + 4294967296).toNat
  else 0xd3 :: beBytes 8 (i + 18446744073709551616).toNat

def strHdr (l : Nat) : Bytes :=
  if l < 32 then [UInt8.ofNat (0xa0 + l)]
  else if l < 256 then 0xd9 :: beBytes 1 l
  else if l < 65536 then 0xda :: beBytes 2 l
  else 0xdb :: beBytes 4 l

def binHdr (l : Nat) : Bytes :=
  if l < 256 then 0xc4 :: beBytes 1 l
  else if l < 65536 then 0xc5 :: beBytes 2 l
  else 0xc6 :: beBytes 4 l

def arrHdr (l : Nat) : Bytes :=
  if l < 16 then [UInt8.ofNat (0x90 + l)]
  else if l < 65536 then 0xdc :: beBytes 2 l
  else 0xdd :: beBytes 4 l

def mapHdr (l : Nat) : Bytes :=
  if l < 16 then [UInt8.ofNat (0x80 + l)]
  else if l < 65536 then 0xde :: beBytes 2 l
  else 0xdf :: beBytes 4 l

def extHdr (tag l : Nat) : Bytes :=
  if l = 1 then [0xd4, UInt8.ofNat tag]
  else if l = 2 then [0xd5, UInt8.ofNat tag]
  else if l = 4 then [0xd6, UInt8.ofNat tag]
  else if l = 8 then [0xd7, UInt8.ofNat tag]
  else if l = 16 then [0xd8, UInt8.ofNat tag]
  else if l < 256 then 0xc7 :: beBytes 1 l ++ [UInt8.ofNat tag]
  else if l < 65536 then 0xc8 :: beBytes 2 l ++ [UInt8.ofNat tag]
  else 0xc9 :: beBytes 4 l ++ [UInt8.ofNat tag]

mutual
def enc : Value → Bytes
  | .nil => [0xc0]
  | .bool false => [0xc2]
  | .bool true => [0xc3]
  | .int i => encInt i
  | .f32 b => 0xca :: beBytes 4 b
  | .f64 b => 0xcb :: beBytes 8 b
  | .str s => strHdr s.length ++ s
  | .bin s => binHdr s.length ++ s
  | .arr vs => arrHdr vs.length ++ encList vs
  | .map kvs => mapHdr kvs.length ++ encPairs kvs
  | .ext t d => extHdr t d.length ++ d
def encList : List Value → Bytes
  | [] => []
  | v :: vs => enc v ++ encList vs
def encPairs : List (Value × Value) → Bytes
  | [] => []
  | (k, v) :: r => enc k ++ enc v ++ encPairs r
end

/- Values the writer can emit faithfully (ranges of the fixed-width
   fields).  go-codec never produces anything outside it. -/
mutual
def Value.wf : Value → Bool
  | .int i => decide (-9223372036854775808 ≤ i ∧ i < 18446744073709551616)
  | .f32 b => decide (b < 4294967296)
  | .f64 b => decide (b < 18446744073709551616)
  | .str s => decide (s.length < 4294967296)
  | .bin s => decide (s.length < 4294967296)
  | .arr vs => decide (vs.length < 4294967296) && wfList vs
  | .map kvs => decide (kvs.length < 4294967296) && wfPairs kvs
  | .ext t d => decide (t < 256 ∧ d.length < 4294967296)
  | _ => true
def wfList : List Value → Bool
  | [] => true
  | v :: vs => v.wf && wfList vs
def wfPairs : List (Value × Value) → Bool
  | [] => true
  | (k, v) :: r => k.wf && v.wf && wfPairs r
end

/-! ### Reader -/

/-- Classification of a msgpack descriptor byte (on `Nat`, see DESIGN §3). -/
inductive Desc where
  | posfix (n : Nat) | negfix (i : Int)
  | nil | never | fls | tru
  | f32 | f64
  | uint (w : Nat) | sint (w : Nat)
  | fixstr (l : Nat) | strN (w : Nat)
  | binN (w : Nat)
  | fixarr (l : Nat) | arrN (w : Nat)
  | fixmap (l : Nat) | mapN (w : Nat)
  | fixext (l : Nat) | extN (w : Nat)
deriving Repr, DecidableEq

def classifyNat (b : Nat) : Desc :=
  if b < 0x80 then .posfix b
  else if b < 0x90 then .fixmap (b - 0x80)
  else if b < 0xa0 then .fixarr (b - 0x90)
  else if b < 0xc0 then .fixstr (b - 0xa0)
  else if b = 0xc0 then .nil
  else if b = 0xc1 then .never
  else if b = 0xc2 then .fls
  else if b = 0xc3 then .tru
  else if b = 0xc4 then .binN 1
  else if b = 0xc5 then .binN 2
  else if b = 0xc6 then .binN 4
  else if b = 0xc7 then .extN 1
  else if b = 0xc8 then .extN 2
  else if b = 0xc9 then .extN 4
  else if b = 0xca then .f32
  else if b = 0xcb then .f64
  else if b = 0xcc then .uint 1
  else if b = 0xcd then .uint 2
  else if b = 0xce then .uint 4
  else if b = 0xcf then .uint 8
  else if b = 0xd0 then .sint 1
  else if b = 0xd1 then .sint 2
  else if b = 0xd2 then .sint 4
  else if b = 0xd3 then .sint 8
  else if b = 0xd4 then .fixext 1
  else if b = 0xd5 then .fixext 2
  else if b = 0xd6 then .fixext 4
  else if b = 0xd7 then .fixext 8
  else if b = 0xd8 then .fixext 16
  else if b = 0xd9 then .strN 1
  else if b = 0xda then .strN 2
  else if b = 0xdb then .strN 4
  else if b = 0xdc then .arrN 2
  else if b = 0xdd then .arrN 4
  else if b = 0xde then .mapN 2
  else if b = 0xdf then .mapN 4
  else .negfix ((b : Int) - 256)

def classify (b : UInt8) : Desc := classifyNat b.toNat

/-- Two's complement interpretation of a `w`-byte big-endian field. -/
def sintOf (w : Nat) (bs : Bytes) : Int :=
  let n := beNat bs
  if n < 256 ^ w / 2 then (n : Int) else (n : Int) - (256 ^ w : Nat)

open Prog

def readBe (w : Nat) : Prog Nat := readx w fun bs => ret (beNat bs)

/-- A map key go-codec can store in `map[interface{}]interface{}`. -/
def Value.hashable : Value → Bool
  | .bin _ | .arr _ | .map _ | .ext _ _ => false
  | _ => true

/-- An ext value as `DecodeNaked` delivers it.  Outside the modelled
    fragment: the timestamp extension (tag 0xff) and empty ext data, which
    go-codec treats specially. -/
def extValue (tag : Nat) (bs : Bytes) : Prog Value :=
  if tag = 255 ∨ bs.isEmpty then fail .unsupported else ret (.ext tag bs)

/-- Run `p` n times, collecting the results. -/
def repeatN (p : Prog α) : Nat → Prog (List α)
  | 0 => ret []
  | n + 1 => Prog.bind p fun v => Prog.bind (repeatN p n) fun vs => ret (v :: vs)

/-- One map entry of `DecodeNaked`: the key must be hashable (a `[]byte` key
    is converted to a string). -/
def pairOf (p : Prog Value) : Prog (Value × Value) :=
  Prog.bind p fun k =>
    if k.hashable then Prog.bind p fun v => ret (k, v)
    else match k with
      | .bin s => Prog.bind p fun v => ret (.str s, v)   -- go-codec stores a []byte key as a string
      | _ => fail .dec

/-- `DecodeNaked`: decode whatever comes next.  `fuel` bounds the nesting
    depth (the oracle passes the number of bytes available, which is an upper
    bound since every value takes at least one byte). -/
def decValue : Nat → Prog Value
  | 0 => fail .dec
  | fuel + 1 => readn1 fun b =>
    match classify b with
    | .posfix n => ret (.int n)
    | .negfix i => ret (.int i)
    | .nil => ret .nil
    | .never => fail .dec
    | .fls => ret (.bool false)
    | .tru => ret (.bool true)
    | .f32 => readx 4 fun bs => ret (.f32 (beNat bs))
    | .f64 => readx 8 fun bs => ret (.f64 (beNat bs))
    | .uint w => readx w fun bs => ret (.int (beNat bs))
    | .sint w => readx w fun bs => ret (.int (sintOf w bs))
    | .fixstr l => readx l fun bs => ret (.str bs)
    | .strN w => readx w fun lb => readx (beNat lb) fun bs => ret (.str bs)
    | .binN w => readx w fun lb => readx (beNat lb) fun bs => ret (.bin bs)
    | .fixarr l => Prog.bind (repeatN (decValue fuel) l) fun vs => ret (.arr vs)
    | .arrN w => readx w fun lb =>
        Prog.bind (repeatN (decValue fuel) (beNat lb)) fun vs => ret (.arr vs)
    | .fixmap l => Prog.bind (repeatN (pairOf (decValue fuel)) l) fun kvs => ret (.map kvs)
    | .mapN w => readx w fun lb =>
        Prog.bind (repeatN (pairOf (decValue fuel)) (beNat lb)) fun kvs => ret (.map kvs)
    | .fixext l => readn1 fun t => readx l fun bs => extValue t.toNat bs
    | .extN w => readx w fun lb => readn1 fun t => readx (beNat lb) fun bs => extValue t.toNat bs

/-- `DecodeInt64` followed by the overflow check for a `bits`-wide signed
    target (`int32` for the frame length, `int` for type / seqno / ctype).
    Unsigned 64-bit values above `MaxInt64` wrap, as in go-codec. -/
def decIntBits (bits : Nat) : Prog Int :=
  readn1 fun b =>
    let chk (i : Int) : Prog Int :=
      if -(2 ^ (bits - 1) : Int) ≤ i ∧ i < (2 ^ (bits - 1) : Int) then ret i else fail .dec
    match classify b with
    | .posfix n => chk n
    | .negfix i => chk i
    | .uint w => readx w fun bs =>
        let n := beNat bs
        chk (if n < 2 ^ 63 then (n : Int) else (n : Int) - (2 ^ 64 : Int))
    | .sint w => readx w fun bs => chk (sintOf w bs)
    | .nil => ret 0      -- go-codec: nil leaves the zero value
    | _ => fail .dec

def decInt : Prog Int := decIntBits 64

/-- `DecodeString` into a `string` target: str and bin families of every
    width.  (go-codec also accepts an array of small integers here; that is
    outside the modelled fragment.) -/
def decStr : Prog Bytes :=
  readn1 fun b =>
    match classify b with
    | .nil => ret []      -- go-codec: nil leaves the zero value
    | .fixstr l => readx l ret
    | .strN w => readx w fun lb => readx (beNat lb) ret
    | .binN w => readx w fun lb => readx (beNat lb) ret
    | .fixarr _ | .arrN _ => fail .unsupported
    | _ => fail .dec

/-- A string inside a typed container (tag-map keys): as `decStr`, but nil is
    not accepted there. -/
def decStrStrict : Prog Bytes :=
  readn1 fun b =>
    match classify b with
    | .fixstr l => readx l ret
    | .strN w => readx w fun lb => readx (beNat lb) ret
    | .binN w => readx w fun lb => readx (beNat lb) ret
    | .fixarr _ | .arrN _ => fail .unsupported
    | _ => fail .dec

/-- `[]byte` target (compressed payloads): bin and str families; nil gives an
    empty slice. -/
def decBin : Prog Bytes :=
  readn1 fun b =>
    match classify b with
    | .nil => ret []
    | .fixstr l => readx l ret
    | .strN w => readx w fun lb => readx (beNat lb) ret
    | .binN w => readx w fun lb => readx (beNat lb) ret
    | .fixarr _ | .arrN _ => fail .unsupported
    | _ => fail .dec

/-- `map[string]interface{}` target (RPC tags): keys as strings, values naked.
    nil decodes to "no change" (an empty tag map here). -/
def decTags (fuel : Nat) : Prog (List (Bytes × Value)) :=
  let entry : Prog (Bytes × Value) :=
    Prog.bind decStrStrict fun k => Prog.bind (decValue fuel) fun v => ret (k, v)
  readn1 fun b =>
    match classify b with
    | .nil => ret []
    | .fixmap l => repeatN entry l
    | .mapN w => readx w fun lb => repeatN entry (beNat lb)
    | .posfix 0 => fail .unsupported   -- go-codec quirk: 0x00 read as a "map8" header
    | _ => fail .dec

/-- `*string` target of the default error field: nil leaves the empty
    string. -/
def decErrStr : Prog Bytes :=
  readn1 fun b =>
    match classify b with
    | .nil => ret []
    | .fixstr l => readx l ret
    | .strN w => readx w fun lb => readx (beNat lb) ret
    | .binN w => readx w fun lb => readx (beNat lb) ret
    | .fixarr _ | .arrN _ => fail .unsupported
    | _ => fail .dec

end FmpRpc
