import FmpRpc.Model.Hist
/-
  Monitors: decidable predicates over observable histories, one group per
  property.  Each returns the list of violation signatures found (empty =
  the predicate holds).  The same functions judge histories of the real code
  (through `Driver/Oracle`, op `mon`) and are what the theorems about the
  transport model's ghost history are stated with.
-/
namespace FmpRpc
namespace Mon

abbrev H := List Ev

def idxd (h : H) : List (Nat × Ev) := (List.range h.length).zip h

/-- index of the first `settled` marker (history length when absent) -/
def settledAt (h : H) : Nat :=
  match (idxd h).find? (fun (_, e) => match e with | .settled => true | _ => false) with
  | some (i, _) => i
  | none => h.length

structure Op where
  c : Nat
  ep : Nat
  kind : Kind
  meth : String
  nonce : Int
  ctype : Int
  tagged : Int
  idx : Nat
deriving Repr

def ops (h : H) : List Op :=
  (idxd h).filterMap fun (i, e) => match e with
    | .cb c ep k m n ct tg => some ⟨c, ep, k, m, n, ct, tg, i⟩
    | _ => none

/-- (index, outcome, result) of the return of caller `c` -/
def endOf (h : H) (c : Nat) : Option (Nat × Outcome × Int) :=
  (idxd h).findSome? fun (i, e) => match e with
    | .ce c' o r => if c' = c then some (i, o, r) else none
    | _ => none

def writes (h : H) (ep : Nat) : List (Nat × FrameInfo) :=
  (idxd h).filterMap fun (i, e) => match e with
    | .wr ep' f => if ep' = ep then some (i, f) else none
    | _ => none

def isCallKind : Kind → Bool
  | .call | .callc => true
  | _ => false

def isReqKind : Kind → Bool
  | .call | .callc | .notify => true
  | _ => false

/-- the request frame carrying `nonce`, as written by `ep` -/
def reqFrame (h : H) (ep : Nat) (nonce : Int) : Option (Nat × FrameInfo) :=
  (writes h ep).find? fun (_, f) => isReqKind f.kind && f.nonce = nonce

/-- index of the first close / cut event (history length when none) -/
def firstFault (h : H) : Nat :=
  match (idxd h).find? (fun (_, e) => match e with | .clb _ _ => true | .cut _ => true | .wrf _ _ => true | _ => false) with
  | some (i, _) => i
  | none => h.length

/-- a session in which nothing was closed or cut, and no Write failed, before it settled -/
def undisturbed (h : H) : Bool := decide (settledAt h ≤ firstFault h)

def kindName : Kind → String
  | .call => "call" | .callc => "callc" | .resp => "resp" | .notify => "notify" | .cancel => "cancel" | .bad => "bad"

/-! ### C03 — whole, size-limited frames; oversize refused to its sender only -/

def c03 (max : Nat) (h : H) : List String :=
  let ws := (idxd h).filterMap fun (_, e) => match e with | .wr ep f => some (ep, f) | _ => none
  (ws.filterMap fun (_, f) =>
    if !f.whole then some "C03:write-is-not-one-whole-frame"
    else if f.content > max then some "C03:frame-above-max"
    else if f.kind == .bad then some "C03:unparsable-frame"
    else none) ++
  -- what the wire accepted of one Write is all of it or (connection dead) a prefix after which nothing else
  -- is written: a partial frame followed by further frames corrupts the stream
  ((idxd h).filterMap fun (i, e) => match e with
    | .wrp ep n _ =>
      if n > 0 ∧ (idxd h).any (fun (j, e') => decide (j > i) && match e' with | .wr ep' _ => ep' == ep | _ => false)
      then some "C03:partial-frame-followed-by-more-frames" else none
    | _ => none) ++
  ((ops h).filterMap fun o =>
    match endOf h o.c with
    | some (_, .toobig, _) =>
      if (reqFrame h o.ep o.nonce).isSome then some "C03:refused-message-was-written" else none
    | _ => none)

/-! ### C01 — own invocation, own reply, exactly once -/

def invocations (h : H) : List (Nat × Nat × Nat × String × Int × Int) :=
  (idxd h).filterMap fun (i, e) => match e with
    | .iv ep hd m n tg => some (i, ep, hd, m, n, tg)
    | _ => none

def handlerEnd (h : H) (ep hd : Nat) : Option (Nat × Int × Bool × Bool) :=
  (idxd h).findSome? fun (i, e) => match e with
    | .he ep' hd' r er ce => if ep' = ep ∧ hd' = hd then some (i, r, er, ce) else none
    | _ => none

def c01 (h : H) : List String :=
  let os := ops h
  let ivs := invocations h
  -- every invocation belongs to exactly one issued request, with its method, argument and tags
  (ivs.filterMap fun (_, ep, _, m, n, tg) =>
    match os.find? (fun o => o.nonce = n) with
    | none => if 7000 ≤ n ∧ n < 10000 then none   -- a request injected by the scripted peer, not by a caller
              else some "C01:invocation-without-request"
    | some o =>
      if o.ep + ep ≠ 1 then some "C01:invoked-on-wrong-endpoint"
      else if o.meth ≠ m then some "C01:invoked-wrong-method"
      else if o.tagged ≠ tg then some "C01:tags-differ"
      else none) ++
  (os.filterMap fun o =>
    if (ivs.filter fun (_, _, _, _, n, _) => n = o.nonce).length > 1 then some "C01:invoked-more-than-once" else none) ++
  -- a call that returns without error returns what its own invocation produced
  (os.filterMap fun o =>
    match endOf h o.c with
    | some (ie, .ok, r) =>
      if !isCallKind o.kind then none
      else if r ≠ o.nonce + 1000000 then some "C01:result-of-another-invocation"
      else
        match ivs.find? (fun (_, _, _, _, n, _) => n = o.nonce) with
        | none => some "C01:result-without-invocation"
        | some (_, ep, hd, _, _, _) =>
          match handlerEnd h ep hd with
          | some (ih, r', _, _) => if ih < ie ∧ r' = r then none else some "C01:result-before-handler-finished"
          | none => some "C01:result-before-handler-finished"
    | some (_, .app, _) => if o.meth = "fail" then none else some "C01:application-error-of-another-invocation"
    | _ => none) ++
  -- a reply refused as "too big" whose content is, by the library's own message, not above the limit
  (h.filterMap fun e => match e with
    | .replyerr _ _ "toobig-but-fits" => some "C01:reply-refused-although-within-the-frame-limit"
    | _ => none) ++
  -- replies: at most one per invocation; exactly one when nothing disturbed the session
  (ivs.filterMap fun (_, ep, hd, _, n, _) =>
    match os.find? (fun o => o.nonce = n) with
    | none => none
    | some o =>
      if !isCallKind o.kind then none else
      match reqFrame h o.ep n with
      | none => none
      | some (_, rf) =>
        let replies := (writes h ep).filter fun (_, f) => f.kind == .resp && f.seq = rf.seq
        if replies.length > 1 then some "C01:more-than-one-reply"
        else
          let oversize := h.any fun e => match e with
            | .replyerr ep' q "toobig" => ep' == ep && q == rf.seq   -- really above the limit (sizes in the log message)
            | _ => false
          match handlerEnd h ep hd, endOf h o.c with
          | some (_, _, _, false), some (_, out, _) =>
            if undisturbed h ∧ out != .canceled ∧ out != .deadline ∧ replies.length = 0 then
              some (if oversize then "C01:reply-missing:result-too-large-for-a-frame" else "C01:reply-missing")
            else none
          | some (_, _, _, false), none =>
            if undisturbed h ∧ replies.length = 0 then
              some (if oversize then "C01:reply-missing:result-too-large-for-a-frame" else "C01:reply-missing")
            else none
          | _, _ => none)

/-! ### C08 — cancellation frames follow their call and reach its handler -/

def c08 (h : H) : List String :=
  let os := ops h
  let st := settledAt h
  ((List.range 2).flatMap fun ep =>
    let ws := writes h ep
    ws.filterMap fun (i, f) =>
      if f.kind != .cancel then none else
      match ws.find? (fun (_, g) => isCallKind g.kind && g.seq = f.seq) with
      | none => none   -- the call was abandoned before the hand-off: a stray cancellation, ignored by the peer
      | some (j, g) =>
        if i < j then some "C08:cancel-precedes-call"
        else if g.meth ≠ f.meth then some "C08:cancel-names-another-method"
        else none) ++
  (os.filterMap fun o =>
    if !isCallKind o.kind then none else
    match endOf h o.c, reqFrame h o.ep o.nonce with
    | some (_, out, _), some (j, rf) =>
      if out != .canceled && out != .deadline then none
      else if !undisturbed h then none
      else
        match (writes h o.ep).find? (fun (i, f) => f.kind == .cancel && f.seq = rf.seq && i > j) with
        | some _ => none
        | none => some "C08:cancel-frame-missing"
    | _, _ => none) ++
  -- a handler that only returns on cancellation must be released by its caller's cancellation
  ((invocations h).filterMap fun (_, ep, hd, m, n, _) =>
    if m ≠ "wait" ∨ !undisturbed h then none else
    match os.find? (fun o => o.nonce = n) with
    | none => none
    | some o =>
      if !isCallKind o.kind then none else
      match endOf h o.c with
      | some (_, out, _) =>
        if out != .canceled && out != .deadline then none
        else match handlerEnd h ep hd with
          | some (ih, _, _, _) => if ih < st then none else some "C08:cancel-did-not-reach-handler"
          | none => some "C08:cancel-did-not-reach-handler"
      | none => none) ++
  -- a call whose context ended must have returned by the time the session settled
  (os.filterMap fun o =>
    let ctxEnded := (idxd h).any fun (i, e) => match e with
      | .cx c => c == o.c && decide (i < st)
      | _ => false
    match endOf h o.c with
    | some (i, out, _) =>
      if i < st then none
      else if ctxEnded || out == .deadline then some "C08:cancelled-call-returned-late" else none
    | none => if ctxEnded then some "C08:cancelled-call-returned-late" else none)

/-! ### C09 — a handler's context is cancelled only for its own cancellation or on close -/

def c09 (h : H) : List String :=
  let os := ops h
  let ff := firstFault h
  -- closing a transport cancels the context of every handler still running: a handler that only returns on
  -- cancellation has returned by the end of a session whose transports were all closed
  ((invocations h).filterMap fun (_, ep, hd, m, _, _) =>
    if m ≠ "wait" then none else
    match handlerEnd h ep hd with
    | some _ => none
    | none =>
      if h.any (fun e => match e with | .cle ep' "teardown" => ep' == ep | _ => false)
      then some "C09:handler-not-cancelled-when-the-transport-closed" else none) ++
  (invocations h).filterMap fun (_, ep, hd, _, n, _) =>
    match handlerEnd h ep hd with
    | some (ih, _, _, true) =>
      if ff < ih then none else
      match os.find? (fun o => o.nonce = n) with
      | none => some "C09:cancelled-without-cause"
      | some o =>
        if !isCallKind o.kind then
          (if h.any (fun e => match e with | .inj ep' "negcancel" => ep' == ep | _ => false) then none
           else some ("C09:cancelled-without-cause:" ++ kindName o.kind))
        else
          match reqFrame h o.ep n with
          | none => some "C09:cancelled-without-cause:call"
          | some (_, rf) =>
            match (writes h o.ep).find? (fun (i, f) => f.kind == .cancel && f.seq = rf.seq && i < ih) with
            | some _ => none
            | none => some "C09:cancelled-without-cause:call"
    | _ => none

/-! ### C10 — nobody blocks for ever -/

def c10 (h : H) : List String :=
  ((ops h).filterMap fun o =>
    match endOf h o.c with
    | none => some "C10:call-never-returned"
    | some (_, .other, _) => some "C10:unexpected-error-value"
    | _ => none) ++
  ((idxd h).filterMap fun (i, e) => match e with
    | .clb ep who =>
      if (idxd h).any (fun (j, e') => match e' with
          | .cle ep' who' => decide (j > i) && ep' == ep && who' == who | _ => false)
      then none else some "C10:close-never-returned"
    | .stuck _ site => some ("C10:stuck:" ++ site)
    | _ => none) ++
  -- a Write that fails while the connection stays up is reported to its own sender only: notifications (which
  -- only send) issued around it still return before the session settles
  (let st := settledAt h
   let wfailed := h.any fun e => match e with | .wrf _ _ => true | _ => false
   let closed := (idxd h).any fun (i, e) => match e with | .clb _ _ => decide (i < st) | .cut _ => decide (i < st) | _ => false
   if wfailed ∧ ¬ closed then
     (ops h).filterMap fun o =>
       if o.kind != .notify then none else
       match endOf h o.c with
       | some (i, _, _) => if i < st then none else some "C10:send-blocked-after-write-error"
       | none => some "C10:send-blocked-after-write-error"
   else [])

/-! ### C11 — everything released -/

def c11 (h : H) : List String :=
  (idxd h).filterMap fun (i, e) => match e with
    | .leak f => some ("C11:leak:" ++ f)
    | .pend ep n =>
      -- calls of this endpoint that are still outstanding when the table is read
      let outstanding := ((ops h).filter fun o => o.ep = ep && isCallKind o.kind &&
        (match endOf h o.c with
         | some (j, _, _) => decide (j > i)
         | none => true)).length
      if n ≤ outstanding then none else some "C11:pending-table-holds-a-returned-call"
    | _ => none

/-! ### C12 — no write into the result buffer after the call returned -/

/-- the k-th look-up of the receive loop of `ep` belongs to the k-th response the other side handed to its
    connection (injected duplicates make the pairing unreliable: then `none`) -/
def lookupIndexOf (h : H) (ep : Nat) (seq : Int) : Option Nat :=
  if h.any (fun e => match e with | .inj ep' "dupresp" => ep' == ep | .inj ep' "strayresp" => ep' == ep | _ => false)
  then none else
  let resps := (writes h (1 - ep)).filter fun (_, f) => f.kind == .resp
  match (List.range resps.length).find? (fun k => match resps[k]? with | some (_, f) => f.seq == seq | none => false) with
  | none => none
  | some k =>
    let lks := (idxd h).filter fun (_, e) => match e with | .lk ep' => ep' == ep | _ => false
    (lks[k]?).map (·.1)

def c12 (h : H) : List String :=
  h.filterMap fun e => match e with
    | .lateo _ => some "C12:late-write:reply-after-return-found-the-call-in-the-table"
    | .late c =>
      let ep := match (ops h).find? (fun o => o.c = c) with | some o => o.ep | none => 0
      let dup := h.any fun e' => match e' with | .inj ep' "dupresp" => ep' == ep | _ => false
      match endOf h c with
      | some (_, .ok, _) | some (_, .app, _) =>
        some (if dup then "C12:late-write:duplicated-reply" else "C12:late-write:after-return-with-reply")
      | some (ie, _, _) =>
        -- known: the call was looked up BEFORE it returned and decoded after. A look-up that itself happens
        -- after the return means the returned call was still in the table.
        let seq := match (ops h).find? (fun o => o.c = c) with
          | some o => (match reqFrame h o.ep o.nonce with | some (_, rf) => rf.seq | none => -1)
          | none => -1
        match lookupIndexOf h ep seq with
        | some il => if il > ie then some "C12:late-write:looked-up-after-the-call-had-returned"
                     else some "C12:late-write:returned-without-waiting-for-the-reply"
        | none => some "C12:late-write:returned-without-waiting-for-the-reply"
      | none => some "C12:late-write:returned-without-waiting-for-the-reply"
    | _ => none

/-! ### C13 — order, distinct seqnos, exact send notifier -/

def snwr (h : H) (ep : Nat) : List Ev :=
  h.filterMap fun e => match e with
    | .sn ep' _ => if ep' = ep then some e else none
    | .wr ep' _ => if ep' = ep then some e else none
    | .wrf ep' f => if ep' = ep then some (.wr ep' f) else none   -- handed to the connection all the same
    | _ => none

def snPairs : List Ev → List String
  | [] => []
  | .sn _ s :: .wr _ f :: rest =>
    (if isCallKind f.kind then (if f.seq = s then [] else ["C13:notifier-seqno-differs"])
     else if f.kind == .notify then (if s = -1 then [] else ["C13:notifier-seqno-differs"])
     else ["C13:notifier-for-reply-or-cancel"]) ++ snPairs rest
  | .sn _ _ :: rest => "C13:notifier-without-write" :: snPairs rest
  | .wr _ f :: rest =>
    (if isReqKind f.kind then ["C13:write-without-notifier"] else []) ++ snPairs rest
  | _ :: rest => snPairs rest

def dupSeq : List Int → Bool
  | [] => false
  | s :: r => r.contains s || dupSeq r

def c13 (h : H) : List String :=
  (List.range 2).flatMap fun ep =>
    snPairs (snwr h ep) ++
    -- every call frame handed to the connection, also one whose Write then failed
    (if dupSeq ((snwr h ep).filterMap fun e => match e with
          | .wr _ f => if isCallKind f.kind then some f.seq else none
          | _ => none)
     then ["C13:seqno-reused"] else [])

/-! ### C20 — one record per RPC, under its tag, with its size -/

/-- protocol prefix of a scenario method (`lecho` belongs to the protocol registered while running) -/
def fullMeth (m : String) : String :=
  if m == "lecho" then "late." ++ m
  else if m == "big" then "p." ++ String.ofList (List.replicate 300 'm')
  else "p." ++ m

def typeName (k : Kind) (ctype : Int) : String :=
  match k with
  | .call => "Call"
  | .callc => if ctype = 0 then "Call" else "CallCompressed"
  | .notify => "Notify"
  | .cancel => "Cancel"
  | .resp => "Response"
  | .bad => "Invalid"

def records (h : H) (ep : Nat) : List (String × Nat) :=
  h.filterMap fun e => match e with
    | .recd ep' t s _ => if ep' = ep then some (t, s) else none
    | _ => none

def count (l : List String) (x : String) : Nat := (l.filter (· == x)).length

def removeOne (x : Nat) : List Nat → Option (List Nat)
  | [] => none
  | y :: r => if x = y then some r else (removeOne x r).map (y :: ·)

def c20 (h : H) : List String :=
  if !undisturbed h then [] else
  let os := ops h
  (List.range 2).flatMap fun ep =>
    let recs := records h ep
    -- expected tags on this endpoint
    let client := (os.filter fun o => o.ep = ep).map fun o => typeName o.kind o.ctype ++ " " ++ fullMeth o.meth
    let cancels := (writes h ep).filterMap fun (_, f) =>
      if f.kind == .cancel then some ("Cancel " ++ String.fromUTF8! ⟨f.meth.toArray⟩) else none
    let served := (invocations h).filterMap fun (_, ep', hd, _, n, _) =>
      if ep' ≠ ep then none else
      match os.find? (fun o => o.nonce = n), handlerEnd h ep' hd with
      | some o, some _ => if isCallKind o.kind then some (typeName o.kind o.ctype ++ " " ++ fullMeth o.meth) else none
      | _, _ => none
    let injected := (h.filterMap fun e => match e with
      | .inj ep' "nfcall" => if ep' = ep then some "Call p.nope" else none
      | .inj ep' "nflate" => if ep' = ep then some "Call late.lecho" else none
      | _ => none) ++
      -- a call that raced the registration of its protocol and was answered "not found" is recorded by the server too
      (os.filterMap fun o =>
        let nf := match endOf h o.c with | some (_, .notfound, _) => true | _ => false
        if decide (o.ep + ep = 1) && o.meth == "lecho" && nf then some "Call late.lecho" else none)
    -- an RPC whose argument cannot be encoded is never sent: whether it leaves a record is not specified
    let unsent := ((os.filter fun o => o.ep = ep && h.any fun e => match e with | .badarg c => c == o.c | _ => false).map
      fun o => typeName o.kind o.ctype ++ " " ++ fullMeth o.meth) ++
      -- a call refused for its size is not sent either, nor is the cancellation that names its (oversized) method
      ((os.filter fun o => o.ep = ep && o.meth == "big").flatMap fun o =>
        [typeName o.kind o.ctype ++ " " ++ fullMeth o.meth, "Cancel " ++ fullMeth o.meth])
    let expected := client ++ cancels ++ served ++ injected
    let tags := (expected ++ recs.map (·.1)).eraseDups
    ((tags.filter fun t => !unsent.contains t).filterMap fun t =>
      let e := count expected t
      let a := count (recs.map (·.1)) t
      if e = a then none
      else if a < e then some "C20:record-missing" else some "C20:record-duplicated") ++
    -- sizes of calls that completed normally: own frame + payload of the reply
    (os.filterMap fun o =>
      if o.ep ≠ ep ∨ !isCallKind o.kind then none else
      match endOf h o.c, reqFrame h ep o.nonce with
      | some (_, out, _), some (_, rf) =>
        if out != .ok && out != .app then none else
        match (writes h (1 - ep)).find? (fun (_, f) => f.kind == .resp && f.seq = rf.seq) with
        | none => none
        | some (_, pf) =>
          let t := typeName o.kind o.ctype ++ " " ++ fullMeth o.meth
          let sizes := (recs.filter fun (t', _) => t' == t).map (·.2)
          let dups := (h.filter fun e => match e with | .inj ep' "dupresp" => ep' == ep | _ => false).length
          if (List.range (dups + 1)).any (fun k => sizes.contains (rf.total + (k + 1) * pf.content)) then none
          else some "C20:size-differs"
      | _, _ => none) ++
    -- a call that ended by cancellation / timeout: when the table read for its reply (the k-th read of this
    -- endpoint's receive loop belongs to the k-th response the peer wrote) precedes the moment the caller finishes
    -- its record, the call is still in the table, the reply's size is added at once, and the record includes it
    (if h.any (fun e => match e with | .inj ep' _ => ep' == ep | _ => false) then [] else
     os.filterMap fun o =>
      if o.ep ≠ ep ∨ !isCallKind o.kind then none else
      match endOf h o.c, reqFrame h ep o.nonce with
      | some (_, out, _), some (_, rf) =>
        if out != .canceled && out != .deadline then none else
        let resps := (writes h (1 - ep)).filter fun (_, f) => f.kind == .resp
        match (List.range resps.length).find? (fun k => match resps[k]? with | some (_, f) => f.seq == rf.seq | none => false) with
        | none => none
        | some k =>
          let lrs := (idxd h).filter fun (_, e) => match e with | .lr ep' => ep' == ep | _ => false
          let t := typeName o.kind o.ctype ++ " " ++ fullMeth o.meth
          let who := "@c" ++ toString o.c
          match lrs[k]?, (idxd h).find? (fun (_, e) => match e with | .recd ep' t' _ w => ep' == ep && t' == t && w == who | _ => false),
                resps[k]? with
          | some (il, _), some (ir, .recd _ _ size _), some (_, pf) =>
            if il < ir ∧ size ≠ rf.total + pf.content then some "C20:reply-received-before-the-record-was-finished-is-not-counted"
            else none
          | _, _, _ => none
      | _, _ => none)

/-! ### C07 — lifecycle observers agree -/

/-- One observation reads Err, Done, IsConnected, Done, Err in that order
    (other goroutines may run in between; the state only moves from open to
    closed, so each implication below is valid for any interleaving). -/
structure Obs where
  e1 : String
  d1 : Bool
  conn : Bool
  d2 : Bool
  e2 : String

def obsOf (h : H) (ep : Nat) : List Obs :=
  h.filterMap fun e => match e with
    | .obs ep' e1 d1 c d2 e2 => if ep' = ep then some ⟨e1, d1, c, d2, e2⟩ else none
    | .obsfinal ep' er => if ep' = ep then some ⟨er, true, false, true, er⟩ else none
    | _ => none

def obsCheck : Option String → Bool → List Obs → List String
  | _, _, [] => []
  | fixed, wasDone, o :: rest =>
    (if wasDone && (!o.d1 || !o.d2) then ["C07:done-reopened"] else []) ++
    (if o.d1 && !o.d2 then ["C07:done-reopened"] else []) ++
    (if o.d1 && o.conn then ["C07:connected-after-done"] else []) ++
    (if !o.conn && !o.d2 then ["C07:disconnected-before-done"] else []) ++
    (if o.e1 != "nil" && !o.d1 then ["C07:error-before-done"] else []) ++
    (if (o.d1 || wasDone) && o.e2 == "nil" then ["C07:error-nil-after-done"] else []) ++
    (if wasDone && o.e1 == "nil" then ["C07:error-nil-after-done"] else []) ++
    (match fixed with
     | some f =>
       (if o.e1 != "nil" && o.e1 != f then ["C07:error-changed-after-done"] else []) ++
       (if o.e2 != "nil" && o.e2 != f then ["C07:error-changed-after-done"] else [])
     | none => if o.e1 != "nil" && o.e2 != "nil" && o.e1 != o.e2 then ["C07:error-changed-after-done"] else []) ++
    obsCheck (match fixed with
              | some f => some f
              | none => if o.e1 != "nil" then some o.e1 else if o.e2 != "nil" then some o.e2 else none)
             (wasDone || o.d2) rest

def c07 (h : H) : List String :=
  ((List.range 2).flatMap fun ep => obsCheck none false (obsOf h ep)) ++
  -- not-found calls / notifications, stray responses and stray cancellations leave the traffic before and
  -- after them unaffected: with nothing but such frames injected, every ordinary monitor still holds
  (let benign := h.any fun e => match e with
      | .inj _ k => k == "strayresp" || k == "straycancel" || k == "nfcall" || k == "nfnotify" || k == "nflate" || k == "negcancel"
      | _ => false
   if benign ∧ undisturbed h then
     (if (c10 h).isEmpty then [] else ["C07:traffic-blocked-after-notfound-or-stray-frame"]) ++
     (if (c01 h).any (fun v => v != "C01:reply-missing:result-too-large-for-a-frame") then
        ["C07:traffic-disturbed-after-notfound-or-stray-frame"] else []) ++
     (if h.any (fun e => match e with | .regb _ => true | _ => false) ∧
         ¬ h.any (fun e => match e with | .rege _ => true | _ => false) then
        ["C07:protocol-registration-blocked-after-notfound-frame"] else [])
   else []) ++
  -- a call issued after the registration of its protocol had completed is served, whatever was asked for before
  ((ops h).filterMap fun o =>
    if o.meth != "lecho" then none else
    match endOf h o.c with
    | some (_, .notfound, _) =>
      if (idxd h).any (fun (i, e) => match e with | .rege ep' => decide (ep' + o.ep = 1) && decide (i < o.idx) | _ => false)
      then some "C07:call-to-a-registered-protocol-answered-not-found" else none
    | _ => none)

/-! ### C19 — the tags the handler sees are the tags the caller supplied (own tags, the shared parent's, and what
    the client's tag-extraction function joins), none when none were supplied -/

def c19 (h : H) : List String :=
  let os := ops h
  (invocations h).filterMap fun (_, _, _, _, n, tg) =>
    match os.find? (fun o => o.nonce = n) with
    | some o => if o.tagged ≠ tg then some "C19:handler-tags-differ-from-the-callers" else none
    | none => none

def harnessTrouble (h : H) : List String :=
  h.filterMap fun e => match e with
    | .harness m => some ("HARNESS:" ++ m)
    | _ => none

def all (max : Nat) (h : H) : List String :=
  (c01 h ++ c03 max h ++ c07 h ++ c08 h ++ c09 h ++ c10 h ++ c11 h ++ c12 h ++ c13 h ++ c19 h ++ c20 h ++
    harnessTrouble h).eraseDups

end Mon
end FmpRpc
