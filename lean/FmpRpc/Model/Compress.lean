import FmpRpc.Model.Frame
/-
  L5: compression plumbing (codec.go `compressData`, dispatch.go, request.go
  `Reply`, message.go) over an abstract compressor.  DEFLATE / msgpackzip
  themselves are not modelled: a `Compressor` carries its round-trip law as a
  field, which is a hypothesis of every theorem that takes one (validated on
  the real compressors by the correspondence run), not an axiom.
-/
namespace FmpRpc.Z

structure Compressor where
  compress : Bytes → Bytes
  decompress : Bytes → Option Bytes
  law : ∀ x, decompress (compress x) = some x
  nonempty : ∀ x, compress x ≠ []

/-- the compressors an endpoint knows: one per compression type that has one
    (`compressorCacher` over `CompressionType.NewCompressor`) -/
structure Cacher where
  get : Int → Option Compressor
  agrees : ∀ ct, (get ct).isSome = hasCompressor ct

/-- `compressData(ctype, v)`: the raw value when the type has no compressor,
    else the compressed msgpack encoding as a byte string -/
def compressData (k : Cacher) (ctype : Int) (v : Value) : Value :=
  match k.get ctype with
  | none => v
  | some c => .bin (c.compress (enc v))

/-- the decompression table the receiver's context uses -/
def decompressOf (k : Cacher) (ctype : Int) (blob : Bytes) : Option (Option Bytes) :=
  match k.get ctype with
  | none => none
  | some c => some (c.decompress blob)

def ctxOf (k : Cacher) (methods : List (Bytes × List Bytes)) (pending : List (Int × Int × Bool)) : Ctx :=
  { methods := methods, pending := pending, decompress := decompressOf k }

/-- the request a client puts on the wire for `CallCompressed(ctype)`:
    an ordinary call when `ctype` is CompressionNone -/
def requestMsg (k : Cacher) (seq ctype : Int) (name : Bytes) (arg : Value) (tags : Option Tags) : Msg :=
  if ctype = Gen.compressionNone then .call seq name arg tags
  else .callc seq ctype name (compressData k ctype arg) tags

/-- the reply a server sends to a request of compression type `ctype` -/
def replyMsg (k : Cacher) (seq ctype : Int) (err : Bytes) (res : Value) : Msg :=
  .resp seq (if err.isEmpty then .nil else .str err) (compressData k ctype res)

end FmpRpc.Z
