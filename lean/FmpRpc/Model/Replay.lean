import FmpRpc.Model.Transport
import FmpRpc.Model.Text
/-
  Site-level replay (DESIGN §4.4): a controlled execution of the real code,
  translated by `bin/replay.py` into the action vocabulary of
  `Model/Transport`, is run through `T.step`.  Every real synchronisation
  step must be an ENABLED model action (otherwise `stuck`), and the
  assertions interleaved with the actions (`?…` tokens) compare what the
  real code observably did (outcome of a call, context of a handler, pending
  table, lifecycle accessors) with the model state at that point.

  Executable only; the theorems of `Props/` are about the same `T.step`.
-/
namespace FmpRpc
namespace T

def parseB (s : String) : Option Bool :=
  if s = "1" then some true else if s = "0" then some false else none

def parseFrame : List String → Option Frame
  | ["resp", q, p, ae] => do pure (.resp (← parseInt? q) (← p.toNat?) (← parseB ae))
  | ["call", q, k, a] => do pure (.call (← parseInt? q) (← parseB k) (← a.toNat?))
  | ["notify", k, a] => do pure (.notify (← parseB k) (← a.toNat?))
  | ["cancel", q] => do pure (.cancel (← parseInt? q))
  | _ => none

def parseAct (toks : List String) : Option Act :=
  match toks with
  | ["callStart", c] => c.toNat?.map .callStart
  | ["ctxCancel", c] => c.toNat?.map .ctxCancel
  | ["notifyStart", n] => n.toNat?.map .notifyStart
  | ["nctxCancel", n] => n.toNat?.map .nctxCancel
  | ["cBegin", c] => c.toNat?.map .cBegin
  | ["cNew", c] => c.toNat?.map .cNew
  | ["cAdd", c] => c.toNat?.map .cAdd
  | ["cEnc", c, f] => do pure (.cEnc (← c.toNat?) (← parseB f))
  | ["cCompressFail", c] => c.toNat?.map .cCompressFail
  | ["cHandDone", c] => c.toNat?.map .cHandDone
  | ["cHandCtx", c] => c.toNat?.map .cHandCtx
  | ["cSel1Err", c] => c.toNat?.map .cSel1Err
  | ["cSel1Ctx", c] => c.toNat?.map .cSel1Ctx
  | ["cSel1Stop", c] => c.toNat?.map .cSel1Stop
  | ["cSel2Res", c] => c.toNat?.map .cSel2Res
  | ["cSel2Ctx", c] => c.toNat?.map .cSel2Ctx
  | ["cSel2Stop", c] => c.toNat?.map .cSel2Stop
  | ["cCancelEnc", c] => c.toNat?.map .cCancelEnc
  | ["cCancelEncFail", c] => c.toNat?.map .cCancelEncFail
  | ["cCancelDone", c] => c.toNat?.map .cCancelDone
  | ["cCancelAsync", c] => c.toNat?.map .cCancelAsync
  | ["cPoll", c] => c.toNat?.map .cPoll
  | ["cCancelRec", c] => c.toNat?.map .cCancelRec
  | ["cFin", c] => c.toNat?.map .cFin
  | ["cRm", c] => c.toNat?.map .cRm
  | ["aDone", y] => y.toNat?.map .aDone
  | ["nBegin", n] => n.toNat?.map .nBegin
  | ["nEnc", n, f] => do pure (.nEnc (← n.toNat?) (← parseB f))
  | ["nHandDone", n] => n.toNat?.map .nHandDone
  | ["nHandCtx", n] => n.toNat?.map .nHandCtx
  | ["nSelErr", n] => n.toNat?.map .nSelErr
  | ["nSelStop", n] => n.toNat?.map .nSelStop
  | ["nSelCtx", n] => n.toNat?.map .nSelCtx
  | ["nFin", n] => n.toNat?.map .nFin
  | ["wRecv", x] => x.toNat?.map .wRecv
  | ["wNotify"] => some .wNotify
  | ["wWrite", ok] => (parseB ok).map .wWrite
  | ["wDone"] => some .wDone
  | ["wStop"] => some .wStop
  | ["rStart"] => some .rStart
  | "rDeliver" :: f => (parseFrame f).map .rDeliver
  | ["rFatal"] => some .rFatal
  | ["rLookup"] => some .rLookup
  | ["rDecode"] => some .rDecode
  | ["rDeliverSlot"] => some .rDeliverSlot
  | ["rNfEnc"] => some .rNfEnc
  | ["rNfHandDone"] => some .rNfHandDone
  | ["rNfSel"] => some .rNfSel
  | ["rBegSend"] => some .rBegSend
  | ["rBegStop"] => some .rBegStop
  | ["rSpawn"] => some .rSpawn
  | ["rCanSend"] => some .rCanSend
  | ["rCanStop"] => some .rCanStop
  | ["rCloseDone"] => some .rCloseDone
  | ["hReturn", h, r, ae] => do pure (.hReturn (← h.toNat?) (← r.toNat?) (← parseB ae))
  | ["hEnc", h, f] => do pure (.hEnc (← h.toNat?) (← parseB f))
  | ["hHandDone", h] => h.toNat?.map .hHandDone
  | ["hHandCtx", h] => h.toNat?.map .hHandCtx
  | ["hSelErr", h] => h.toNat?.map .hSelErr
  | ["hSelCtx", h] => h.toNat?.map .hSelCtx
  | ["hFin", h] => h.toNat?.map .hFin
  | ["hEndSend", h] => h.toNat?.map .hEndSend
  | ["hEndStop", h] => h.toNat?.map .hEndStop
  | ["tStop"] => some .tStop
  | ["kStart", k] => k.toNat?.map .kStart
  | ["kEnter", k] => k.toNat?.map .kEnter
  | ["kWake", k] => k.toNat?.map .kWake
  | ["kStep", k] => k.toNat?.map .kStep
  | _ => none

/-! ### assertions about the model state, in the vocabulary of what the harness observes -/

def evName : EV → String
  | .nil => "nil" | .eof => "eof" | .ctx => "ctx" | .wr => "wr" | .toobig => "toobig"

def outText : Out → String
  | .ok r ae => s!"ok:{r}:{if ae then 1 else 0}"
  | .err e => "err:" ++ evName e

def cpcName : CPc → String
  | .absent => "absent" | .begin => "begin" | .new => "new" | .add => "add" | .enc => "enc"
  | .hand x => s!"hand:{x}" | .sel1 x => s!"sel1:{x}" | .sel2 => "sel2" | .cEnc => "cEnc"
  | .cHand y => s!"cHand:{y}" | .cPoll y => s!"cPoll:{y}" | .cRec => "cRec"
  | .fin o => "fin:" ++ outText o | .rm o => "rm:" ++ outText o | .ret o => "ret:" ++ outText o

def npcName : NPc → String
  | .absent => "absent" | .begin => "begin" | .enc => "enc" | .hand x => s!"hand:{x}" | .sel x => s!"sel:{x}"
  | .fin o => "fin:" ++ outText o | .ret o => "ret:" ++ outText o

def hpcName : HPc → String
  | .absent => "absent" | .run => "run" | .rEnc r ae => s!"rEnc:{r}:{if ae then 1 else 0}" | .rHand x => s!"rHand:{x}"
  | .rSel x => s!"rSel:{x}" | .rFin => "rFin" | .endSel => "endSel" | .exited => "exited"

def wpcName : WPc → String
  | .idle => "idle" | .got x => s!"got:{x}" | .writing x => s!"writing:{x}" | .wrote x e => s!"wrote:{x}:{evName e}"
  | .exited => "exited"

def rpcName : RPc → String
  | .idle => "idle" | .reading => "reading" | .respLookup q _ _ => s!"respLookup:{q}" | .respDecode c q _ _ => s!"respDecode:{c}:{q}"
  | .respDeliver c q _ _ => s!"respDeliver:{c}:{q}" | .nfEnc q => s!"nfEnc:{q}" | .nfHand x => s!"nfHand:{x}" | .nfSel x => s!"nfSel:{x}"
  | .begSel h => s!"begSel:{h}" | .spawn h => s!"spawn:{h}" | .canSel q => s!"canSel:{q}" | .closing => "closing" | .exited => "exited"

def kpcName : KPc → String
  | .absent => "absent" | .enter => "enter" | .waitOnce => "waitOnce" | .setErr => "setErr" | .stop => "stop"
  | .dstop => "dstop" | .rstop => "rstop" | .waitTask => "waitTask" | .encClose => "encClose" | .connClose => "connClose"
  | .waitWriter => "waitWriter" | .done => "done"

/-- number of pending-table entries among the seqnos issued so far -/
def pendingCount (s : St) : Nat :=
  ((List.range s.nextSeq).filter fun q => (s.pending (Int.ofNat q)).isSome).length

/-- `?what args… expected`: `none` when the assertion holds, otherwise what the model has instead -/
def checkAssert (s : St) (toks : List String) : Option String :=
  let cmp (have_ want : String) : Option String := if have_ = want then none else some s!"model has {have_}, implementation {want}"
  match toks with
  | ["?cpc", c, want] => cmp (cpcName (s.callers (c.toNat?.getD 0)).pc) want
  | ["?npc", n, want] => cmp (npcName (s.notifiers (n.toNat?.getD 0)).pc) want
  | ["?hpc", h, want] => cmp (hpcName (s.handlers (h.toNat?.getD 0)).pc) want
  | ["?kpc", k, want] => cmp (kpcName (s.closers (k.toNat?.getD 0)).pc) want
  | ["?w", want] => cmp (wpcName s.w) want
  | ["?r", want] => cmp (rpcName s.r) want
  | ["?seq", c, want] => cmp (toString (s.callers (c.toNat?.getD 0)).seq) want
  | ["?hctx", h, want] => cmp (if (s.handlers (h.toNat?.getD 0)).ctxCancelled then "1" else "0") want
  | ["?pend", want] => cmp (toString (pendingCount s)) want
  | ["?stop", want] => cmp (if s.stopCh then "1" else "0") want
  | ["?err", want] =>
    -- what `Err()` returns: nil while stopCh is open, the stored error afterwards (classes: nil / eof / other)
    let have_ := if !s.stopCh then "nil" else match s.stopErr with
      | some .eof => "eof" | some _ => "other" | none => "nil"
    cmp have_ want
  | ["?capp", c] =>
    (match (s.callers (c.toNat?.getD 0)).pc with
     | .ret (.ok _ true) => none
     | pc => some s!"model has {cpcName pc}, implementation returned an application error")
  | ["?buf", c, want] => cmp (toString (s.callers (c.toNat?.getD 0)).buf) want
  | ["?wlog", want] => cmp (toString s.wlog.length) want
  | ["?taskloop", want] => cmp (if s.taskLoop then "1" else "0") want
  | ["?rec", c, want] => cmp (toString (s.callers (c.toNat?.getD 0)).recSize) want   -- Size of the call record
  | ["?inc", c, want] => cmp (toString (s.callers (c.toNat?.getD 0)).inc.length) want -- replies counted in it
  | _ => some "unknown assertion"

def summary (s : St) : String :=
  s!"w={wpcName s.w} r={rpcName s.r} taskLoop={s.taskLoop} stop={s.stopCh} dStop={s.dStop} rStop={s.rStop} rClosed={s.rClosed} encDone={s.encDone} encClosed={s.encClosed} connClosed={s.connClosed} nextSeq={s.nextSeq} nextSend={s.nextSend} nextHandler={s.nextHandler}"

/-- run the items (actions and assertions) one after the other -/
def replayGo (s : St) (i : Nat) (steps : Nat) : List (List String) → String
  | [] => s!"ok steps={steps} writes={s.wlog.length} hist={s.hist.length}"
  | toks :: rest =>
    match toks with
    | [] => replayGo s (i + 1) steps rest
    | t :: _ =>
      if t.startsWith "?" then
        match checkAssert s toks with
        | none => replayGo s (i + 1) steps rest
        | some why => s!"differs at {i} `{" ".intercalate toks}`: {why} | {summary s}"
      else
        match parseAct toks with
        | none => s!"bad-action at {i} `{" ".intercalate toks}`"
        | some a =>
          match step s a with
          | some s' => replayGo s' (i + 1) (steps + 1) rest
          | none =>
            let who := match toks with
              | [_, x] | [_, x, _] => (match x.toNat? with
                | some n => s!" caller={cpcName (s.callers n).pc} notifier={npcName (s.notifiers n).pc} handler={hpcName (s.handlers n).pc} closer={kpcName (s.closers n).pc} send={repr (s.sends n).st}"
                | none => "")
              | _ => ""
            s!"stuck at {i} `{" ".intercalate toks}`: not enabled in the model | {summary s}{who}"

/-- `k=v,k=v,…` (or `-` for the empty list) -/
def parseAssoc (s : String) : Option (List (Nat × Nat)) :=
  if s = "-" ∨ s = "" then some []
  else (s.splitOn ",").mapM fun kv =>
    match kv.splitOn "=" with
    | [k, v] => do pure (← k.toNat?, ← v.toNat?)
    | _ => none

/-- the function that looks its argument up in the list (0 when absent) -/
def lookupSz (l : List (Nat × Nat)) (k : Nat) : Nat := (List.lookup k l).getD 0

/-- `sizes f:x=bytes,… p:p=len,…`: the frame-size table (by send id) and the
    response-content-length table (by payload id) of the run -/
def parseSizes : List String → Option ((Nat → Nat) × (Nat → Nat))
  | ["sizes", fs, ps] =>
    match fs.splitOn ":", ps.splitOn ":" with
    | ["f", fl], ["p", pl] => do
      let f ← parseAssoc fl
      let p ← parseAssoc pl
      pure (lookupSz f, lookupSz p)
    | _, _ => none
  | _ => none

/-- `hasNotifier` is a parameter of the endpoint: the first item may set it; so are
    the size tables `fsize` / `psize`: a `sizes` item right after it may set them -/
def replay (body : String) : String :=
  let items := (body.splitOn " ; ").map fun e => (e.splitOn " ").filter (· ≠ "")
  let (s0, i0, items) : St × Nat × List (List String) := match items with
    | ["notifier", b] :: rest => ({ init with hasNotifier := b = "1" }, 1, rest)
    | _ => (init, 0, items)
  match items with
  | ("sizes" :: sz) :: rest =>
    match parseSizes ("sizes" :: sz) with
    | some (f, p) => replayGo { s0 with fsize := f, psize := p } (i0 + 1) 0 rest
    | none => s!"bad-action at {i0} `{" ".intercalate ("sizes" :: sz)}`"
  | _ => replayGo s0 i0 0 items

end T
end FmpRpc
