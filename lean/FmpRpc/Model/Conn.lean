/-
  L4: the reconnecting `Connection` (connection.go) as a labelled transition
  system: the mutex-protected fields (`client`, `reconnectChan`, `cancelFunc`,
  `reconnectedBefore`), reconnect sequences (`doReconnect` with
  `RetryNotifyWithContext`, `connect`), waiters (`waitForConnection`, used by
  `DoCommand` and `ForceReconnect`), `Shutdown`, disconnections.  The
  `ConnectionTransport`, the handler callbacks and the backoff policy are the
  environment: dial / OnConnect outcomes, ShouldRetryOnConnect verdicts and
  backoff stops are chosen freely.  Any number of waiters and sequences.
-/
namespace FmpRpc.Cn

inductive CErr where
  | ctx            -- context canceled (Shutdown)
  | dial (fatal : Bool)
  | onconnect
deriving DecidableEq, Repr, Inhabited

inductive SPc where
  | absent
  | announce           -- about to call OnDisconnected
  | delay              -- connect delay armed, in Wait()
  | retryStart         -- RetryNotifyWithContext: initial context check
  | dial               -- inside transport.Dial
  | dialed (xp : Nat)  -- Dial returned a transport: register protocols
  | registered (xp : Nat)  -- protocols registered: OnConnect
  | connected (xp : Nat)   -- OnConnect succeeded: lock, publish, Finalize
  | attemptEnd (e : Option CErr)   -- after connect(): select ctx.Done / ShouldRetryOnConnect
  | backoff (e : CErr)             -- NextBackOff / OnConnectError
  | sleep (e : CErr)
  | release            -- lock; close(reconnectChan); clear
  | done
deriving DecidableEq, Repr, Inhabited

structure Seq where
  pc : SPc := .absent
  first : Bool := false          -- disconnect status reported: StartingFirstConnection?
  ctxCancelled : Bool := false
  errSlot : Option CErr := none  -- *reconnectErrPtr
  closed : Bool := false         -- reconnectChan closed
  announcements : Nat := 0
  finalizes : Nat := 0
  dials : Nat := 0
  dialsAfterCancel : Nat := 0
  errNotes : Nat := 0
  fails : Nat := 0
  published : Option Nat := none -- transport it published
deriving Repr, Inhabited

inductive WPc where
  | absent
  | start (force : Bool)
  | waiting (sid : Nat)
  | ret (r : Option CErr)      -- returned: nil or an error
deriving DecidableEq, Repr, Inhabited

structure Waiter where
  pc : WPc := .absent
  ctxDone : Bool := false
  relBy : Option Nat := none   -- ghost: sequence that released it
deriving Repr, Inhabited

inductive Evt where
  | announced (sid : Nat) (first : Bool)
  | dialBegin (sid : Nat) | dialEnd (sid : Nat)
  | onConnectOk (xp : Nat)
  | finalized (sid xp : Nat)
  | released (sid : Nat)
  | returned (w : Nat) (r : Option CErr)
deriving Repr, Inhabited

structure St where
  forceInitial : Bool := false
  client : Option Nat := none
  reconnectChan : Option Nat := none
  cancelSet : Bool := false
  reconnectedBefore : Bool := false
  seqs : Nat → Seq := fun _ => {}
  nextSeq : Nat := 0
  waiters : Nat → Waiter := fun _ => {}
  current : Option Nat := none          -- the connection transport's finalized transport
  staged : Option Nat := none
  nextXp : Nat := 0
  xpConnected : Nat → Bool := fun _ => false
  xpRegistered : Nat → Bool := fun _ => false
  dialing : Nat := 0                    -- ghost: dials in progress
  hist : List Evt := []

def init (forceInitial : Bool) : St := { forceInitial := forceInitial, reconnectedBefore := forceInitial }

def setSeq (s : St) (i : Nat) (v : Seq) : St := { s with seqs := fun j => if j = i then v else s.seqs j }
def setWaiter (s : St) (i : Nat) (v : Waiter) : St := { s with waiters := fun j => if j = i then v else s.waiters j }
def log (s : St) (e : Evt) : St := { s with hist := s.hist ++ [e] }

/-- `isConnectedLocked` -/
def isConnected (s : St) : Bool :=
  (match s.current with | some x => s.xpConnected x | none => false) && s.client.isSome

inductive Act where
  | wNew (w : Nat) (force : Bool)
  | wCtx (w : Nat)                       -- the waiter's context ends
  | wStart (w : Nat)                     -- the locked section of waitForConnection
  | wCtxRet (w : Nat)
  | wRelease (w : Nat)
  | sAnnounce (sid : Nat) (delay : Bool)
  | sDelayDone (sid : Nat)
  | sRetryStart (sid : Nat)
  | sDialEnd (sid : Nat) (ok : Bool) (fatal : Bool)
  | sRegister (sid : Nat)
  | sOnConnect (sid : Nat) (ok : Bool)
  | sPublish (sid : Nat)
  | sAttemptEnd (sid : Nat) (retry : Bool)
  | sBackoff (sid : Nat) (stop : Bool)
  | sSleepDone (sid : Nat) | sSleepCtx (sid : Nat)
  | sRelease (sid : Nat)
  | shutdown
  | disconnect
deriving Repr

/-- `getReconnectChanLocked` -/
def getReconnectChan (s : St) : St × Nat :=
  match s.reconnectChan with
  | some sid => (s, sid)
  | none =>
    let sid := s.nextSeq
    let first := !s.reconnectedBefore
    ({ (setSeq s sid { pc := .announce, first := first }) with
        reconnectChan := some sid, cancelSet := true, reconnectedBefore := true, nextSeq := sid + 1 }, sid)

def step (s : St) : Act → Option St
  | .wNew w force =>
    if (s.waiters w).pc = .absent then some (setWaiter s w { pc := .start force }) else none
  | .wCtx w =>
    let wt := s.waiters w
    if wt.pc ≠ .absent then some (setWaiter s w { wt with ctxDone := true }) else none
  | .wStart w =>
    let wt := s.waiters w
    match wt.pc with
    | .start force =>
      if !force && isConnected s then
        some (log (setWaiter s w { wt with pc := .ret none }) (.returned w none))
      else
        let (s', sid) := getReconnectChan s
        some (setWaiter s' w { wt with pc := .waiting sid })
    | _ => none
  | .wCtxRet w =>
    let wt := s.waiters w
    match wt.pc with
    | .waiting _ =>
      if wt.ctxDone then some (log (setWaiter s w { wt with pc := .ret (some .ctx) }) (.returned w (some .ctx)))
      else none
    | _ => none
  | .wRelease w =>
    let wt := s.waiters w
    match wt.pc with
    | .waiting sid =>
      let sq := s.seqs sid
      if sq.closed then
        some (log (setWaiter s w { wt with pc := .ret sq.errSlot, relBy := some sid }) (.returned w sq.errSlot))
      else none
    | _ => none
  | .sAnnounce sid delay =>
    let sq := s.seqs sid
    if sq.pc = .announce then
      some (log (setSeq s sid { sq with pc := if delay then .delay else .retryStart,
                                         announcements := sq.announcements + 1 }) (.announced sid sq.first))
    else none
  | .sDelayDone sid =>
    let sq := s.seqs sid
    if sq.pc = .delay then some (setSeq s sid { sq with pc := .retryStart }) else none
  | .sRetryStart sid =>
    let sq := s.seqs sid
    if sq.pc = .retryStart then
      if sq.ctxCancelled then some (setSeq s sid { sq with pc := .release, errSlot := some .ctx })
      else
        let sq' : Seq := { sq with pc := SPc.dial, dials := sq.dials + 1 }
        some (log { (setSeq s sid sq') with dialing := s.dialing + 1 } (.dialBegin sid))
    else none
  | .sDialEnd sid ok fatal =>
    let sq := s.seqs sid
    if sq.pc = .dial then
      let s1 := log { s with dialing := s.dialing - 1 } (.dialEnd sid)
      if ok then
        let x := s.nextXp
        some { (setSeq s1 sid { sq with pc := .dialed x }) with
                nextXp := x + 1, staged := some x,
                xpConnected := fun j => if j = x then true else s.xpConnected j }
      else some (setSeq s1 sid { sq with pc := .attemptEnd (some (.dial fatal)) })
    else none
  | .sRegister sid =>
    let sq := s.seqs sid
    match sq.pc with
    | .dialed x =>
      some { (setSeq s sid { sq with pc := .registered x }) with
              xpRegistered := fun j => if j = x then true else s.xpRegistered j }
    | _ => none
  | .sOnConnect sid ok =>
    let sq := s.seqs sid
    match sq.pc with
    | .registered x =>
      if ok then some (log (setSeq s sid { sq with pc := .connected x }) (.onConnectOk x))
      else some (setSeq s sid { sq with pc := .attemptEnd (some .onconnect) })
    | _ => none
  | .sPublish sid =>
    let sq := s.seqs sid
    match sq.pc with
    | .connected x =>
      -- under the mutex: client, server, transport.Finalize()
      some (log { (setSeq s sid { sq with pc := .attemptEnd none, finalizes := sq.finalizes + 1, published := some x }) with
                    client := some x, current := s.staged, staged := none } (.finalized sid x))
    | _ => none
  | .sAttemptEnd sid retry =>
    let sq := s.seqs sid
    match sq.pc with
    | .attemptEnd e =>
      if sq.ctxCancelled then
        -- select { case <-ctx.Done(): *reconnectErrPtr = ctx.Err(); return nil }
        some (setSeq s sid { sq with pc := .release, errSlot := some .ctx })
      else
        match e with
        | none => some (setSeq s sid { sq with pc := .release })
        | some err =>
          let fatal := match err with | .dial true => true | _ => false
          if fatal || !retry then some (setSeq s sid { sq with pc := .release, errSlot := some err })
          else some (setSeq s sid { sq with pc := .backoff err, fails := sq.fails + 1 })
    | _ => none
  | .sBackoff sid stop =>
    let sq := s.seqs sid
    match sq.pc with
    | .backoff e =>
      if stop then some (setSeq s sid { sq with pc := .release, errSlot := some e })
      else some (setSeq s sid { sq with pc := .sleep e, errNotes := sq.errNotes + 1 })
    | _ => none
  | .sSleepDone sid =>
    let sq := s.seqs sid
    match sq.pc with
    | .sleep _ =>
      let dac := if sq.ctxCancelled then sq.dialsAfterCancel + 1 else sq.dialsAfterCancel
      let sq' : Seq := { sq with pc := SPc.dial, dials := sq.dials + 1, dialsAfterCancel := dac }
      some (log { (setSeq s sid sq') with dialing := s.dialing + 1 } (.dialBegin sid))
    | _ => none
  | .sSleepCtx sid =>
    let sq := s.seqs sid
    match sq.pc with
    | .sleep _ => if sq.ctxCancelled then some (setSeq s sid { sq with pc := .release, errSlot := some .ctx }) else none
    | _ => none
  | .sRelease sid =>
    let sq := s.seqs sid
    if sq.pc = .release then
      some (log { (setSeq s sid { sq with pc := .done, closed := true }) with reconnectChan := none, cancelSet := false }
        (.released sid))
    else none
  | .shutdown =>
    let s1 := match s.reconnectChan with
      | some sid => if s.cancelSet then setSeq s sid { (s.seqs sid) with ctxCancelled := true } else s
      | none => s
    match s1.current with
    | some x => some { s1 with xpConnected := fun j => if j = x then false else s1.xpConnected j }
    | none => some s1
  | .disconnect =>
    match s.current with
    | some x => some { s with xpConnected := fun j => if j = x then false else s.xpConnected j }
    | none => none

inductive Reachable (fi : Bool) : St → Prop where
  | init : Reachable fi (init fi)
  | step (s s' : St) (a : Act) (h : Reachable fi s) (hs : step s a = some s') : Reachable fi s'

/-- a sequence is alive between its creation and its release -/
def alive (q : Seq) : Bool := q.pc != .absent && q.pc != .done

/-! ### DoCommand's decision logic (one iteration) -/

inductive CmdOut where
  | ok | eof | retriable | other
deriving DecidableEq, Repr

inductive CmdNext where
  | returnNil
  | returnErr (e : CmdOut)
  | backoffThenRerun          -- OnDoCommandError, command backoff, run again on the same client
  | waitForConnectionThenRerun
deriving DecidableEq, Repr

/-- what `DoCommand` does with the outcome of one execution of the command
    (`shouldRetry` is the handler's verdict; `backoffStop` the policy's) -/
def afterExec (out : CmdOut) (shouldRetry backoffStop : Bool) : CmdNext :=
  match out with
  | .ok => .returnNil
  | o =>
    if shouldRetry then (if backoffStop then .returnErr o else .backoffThenRerun)
    else if o = .eof then .waitForConnectionThenRerun
    else .returnErr o

end FmpRpc.Cn
