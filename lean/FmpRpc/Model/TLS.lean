/-
  L5: the decision logic of `ConnectionTransportTLS.Dial` (connection.go):
  which `tls.Config` the handshake runs under, the race between the handshake
  and the timeout, and what exists afterwards.  Certificate path validation
  and the TLS handshake are the standard library's: they enter as the DEFINED
  contract `verify` (trusted base), exercised by the correspondence run with
  generated certificates, not proved.
-/
namespace FmpRpc.TLS

inductive Roots where
  | system | pem (id : Nat)
deriving DecidableEq, Repr

structure Cfg where
  insecureSkipVerify : Bool := false
  serverName : String := ""
  roots : Roots := .system
deriving DecidableEq, Repr

structure Cert where
  issuer : Roots          -- which root set its chain ends in
  names : List String
  inValidity : Bool
deriving Repr

/-- assumed contract of crypto/tls + crypto/x509 for a client handshake -/
def verify (cfg : Cfg) (cert : Cert) : Bool :=
  cfg.insecureSkipVerify ||
    (decide (cert.issuer = cfg.roots) && cert.names.contains cfg.serverName && cert.inValidity)

/-- the configuration `Dial` hands to `tls.Client`: the user's (a copy made at
    construction time) when there is one; else built from the root PEM (`none`
    result: the PEM holds no certificate — "Unable to load root certificates");
    else `{ServerName: host}` with the system roots -/
def dialConfig (userCfg : Option Cfg) (rootPEM : Option (Option Nat)) (host : String) : Option Cfg :=
  match userCfg with
  | some c => some c
  | none =>
    match rootPEM with
    | some none => none
    | some (some id) => some { roots := .pem id, serverName := host }
    | none => some { serverName := host }

inductive Behav where
  | handshakes | stalls | closes
deriving DecidableEq, Repr

inductive Outcome where
  | ok | fail | timeout
deriving DecidableEq, Repr

/-- one minute when the configured timeout is zero -/
def effectiveTimeout (t : Nat) : Nat := if t = 0 then 60000 else t

/-- outcome of the handshake select, elapsed virtual milliseconds, and whether a
    transport (and the connection field) exists afterwards -/
def dial (cfg : Cfg) (cert : Cert) (b : Behav) (timeout : Nat) : Outcome × Nat × Bool :=
  match b with
  | .stalls => (.timeout, effectiveTimeout timeout, false)
  | .closes => (.fail, 0, false)
  | .handshakes => if verify cfg cert then (.ok, 0, true) else (.fail, 0, false)

end FmpRpc.TLS
