/-
  L5: prioritized round-robin remotes (remote.go) and FMP URIs (fmp_uri.go).
  Strings are `List Char`; the shuffle (`rand.Perm`) is an oracle supplying,
  at every reset, one arrangement per group; Go's `strings.TrimSpace` /
  `ToLower` enter through the abstract normaliser `Norm` (laws as structure
  fields, instantiated with an ASCII implementation for the oracle driver);
  `net/url.Parse` is a parameter of `parseFMPURI`.
-/
namespace FmpRpc.R

abbrev Str := List Char

/-! ### splitting and joining (`strings.Split`, `strings.Join`) -/

/-- `strings.Split(s, sep)` for a one-character separator: always at least one
    part. -/
def splitOn (sep : Char) : Str → List Str
  | [] => [[]]
  | c :: cs =>
    if c = sep then [] :: splitOn sep cs
    else match splitOn sep cs with
      | [] => [[c]]            -- unreachable: splitOn never returns []
      | p :: ps => (c :: p) :: ps

def join (sep : Char) : List Str → Str
  | [] => []
  | [p] => p
  | p :: ps => p ++ sep :: join sep ps

/-! ### normalisation -/

structure Norm where
  /-- `strings.ToLower(strings.TrimSpace(a))` -/
  norm : Str → Str
  idem : ∀ a, norm (norm a) = norm a

def clean (n : Norm) (groups : List (List Str)) : List (List Str) :=
  (groups.map fun g => (g.map n.norm).filter (fun a => !a.isEmpty)).filter (fun g => !g.isEmpty)

/-! ### the remote -/

structure Remote where
  addresses : List (List Str)
  toIterate : List (List Str)
deriving Repr

/-- an arrangement produced by `resetLocked`: group by group a permutation -/
def IsShuffle : List (List Str) → List (List Str) → Prop
  | [], [] => True
  | g :: gs, s :: ss => s.Perm g ∧ IsShuffle gs ss
  | _, _ => False

/-- `NewPrioritizedRoundRobinRemote`: `none` = "addressGroups has no address" -/
def new (n : Norm) (groups sh : List (List Str)) : Option Remote :=
  let c := clean n groups
  if c.isEmpty then none else some ⟨c, sh⟩

def reset (r : Remote) (sh : List (List Str)) : Remote := { r with toIterate := sh }

/-- drop leading empty groups (the prune loop of `GetAddress`) -/
def prune : List (List Str) → List (List Str)
  | [] => []
  | g :: gs => if g.isEmpty then prune gs else g :: gs

/-- `GetAddress`; `sh` is consumed only when the iteration list is empty.
    `none` would be the index panic `toIterate[0][0]`. -/
def getAddress (r : Remote) (sh : List (List Str)) : Option (Str × Remote) :=
  let it := if r.toIterate.isEmpty then sh else r.toIterate
  match it with
  | (a :: g) :: gs => some (a, { r with toIterate := prune (g :: gs) })
  | _ => none

/-- `Peek` -/
def peek (r : Remote) (sh : List (List Str)) : Option (Str × Remote) :=
  let it := if r.toIterate.isEmpty then sh else r.toIterate
  match it with
  | (a :: _) :: _ => some (a, { r with toIterate := it })
  | _ => none

/-- `String()` -/
def toStr (r : Remote) : Str := join ';' (r.addresses.map (join ','))

/-- `ParsePrioritizedRoundRobinRemote` -/
def parse (n : Norm) (s : Str) (sh : List (List Str)) : Option Remote :=
  new n ((splitOn ';' s).map (splitOn ',')) sh

/-- all groups non-empty (what keeps `[0][0]` defined) -/
def GroupsNonEmpty (gs : List (List Str)) : Prop := ∀ g ∈ gs, g ≠ []

/-- `n` calls of `GetAddress` with the oracle arrangements `shs` (one consumed
    per refill) -/
def getN : Nat → Remote → List (List (List Str)) → Option (List Str × Remote)
  | 0, r, _ => some ([], r)
  | k + 1, r, shs =>
    let sh := shs.headD []
    match getAddress r sh with
    | none => none
    | some (a, r') =>
      let shs' := if r.toIterate.isEmpty then shs.tail else shs
      match getN k r' shs' with
      | none => none
      | some (as, r'') => some (a :: as, r'')

/-! ### FMP URIs -/

def lastIndex (c : Char) : Str → Option Nat
  | [] => none
  | x :: xs =>
    match lastIndex c xs with
    | some i => some (i + 1)
    | none => if x = c then some 0 else none

def index (c : Char) : Str → Option Nat
  | [] => none
  | x :: xs => if x = c then some 0 else (index c xs).map (· + 1)

/-- `net.SplitHostPort`: `none` on any of its errors -/
def splitHostPort (hp : Str) : Option (Str × Str) :=
  match lastIndex ':' hp with
  | none => none                                    -- missing port
  | some i =>
    match hp with
    | '[' :: _ =>
      match index ']' hp with
      | none => none                                -- missing ']'
      | some e =>
        if e + 1 = hp.length then none              -- missing port
        else if e + 1 = i then
          let host := (hp.take e).drop 1
          let j := 1
          let k := e + 1
          if (index '[' (hp.drop j)).isSome then none
          else if (index ']' (hp.drop k)).isSome then none
          else some (host, hp.drop (i + 1))
        else none                                   -- too many colons / missing port
    | _ =>
      let host := hp.take i
      if (index ':' host).isSome then none          -- too many colons
      else if (index '[' hp).isSome then none
      else if (index ']' hp).isSome then none
      else some (host, hp.drop (i + 1))

structure FMPURI where
  scheme : Str
  hostPort : Str
  host : Str
deriving Repr, DecidableEq

def schemeStandard : Str := "fmprpc".toList
def schemeTLS : Str := "fmprpc+tls".toList

/-- `ParseFMPURI` given what `url.Parse` returned (`none`: parse error;
    `some (scheme, host)`) -/
def parseFMPURI (urlParse : Str → Option (Str × Str)) (s : Str) : Option FMPURI :=
  match urlParse s with
  | none => none
  | some (scheme, hostPort) =>
    if scheme = schemeStandard ∨ scheme = schemeTLS then
      match splitHostPort hostPort with
      | none => none
      | some (host, _) => if host.isEmpty then none else some ⟨scheme, hostPort, host⟩
    else none

def FMPURI.useTLS (f : FMPURI) : Bool := f.scheme = schemeTLS
def FMPURI.toStr (f : FMPURI) : Str := f.scheme ++ "://".toList ++ f.hostPort

end FmpRpc.R
