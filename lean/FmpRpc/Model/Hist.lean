import FmpRpc.Model.Text
/-
  Observable histories of one two-endpoint session: the event vocabulary
  shared by (a) the ghost history of the transport model (`Model/Transport`)
  and (b) the harness, which logs the same events from controlled executions
  of the real code.  The monitors of `Model/Monitors` are decidable
  predicates over `List Ev`.
-/
namespace FmpRpc

inductive Kind where
  | call | callc | resp | notify | cancel | bad
deriving DecidableEq, Repr, Inhabited

/-- What a monitor needs to know about one `Write` on a connection. -/
structure FrameInfo where
  kind : Kind
  seq : Int            -- -1 when the kind has none
  meth : Bytes
  nonce : Int          -- argument / result nonce, -1 when unknown
  ctype : Int
  isErr : Bool         -- response with a non-empty error field
  whole : Bool         -- exactly one complete frame: prefix value = content length
  content : Nat        -- content length (bytes after the prefix)
  total : Nat          -- bytes handed to the connection
deriving Repr, Inhabited

inductive Outcome where
  | ok | app | eof | canceled | deadline | toobig | notfound | writeerr | encodeerr | other
deriving DecidableEq, Repr, Inhabited

inductive Ev where
  | cb (c ep : Nat) (kind : Kind) (meth : String) (nonce : Int) (ctype : Int) (tagged : Int)   -- tagged: 0 = no tags, else a checksum of the tag set
  | ce (c : Nat) (out : Outcome) (res : Int)
  | iv (ep h : Nat) (meth : String) (nonce : Int) (tagged : Int)
  | he (ep h : Nat) (res : Int) (err ctxErr : Bool)
  | cx (c : Nat)
  | wr (ep : Nat) (f : FrameInfo)
  | sn (ep : Nat) (seq : Int)
  | recd (ep : Nat) (tag : String) (size : Nat) (who : String)   -- who: the goroutine that finished the record
  | clb (ep : Nat) (who : String)
  | cle (ep : Nat) (who : String)
  | cut (ep : Nat)
  | obs (ep : Nat) (e1 : String) (d1 connected d2 : Bool) (e2 : String)
  | obsfinal (ep : Nat) (err : String)
  | settled
  | pend (ep n : Nat)
  | late (c : Nat)
  | leak (fn : String)
  | stuck (g site : String)
  | replyerr (ep : Nat) (seq : Int) (cls : String)   -- the server logged that it could not send a reply
  | inj (ep : Nat) (kind : String)   -- a scripted frame injected into the traffic towards `ep`
  | lk (ep : Nat) | dr (ep : Nat)   -- the receive loop of `ep` is about to look a reply's call up / to decode into its result
  | wrp (ep n total : Nat)   -- the wire accepted only n of the total bytes of one Write
  | badarg (c : Nat)   -- the argument of this caller's RPC cannot be encoded
  | regb (ep : Nat) | rege (ep : Nat)   -- a protocol registered while the transport runs
  | wrf (ep : Nat) (f : FrameInfo)   -- a Write that failed although the connection stays up: nothing reached the wire
  | lateo (c : Nat)   -- the result value of caller c changed when a reply was injected after ALL callers had returned
  | lr (ep : Nat)   -- the receive loop of `ep` reads the pending table (the look-up itself)
  | harness (msg : String)
deriving Repr, Inhabited

/-! ### Parsing written bytes into `FrameInfo` -/

def nonceOfValue : Value → Int
  | .int i => i
  | .map kvs =>
    match kvs.find? (fun (k, _) => match k with | .str s => s == [0x6e] | _ => false) with
    | some (_, .int i) => i
    | _ => -1
  | _ => -1

open Prog in
/-- header + fields of one frame body, leniently (no endpoint context) -/
def frameInfoProg (fuel : Nat) : Prog (Kind × Int × Bytes × Int × Int × Bool) :=
  readn1 fun hdr =>
  if hdr.toNat < 0x91 || hdr.toNat > 0x9f then ret (.bad, -1, [], -1, 0, false) else
  Prog.bind decInt fun typ =>
  if typ = 0 then
    Prog.bind decInt fun seq => Prog.bind decStr fun m => Prog.bind (decValue fuel) fun a =>
    ret (.call, seq, m, nonceOfValue a, 0, false)
  else if typ = 4 then
    Prog.bind decInt fun seq => Prog.bind decInt fun ct => Prog.bind decStr fun m =>
    Prog.bind (decValue fuel) fun a => ret (.callc, seq, m, nonceOfValue a, ct, false)
  else if typ = 1 then
    Prog.bind decInt fun seq => Prog.bind (decValue fuel) fun e => Prog.bind (decValue fuel) fun r =>
    ret (.resp, seq, [], nonceOfValue r, 0, match e with | .nil => false | .str [] => false | _ => true)
  else if typ = 2 then
    Prog.bind decStr fun m => Prog.bind (decValue fuel) fun a => ret (.notify, -1, m, nonceOfValue a, 0, false)
  else if typ = 3 then
    Prog.bind decInt fun seq => Prog.bind decStr fun m => ret (.cancel, seq, m, -1, 0, false)
  else ret (.bad, -1, [], -1, 0, false)

def frameInfo (bs : Bytes) : FrameInfo :=
  match runStream (decIntBits 32) bs with
  | ⟨.ok l, rest⟩ =>
    let whole := decide (0 < l) && decide (l.toNat = rest.length)
    match (runStream (frameInfoProg rest.length) rest).val with
    | .ok (k, seq, m, n, ct, ie) =>
      { kind := k, seq := seq, meth := m, nonce := n, ctype := ct, isErr := ie, whole := whole,
        content := rest.length, total := bs.length }
    | .error _ =>
      { kind := .bad, seq := -1, meth := [], nonce := -1, ctype := 0, isErr := false, whole := whole,
        content := rest.length, total := bs.length }
  | ⟨.error _, _⟩ =>
    { kind := .bad, seq := -1, meth := [], nonce := -1, ctype := 0, isErr := false, whole := false,
      content := 0, total := bs.length }

/-! ### Parsing the harness's event syntax -/

def parseKind : String → Kind
  | "call" => .call | "callc" => .callc | "notify" => .notify | "resp" => .resp | "cancel" => .cancel
  | _ => .bad

def parseOutcome (s : String) : Outcome :=
  if s = "ok" then .ok
  else if s.startsWith "app:" then .app
  else if s = "eof" then .eof
  else if s = "canceled" then .canceled
  else if s = "deadline" then .deadline
  else if s = "toobig" then .toobig
  else if s = "notfound" then .notfound
  else if s = "writeerr" then .writeerr
  else if s = "encodeerr" then .encodeerr
  else .other

def intOr (s : String) (d : Int) : Int := (parseInt? s).getD d
def natOr (s : String) (d : Nat) : Nat := s.toNat?.getD d

def parseEv (toks : List String) : Ev :=
  match toks with
  | ["cb", c, ep, k, m, n, ct, tg] => .cb (natOr c 0) (natOr ep 0) (parseKind k) m (intOr n (-1)) (intOr ct 0) (intOr tg 0)
  | ["ce", c, o, r] => .ce (natOr c 0) (parseOutcome o) (intOr r (-1))
  | ["iv", ep, h, m, n, tg] => .iv (natOr ep 0) (natOr h 0) m (intOr n (-1)) (intOr tg 0)
  | ["he", ep, h, r, e, ce] => .he (natOr ep 0) (natOr h 0) (intOr r (-1)) (e = "1") (ce = "1")
  | ["cx", c] => .cx (natOr c 0)
  | ["wr", ep, hex] => .wr (natOr ep 0) (frameInfo ((unhx hex).getD []))
  | ["wr", ep, hex, n] =>
    let f := frameInfo ((unhx hex).getD [])
    .wr (natOr ep 0) (if f.nonce = -1 then { f with nonce := intOr n (-1) } else f)
  | ["sn", ep, s] => .sn (natOr ep 0) (intOr s 0)
  | ["rec", ep, tag, size] => .recd (natOr ep 0) (String.fromUTF8! ⟨((unhx tag).getD []).toArray⟩) (natOr size 0) "-"
  | ["rec", ep, tag, size, who] => .recd (natOr ep 0) (String.fromUTF8! ⟨((unhx tag).getD []).toArray⟩) (natOr size 0) who
  | ["wrf", ep, hex, n] =>
    let f := frameInfo ((unhx hex).getD [])
    .wrf (natOr ep 0) (if f.nonce = -1 then { f with nonce := intOr n (-1) } else f)
  | ["lateo", c] => .lateo (natOr c 0)
  | ["lr", ep] => .lr (natOr ep 0)
  | ["clb", ep, who] => .clb (natOr ep 0) who
  | ["cle", ep, who] => .cle (natOr ep 0) who
  | ["cut", ep] => .cut (natOr ep 0)
  | ["obs", ep, e1, d1, c, d2, e2] => .obs (natOr ep 0) e1 (d1 = "1") (c = "1") (d2 = "1") e2
  | ["obsfinal", ep, e] => .obsfinal (natOr ep 0) e
  | ["settled"] => .settled
  | ["pend", ep, n] => .pend (natOr ep 0) (natOr n 0)
  | ["late", c] => .late (natOr c 0)
  | ["leak", f] => .leak f
  | ["stuck", g, s] => .stuck g s
  | ["inj", ep, k] => .inj (natOr ep 0) k
  | ["badarg", c] => .badarg (natOr c 0)
  | ["wrp", ep, n, t] => .wrp (natOr ep 0) (natOr n 0) (natOr t 0)
  | ["lk", ep] => .lk (natOr ep 0)
  | ["dr", ep] => .dr (natOr ep 0)
  | ["regb", ep] => .regb (natOr ep 0)
  | ["rege", ep] => .rege (natOr ep 0)
  | ["replyerr", ep, q, c] => .replyerr (natOr ep 0) (intOr q (-1)) c
  | _ => .harness (" ".intercalate toks)

def parseHist (s : String) : List Ev :=
  (s.splitOn " ; ").map fun e => parseEv ((e.splitOn " ").filter (· ≠ ""))

end FmpRpc
