import FmpRpc.Model.Msg
/-
  L1: `packetizer.NextFrame` and the receive loop's view of a byte stream.
  `nextFrame` is the ideal reader on the concatenated stream; `Impl.*`
  (below) is the same function through the reader stack at the granularity
  of single `Read` calls, for every way the bytes arrive in pieces.
-/
namespace FmpRpc

/-- Errors met while reading inside a frame body are wrapped by the field
    decoder into a decoding error. -/
def wrapBodyErr : Err → Err
  | .eof => .dec
  | .ueof => .dec
  | e => e

/-- Result of one `NextFrame` call plus the stream that remains. -/
structure FrameStep where
  res : FrameRes
  rest : Bytes
deriving Repr

/-- `l <= 0` and `l > maxFrameLength` with the regenerated operators. -/
def lenTooLow (l : Int) : Bool := Gen.pktLenLow.eval l 0
def lenTooHigh (l : Int) (max : Nat) : Bool := Gen.pktLenHigh.eval l max

/-- `shouldContinue`: the receive loop goes on after nil and the three
    not-found errors (tie: `shouldContinueCases`). -/
def FrameRes.continues : FrameRes → Bool
  | .ok _ => true
  | .notFound _ _ _ _ => true
  | .fail _ => false

/-- Finish a frame: `drain` discards what is left of the declared length; a
    short stream is an unexpected EOF, which replaces every result the
    receive loop would continue after (nil and the not-found errors). -/
def finishFrame (res : FrameRes) (rem : Nat) (s : Bytes) : FrameStep :=
  if rem ≤ s.length then ⟨res, s.drop rem⟩
  else if res.continues then ⟨.fail .ueof, []⟩ else ⟨res, []⟩

/-- `packetizer.NextFrame` on the ideal stream. -/
def nextFrame (max : Nat) (ctx : Ctx) (s : Bytes) : FrameStep :=
  match runStream (decIntBits 32) s with
  | ⟨.error .dec, rest⟩ => ⟨.fail .other, rest⟩
  | ⟨.error e, rest⟩ => ⟨.fail e, rest⟩
  | ⟨.ok l, rest⟩ =>
    if lenTooLow l then ⟨.fail .pkt, rest⟩
    else if lenTooHigh l max then ⟨.fail .pkt, rest⟩
    else
      let L := l.toNat
      match runFrame Prog.byte L rest with
      | (⟨.error e, r⟩, rem) => finishFrame (.fail e) rem r
      | (⟨.ok nb, r⟩, rem) =>
        if nb.toNat < 0x91 || nb.toNat > 0x9f then finishFrame (.fail .pkt) rem r
        else
          match runFrame (decodeRPC ctx L (nb.toNat - 0x90)) rem r with
          | (⟨.error e, r'⟩, rem') => finishFrame (.fail (wrapBodyErr e)) rem' r'
          | (⟨.ok fr, r'⟩, rem') => finishFrame fr rem' r'

/-- The receive loop: frames until the first fatal result.  `fuel` bounds the
    number of frames (each consumes at least one byte). -/
def runLoop (max : Nat) (ctx : Ctx) : Nat → Bytes → List FrameStep
  | 0, _ => []
  | fuel + 1, s =>
    let st := nextFrame max ctx s
    if st.res.continues then st :: runLoop max ctx fuel st.rest else [st]

def run (max : Nat) (ctx : Ctx) (s : Bytes) : List FrameStep := runLoop max ctx (s.length + 1) s

end FmpRpc
