/-
  L5: RPC tags and contexts (context.go, client.go).  Go maps are reference
  objects: the model has a heap of map objects with identity, contexts are
  immutable chains of bindings to object ids, and the user holds references
  (to maps it passed in or read out) through which it may mutate objects at
  any time.  Aliasing between the user's references and the objects bound in
  contexts is therefore expressible — and is what the theorems exclude.
-/
namespace FmpRpc.Tg

abbrev TagMap := List (Nat × Nat)          -- key ↦ value, later entries win on lookup by `set`

def TagMap.set (m : TagMap) (k v : Nat) : TagMap := (k, v) :: m.filter (fun e => e.1 ≠ k)
def TagMap.get (m : TagMap) (k : Nat) : Option Nat := (m.find? (fun e => e.1 = k)).map (·.2)

/-- `for k, v := range src { dst[k] = v }` (order of a Go map range is
    arbitrary; the result as a finite map does not depend on it when keys of
    `src` are distinct, which holds for a Go map) -/
def TagMap.merge (dst src : TagMap) : TagMap := src.foldl (fun acc e => acc.set e.1 e.2) dst

structure World where
  heap : List TagMap                -- object id = index
  /-- contexts: id ↦ optional binding (object id of its tag map) -/
  ctxs : List (Option Nat)
  /-- object ids the user holds a reference to -/
  userRefs : List Nat
deriving Repr

def World.obj (w : World) (o : Nat) : TagMap := w.heap.getD o []

def World.alloc (w : World) (m : TagMap) : World × Nat :=
  ({ w with heap := w.heap ++ [m] }, w.heap.length)

/-- `TagsFromContext(ctx)`: a fresh copy of the bound map, handed to the user -/
def tagsFromContext (w : World) (ctx : Nat) : World × Option Nat :=
  match w.ctxs.getD ctx none with
  | none => (w, none)
  | some o =>
    let (w', o') := w.alloc (w.obj o)
    ({ w' with userRefs := o' :: w'.userRefs }, some o')

/-- the library-internal half of `TagsFromContext` (the copy is not handed to
    the user) -/
def copyTags (w : World) (ctx : Nat) : World × Option Nat :=
  match w.ctxs.getD ctx none with
  | none => (w, none)
  | some o => let (w', o') := w.alloc (w.obj o); (w', some o')

/-- `AddRPCTagsToContext(ctx, toAdd)`: copy the current tags (or start an empty
    map), add the entries of the user's map `toAdd`, bind the result in a NEW
    context; returns the new context id -/
def addTags (w : World) (ctx : Nat) (toAdd : Nat) : World × Nat :=
  let (w1, cur) := copyTags w ctx
  let (w2, o) := match cur with
    | some o => (w1, o)
    | none => w1.alloc []
  let merged := (w2.obj o).merge (w2.obj toAdd)
  let w3 := { w2 with heap := w2.heap.set o merged }
  ({ w3 with ctxs := w3.ctxs ++ [some o] }, w3.ctxs.length)

/-- the user mutates a map it holds a reference to -/
def userSet (w : World) (o k v : Nat) : World :=
  if o ∈ w.userRefs then { w with heap := w.heap.set o ((w.obj o).set k v) } else w

/-- the user creates a map of its own -/
def userNew (w : World) (m : TagMap) : World × Nat :=
  let (w', o) := w.alloc m
  ({ w' with userRefs := o :: w'.userRefs }, o)

/-- tags visible through a context -/
def tagsOf (w : World) (ctx : Nat) : Option TagMap := (w.ctxs.getD ctx none).map w.obj

inductive Op where
  | userNew (m : TagMap)
  | userSet (o k v : Nat)
  | add (ctx toAdd : Nat)
  | read (ctx : Nat)
deriving Repr

def apply (w : World) : Op → World
  | .userNew m => (userNew w m).1
  | .userSet o k v => userSet w o k v
  | .add ctx t => if t ∈ w.userRefs then (addTags w ctx t).1 else w
  | .read ctx => (tagsFromContext w ctx).1

/-- the initial world: one background context (id 0) without tags -/
def World.init : World := { heap := [], ctxs := [none], userRefs := [] }

end FmpRpc.Tg
