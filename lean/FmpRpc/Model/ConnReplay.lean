import FmpRpc.Model.Conn
import FmpRpc.Model.Text
/-
  Site-level replay for the connection model L4 (DESIGN §0.8): a controlled
  execution of the real `Connection` (scripted transport / handler), translated
  by `bin/creplay.py` into `Cn.Act` names, is run through `Cn.step`; the
  interleaved `?…` assertions compare what the real code observably did (the
  status announced by OnDisconnected, what every waitForConnection call
  returned, which transport Finalize published) with the model state.
  Executable only.
-/
namespace FmpRpc
namespace Cn

def parseB (s : String) : Option Bool :=
  if s = "1" then some true else if s = "0" then some false else none

def parseAct (toks : List String) : Option Act :=
  match toks with
  | ["wNew", w, f] => do pure (.wNew (← w.toNat?) (← parseB f))
  | ["wCtx", w] => w.toNat?.map .wCtx
  | ["wStart", w] => w.toNat?.map .wStart
  | ["wCtxRet", w] => w.toNat?.map .wCtxRet
  | ["wRelease", w] => w.toNat?.map .wRelease
  | ["sAnnounce", q, d] => do pure (.sAnnounce (← q.toNat?) (← parseB d))
  | ["sDelayDone", q] => q.toNat?.map .sDelayDone
  | ["sRetryStart", q] => q.toNat?.map .sRetryStart
  | ["sDialEnd", q, ok, fatal] => do pure (.sDialEnd (← q.toNat?) (← parseB ok) (← parseB fatal))
  | ["sRegister", q] => q.toNat?.map .sRegister
  | ["sOnConnect", q, ok] => do pure (.sOnConnect (← q.toNat?) (← parseB ok))
  | ["sPublish", q] => q.toNat?.map .sPublish
  | ["sAttemptEnd", q, r] => do pure (.sAttemptEnd (← q.toNat?) (← parseB r))
  | ["sBackoff", q, st] => do pure (.sBackoff (← q.toNat?) (← parseB st))
  | ["sSleepDone", q] => q.toNat?.map .sSleepDone
  | ["sSleepCtx", q] => q.toNat?.map .sSleepCtx
  | ["sRelease", q] => q.toNat?.map .sRelease
  | ["shutdown"] => some .shutdown
  | ["disconnect"] => some .disconnect
  | _ => none

def cerrName : Option CErr → String
  | none => "nil"
  | some .ctx => "ctx"
  | some (.dial true) => "dialfatal"
  | some (.dial false) => "dialerr"
  | some .onconnect => "onconnect"

def wpcName : WPc → String
  | .absent => "absent" | .start f => s!"start:{if f then 1 else 0}" | .waiting q => s!"waiting:{q}"
  | .ret r => "ret:" ++ cerrName r

def spcName : SPc → String
  | .absent => "absent" | .announce => "announce" | .delay => "delay" | .retryStart => "retryStart" | .dial => "dial"
  | .dialed x => s!"dialed:{x}" | .registered x => s!"registered:{x}" | .connected x => s!"connected:{x}"
  | .attemptEnd e => "attemptEnd:" ++ cerrName e | .backoff e => "backoff:" ++ cerrName (some e)
  | .sleep e => "sleep:" ++ cerrName (some e) | .release => "release" | .done => "done"

def optName : Option Nat → String
  | none => "-" | some n => toString n

def checkAssert (s : St) (toks : List String) : Option String :=
  let cmp (have_ want : String) : Option String := if have_ = want then none else some s!"model has {have_}, implementation {want}"
  match toks with
  | ["?wpc", w, want] => cmp (wpcName (s.waiters (w.toNat?.getD 0)).pc) want
  | ["?waiting", w] =>
    (match (s.waiters (w.toNat?.getD 0)).pc with
     | .waiting _ => none
     | pc => some s!"model has {wpcName pc}, implementation waits for a reconnect sequence")
  | ["?spc", q, want] => cmp (spcName (s.seqs (q.toNat?.getD 0)).pc) want
  | ["?sfirst", q, want] => cmp (if (s.seqs (q.toNat?.getD 0)).first then "1" else "0") want
  | ["?after", out, sr, stop, want] =>
    -- DoCommand's decision after one execution of the command (the proved `afterExec`) against what the real
    -- loop did next
    let o : CmdOut := match out with | "ok" => .ok | "eof" => .eof | "retry" => .retriable | _ => .other
    let nxt := match afterExec o (sr = "1") (stop = "1") with
      | .returnNil => "returnNil"
      | .returnErr .eof => "returnErr:eof"
      | .returnErr .retriable => "returnErr:retry"
      | .returnErr .other => "returnErr:other"
      | .returnErr .ok => "returnErr:ok"
      | .backoffThenRerun => "backoffThenRerun"
      | .waitForConnectionThenRerun => "waitForConnectionThenRerun"
    cmp nxt want
  | ["?chan", want] => cmp (optName s.reconnectChan) want
  | ["?client", want] => cmp (optName s.client) want
  | ["?current", want] => cmp (optName s.current) want
  | ["?dialing", want] => cmp (toString s.dialing) want
  | ["?nextseq", want] => cmp (toString s.nextSeq) want
  | _ => some "unknown assertion"

def summary (s : St) : String :=
  s!"chan={optName s.reconnectChan} client={optName s.client} current={optName s.current} staged={optName s.staged} cancelSet={s.cancelSet} before={s.reconnectedBefore} nextSeq={s.nextSeq} dialing={s.dialing}"

def replayGo (s : St) (i : Nat) (steps : Nat) : List (List String) → String
  | [] => s!"ok steps={steps} seqs={s.nextSeq} hist={s.hist.length}"
  | toks :: rest =>
    match toks with
    | [] => replayGo s (i + 1) steps rest
    | t :: _ =>
      if t.startsWith "?" then
        match checkAssert s toks with
        | none => replayGo s (i + 1) steps rest
        | some why => s!"differs at {i} `{" ".intercalate toks}`: {why} | {summary s}"
      else
        match parseAct toks with
        | none => s!"bad-action at {i} `{" ".intercalate toks}`"
        | some a =>
          match step s a with
          | some s' => replayGo s' (i + 1) (steps + 1) rest
          | none =>
            let who := match toks with
              | _ :: x :: _ => (match x.toNat? with
                | some n => s!" waiter={wpcName (s.waiters n).pc} seq={spcName (s.seqs n).pc} seqCtx={(s.seqs n).ctxCancelled}"
                | none => "")
              | _ => ""
            s!"stuck at {i} `{" ".intercalate toks}`: not enabled in the model | {summary s}{who}"

/-- first item: `cfg <forceInitialBackoff 0/1>` -/
def replay (body : String) : String :=
  let items := (body.splitOn " ; ").map fun e => (e.splitOn " ").filter (· ≠ "")
  match items with
  | ["cfg", b] :: rest => replayGo (init (b = "1")) 1 0 rest
  | _ => replayGo (init false) 0 0 items

end Cn
end FmpRpc
