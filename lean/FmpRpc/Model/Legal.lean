import FmpRpc.Model.Msgpack
/-
  The msgpack specification as a relation `LegalEnc v bs` — "bs is a legal
  encoding of v" — written independently of `enc` / `decValue`: every integer
  width that can hold the value (unsigned and signed families), every string /
  bin / array / map header width that can hold the length.
-/
namespace FmpRpc

/-- tag byte of the `w`-byte unsigned / signed integer formats -/
def uintTag : Nat → Option UInt8
  | 1 => some 0xcc | 2 => some 0xcd | 4 => some 0xce | 8 => some 0xcf | _ => none
def sintTag : Nat → Option UInt8
  | 1 => some 0xd0 | 2 => some 0xd1 | 4 => some 0xd2 | 8 => some 0xd3 | _ => none

/-- legal encodings of an integer -/
inductive IntEnc : Int → Bytes → Prop where
  | posfix (n : Nat) (h : n < 128) : IntEnc n [UInt8.ofNat n]
  | negfix (i : Int) (h : -32 ≤ i ∧ i < 0) : IntEnc i [UInt8.ofNat (i + 256).toNat]
  | uint (w : Nat) (t : UInt8) (ht : uintTag w = some t) (n : Nat) (h : n < 256 ^ w) :
      IntEnc n (t :: beBytes w n)
  | sint (w : Nat) (t : UInt8) (ht : sintTag w = some t) (i : Int)
      (h : -((256 ^ w / 2 : Nat) : Int) ≤ i ∧ i < ((256 ^ w / 2 : Nat) : Int)) :
      IntEnc i (t :: beBytes w (i % ((256 ^ w : Nat) : Int)).toNat)

/-- legal length headers of the four container families -/
inductive StrHdr : Nat → Bytes → Prop where
  | fix (l : Nat) (h : l < 32) : StrHdr l [UInt8.ofNat (0xa0 + l)]
  | s8 (l : Nat) (h : l < 256) : StrHdr l (0xd9 :: beBytes 1 l)
  | s16 (l : Nat) (h : l < 65536) : StrHdr l (0xda :: beBytes 2 l)
  | s32 (l : Nat) (h : l < 4294967296) : StrHdr l (0xdb :: beBytes 4 l)

inductive BinHdr : Nat → Bytes → Prop where
  | b8 (l : Nat) (h : l < 256) : BinHdr l (0xc4 :: beBytes 1 l)
  | b16 (l : Nat) (h : l < 65536) : BinHdr l (0xc5 :: beBytes 2 l)
  | b32 (l : Nat) (h : l < 4294967296) : BinHdr l (0xc6 :: beBytes 4 l)

inductive ArrHdr : Nat → Bytes → Prop where
  | fix (l : Nat) (h : l < 16) : ArrHdr l [UInt8.ofNat (0x90 + l)]
  | a16 (l : Nat) (h : l < 65536) : ArrHdr l (0xdc :: beBytes 2 l)
  | a32 (l : Nat) (h : l < 4294967296) : ArrHdr l (0xdd :: beBytes 4 l)

inductive MapHdr : Nat → Bytes → Prop where
  | fix (l : Nat) (h : l < 16) : MapHdr l [UInt8.ofNat (0x80 + l)]
  | m16 (l : Nat) (h : l < 65536) : MapHdr l (0xde :: beBytes 2 l)
  | m32 (l : Nat) (h : l < 4294967296) : MapHdr l (0xdf :: beBytes 4 l)

mutual
/-- `LegalEnc v bs`: `bs` is a legal msgpack encoding of `v`. -/
inductive LegalEnc : Value → Bytes → Prop where
  | nil : LegalEnc .nil [0xc0]
  | fls : LegalEnc (.bool false) [0xc2]
  | tru : LegalEnc (.bool true) [0xc3]
  | int (i : Int) (bs : Bytes) (h : IntEnc i bs) : LegalEnc (.int i) bs
  | f32 (b : Nat) (h : b < 4294967296) : LegalEnc (.f32 b) (0xca :: beBytes 4 b)
  | f64 (b : Nat) (h : b < 18446744073709551616) : LegalEnc (.f64 b) (0xcb :: beBytes 8 b)
  | str (s hd : Bytes) (h : StrHdr s.length hd) : LegalEnc (.str s) (hd ++ s)
  | bin (s hd : Bytes) (h : BinHdr s.length hd) : LegalEnc (.bin s) (hd ++ s)
  | arr (vs : List Value) (hd body : Bytes) (h : ArrHdr vs.length hd) (hb : LegalEncList vs body) :
      LegalEnc (.arr vs) (hd ++ body)
  | map (kvs : List (Value × Value)) (hd body : Bytes) (h : MapHdr kvs.length hd)
      (hb : LegalEncPairs kvs body) : LegalEnc (.map kvs) (hd ++ body)
inductive LegalEncList : List Value → Bytes → Prop where
  | nil : LegalEncList [] []
  | cons (v : Value) (vs : List Value) (b bs : Bytes) (h : LegalEnc v b) (t : LegalEncList vs bs) :
      LegalEncList (v :: vs) (b ++ bs)
inductive LegalEncPairs : List (Value × Value) → Bytes → Prop where
  | nil : LegalEncPairs [] []
  | cons (k v : Value) (r : List (Value × Value)) (bk bv bs : Bytes) (hk : LegalEnc k bk)
      (hkey : k.hashable = true) (hv : LegalEnc v bv) (t : LegalEncPairs r bs) :
      LegalEncPairs ((k, v) :: r) (bk ++ bv ++ bs)
end

/- Nesting depth (fuel needed by `decValue`). -/
mutual
def Value.depth : Value → Nat
  | .arr vs => 1 + depthList vs
  | .map kvs => 1 + depthPairs kvs
  | _ => 1
def depthList : List Value → Nat
  | [] => 0
  | v :: vs => max v.depth (depthList vs)
def depthPairs : List (Value × Value) → Nat
  | [] => 0
  | (k, v) :: r => max (max k.depth v.depth) (depthPairs r)
end

/- Values that survive a trip through the writer and `DecodeNaked`:
   in range (`wf`), map keys hashable, no ext (ext values are outside the
   modelled fragment of the reader). -/
mutual
def Value.rt : Value → Bool
  | .arr vs => rtList vs
  | .map kvs => rtPairs kvs
  | .ext _ _ => false
  | _ => true
def rtList : List Value → Bool
  | [] => true
  | v :: vs => v.rt && rtList vs
def rtPairs : List (Value × Value) → Bool
  | [] => true
  | (k, v) :: r => k.hashable && k.rt && v.rt && rtPairs r
end

end FmpRpc
