import FmpRpc.Model.Frame
/-
  The reader stack at the granularity of single `Read` calls
  (conn → bufio.Reader → lastErrReader / frameReader → go-codec ioDecReader),
  for every way the incoming bytes are split across reads.

  The remaining input is a list of chunks; one `Read` of the buffered
  connection returns a non-empty prefix (at most the requested size) of the
  first non-empty chunk, i.e. never bytes of two chunks.  Quantifying over all
  chunk lists covers every behaviour of the connection and of bufio's buffer.
-/
namespace FmpRpc

abbrev Chunks := List Bytes

/-- `bufio.Reader.Read(p)`, `len p = want`: a non-empty prefix of the stream,
    `[]` only at end of stream. -/
def srcRead (want : Nat) : Chunks → Bytes × Chunks
  | [] => ([], [])
  | c :: cs => if c.isEmpty then srcRead want cs else (c.take want, c.drop want :: cs)

/-- `bufio.Reader.ReadByte`. -/
def srcReadByte : Chunks → Option (UInt8 × Chunks)
  | [] => none
  | [] :: cs => srcReadByte cs
  | (b :: c) :: cs => some (b, c :: cs)

/-- `bufio.Reader.Discard(n)`: skips `n` bytes or to the end of the stream;
    returns how many were skipped. -/
def srcDiscard : Nat → Chunks → Nat × Chunks
  | _, [] => (0, [])
  | n, c :: cs =>
    if c.length ≤ n then
      let r := srcDiscard (n - c.length) cs
      (c.length + r.1, r.2)
    else (n, c.drop n :: cs)

/-- `frameReader`: the budget left of the declared frame length, and the
    source. -/
structure FR where
  rem : Nat
  src : Chunks

/-- `frameReader.Read(p)` with `len p = want ≥ 1` (packetizer.go):
    `remaining <= 0` → EOF; clamp `p` to `remaining`; one underlying read;
    `remaining -= n`; underlying EOF → ErrUnexpectedEOF. -/
def FR.read (want : Nat) (f : FR) : Bytes × Option Err × FR :=
  if f.rem = 0 then ([], some .eof, f)
  else
    let want' := if want > f.rem then f.rem else want
    let r := srcRead want' f.src
    (r.1, if r.1.isEmpty then some .ueof else none, ⟨f.rem - r.1.length, r.2⟩)

/-- `frameReader.ReadByte` (used by `NextFrame` for the array header). -/
def FR.readByte (f : FR) : Except Err (UInt8 × FR) :=
  if f.rem = 0 then .error .eof
  else match srcReadByte f.src with
    | none => .error .ueof
    | some (b, src) => .ok (b, ⟨f.rem - 1, src⟩)

/-- `frameReader.drain`: discard what is left of the frame; `true` when the
    whole remainder was there. -/
def FR.drain (f : FR) : Bool × Chunks :=
  let r := srcDiscard f.rem f.src
  (r.1 == f.rem, r.2)

/-- go-codec `decReadFull` over the frame reader: repeat `Read` until `n`
    bytes arrived or an error. `fuel ≥ n` always suffices. -/
def FR.readFull : Nat → Nat → FR → Bytes × Option Err × FR
  | 0, _, f => ([], none, f)
  | fuel + 1, n, f =>
    if n = 0 then ([], none, f)
    else
      let r := f.read n
      match r.2.1 with
      | some e => (r.1, some e, r.2.2)
      | none =>
        let r' := FR.readFull fuel (n - r.1.length) r.2.2
        (r.1 ++ r'.1, r'.2.1, r'.2.2)

/-- The field decoder's programs through the frame reader. -/
def runFrameImpl : Prog α → FR → Except Err α × FR
  | .ret a, f => (.ok a, f)
  | .fail e, f => (.error e, f)
  | .readn1 k, f =>
    let r := f.read 1
    match r.1, r.2.1 with
    | [b], none => runFrameImpl (k b) r.2.2
    | _, some e => (.error e, r.2.2)
    | _, none => (.error .ueof, r.2.2)
  | .readx n k, f =>
    if n = 0 then runFrameImpl (k []) f
    else
      let r := f.readFull n n
      match r.2.1 with
      | none => runFrameImpl (k r.1) r.2.2
      | some e => (.error e, r.2.2)

/-- `decReadFull` over the raw buffered connection (length prefix). -/
def srcReadFull : Nat → Nat → Chunks → Bytes × Bool × Chunks
  | 0, _, cs => ([], true, cs)
  | fuel + 1, n, cs =>
    if n = 0 then ([], true, cs)
    else
      let r := srcRead n cs
      if r.1.isEmpty then ([], false, r.2)
      else
        let r' := srcReadFull fuel (n - r.1.length) r.2
        (r.1 ++ r'.1, r'.2.1, r'.2.2)

/-- The length decoder's program through the raw connection. -/
def runStreamImpl : Prog α → Chunks → Except Err α × Chunks
  | .ret a, cs => (.ok a, cs)
  | .fail e, cs => (.error e, cs)
  | .readn1 k, cs =>
    match srcRead 1 cs with
    | ([b], cs') => runStreamImpl (k b) cs'
    | (_, cs') => (.error .eof, cs')
  | .readx n k, cs =>
    if n = 0 then runStreamImpl (k []) cs
    else
      let r := srcReadFull n n cs
      if r.2.1 then runStreamImpl (k r.1) r.2.2 else (.error .eof, r.2.2)

/-- `finishFrame` through `drain`. -/
def finishFrameImpl (res : FrameRes) (f : FR) : FrameRes × Chunks :=
  let d := f.drain
  if d.1 then (res, d.2)
  else if res.continues then (.fail .ueof, d.2) else (res, d.2)

/-- `packetizer.NextFrame` through the reader stack. -/
def nextFrameImpl (max : Nat) (ctx : Ctx) (cs : Chunks) : FrameRes × Chunks :=
  match runStreamImpl (decIntBits 32) cs with
  | (.error .dec, rest) => (.fail .other, rest)
  | (.error e, rest) => (.fail e, rest)
  | (.ok l, rest) =>
    if lenTooLow l then (.fail .pkt, rest)
    else if lenTooHigh l max then (.fail .pkt, rest)
    else
      let f : FR := ⟨l.toNat, rest⟩
      match f.readByte with
      | .error e => finishFrameImpl (.fail e) f
      | .ok (nb, f1) =>
        if nb.toNat < 0x91 || nb.toNat > 0x9f then finishFrameImpl (.fail .pkt) f1
        else
          match runFrameImpl (decodeRPC ctx l.toNat (nb.toNat - 0x90)) f1 with
          | (.error e, f2) => finishFrameImpl (.fail (wrapBodyErr e)) f2
          | (.ok fr, f2) => finishFrameImpl fr f2

def runLoopImpl (max : Nat) (ctx : Ctx) : Nat → Chunks → List (FrameRes × Chunks)
  | 0, _ => []
  | fuel + 1, cs =>
    let st := nextFrameImpl max ctx cs
    if st.1.continues then st :: runLoopImpl max ctx fuel st.2 else [st]

end FmpRpc
