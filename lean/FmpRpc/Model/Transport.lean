/-
  L3: one transport endpoint as a labelled transition system, at the
  granularity of the code's synchronisation sites (every channel operation,
  select commitment, close, mutex-protected section is one action; see
  DESIGN §3).  The peer and the user are the environment: they issue calls
  and notifications, cancel contexts, deliver arbitrary frames (the peer may
  be hostile: duplicate replies, stray seqnos), let handlers return, make
  writes succeed or fail, call Close from any goroutine.

  Unbounded: any number of callers, notifiers, handlers, closers, frames.
  `step` is executable (the replay driver runs it on logs of the real code);
  the theorems of `Props/` are about every state reachable through it.
-/
namespace FmpRpc.T

/-- error values a send / an API call can complete with -/
inductive EV where
  | nil | eof | ctx | wr | toobig
deriving DecidableEq, Repr, Inhabited

inductive SKind where
  | call | notify | reply | cancel
deriving DecidableEq, Repr, Inhabited

inductive SSt where
  | absent      -- id not used yet
  | waiting     -- encoded, sitting in a hand-off select (sender or async goroutine)
  | handed      -- received by the writer from writeCh
  | completed   -- slot filled: written (nil / write error) or abandoned (eof / ctx / toobig)
deriving DecidableEq, Repr, Inhabited

/-- one EncodeAndWrite / EncodeAndWriteAsync invocation -/
structure Send where
  st : SSt := .absent
  kind : SKind := .call
  seq : Int := 0
  who : Nat := 0
  notif : Bool := false      -- carries a send notifier (calls and notifications of a client with one)
  async : Bool := false      -- parked in EncodeAndWriteAsync's goroutine
  slot : Option EV := none   -- content of its capacity-1 error channel
  fits : Bool := true        -- ghost: `encodeFrame` accepted it (content ≤ max)
deriving Repr, Inhabited

inductive Out where
  | ok (res : Nat) (appErr : Bool)
  | err (e : EV)
deriving DecidableEq, Repr, Inhabited

/-- program counter of `Client.call` / `dispatch.Call` / `handleCancel` -/
inductive CPc where
  | absent
  | begin              -- Client.call: before getDispatcher
  | new                -- before nextSeqid
  | add                -- seqno allocated, before AddCall
  | enc                -- in the table, before compress / encodeFrame
  | hand (x : Nat)     -- encodeAndWriteInternal select
  | sel1 (x : Nat)     -- Call: wait for the encoder's result
  | sel2               -- Call: wait for the reply
  | cEnc               -- handleCancel: before encodeFrame of the cancellation
  | cHand (y : Nat)    -- EncodeAndWriteAsync select
  | cPoll (y : Nat)    -- handleCancel: non-blocking receive of the async result
  | cRec               -- cancel record's deferred RecordAndFinish
  | fin (o : Out)      -- deferred record.RecordAndFinish
  | rm (o : Out)       -- deferred RemoveCall
  | ret (o : Out)
deriving DecidableEq, Repr, Inhabited

structure Caller where
  pc : CPc := .absent
  seq : Int := -1
  ctxDone : Bool := false
  buf : Nat := 0                        -- the caller's result buffer (0: untouched)
  rslot : Option (Nat × Bool) := none   -- resultCh (capacity 1): payload, application error?
  bufSeq : Option Int := none           -- ghost: seqno of the response that last wrote `buf`
  slotSeq : Option Int := none          -- ghost: seqno of the response sitting in / last put into `rslot`
  sent : Bool := false                  -- ghost: its call frame went through the hand-off
  records : Nat := 0                    -- ghost: RecordPut events of its call record
  crecords : Nat := 0                   -- ghost: RecordPut events of cancel records
  cancels : Nat := 0                    -- ghost: handleCancel invocations
  cfail : Bool := false                 -- ghost: the call ended in compressData, before its frame was encoded: no send, no record
  encSize : Nat := 0                    -- ghost: what `EncodeAndWrite` returned (frame length, 0 when `encodeFrame` failed)
  recSize : Nat := 0                    -- ghost: the Size of its call record (as stored, once the record is finished)
  inc : List Nat := []                  -- ghost: payload ids of the replies whose size was added before the record was finished
deriving Repr, Inhabited

/-- program counter of `Client.Notify` / `dispatch.Notify` -/
inductive NPc where
  | absent | begin | enc | hand (x : Nat) | sel (x : Nat) | fin (o : Out) | ret (o : Out)
deriving DecidableEq, Repr, Inhabited

structure Notifier where
  pc : NPc := .absent
  ctxDone : Bool := false
  records : Nat := 0
deriving Repr, Inhabited

/-- writer goroutine (`writerLoop`) -/
inductive WPc where
  | idle               -- at its select
  | got (x : Nat)      -- received a bundle
  | writing (x : Nat)  -- notifier (if any) has run, Write in progress
  | wrote (x : Nat) (e : EV)
  | exited
deriving DecidableEq, Repr, Inhabited

/-- program counter of a handler goroutine (`Serve` + `Reply` + task end) -/
inductive HPc where
  | absent
  | run                -- user code running
  | rEnc (res : Nat) (appErr : Bool)   -- Reply: before compress / encodeFrame
  | rHand (x : Nat)
  | rSel (x : Nat)
  | rFin               -- deferred RecordAndFinish of the request's record
  | endSel             -- select { taskEndCh <- id; <-stopCh }
  | exited
deriving DecidableEq, Repr, Inhabited

inductive Cause where
  | none | peerCancel | closing | ownEnd
  | otherEnd   -- the end of ANOTHER handler registered under the same task key (peer reused a seqno)
deriving DecidableEq, Repr, Inhabited

structure Handler where
  pc : HPc := .absent
  seq : Int := 0          -- seqno of the request (replies carry it)
  task : Int := 0         -- key in the task table
  isCall : Bool := true
  arg : Nat := 0
  ctxCancelled : Bool := false
  cause : Cause := .none  -- ghost: why the context was cancelled (first cause)
  replies : Nat := 0      -- ghost: reply frames handed to the writer
  records : Nat := 0
deriving Repr, Inhabited

/-- what the peer can put on the wire -/
inductive Frame where
  | resp (seq : Int) (payload : Nat) (appErr : Bool)
  | call (seq : Int) (known : Bool) (arg : Nat)
  | notify (known : Bool) (arg : Nat)
  | cancel (seq : Int)
deriving DecidableEq, Repr, Inhabited

/-- receive loop (`receiveFramesLoop` with `NextFrame`, `Receive`) -/
inductive RPc where
  | idle
  | reading
  | respLookup (seq : Int) (payload : Nat) (appErr : Bool)
  | respDecode (c : Nat) (seq : Int) (payload : Nat) (appErr : Bool)
  | respDeliver (c : Nat) (seq : Int) (payload : Nat) (appErr : Bool)
  | nfEnc (seq : Int)                    -- not-found call: Reply on the loop's own goroutine
  | nfHand (x : Nat)
  | nfSel (x : Nat)
  | begSel (h : Nat)                     -- select { taskBeginCh <- task; <-stopCh }
  | spawn (h : Nat)
  | canSel (seq : Int)                   -- select { taskCancelCh <- seq; <-stopCh }
  | closing                              -- fatal result: runs closeWithErr as closer 0
  | exited
deriving DecidableEq, Repr, Inhabited

/-- `closeWithErr` as executed by closer `k` (closer 0 is the receive loop) -/
inductive KPc where
  | absent
  | enter
  | waitOnce          -- another closer is inside the once
  | setErr | stop | dstop | rstop | waitTask | encClose | connClose | waitWriter
  | done
deriving DecidableEq, Repr, Inhabited

structure Closer where
  pc : KPc := .absent
  err : EV := .eof
deriving Repr, Inhabited

inductive OnceSt where
  | idle | running (k : Nat) | done
deriving DecidableEq, Repr, Inhabited

/-- ghost history -/
inductive Evt where
  | issued (c : Nat) (seq : Int)
  | handoff (x : Nat)
  | notifier (x : Nat) (seq : Int)
  | write (x : Nat)
  | writeDone (x : Nat) (e : EV)
  | delivered (f : Frame)
  | resWritten (c : Nat)
  | returned (c : Nat) (o : Out)
  | nreturned (n : Nat) (o : Out)
  | invoked (h : Nat) (seq : Int) (arg : Nat)
  | handlerRet (h : Nat)
  | ctxCancelled (h : Nat) (cause : Cause)
  | stopClosed
  | exit (g : String)
deriving Repr, Inhabited

structure St where
  nextSeq : Nat := 0
  pending : Int → Option Nat := fun _ => none
  callers : Nat → Caller := fun _ => {}
  notifiers : Nat → Notifier := fun _ => {}
  sends : Nat → Send := fun _ => {}
  nextSend : Nat := 0
  hasNotifier : Bool := true
  w : WPc := .idle
  wlog : List Nat := []                 -- write log: send ids in the order of Write calls
  nlog : List (Nat × Int) := []         -- notifier log: (send id, seqno argument)
  r : RPc := .idle
  taskLoop : Bool := true               -- task loop still running
  tasks : Int → Option Nat := fun _ => none
  handlers : Nat → Handler := fun _ => {}
  nextHandler : Nat := 0
  lastNotifyTask : Int := -1
  closers : Nat → Closer := fun _ => {}
  once : OnceSt := .idle
  stopErr : Option EV := none
  stopCh : Bool := false
  dStop : Bool := false
  rStop : Bool := false
  rClosed : Bool := false
  encDone : Bool := false
  encClosed : Bool := false
  connClosed : Bool := false
  hist : List Evt := []
  fsize : Nat → Nat := fun _ => 0       -- read-only: bytes of the frame of send id x
  psize : Nat → Nat := fun _ => 0       -- read-only: content length of a response frame carrying payload id p

def init : St := {}

/-- the initial state with given size tables (`fsize` / `psize` are parameters of a run: no step modifies them) -/
def initSz (f p : Nat → Nat) : St := { fsize := f, psize := p }

theorem init_eq_initSz : init = initSz (fun _ => 0) (fun _ => 0) := rfl

/-! ### small helpers -/

def setCaller (s : St) (c : Nat) (v : Caller) : St :=
  { s with callers := fun i => if i = c then v else s.callers i }
def setNotifier (s : St) (n : Nat) (v : Notifier) : St :=
  { s with notifiers := fun i => if i = n then v else s.notifiers i }
def setSend (s : St) (x : Nat) (v : Send) : St :=
  { s with sends := fun i => if i = x then v else s.sends i }
def setHandler (s : St) (h : Nat) (v : Handler) : St :=
  { s with handlers := fun i => if i = h then v else s.handlers i }
def setCloser (s : St) (k : Nat) (v : Closer) : St :=
  { s with closers := fun i => if i = k then v else s.closers i }
def setPending (s : St) (q : Int) (v : Option Nat) : St :=
  { s with pending := fun i => if i = q then v else s.pending i }
def setTask (s : St) (q : Int) (v : Option Nat) : St :=
  { s with tasks := fun i => if i = q then v else s.tasks i }
def log (s : St) (e : Evt) : St := { s with hist := s.hist ++ [e] }

/-- a fresh send in the hand-off select -/
def newSend (s : St) (kind : SKind) (seq : Int) (who : Nat) (notif : Bool) : St × Nat :=
  let x := s.nextSend
  ({ (setSend s x { st := .waiting, kind := kind, seq := seq, who := who, notif := notif }) with
      nextSend := x + 1 }, x)

/-- a send that failed in `encodeFrame`: its slot holds the error at once -/
def failedSend (s : St) (kind : SKind) (seq : Int) (who : Nat) : St × Nat :=
  let x := s.nextSend
  ({ (setSend s x { st := .completed, kind := kind, seq := seq, who := who, slot := some .toobig, fits := false }) with
      nextSend := x + 1 }, x)

/-- abandon the hand-off: the slot receives `e` -/
def abandon (s : St) (x : Nat) (e : EV) : St :=
  setSend s x { s.sends x with st := .completed, slot := some e }

/-- cancel the context of handler `h` (idempotent), remembering the first cause -/
def cancelHandler (s : St) (h : Nat) (c : Cause) : St :=
  let hd := s.handlers h
  if hd.ctxCancelled then s
  else log (setHandler s h { hd with ctxCancelled := true, cause := c }) (.ctxCancelled h c)

/-- cancel every registered task (task loop's stop arm) — over the handler ids
    issued so far -/
def cancelAllTasks (s : St) : Nat → St
  | 0 => s
  | n + 1 =>
    let s' := cancelAllTasks s n
    let hd := s'.handlers n
    if s'.tasks hd.task = some n then cancelHandler s' n .closing else s'

/-! ### actions -/

inductive Act where
  -- user: issue calls / notifications, cancel contexts
  | callStart (c : Nat)
  | ctxCancel (c : Nat)
  | notifyStart (n : Nat)
  | nctxCancel (n : Nat)
  -- Client.call / dispatch.Call
  | cBegin (c : Nat)                 -- receiveFrames(); getDispatcher()
  | cNew (c : Nat)
  | cAdd (c : Nat)
  | cEnc (c : Nat) (fits : Bool)
  | cCompressFail (c : Nat)          -- compressData of the argument failed: return with only RemoveCall deferred
  | cHandDone (c : Nat) | cHandCtx (c : Nat)          -- hand-off select: doneCh / ctx arm (send arm: wRecv)
  | cSel1Err (c : Nat) | cSel1Ctx (c : Nat) | cSel1Stop (c : Nat)
  | cSel2Res (c : Nat) | cSel2Ctx (c : Nat) | cSel2Stop (c : Nat)
  | cCancelEnc (c : Nat)
  | cCancelEncFail (c : Nat)         -- encodeFrame of the cancellation failed (only after a call refused for its method name)
  | cCancelDone (c : Nat) | cCancelAsync (c : Nat)   -- async select: doneCh arm / default arm (send arm: wRecv)
  | cPoll (c : Nat)
  | cCancelRec (c : Nat)
  | cFin (c : Nat) | cRm (c : Nat)
  -- async cancel sender goroutine
  | aDone (y : Nat)
  -- Client.Notify / dispatch.Notify
  | nBegin (n : Nat) | nEnc (n : Nat) (fits : Bool)
  | nHandDone (n : Nat) | nHandCtx (n : Nat)
  | nSelErr (n : Nat) | nSelStop (n : Nat) | nSelCtx (n : Nat)
  | nFin (n : Nat)
  -- writer
  | wRecv (x : Nat)                  -- rendezvous on writeCh with the sender of x
  | wNotify | wWrite (ok : Bool) | wDone | wStop
  -- receive loop
  | rStart
  | rDeliver (f : Frame)
  | rFatal
  | rLookup | rDecode | rDeliverSlot
  | rNfEnc | rNfHandDone | rNfSel
  | rBegSend | rBegStop | rSpawn
  | rCanSend | rCanStop
  | rCloseDone
  -- handlers
  | hReturn (h : Nat) (res : Nat) (appErr : Bool)
  | hEnc (h : Nat) (fits : Bool)
  | hHandDone (h : Nat) | hHandCtx (h : Nat)
  | hSelErr (h : Nat) | hSelCtx (h : Nat)
  | hFin (h : Nat)
  | hEndSend (h : Nat) | hEndStop (h : Nat)
  -- task loop
  | tStop
  -- closers
  | kStart (k : Nat) | kEnter (k : Nat) | kWake (k : Nat)
  | kStep (k : Nat)
deriving Repr

def returnCaller (s : St) (c : Nat) (o : Out) : St :=
  setCaller s c { s.callers c with pc := .fin o }

/-- one step; `none` when the action is not enabled -/
def step (s : St) : Act → Option St
  -- ------------------------------------------------------------ user
  | .callStart c =>
    if (s.callers c).pc = .absent then some (setCaller s c { pc := .begin }) else none
  | .ctxCancel c =>
    let cl := s.callers c
    if cl.pc ≠ .absent then some (setCaller s c { cl with ctxDone := true }) else none
  | .notifyStart n =>
    if (s.notifiers n).pc = .absent then some (setNotifier s n { pc := .begin }) else none
  | .nctxCancel n =>
    let nt := s.notifiers n
    if nt.pc ≠ .absent then some (setNotifier s n { nt with ctxDone := true }) else none
  -- ------------------------------------------------------------ Call
  | .cBegin c =>
    let cl := s.callers c
    if cl.pc = .begin then
      -- receiveFrames() starts the loop once; getDispatcher() fails when stopped
      let s := if s.r = .idle then { s with r := .reading } else s
      if s.stopCh then some (log (setCaller s c { cl with pc := .ret (.err .eof) }) (.returned c (.err .eof)))
      else some (setCaller s c { cl with pc := .new })
    else none
  | .cNew c =>
    let cl := s.callers c
    if cl.pc = .new then
      some (log { (setCaller s c { cl with pc := .add, seq := s.nextSeq }) with nextSeq := s.nextSeq + 1 }
        (.issued c s.nextSeq))
    else none
  | .cAdd c =>
    let cl := s.callers c
    if cl.pc = .add then some (setCaller (setPending s cl.seq (some c)) c { cl with pc := .enc }) else none
  | .cEnc c fits =>
    let cl := s.callers c
    if cl.pc = .enc then
      if fits then
        let (s', x) := newSend s .call cl.seq c s.hasNotifier
        -- `size` returned by EncodeAndWrite: the length of the encoded frame
        some (setCaller s' c { cl with pc := .hand x, encSize := s.fsize x })
      else
        let (s', x) := failedSend s .call cl.seq c
        some (setCaller s' c { cl with pc := .sel1 x, encSize := 0 })
    else none
  | .cCompressFail c =>
    -- `compressData(c.ctype, c.arg)` returned an error: `Call` returns it at once.  Only `RemoveCall` is
    -- deferred at this point: no frame is encoded, no send is allocated, and the deferred
    -- `record.RecordAndFinish` has not been registered yet (the `.fin` step is skipped: no record)
    let cl := s.callers c
    if cl.pc = .enc then some (setCaller s c { cl with pc := .rm (.err .toobig), cfail := true }) else none
  | .cHandDone c =>
    let cl := s.callers c
    match cl.pc with
    | .hand x => if s.encDone then some (setCaller (abandon s x .eof) c { cl with pc := .sel1 x }) else none
    | _ => none
  | .cHandCtx c =>
    let cl := s.callers c
    match cl.pc with
    | .hand x => if cl.ctxDone then some (setCaller (abandon s x .ctx) c { cl with pc := .sel1 x }) else none
    | _ => none
  | .cSel1Err c =>
    let cl := s.callers c
    match cl.pc with
    | .sel1 x =>
      match (s.sends x).slot with
      | some .nil => some (setCaller (setSend s x { s.sends x with slot := none }) c { cl with pc := .sel2 })
      | some e => some (returnCaller (setSend s x { s.sends x with slot := none }) c (.err e))
      | none => none
    | _ => none
  | .cSel1Ctx c =>
    let cl := s.callers c
    match cl.pc with
    | .sel1 _ => if cl.ctxDone then some (setCaller s c { cl with pc := .cEnc, cancels := cl.cancels + 1 }) else none
    | _ => none
  | .cSel1Stop c =>
    let cl := s.callers c
    match cl.pc with
    | .sel1 _ => if s.dStop then some (returnCaller s c (.err .eof)) else none
    | _ => none
  | .cSel2Res c =>
    let cl := s.callers c
    if cl.pc = .sel2 then
      match cl.rslot with
      | some (_, appErr) => some (returnCaller (setCaller s c { cl with rslot := none }) c (.ok cl.buf appErr))
      | none => none
    else none
  | .cSel2Ctx c =>
    let cl := s.callers c
    if cl.pc = .sel2 ∧ cl.ctxDone then some (setCaller s c { cl with pc := .cEnc, cancels := cl.cancels + 1 }) else none
  | .cSel2Stop c =>
    let cl := s.callers c
    if cl.pc = .sel2 ∧ s.dStop then some (returnCaller s c (.err .eof)) else none
  | .cCancelEnc c =>
    let cl := s.callers c
    if cl.pc = .cEnc then
      -- a cancellation `[3, seqno, method]` is smaller than its call (C03 size lemma): it fits whenever the
      -- call did.  When the call frame was refused for its method name (`cEnc c false`, then `cSel1Ctx`) the
      -- cancellation may be refused too: `cCancelEncFail`
      let (s', y) := newSend s .cancel cl.seq c false
      some (setCaller s' c { cl with pc := .cHand y })
    else none
  | .cCancelEncFail c =>
    -- EncodeAndWriteAsync: `encodeFrame` failed; nothing is handed over, the error sits in the result channel
    -- (`ch <- err; return 0, ch`); handleCancel goes on to its non-blocking receive
    let cl := s.callers c
    if cl.pc = .cEnc then
      let (s', y) := failedSend s .cancel cl.seq c
      some (setCaller s' c { cl with pc := .cPoll y })
    else none
  | .cCancelDone c =>
    let cl := s.callers c
    match cl.pc with
    | .cHand y => if s.encDone then some (setCaller (abandon s y .eof) c { cl with pc := .cPoll y }) else none
    | _ => none
  | .cCancelAsync c =>
    let cl := s.callers c
    match cl.pc with
    | .cHand y =>
      -- default arm: only when neither other arm is ready.  doneCh must be open; whether the writer is blocked
      -- in its select or still on its way to it is not distinguished by `WPc.idle`, so the arm is enabled
      -- whenever doneCh is open (site-level replay of the real code takes it with the writer between two selects)
      if !s.encDone then
        some (setCaller (setSend s y { s.sends y with async := true }) c { cl with pc := .cPoll y })
      else none
    | _ => none
  | .cPoll c =>
    let cl := s.callers c
    match cl.pc with
    | .cPoll y =>
      -- non-blocking receive of the result, then the deferred record
      let s := match (s.sends y).slot with
        | some _ => setSend s y { s.sends y with slot := none }
        | none => s
      some (setCaller s c { cl with pc := .cRec })
    | _ => none
  | .cCancelRec c =>
    let cl := s.callers c
    if cl.pc = .cRec then some (returnCaller (setCaller s c { cl with crecords := cl.crecords + 1 }) c (.err .ctx))
    else none
  | .cFin c =>
    let cl := s.callers c
    match cl.pc with
    | .fin o =>
      -- RecordAndFinish(ctx, size): IncrementSize(size), then Finish stores a COPY of the record
      some (setCaller s c { cl with pc := .rm o, records := cl.records + 1, recSize := cl.recSize + cl.encSize })
    | _ => none
  | .cRm c =>
    let cl := s.callers c
    match cl.pc with
    | .rm o =>
      let s := if s.pending cl.seq = some c then setPending s cl.seq none else setPending s cl.seq none
      some (log (setCaller s c { cl with pc := .ret o }) (.returned c o))
    | _ => none
  -- ------------------------------------------------------------ async cancel sender
  | .aDone y =>
    let sd := s.sends y
    if sd.st = .waiting ∧ sd.async ∧ s.encDone then some (abandon s y .eof) else none
  -- ------------------------------------------------------------ Notify
  | .nBegin n =>
    let nt := s.notifiers n
    if nt.pc = .begin then
      if s.stopCh then some (log (setNotifier s n { nt with pc := .ret (.err .eof) }) (.nreturned n (.err .eof)))
      else some (setNotifier s n { nt with pc := .enc })
    else none
  | .nEnc n fits =>
    let nt := s.notifiers n
    if nt.pc = .enc then
      if fits then
        let (s', x) := newSend s .notify (-1) n s.hasNotifier
        some (setNotifier s' n { nt with pc := .hand x })
      else
        let (s', x) := failedSend s .notify (-1) n
        some (setNotifier s' n { nt with pc := .sel x })
    else none
  | .nHandDone n =>
    let nt := s.notifiers n
    match nt.pc with
    | .hand x => if s.encDone then some (setNotifier (abandon s x .eof) n { nt with pc := .sel x }) else none
    | _ => none
  | .nHandCtx n =>
    let nt := s.notifiers n
    match nt.pc with
    | .hand x => if nt.ctxDone then some (setNotifier (abandon s x .ctx) n { nt with pc := .sel x }) else none
    | _ => none
  | .nSelErr n =>
    let nt := s.notifiers n
    match nt.pc with
    | .sel x =>
      match (s.sends x).slot with
      | some .nil => some (setNotifier (setSend s x { s.sends x with slot := none }) n { nt with pc := .fin (.ok 0 false) })
      | some e => some (setNotifier (setSend s x { s.sends x with slot := none }) n { nt with pc := .fin (.err e) })
      | none => none
    | _ => none
  | .nSelStop n =>
    let nt := s.notifiers n
    match nt.pc with
    | .sel _ => if s.dStop then some (setNotifier s n { nt with pc := .fin (.err .eof) }) else none
    | _ => none
  | .nSelCtx n =>
    let nt := s.notifiers n
    match nt.pc with
    | .sel _ => if nt.ctxDone then some (setNotifier s n { nt with pc := .fin (.err .ctx) }) else none
    | _ => none
  | .nFin n =>
    let nt := s.notifiers n
    match nt.pc with
    | .fin o => some (log (setNotifier s n { nt with pc := .ret o, records := nt.records + 1 }) (.nreturned n o))
    | _ => none
  -- ------------------------------------------------------------ writer
  | .wRecv x =>
    let sd := s.sends x
    if s.w = .idle ∧ sd.st = .waiting then
      -- the sender leaves its hand-off select through the send arm
      let s1 := log { (setSend s x { sd with st := .handed }) with w := .got x } (.handoff x)
      match sd.kind with
      | .call =>
        let cl := s1.callers sd.who
        if cl.pc = .hand x then some (setCaller s1 sd.who { cl with pc := .sel1 x, sent := true }) else none
      | .notify =>
        let nt := s1.notifiers sd.who
        if nt.pc = .hand x then some (setNotifier s1 sd.who { nt with pc := .sel x }) else none
      | .cancel =>
        if sd.async then some s1
        else
          let cl := s1.callers sd.who
          if cl.pc = .cHand x then some (setCaller s1 sd.who { cl with pc := .cPoll x }) else none
      | .reply =>
        if s1.r = .nfHand x then some { s1 with r := .nfSel x }
        else
          let hd := s1.handlers sd.who
          if hd.pc = .rHand x then some (setHandler s1 sd.who { hd with pc := .rSel x, replies := hd.replies + 1 })
          else none
    else none
  | .wNotify =>
    match s.w with
    | .got x =>
      let sd := s.sends x
      if sd.notif then
        some (log { s with w := .writing x, nlog := s.nlog ++ [(x, sd.seq)] } (.notifier x sd.seq))
      else some { s with w := .writing x }
    | _ => none
  | .wWrite ok =>
    match s.w with
    | .writing x =>
      -- Write: the frame is handed to the connection (logged) and succeeds or fails;
      -- on a closed connection it can only fail
      if ok ∧ s.connClosed then none
      else some (log { s with w := .wrote x (if ok then .nil else .wr), wlog := s.wlog ++ [x] } (.write x))
    | _ => none
  | .wDone =>
    match s.w with
    | .wrote x e =>
      some (log { (setSend s x { s.sends x with st := .completed, slot := some e }) with w := .idle } (.writeDone x e))
    | _ => none
  | .wStop =>
    if s.w = .idle ∧ s.encDone then some (log { s with w := .exited, encClosed := true } (.exit "writer")) else none
  -- ------------------------------------------------------------ receive loop
  | .rStart => if s.r = .idle then some { s with r := .reading } else none
  | .rDeliver f =>
    if s.r = .reading then
      let s := log s (.delivered f)
      match f with
      | .resp seq p ae => some { s with r := .respLookup seq p ae }
      | .call seq known arg =>
        if known then
          let h := s.nextHandler
          some { (setHandler s h { pc := .absent, seq := seq, task := seq, isCall := true, arg := arg }) with
                  nextHandler := h + 1, r := .begSel h }
        else some { s with r := .nfEnc seq }
      | .notify known arg =>
        if known then
          let h := s.nextHandler
          let id := s.lastNotifyTask - 1
          some { (setHandler s h { pc := .absent, seq := -1, task := id, isCall := false, arg := arg }) with
                  nextHandler := h + 1, lastNotifyTask := id, r := .begSel h }
        else some s   -- notifyRequest.Reply does nothing: dropped
      | .cancel seq => some { s with r := .canSel seq }
    else none
  | .rFatal =>
    -- a framing / decoding violation, a read error or the end of the stream
    if s.r = .reading then some { (setCloser s 0 { pc := .enter, err := .wr }) with r := .closing } else none
  | .rLookup =>
    match s.r with
    | .respLookup seq p ae =>
      match s.pending seq with
      | some c =>
        -- `r.c.instrumenter.IncrementSize(int64(d.totalSize))` right after RetrieveCall: counted in the stored
        -- record only when the record has not been finished yet (Finish stored a copy)
        let cl := s.callers c
        if cl.records = 0 then
          some { (setCaller s c { cl with recSize := cl.recSize + s.psize p, inc := cl.inc ++ [p] }) with
                  r := .respDecode c seq p ae }
        else some { s with r := .respDecode c seq p ae }
      | none => some { s with r := .reading }      -- call not found: ignored
    | _ => none
  | .rDecode =>
    match s.r with
    | .respDecode c q p ae =>
      let cl := s.callers c
      some (log { (setCaller s c { cl with buf := p, bufSeq := some q }) with r := .respDeliver c q p ae } (.resWritten c))
    | _ => none
  | .rDeliverSlot =>
    match s.r with
    | .respDeliver c q p ae =>
      let cl := s.callers c
      match cl.rslot with
      | none => some { (setCaller s c { cl with rslot := some (p, ae), slotSeq := some q }) with r := .reading }
      | some _ => some { s with r := .reading }    -- surplus reply dropped
    | _ => none
  | .rNfEnc =>
    match s.r with
    | .nfEnc seq =>
      let (s', x) := newSend s .reply seq 0 false
      some { s' with r := .nfHand x }
    | _ => none
  | .rNfHandDone =>
    match s.r with
    | .nfHand x => if s.encDone then some { (abandon s x .eof) with r := .nfSel x } else none
    | _ => none
  | .rNfSel =>
    match s.r with
    | .nfSel x =>
      match (s.sends x).slot with
      | some _ => some { (setSend s x { s.sends x with slot := none }) with r := .reading }
      | none => none
    | _ => none
  | .rBegSend =>
    match s.r with
    | .begSel h =>
      if s.taskLoop then
        some { (setTask s (s.handlers h).task (some h)) with r := .spawn h }
      else none
    | _ => none
  | .rBegStop =>
    match s.r with
    | .begSel h => if s.rStop then some { (cancelHandler s h .closing) with r := .reading } else none
    | _ => none
  | .rSpawn =>
    match s.r with
    | .spawn h =>
      let hd := s.handlers h
      some (log { (setHandler s h { hd with pc := .run }) with r := .reading } (.invoked h hd.seq hd.arg))
    | _ => none
  | .rCanSend =>
    match s.r with
    | .canSel seq =>
      if s.taskLoop then
        let s1 := match s.tasks seq with
          | some h => cancelHandler s h .peerCancel
          | none => s
        some { (setTask s1 seq none) with r := .reading }
      else none
    | _ => none
  | .rCanStop =>
    match s.r with
    | .canSel _ => if s.rStop then some { s with r := .reading } else none
    | _ => none
  | .rCloseDone =>
    if s.r = .closing ∧ (s.closers 0).pc = .done then some (log { s with r := .exited } (.exit "receive")) else none
  -- ------------------------------------------------------------ handlers
  | .hReturn h res ae =>
    let hd := s.handlers h
    if hd.pc = .run then
      let s := log s (.handlerRet h)
      if hd.isCall then some (setHandler s h { hd with pc := .rEnc res ae })
      else some (setHandler s h { hd with pc := .endSel })
    else none
  | .hEnc h fits =>
    let hd := s.handlers h
    match hd.pc with
    | .rEnc _ _ =>
      if fits then
        let (s', x) := newSend s .reply hd.seq h false
        some (setHandler s' h { hd with pc := .rHand x })
      else
        let (s', x) := failedSend s .reply hd.seq h
        some (setHandler s' h { hd with pc := .rSel x })
    | _ => none
  | .hHandDone h =>
    let hd := s.handlers h
    match hd.pc with
    | .rHand x => if s.encDone then some (setHandler (abandon s x .eof) h { hd with pc := .rSel x }) else none
    | _ => none
  | .hHandCtx h =>
    let hd := s.handlers h
    match hd.pc with
    | .rHand x => if hd.ctxCancelled then some (setHandler (abandon s x .ctx) h { hd with pc := .rSel x }) else none
    | _ => none
  | .hSelErr h =>
    let hd := s.handlers h
    match hd.pc with
    | .rSel x =>
      match (s.sends x).slot with
      | some _ => some (setHandler (setSend s x { s.sends x with slot := none }) h { hd with pc := .rFin })
      | none => none
    | _ => none
  | .hSelCtx h =>
    let hd := s.handlers h
    match hd.pc with
    | .rSel _ => if hd.ctxCancelled then some (setHandler s h { hd with pc := .rFin }) else none
    | _ => none
  | .hFin h =>
    let hd := s.handlers h
    if hd.pc = .rFin then some (setHandler s h { hd with pc := .endSel, records := hd.records + 1 }) else none
  | .hEndSend h =>
    let hd := s.handlers h
    if hd.pc = .endSel ∧ s.taskLoop then
      let s1 := if s.tasks hd.task = some h then cancelHandler s h .ownEnd else
        (match s.tasks hd.task with
         | some h' => cancelHandler s h' .otherEnd
         | none => s)
      some (log (setHandler (setTask s1 hd.task none) h { (s1.handlers h) with pc := .exited }) (.exit "handler"))
    else none
  | .hEndStop h =>
    let hd := s.handlers h
    if hd.pc = .endSel ∧ s.rStop then some (log (setHandler s h { hd with pc := .exited }) (.exit "handler")) else none
  -- ------------------------------------------------------------ task loop
  | .tStop =>
    if s.taskLoop ∧ s.rStop then
      some (log { (cancelAllTasks s s.nextHandler) with taskLoop := false, rClosed := true } (.exit "taskloop"))
    else none
  -- ------------------------------------------------------------ closers
  | .kStart k =>
    if k ≠ 0 ∧ (s.closers k).pc = .absent then some (setCloser s k { pc := .enter, err := .eof }) else none
  | .kEnter k =>
    let cl := s.closers k
    if cl.pc = .enter then
      match s.once with
      | .idle => some { (setCloser s k { cl with pc := .setErr }) with once := .running k }
      | .running _ => some (setCloser s k { cl with pc := .waitOnce })
      | .done => some (setCloser s k { cl with pc := .done })
    else none
  | .kWake k =>
    let cl := s.closers k
    if cl.pc = .waitOnce ∧ s.once = .done then some (setCloser s k { cl with pc := .done }) else none
  | .kStep k =>
    let cl := s.closers k
    match cl.pc with
    | .setErr => some { (setCloser s k { cl with pc := .stop }) with stopErr := some cl.err }
    | .stop => some (log { (setCloser s k { cl with pc := .dstop }) with stopCh := true } .stopClosed)
    | .dstop => some { (setCloser s k { cl with pc := .rstop }) with dStop := true }
    | .rstop => some { (setCloser s k { cl with pc := .waitTask }) with rStop := true }
    | .waitTask => if s.rClosed then some (setCloser s k { cl with pc := .encClose }) else none
    | .encClose => some { (setCloser s k { cl with pc := .connClose }) with encDone := true }
    | .connClose => some { (setCloser s k { cl with pc := .waitWriter }) with connClosed := true }
    | .waitWriter =>
      if s.encClosed then some { (setCloser s k { cl with pc := .done }) with once := .done } else none
    | _ => none

/-- run a list of actions -/
def run (s : St) : List Act → Option St
  | [] => some s
  | a :: as => match step s a with
    | some s' => run s' as
    | none => none

/-- every state the endpoint can be in, whatever the user, the peer and the
    scheduler do -/
inductive Reachable : St → Prop where
  | init (f p : Nat → Nat) : Reachable (initSz f p)
  | step (s s' : St) (a : Act) (h : Reachable s) (hs : step s a = some s') : Reachable s'

theorem reachable_init : Reachable init := Reachable.init (fun _ => 0) (fun _ => 0)

end FmpRpc.T
