/-
  Comparison operators as data: the extractor renders the operator of a
  source comparison as a `Cmp`, the model evaluates it.  A changed operator
  changes the model (not merely a string), so the theorems are re-checked
  against what the code says now.
-/
namespace FmpRpc

inductive Cmp where
  | lt | le | gt | ge | eq | ne | unknown
deriving DecidableEq, Repr

def Cmp.eval (c : Cmp) (a b : Int) : Bool :=
  match c with
  | .lt => decide (a < b)
  | .le => decide (a ≤ b)
  | .gt => decide (a > b)
  | .ge => decide (a ≥ b)
  | .eq => decide (a = b)
  | .ne => decide (a ≠ b)
  | .unknown => false

end FmpRpc
