import FmpRpc.Model.Msgpack
import FmpRpc.Model.Cmp
import FmpRpc.Gen.Facts
/-
  L2: the five message kinds, their wire layout (writer side: dispatch.go /
  request.go literals) and `decodeRPC` (reader side: message.go), both built
  on the regenerated constants of protocol.go.
-/
namespace FmpRpc

abbrev Tags := List (Bytes × Value)

inductive Msg where
  | call (seq : Int) (name : Bytes) (arg : Value) (tags : Option Tags)
  | callc (seq : Int) (ctype : Int) (name : Bytes) (arg : Value) (tags : Option Tags)
  | resp (seq : Int) (err : Value) (res : Value)
  | notify (name : Bytes) (arg : Value) (tags : Option Tags)
  | cancel (seq : Int) (name : Bytes)
deriving Repr, Inhabited

def tagsValue (t : Tags) : Value := .map (t.map fun (k, v) => (.str k, v))

/-! ### Writer side -/

/-- The tag map is appended iff it is non-empty (`len(rpcTags) > 0`). -/
def tagTail : Option Tags → List Value
  | none => []
  | some [] => []
  | some t => [tagsValue t]

/-- Elements of the outgoing array, in the order of the `[]interface{}`
    literals of dispatch.go / request.go (tie: `Tie/C02.lean`). For a
    compressed call `arg` is whatever goes on the wire in the argument slot:
    the raw argument (no compressor for `ctype`) or the compressed blob. -/
def layout : Msg → List Value
  | .call seq name arg tags => [.int Gen.methodCall, .int seq, .str name, arg] ++ tagTail tags
  | .callc seq ctype name arg tags =>
      [.int Gen.methodCallCompressed, .int seq, .int ctype, .str name, arg] ++ tagTail tags
  | .resp seq err res => [.int Gen.methodResponse, .int seq, err, res]
  | .notify name arg tags => [.int Gen.methodNotify, .str name, arg] ++ tagTail tags
  | .cancel seq name => [.int Gen.methodCancel, .int seq, .str name]

/-- Encoded array (`content` in `encodeFrame`). -/
def body (m : Msg) : Bytes := enc (.arr (layout m))

/-- `encodeFrame`: refuse contents above the limit, else length prefix
    (a msgpack integer) followed by the content. -/
def encodeFrameBytes (max : Nat) (content : Bytes) : Option Bytes :=
  if content.length > max then none else some (encInt content.length ++ content)

def wire (max : Nat) (m : Msg) : Option Bytes := encodeFrameBytes max (body m)

/-! ### Reader side -/

/-- What the packetizer needs to know about the endpoint. -/
structure Ctx where
  /-- registered protocols and their methods -/
  methods : List (Bytes × List Bytes)
  /-- pending calls: seqno ↦ (compression type, caller supplied a result buffer) -/
  pending : List (Int × Int × Bool)
  /-- the decompressors as an abstract table: `none` = payload outside the
      table (comparison skipped), `some none` = decompressor reports an error -/
  decompress : Int → Bytes → Option (Option Bytes)

/-- `CompressionType.NewCompressor` is non-nil exactly for gzip and
    msgpackzip (tie: `newCompressorCases`). -/
def hasCompressor (ctype : Int) : Bool :=
  ctype == Gen.compressionGzip || ctype == Gen.compressionMsgpackzip

def lastDot : Bytes → Option Nat
  | [] => none
  | b :: bs =>
    match lastDot bs with
    | some i => some (i + 1)
    | none => if b = 0x2e then some 0 else none

/-- `splitMethodName`: split at the last '.'; no dot means empty protocol. -/
def splitMethod (n : Bytes) : Bytes × Bytes :=
  match lastDot n with
  | none => ([], n)
  | some i => (n.take i, n.drop (i + 1))

def lookupProt (ms : List (Bytes × List Bytes)) (p : Bytes) : Option (List Bytes) :=
  match ms with
  | [] => none
  | (q, l) :: r => if q = p then some l else lookupProt r p

/-- `findServeHandler` / `getArg`. -/
def findMethod (ctx : Ctx) (name : Bytes) : Except Err Unit :=
  let (p, m) := splitMethod name
  match lookupProt ctx.methods p with
  | none => .error .protNotFound
  | some ms => if ms.contains m then .ok () else .error .methodNotFound

def lookupCall (pend : List (Int × Int × Bool)) (seq : Int) : Option (Int × Bool) :=
  match pend with
  | [] => none
  | (s, c, r) :: t => if s = seq then some (c, r) else lookupCall t seq

/-- What `NextFrame` hands to the receive loop for one frame. -/
inductive FrameRes where
  /-- a fully decoded message, `err == nil` -/
  | ok (m : Msg)
  /-- a message object together with a not-found error; the fields decoded
      before the lookup failed are available (`seq = -1`: none) -/
  | notFound (e : Err) (kind : Int) (seq : Int) (name : Bytes)
  /-- any other error -/
  | fail (e : Err)
deriving Repr, Inhabited

open Prog

/-- `loadContext(l - MinLength)`: one tag map iff at least one element is
    left. -/
def loadContext (fuel extra : Nat) : Prog (Option Tags) :=
  if extra = 0 then ret none else Prog.bind (decTags fuel) fun t => ret (some t)

/-- Decode a value from a decompressed payload (`newUncompressedDecoder`). -/
def decodePlain (plain : Bytes) : Prog Value :=
  match (runStream (decValue (plain.length + 1)) plain).val with
  | .ok v => ret v
  | .error .unsupported => fail .unsupported
  | .error _ => fail .dec

/-- The argument slot of a compressed call / the result slot of a reply. -/
def decodeMaybeCompressed (ctx : Ctx) (fuel : Nat) (ctype : Int) (emptyKeeps : Option Value) :
    Prog Value :=
  if hasCompressor ctype then
    Prog.bind decBin fun blob =>
      if blob.isEmpty then
        match emptyKeeps with
        | some v => ret v
        | none => decValue fuel
      else match ctx.decompress ctype blob with
        | none => fail .unsupported
        | some none => fail .dec
        | some (some plain) => decodePlain plain
  else decValue fuel

/-- `decodeRPC(l, …)`: `l` is the element count from the fixarray header. -/
def decodeRPC (ctx : Ctx) (fuel : Nat) (l : Nat) : Prog FrameRes :=
  Prog.bind decInt fun typ =>
  let dataLength := l - 1
  if typ = Gen.methodCall then
    if dataLength < 3 then fail .wrongLen else
    Prog.bind decInt fun seq => Prog.bind decStr fun name =>
    match findMethod ctx name with
    | .error e => ret (.notFound e typ seq name)
    | .ok () =>
      Prog.bind (decValue fuel) fun arg =>
      Prog.bind (loadContext fuel (dataLength - 3)) fun tags =>
      ret (.ok (.call seq name arg tags))
  else if typ = Gen.methodResponse then
    if dataLength < 3 then fail .wrongLen else
    Prog.bind decInt fun seq =>
    match lookupCall ctx.pending seq with
    | none => ret (.notFound .callNotFound typ (-1) [])
    | some (ctype, wantsRes) =>
      Prog.bind decErrStr fun e =>
      if !wantsRes then ret (.ok (.resp seq (.str e) .nil)) else
      Prog.bind (decodeMaybeCompressed ctx fuel ctype none) fun res =>
      ret (.ok (.resp seq (.str e) res))
  else if typ = Gen.methodNotify then
    if dataLength < 2 then fail .wrongLen else
    Prog.bind decStr fun name =>
    match findMethod ctx name with
    | .error e => ret (.notFound e typ (-1) name)
    | .ok () =>
      Prog.bind (decValue fuel) fun arg =>
      Prog.bind (loadContext fuel (dataLength - 2)) fun tags =>
      ret (.ok (.notify name arg tags))
  else if typ = Gen.methodCancel then
    if dataLength < 2 then fail .wrongLen else
    Prog.bind decInt fun seq => Prog.bind decStr fun name =>
    ret (.ok (.cancel seq name))
  else if typ = Gen.methodCallCompressed then
    if dataLength < 4 then fail .wrongLen else
    Prog.bind decInt fun seq => Prog.bind decInt fun ctype => Prog.bind decStr fun name =>
    match findMethod ctx name with
    | .error e => ret (.notFound e typ seq name)
    | .ok () =>
      Prog.bind (decodeMaybeCompressed ctx fuel ctype (some .nil)) fun arg =>
      Prog.bind (loadContext fuel (dataLength - 4)) fun tags =>
      ret (.ok (.callc seq ctype name arg tags))
  else fail .invalidType

end FmpRpc
